"""C14 and C25: pure functions.  Proof in Lean; tie = translator (character class, format pieces)
+ correspondence of the executable model with the real functions (exhaustive small strings + random)."""
import json
import os

from checklib import (cargo_build, diff_lines, finish, lean_build, leanchecker, log, run, run_driver,
                      translator, banned_scan, write_replay, load_known_findings, ENV)

TRUSTED = [
    "Lean 4 kernel; axioms limited to propext, Classical.choice, Quot.sound (audited per theorem)",
    "translator/extract.py regular expressions (values only)",
    "correspondence harness harness/pure (generator coverage; hex transport of strings)",
    "Lean compiler/runtime for the wdriver executable",
]


def pure(ctx, mode, module, what, samples_fn, extra_assumptions, package="pure_harness", trusted=None):
    tr_ok = translator(ctx)
    banned_scan(ctx)
    lean_build(ctx, [module])
    if ctx.tier == "thorough" and not ctx.tie_broken:
        leanchecker(ctx, [module])
    binp, err = cargo_build(ctx, package)
    out = os.path.join(ctx.scratch, "run")
    stats = {}
    if binp is None:
        ctx.tie_broken.append(err)
    else:
        rc, o, dt = run([binp, mode, out], env=ENV, timeout=1800)
        log("harness %s: rc=%d (%.1fs)" % (mode, rc, dt))
        if rc != 0:
            ctx.tie_broken.append("harness failed: " + o[-300:])
        else:
            stats = json.load(open(os.path.join(out, "stats.json")))
            viol_all = [l for l in open(os.path.join(out, "violations.txt"), encoding="utf-8", errors="replace").read().split("\n") if l]
            # oracle violations the harness attributes to a quirk ("KNOWN <quirk> ...") count as known findings
            # only if KNOWN_FINDINGS.txt lists that quirk for this property
            known_open, _ = load_known_findings()
            listed = {k["quirk"]: k for k in known_open if k.get("property") == ctx.prop and "quirk" in k}
            viol, hits = [], {}
            for l in viol_all:
                parts = l.split(" ", 2)
                if parts[0] == "KNOWN" and len(parts) == 3 and parts[1] in listed:
                    hits.setdefault(parts[1], []).append(parts[2])
                else:
                    viol.append(l)
            for q, ex in hits.items():
                ctx.known.append("KNOWN-FINDING: property=%s quirk=%s %s [observed %d time(s) in this run, e.g. %s]"
                                 % (ctx.prop, q, listed[q].get("what", ""), len(ex), ex[0][:200]))
            stats["known_finding_observations"] = {q: len(ex) for q, ex in hits.items()}
            stats["oracle_violations"] = len(viol)
            if viol:
                # the implementation itself violates the property's statement on a concrete input
                path = write_replay(ctx, "oracle", "property %s violated by the implementation (%s)\n" % (ctx.prop, what)
                                    + "\n".join(viol[:50]) + "\n")
                ctx.violations.append((path, ""))
            model_out = os.path.join(out, "model.txt")
            if run_driver(os.path.join(out, "ops.txt"), model_out):
                d = diff_lines(os.path.join(out, "ops.txt"), os.path.join(out, "impl.txt"), model_out)
                stats["disagreements"] = len(d)
                if d:
                    ctx.tie_broken.append("correspondence %s: model and implementation differ, first: op=%r impl=%r model=%r"
                                          % (mode, d[0][1], d[0][2], d[0][3]))
                    ctx.cov["disagreement_samples"] = [dict(line=x[0], op=x[1], impl=x[2], model=x[3]) for x in d[:10]]
            else:
                if not any("lake build" in t for t in ctx.tie_broken):
                    ctx.tie_broken.append("wdriver could not be run")
    ops_sample = []
    try:
        ops_sample = [l for l in open(os.path.join(out, "samples.txt"), encoding="utf-8").read().split("\n") if l]
    except Exception:  # noqa
        pass
    try:
        with open(os.path.join(out, "ops.txt")) as f, open(os.path.join(out, "impl.txt")) as g:
            ops = f.read().split("\n")
            imp = g.read().split("\n")
        n = len(ops)
        for i in [0, 7, n // 3, n // 2, n - 5]:
            if 0 <= i < len(ops) and ops[i]:
                ops_sample.append({"request": ops[i], "impl": imp[i]})
    except Exception:  # noqa
        pass
    ctx.cov.update({
        "programs": stats.get("requests", 0),
        "evaluations": stats.get("requests", 0),
        "distinct_nontrivial": stats.get("nontrivial_cases", 0),
        "rule": what,
        "disagreements_checked": stats.get("requests", 0),
        "disagreements": stats.get("disagreements", None),
        "input_distribution": stats,
        "samples": ops_sample or ["(harness did not run)"],
        "search": {"oracle_violations": stats.get("oracle_violations"), "requests": stats.get("requests")},
    })
    ctx.assumptions = extra_assumptions
    finish(ctx, trusted_base=trusted or TRUSTED)


def check_c14(ctx):
    pure(ctx, "c14", "WalrusVerif.Props.C14",
         "keys: all strings of length <= 4 (thorough: 5) over {a,Z,0,-,_,.,/,space,NUL,e-acute,'..',emoji} plus random strings "
         "over ASCII/Unicode incl. arbitrary scalar values; non-trivial = key changed by sanitisation; distinct keys counted; "
         "plus 9 real builder runs listing where files appear",
         None,
         ["PathBuf::push / kernel path resolution are modelled lexically (components; '.', '..', empty)",
          "symlinks inside the data dir are outside the model",
          "the translator checks that every root.push in paths.rs goes through sanitize_namespace"])


def check_c25(ctx):
    pure(ctx, "c25", "WalrusVerif.Props.C25",
         "topics: all strings of length <= 5 (thorough: 6) over {t,_,s,0,1,a} x segments {0,1,9,10,2^63,2^64-1}, random "
         "(topic, segment) pairs, and arbitrary keys through the parser alone; non-trivial = topic contains '_s_' or 't_'",
         None,
         ["str::rsplitn / strip_prefix / parse::<u64> are modelled by hand (rsplitOnce, stripPrefix, parseU64) and compared "
          "with the real functions on every generated key, including malformed ones"])
