#!/bin/bash
# usage: run_baseline.sh <worktree-dir>
# Runs the repository's pinned test suite (walrus-rust, offline) in <worktree-dir> and reports which of the
# 146 stable-pass baseline tests did not pass. Exit 0 iff all 146 passed. Takes ~13-20 min.
set -u
wt="$1"
cd "$wt" || exit 2
export CARGO_NET_OFFLINE=true WALRUS_QUIET=1
rm -f target/nextest/pb/junit.xml
cargo nextest run --workspace --no-fail-fast --tool-config-file pb:/w/lib/nextest.toml --profile pb --test-threads 8 --offline > "$wt/target/baseline_run.log" 2>&1
python3 - "$wt" <<'PY'
import json,sys,glob,xml.etree.ElementTree as ET
wt=sys.argv[1]
b=json.load(open('/root/.vp/BASELINE.json'))
want=set(b['stable_pass'])
paths=glob.glob(wt+'/target/nextest/pb/junit.xml')
if not paths:
    print("no junit.xml produced; see baseline_run.log"); sys.exit(2)
passed=set()
for tc in ET.parse(paths[0]).getroot().iter('testcase'):
    ok = all(tc.find(x) is None for x in ('failure','error','skipped','flakyFailure','rerunFailure'))
    name="%s::%s"%(tc.get('classname') or '',tc.get('name') or '')
    if ok: passed.add(name)
def norm(s): return s.replace('walrus-rust::walrus-rust::','walrus-rust::').replace('walrus-rust::walrus_rust::','walrus-rust::')
passedn=set(norm(p) for p in passed)
missing=sorted(w for w in want if w not in passedn and norm(w) not in passedn)
print("stable-pass baseline tests: %d, passed now: %d, NOT passing: %d"%(len(want),len(want)-len(missing),len(missing)))
for m in missing: print("  FAIL/MISSING:",m)
sys.exit(1 if missing else 0)
PY
