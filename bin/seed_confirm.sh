#!/bin/bash
# usage: seed_confirm.sh <seed-dir (patch.diff, demo/run.sh)> <scratch worktree of /repo> [--skip-baseline]
# Confirms a seeded change: applies, builds, demo fails with it, baseline 146 pass with it, demo passes without it.
# Writes <seed-dir>/confirm.json. Leaves the worktree clean.
seed="$(readlink -f "$1")"; wt="$2"; skip="$3"
n="${seed##*-}"
# the demonstration scripts are written relative to <worktree>/SEED/<n>/demo
mkdir -p "$wt/SEED/$n" && rm -rf "$wt/SEED/$n/demo" && cp -r "$seed/demo" "$wt/SEED/$n/demo"
runsh="$wt/SEED/$n/demo/run.sh"
export CARGO_NET_OFFLINE=true WALRUS_QUIET=1
cd "$wt" || exit 2
git checkout -q -- . ; 
res() { echo "$1"; }
apply_ok=0; build_ok=0; demo_with=-1; base_rc=-1; demo_without=-1
if git apply "$seed/patch.diff"; then apply_ok=1; fi
if [ $apply_ok = 1 ] && cargo build --offline >/dev/null 2>&1; then build_ok=1; fi
if [ $build_ok = 1 ]; then
  ( bash "$runsh" > "$seed/demo_with.log" 2>&1 ); demo_with=$?
  if [ "$skip" != "--skip-baseline" ]; then /verif/bin/run_baseline.sh "$wt" > "$seed/baseline_with.log" 2>&1; base_rc=$?; fi
fi
git checkout -q -- .
( bash "$runsh" > "$seed/demo_without.log" 2>&1 ); demo_without=$?
git checkout -q -- . ; true
printf '{"applies": %s, "builds": %s, "demo_rc_with_change": %s, "baseline_rc_with_change": %s, "demo_rc_without_change": %s}\n' $apply_ok $build_ok $demo_with $base_rc $demo_without | tee "$seed/confirm.json"
