#!/usr/bin/env python3
"""Rewrites the seeded-change table of DESIGN.md (section 0.7) from seeded/*/meta.json."""
import json, os, glob, re
V = os.path.dirname(os.path.dirname(os.path.abspath(__file__)))
rows = []
for f in sorted(glob.glob(os.path.join(V, "seeded", "*", "meta.json"))):
    m = json.load(open(f))
    caught = ", ".join(p for p, v in sorted(m.get("checks_run_against_it", {}).items()) if v["violation_lines"] > 0) or "NOT caught"
    c = m.get("confirmed_by_me")
    if not c:
        conf = "patch + demonstration by the author; not re-run by me"
    elif c.get("baseline_rc_with_change") == 0 and c.get("demo_rc_with_change") not in (0, None) and c.get("demo_rc_without_change") == 0:
        conf = "yes (146/146, demo fails with / passes without)"
    elif c.get("baseline_rc_with_change") == -1 and c.get("demo_rc_with_change") not in (0, None) and c.get("demo_rc_without_change") == 0:
        conf = "yes (demo fails with / passes without; change outside the crate the pinned suite builds)"
    else:
        conf = "partly: see confirm.json (%s)" % ", ".join("%s=%s" % kv for kv in sorted(c.items()) if kv[0].endswith("change"))
    rows.append("| %s | %s | %s | %s | %s |" % (m["seed"], m["change"], m["needs_to_manifest"], caught, conf))
p = os.path.join(V, "DESIGN.md")
s = open(p).read()
head = "| seed | change | what it needs to manifest | caught by (quick tier) | confirmed by me |\n|---|---|---|---|---|\n"
a = s.index(head) + len(head)
b = s.index("\n\n", a)
s = s[:a] + "\n".join(rows) + s[b:]
open(p, "w").write(s)
print("%d rows" % len(rows))
