"""C22 / C23: the data plane of distributed-walrus under a deterministic scheduler.

harness/plane compiles bucket.rs, controller/{mod,internal,types}.rs, monitor.rs, metadata.rs, rpc.rs from /repo by
#[path] on the REAL storage engine; tokio and octopii are stand-ins (a scheduler that switches tasks only at the named
points of the cfg(walrus_verif) hooks; one ordered command log applied per node on request).  The same schedule is
fed to the Lean model (Model/Plane.lean, `pl <line>` in wdriver) and the two output streams are compared."""
import os
import random
import re
import subprocess
import time

from checklib import (VERIF, WDRIVER, log, finish, lean_build, leanchecker, cargo_build, translator, banned_scan,
                      write_replay, load_known_findings)

CORPUS = os.path.join(VERIF, "corpus")


# ---------------------------------------------------------------------------------------------- generator

def gen_program(rng, profile):
    """Returns the list of schedule lines.  Payloads are x<k>, task ids are consecutive."""
    nodes = rng.choice([1, 2, 2, 3]) if profile != "sequential" else rng.choice([1, 2, 3])
    thresh = rng.choice([1, 2, 2, 3, 4])
    topics = ["a"] if (profile == "monitor" or rng.random() < 0.6) else ["a", "b"]
    lines = ["init %d %d" % (nodes, thresh)]
    for t in topics:
        lines.append("topic %s %d" % (t, rng.randint(1, nodes)))
    tid = 0
    pay = 0
    live = []          # task ids that may still be unfinished (the generator does not know; stepping a finished task is a no-op)
    reader = rng.randint(1, nodes)
    nops = rng.randint(4, 14)
    if profile == "sequential":
        for _ in range(nops):
            tid += 1
            if rng.random() < 0.62:
                pay += 1
                lines.append("spawn %d put %d %s x%d" % (tid, rng.randint(1, nodes), rng.choice(topics), pay))
            else:
                lines.append("spawn %d get %d %s" % (tid, reader, rng.choice(topics)))
            lines.append("drain")
            if rng.random() < 0.15:
                lines.append("sync %d" % rng.randint(1, nodes))
            if rng.random() < 0.1:
                lines.append("dump")
    else:
        mon = None
        if profile == "monitor":
            tid += 1
            mon = tid
            lines.append("spawn %d monitor %d" % (tid, rng.randint(1, nodes)))
        budget = rng.randint(20, 90)
        while budget > 0:
            budget -= 1
            r = rng.random()
            if (r < 0.18 and nops > 0) or not live:
                if nops <= 0:
                    break
                nops -= 1
                tid += 1
                if rng.random() < 0.7:
                    pay += 1
                    lines.append("spawn %d put %d %s x%d" % (tid, rng.randint(1, nodes), rng.choice(topics), pay))
                else:
                    lines.append("spawn %d get %d %s" % (tid, rng.randint(1, nodes), rng.choice(topics)))
                live.append(tid)
            elif r < 0.72:
                t = rng.choice(live[-4:])
                # a burst: tasks usually advance a few points in a row
                for _ in range(rng.choice([1, 1, 2, 3, 5])):
                    lines.append("step %d" % t)
            elif r < 0.86:
                lines.append("apply %d" % rng.randint(1, nodes))
            elif r < 0.90:
                lines.append("sync %d" % rng.randint(1, nodes))
            elif r < 0.95 and mon:
                lines.append("step %d" % mon)
            elif r < 0.97:
                lines.append("dump")
            else:
                lines.append("drain")
        lines.append("drain")
    lines.append("dump")
    # final reading phase: one node reads every topic until it answers EMPTY twice
    for t in topics:
        for _ in range(pay + 3):
            tid += 1
            lines.append("spawn %d get %d %s" % (tid, reader, t))
            lines.append("drain")
    lines.append("dump")
    return lines


# ---------------------------------------------------------------------------------------------- execution

def run_impl(binp, scratch, lines, tag):
    d = os.path.join(scratch, "d-" + tag)
    subprocess.call(["rm", "-rf", d])
    os.makedirs(d)
    prog = os.path.join(scratch, "prog-" + tag)
    outp = os.path.join(scratch, "out-" + tag)
    with open(prog, "w") as f:
        f.write("\n".join(lines) + "\n")
    status = "ok"
    try:
        p = subprocess.run([binp, d, prog, outp], stdout=subprocess.DEVNULL, stderr=subprocess.DEVNULL, timeout=300)
        if p.returncode != 0:
            status = "died rc=%d" % p.returncode
    except subprocess.TimeoutExpired:
        status = "timeout"
    out = open(outp).read().split("\n")[:-1] if os.path.exists(outp) else []
    subprocess.call(["rm", "-rf", d])
    return out, status


def run_model(scratch, programs):
    ops = os.path.join(scratch, "pl_ops.txt")
    outp = os.path.join(scratch, "pl_model.txt")
    with open(ops, "w") as f:
        for lines in programs:
            for l in lines:
                f.write("pl " + l + "\n")
    with open(ops, "rb") as fi, open(outp, "wb") as fo:
        ok = os.path.exists(WDRIVER) and subprocess.run([WDRIVER], stdin=fi, stdout=fo).returncode == 0
    if not ok:
        return None
    raw = open(outp).read().split("\n")
    res = []
    i = 0
    for lines in programs:
        outs, quirks = [], []
        for k in range(len(lines)):
            while i < len(raw) and raw[i].startswith("#quirk"):
                quirks.append((k, raw[i].split()[1]))
                i += 1
            outs.append(raw[i] if i < len(raw) else "<missing>")
            i += 1
        res.append((outs, quirks))
    return res


# ---------------------------------------------------------------------------------------------- oracles (on the implementation's outputs)

def events_of(lines, outs):
    """Flatten to (line index, tid, text) step results; `drain` lines carry several."""
    ev = []
    for k, (l, o) in enumerate(zip(lines, outs)):
        t = l.split()
        if t[0] == "step":
            ev.append((k, int(t[1]), o))
        elif t[0] == "drain" and o:
            for part in o.split(" | "):
                m = re.match(r"t(\d+) (.*)", part)
                if m:
                    ev.append((k, int(m.group(1)), m.group(2)))
    return ev


def oracle(lines, outs):
    """Returns (c23 violations, c22 violations): lists of (line index, message)."""
    spawn = {}
    for k, l in enumerate(lines):
        t = l.split()
        if t[0] == "spawn":
            spawn[int(t[1])] = (k, t[2], t[3], t[4] if len(t) > 4 else None, t[5] if len(t) > 5 else None)
    c23, c22 = [], []
    acked = {}          # topic -> list of payloads in acknowledgement order
    delivered = {}      # topic -> list of payloads in delivery order
    ack_line = {}
    for (k, tid, o) in events_of(lines, outs):
        if tid not in spawn:
            continue
        sk, kind, node, topic, payload = spawn[tid]
        m = re.match(r"yield written (\S+) e=(\d+) open=(\d+)@(\d+)", o)
        if m:
            key, e, cur, leader = m.group(1), int(m.group(2)), int(m.group(3)), int(m.group(4))
            seg = int(key.rsplit("_s_", 1)[1])
            if seg < cur:
                c23.append((k, "task %d wrote %s into %s on node %d after that node had applied the rollover sealing it (its applied metadata: segment %d open)" % (tid, payload, key, e, cur)))
            elif leader != e:
                c23.append((k, "task %d wrote %s into %s on node %d although its applied metadata assigns the open segment to node %d" % (tid, payload, key, e, leader)))
        if o == "done OK" and kind == "put":
            acked.setdefault(topic, []).append(payload)
            ack_line[payload] = k
        if kind == "get" and o.startswith("done VAL "):
            v = o.split()[2]
            if v in delivered.get(topic, []):
                c22.append((k, "GET on %s returned %s a second time" % (topic, v)))
            delivered.setdefault(topic, []).append(v)
        if kind == "get" and o == "done EMPTY":
            missing = [p for p in acked.get(topic, []) if ack_line[p] < sk and p not in delivered.get(topic, [])]
            if missing:
                c22.append((k, "GET on %s (spawned at line %d) answered EMPTY although acknowledged %s had not been returned" % (topic, sk + 1, ",".join(missing[:4]))))
    for topic, ps in acked.items():
        lost = [p for p in ps if p not in delivered.get(topic, [])]
        if lost:
            c22.append((len(lines) - 1, "acknowledged PUTs never returned by any GET on %s: %s" % (topic, ",".join(lost[:6]))))
    return c23, c22, acked, delivered


def order_violation(acked, delivered):
    """sequential producer, one reader node: deliveries in acknowledgement order"""
    for topic, ds in delivered.items():
        a = [p for p in acked.get(topic, []) if p in ds]
        if [p for p in ds if p in a] != a:
            return "GETs on %s returned %s, acknowledgement order is %s" % (topic, ",".join(ds[:8]), ",".join(a[:8]))
    return None


def shrink(binp, scratch, lines, prop, tag, budget=150):
    """Drop schedule lines while the implementation still violates `prop` (the set-up lines stay)."""
    def bad(ls):
        outs, status = run_impl(binp, scratch, ls, tag)
        if status != "ok":
            return False
        c23, c22, _, _ = oracle(ls, outs)
        return bool(c23 if prop == "C23" else c22)
    keep = sum(1 for l in lines if l.startswith(("init", "topic")))
    cur = list(lines)
    # first try to cut the tail (the final reading phase is often irrelevant for C23)
    for cut in (len(cur) // 2, len(cur) * 3 // 4):
        if budget > 0 and cut > keep:
            budget -= 1
            if bad(cur[:cut]):
                cur = cur[:cut]
    changed = True
    while changed and budget > 0:
        changed = False
        i = keep
        while i < len(cur) and budget > 0:
            cand = cur[:i] + cur[i + 1:]
            budget -= 1
            if bad(cand):
                cur = cand
                changed = True
            else:
                i += 1
    return cur


# ---------------------------------------------------------------------------------------------- the check

KNOWN_FOR = {"C23": ["staleLeaseWrite"], "C22": ["sealedCountStale", "readerLagsMetadata", "staleLeaseWrite"]}


def plane_check(ctx, prop):
    mods = ["WalrusVerif.Props.%s" % prop]
    translator(ctx)
    banned_scan(ctx)
    lean_build(ctx, mods)
    if ctx.tier == "thorough" and not ctx.tie_broken:
        leanchecker(ctx, mods)
    binp, err = cargo_build(ctx, "plane_harness")
    known_open, _ = load_known_findings()
    known = {k.get("quirk"): k for k in known_open if k.get("property") == prop}
    cov = {}
    if binp is None:
        ctx.tie_broken.append(err + " (bucket.rs / controller / monitor.rs no longer compile over the stand-ins: correspondence cannot be run)")
    else:
        rng = random.Random(ctx.seed * 104729 + (22 if prop == "C22" else 23))
        thorough = ctx.tier == "thorough"
        counts = {"sequential": 1200 if thorough else 120, "concurrent": 4000 if thorough else 350, "monitor": 800 if thorough else 80}
        programs = []
        for fn in sorted(os.listdir(CORPUS)):
            if fn.endswith(".plprog"):
                ls = [l for l in open(os.path.join(CORPUS, fn)).read().split("\n") if l and not l.startswith("#")]
                programs.append(("corpus:" + fn, ls))
        for prof in ("sequential", "concurrent", "monitor"):
            for _ in range(counts[prof]):
                programs.append((prof, gen_program(rng, prof)))
        model = run_model(ctx.scratch, [p for _, p in programs])
        if model is None:
            ctx.tie_broken.append("wdriver could not be run on the data-plane schedules")
        from concurrent.futures import ThreadPoolExecutor
        t0 = time.time()
        with ThreadPoolExecutor(max_workers=12) as ex:
            impl = list(ex.map(lambda ip: run_impl(binp, ctx.scratch, ip[1][1], "p%d" % ip[0]), enumerate(programs)))
        log("ran %d schedules on the real data plane in %.1fs" % (len(programs), time.time() - t0))
        ndis = nvio = 0
        kf = {}
        hist = {"schedules": len(programs), "lines": 0, "steps": 0, "applies": 0, "puts": 0, "gets": 0, "acked": 0, "delivered": 0,
                "blocked_steps": 0, "rollovers_awaited": 0, "not_leader_errors": 0, "quirk_schedules": {}, "strict_schedules": 0}
        samples = []
        seen = set()
        nontrivial = 0
        for idx, ((prof, lines), (outs, status)) in enumerate(zip(programs, impl)):
            hist["lines"] += len(lines)
            hist["steps"] += sum(1 for l in lines if l.startswith("step"))
            hist["applies"] += sum(1 for l in lines if l.startswith("apply"))
            hist["puts"] += sum(1 for l in lines if " put " in l)
            hist["gets"] += sum(1 for l in lines if " get " in l)
            joined = "\n".join(outs)
            hist["blocked_steps"] += joined.count("blocked")
            hist["rollovers_awaited"] += joined.count("await-apply")
            hist["not_leader_errors"] += joined.count("NotLeaderForPartition")
            mouts, quirks = model[idx] if model else (None, [])
            qset = sorted(set(q for _, q in quirks))
            for q in qset:
                hist["quirk_schedules"][q] = hist["quirk_schedules"].get(q, 0) + 1
            if not qset:
                hist["strict_schedules"] += 1
            key = "\n".join(lines)
            if key not in seen and ("await-apply" in joined or prof != "sequential"):
                nontrivial += 1
            seen.add(key)
            dis = None
            if status != "ok":
                dis = (len(outs), "process %s" % status, "")
            elif mouts is not None:
                for k in range(len(lines)):
                    a = outs[k] if k < len(outs) else "<missing>"
                    if a != mouts[k]:
                        dis = (k, a, mouts[k])
                        break
            c23, c22, acked, delivered = oracle(lines, outs)
            hist["acked"] += sum(len(v) for v in acked.values())
            hist["delivered"] += sum(len(v) for v in delivered.values())
            if prof == "sequential" and prop == "C22":
                ov = order_violation(acked, delivered)
                if ov:
                    c22.append((len(lines) - 1, ov))
            vio = c23 if prop == "C23" else c22
            if len(samples) < 4 and idx % 41 == 7:
                samples.append({"profile": prof, "schedule": lines[:16], "outputs": outs[:16]})
            if vio:
                k, what = vio[0]
                fired = [q for (qk, q) in quirks if qk <= max(v[0] for v in vio)]
                listed = [q for q in KNOWN_FOR[prop] if q in fired and q in known]
                if dis is None and listed:
                    for q in listed[:1]:
                        kf.setdefault(q, [0, None])
                        kf[q][0] += 1
                        kf[q][1] = kf[q][1] or what
                    continue
                nvio += 1
                if nvio <= 3:
                    body = ["# property %s violated by the implementation (oracle on the outputs of the real data plane), profile %s" % (prop, prof),
                            "# replay: harness/target/release/plane_harness <empty dir> <this file> <outfile>",
                            "# quirks of listed findings that fired in the model on this schedule: %s" % (sorted(set(fired)) or "none")]
                    body += ["# line %d: %s" % (kk + 1, w) for kk, w in vio[:5]]
                    if dis:
                        body += ["# model and implementation differ on this schedule: line %d implementation=%r model=%r" % (dis[0] + 1, dis[1], dis[2])]
                    small = shrink(binp, ctx.scratch, lines, prop, "shrink%d" % idx) if status == "ok" else lines
                    souts, _ = run_impl(binp, ctx.scratch, small, "shrunk%d" % idx)
                    sc23, sc22, _, _ = oracle(small, souts)
                    body += ["# shrunk schedule (%d of %d lines): line %d: %s" % (len(small), len(lines), kk + 1, w) for kk, w in (sc23 if prop == "C23" else sc22)[:3]]
                    body += small + ["# outputs of the shrunk schedule:"] + ["#   %s" % o for o in souts]
                    body += ["# original schedule:"] + ["#   %s" % l for l in lines]
                    ctx.violations.append((write_replay(ctx, "schedule", "\n".join(body) + "\n"), ""))
            elif dis is not None:
                ndis += 1
                if ndis <= 3:
                    ctx.tie_broken.append("correspondence (%s): line %d %r implementation=%r model=%r; schedule so far: %s" % (
                        prof, dis[0] + 1, lines[dis[0]] if dis[0] < len(lines) else "?", dis[1][:160], dis[2][:160], " / ".join(lines[:dis[0] + 1][-12:])))
        for q, (n, ex) in kf.items():
            ctx.known.append("KNOWN-FINDING: property=%s quirk=%s %s [observed in %d schedule(s) of this run, e.g. %s]" % (
                prop, q, known[q].get("what", ""), n, (ex or "")[:200]))
        cov = {
            "evaluations": len(programs),
            "distinct_nontrivial": nontrivial,
            "rule": "one case = one schedule (set-up, spawned PUT/GET/monitor tasks, step/apply/sync/drain choices) run on the real bucket.rs + controller + monitor over the real "
                    "engine AND on the Lean model (Plane.stepTask/applyNext/drain), outputs compared line by line (every point reached, every result, state dumps: applied index, "
                    "metadata, offsets, cursors). profiles: sequential (each operation drained before the next; 1-3 nodes), concurrent (2-4 tasks in flight, bursts of steps, lagging "
                    "applies, lease syncs), monitor (the same plus a node's monitor loop). Every schedule ends with one node reading every topic dry. Oracles: C23 on every `written` "
                    "event (executing node's applied metadata at that moment); C22 exactly-once / EMPTY-only-when-drained / nothing-lost, plus order for sequential producers. "
                    "non-trivial = distinct schedule with concurrency or an awaited rollover",
            "programs": len(programs),
            "histogram": hist,
            "samples": samples or ["(none)"],
            "model_disagreements": ndis,
            "oracle_violations_unlisted": nvio,
            "oracle_violations_known": {q: v[0] for q, v in kf.items()},
            "search": {"schedules": len(programs), "oracle_violations": nvio + sum(v[0] for v in kf.values())},
        }
    ctx.cov.update(cov)
    ctx.cov.setdefault("samples", ["(harness did not run)"])
    ctx.assumptions = [
        "Raft is assumed (C19): one totally ordered command log; node 1 is the leader; every node applies the log in order, when the schedule says so",
        "a task gives up control only at the named points of the cfg(walrus_verif) hooks (and await-apply / tick of the stand-ins): interleavings inside the code between two points "
        "are not explored; the real tokio runtime is multi-threaded",
        "all nodes run in one process on one engine build; forwarding between nodes is a function call (no message loss, delay or reordering)",
        "no node crash or restart; membership is fixed; topics are created during set-up",
    ]
    finish(ctx, level="proof", trusted_base=[
        "Lean 4 kernel; axioms of the property theorems as listed (subset of propext, Classical.choice, Quot.sound)",
        "harness/shims/tokio_sched (deterministic scheduler, locks that block), harness/shims/octopii plane.rs (command log, propose/await-apply, in-process RPC), "
        "the custom RPC handler of distributed-walrus/src/main.rs:170-199 restated in harness/plane/src/main.rs",
        "hooks: the seven named points in bucket.rs / controller (cfg(walrus_verif), MANIFEST.hooks)",
        "modelled, not verified: the storage engine below bucket.rs is one FIFO queue per wal key in the model (C01's specification); the correspondence runs use the real engine",
        "the Python oracles in bin/props_plane.py",
    ])


def check_c22(ctx):
    plane_check(ctx, "C22")


def check_c23(ctx):
    plane_check(ctx, "C23")
