#!/bin/bash
# usage: seed_try.sh <seeded/ID-n> <prop> [<prop>...]   -- apply the seeded change to /repo, run the quick checks, undo.
seed="$(readlink -f "$1")"; shift
cd /repo || exit 2
if [ -n "$(git status --porcelain --untracked-files=no)" ]; then echo "/repo has uncommitted changes; refusing"; exit 2; fi
git apply "$seed/patch.diff" || { echo "patch does not apply"; exit 2; }
cd /verif
for p in "$@"; do
  out=$(bin/check $p --tier quick 2>&1); rc=$?
  echo "$out" > "$seed/check_$p.log"
  echo "== $(basename $seed) vs $p: rc=$rc $(echo "$out" | grep -c '^VIOLATION') violation line(s)"
  echo "$out" | grep -E "^VIOLATION" | head -3
  for r in $(echo "$out" | grep -E "^VIOLATION" | sed -E 's/.*replay=([^ ]+).*/\1/' | head -1); do head -12 "$r"; done
done
git -C /repo checkout -- .
# evidence files were rewritten by the runs on the modified tree: restore the committed ones
git -C /verif checkout -- evidence 2>/dev/null
