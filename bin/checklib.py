"""Shared machinery of /verif/bin/check: translator, Lean build + axiom audit, cargo build,
evidence writing, known-findings handling and the decision rule of DESIGN.md section 2.6."""
import json
import os
import re
import subprocess
import sys
import time

VERIF = os.path.dirname(os.path.dirname(os.path.abspath(__file__)))
LEAN = os.path.join(VERIF, "lean")
HARNESS = os.path.join(VERIF, "harness")
REPO = "/repo"
WDRIVER = os.path.join(LEAN, ".lake", "build", "bin", "wdriver")
ALLOWED_AXIOMS = {"propext", "Classical.choice", "Quot.sound"}
BANNED = re.compile(r"\b(sorry|admit|native_decide|bv_decide|implemented_by|unsafe)\b|^\s*axiom\s|maxHeartbeats\s+0")

ENV = dict(os.environ)
ENV.update({"CARGO_NET_OFFLINE": "true", "WALRUS_QUIET": "1"})


def log(msg):
    print("[check] " + msg, flush=True)


def run(cmd, cwd=None, env=None, timeout=3600, stdin=None):
    t0 = time.time()
    try:
        p = subprocess.run(cmd, cwd=cwd, env=env or ENV, stdout=subprocess.PIPE, stderr=subprocess.STDOUT,
                           timeout=timeout, stdin=stdin)
        return p.returncode, p.stdout.decode("utf-8", "replace"), time.time() - t0
    except subprocess.TimeoutExpired as e:
        return 124, (e.stdout or b"").decode("utf-8", "replace") + "\nTIMEOUT", time.time() - t0


class Ctx:
    def __init__(self, prop, tier, seed):
        self.prop = prop
        self.tier = tier
        self.seed = seed
        self.t0 = time.time()
        self.tie_broken = []       # strings naming what broke (translator / theorem / correspondence)
        self.violations = []       # (replay_path, suffix)
        self.known = []            # KNOWN-FINDING lines printed
        self.cov = {}
        self.assumptions = []
        self.obligations = 0
        self.discharged = 0
        self.theorems = []
        self.axioms = {}
        os.makedirs(os.path.join(VERIF, "evidence"), exist_ok=True)
        os.makedirs(os.path.join(VERIF, "replays"), exist_ok=True)
        self.scratch = "/dev/shm/walrus-verif-%s-%d" % (prop, os.getpid())
        subprocess.call(["rm", "-rf", self.scratch])
        os.makedirs(self.scratch)

    def cleanup(self):
        subprocess.call(["rm", "-rf", self.scratch])


def translator(ctx):
    rc, out, _ = run([sys.executable, os.path.join(VERIF, "translator", "extract.py")])
    log(out.strip().splitlines()[-1] if out.strip() else "translator: no output")
    if rc != 0:
        ctx.tie_broken.append("translator: " + "; ".join(l for l in out.splitlines() if "TRANSLATOR-ERROR" in l))
        return False
    return True


def banned_scan(ctx):
    hits = []
    for root, _, files in os.walk(os.path.join(LEAN, "WalrusVerif")):
        for f in files:
            if not f.endswith(".lean"):
                continue
            p = os.path.join(root, f)
            in_block = False
            for i, line in enumerate(open(p, encoding="utf-8"), 1):
                s = line
                # strip comments (block comments tracked line-wise, good enough for a ban list)
                if in_block:
                    if "-/" in s:
                        s = s.split("-/", 1)[1]
                        in_block = False
                    else:
                        continue
                while "/-" in s:
                    pre, rest = s.split("/-", 1)
                    if "-/" in rest:
                        s = pre + rest.split("-/", 1)[1]
                    else:
                        s = pre
                        in_block = True
                        break
                s = s.split("--", 1)[0]
                if BANNED.search(s):
                    hits.append("%s:%d: %s" % (os.path.relpath(p, VERIF), i, line.strip()))
    main = os.path.join(LEAN, "Main.lean")
    for i, line in enumerate(open(main, encoding="utf-8"), 1):
        s = line.split("--", 1)[0]
        if re.search(r"\b(sorry|admit|native_decide|implemented_by)\b|^\s*axiom\s", s):
            hits.append("lean/Main.lean:%d: %s" % (i, line.strip()))
    if hits:
        ctx.tie_broken.append("banned construct: " + "; ".join(hits[:5]))
    return not hits


def lean_build(ctx, modules, need_driver=True):
    """Build property modules (+ driver); audit axioms of every theorem in the property files."""
    ok = True
    targets = list(modules) + (["wdriver"] if need_driver else [])
    rc, out, dt = run(["lake", "build"] + targets, cwd=LEAN, timeout=3000)
    log("lake build %s: rc=%d (%.1fs)" % (" ".join(targets), rc, dt))
    if rc != 0:
        errs = [l for l in out.splitlines() if "error" in l.lower()][:8]
        ctx.tie_broken.append("lake build failed: " + " | ".join(errs))
        ok = False
        # try to still get a driver for the search
        if need_driver:
            rc2, _, _ = run(["lake", "build", "wdriver"], cwd=LEAN, timeout=3000)
            if rc2 != 0:
                log("driver could not be built either; the search runs the oracle on the implementation only")
    # count obligations and audit
    names = []
    nexamples = 0
    for m in modules:
        path = os.path.join(LEAN, m.replace(".", "/") + ".lean")
        if not os.path.exists(path):
            continue
        text = open(path, encoding="utf-8").read()
        ns = re.search(r"^namespace\s+(\S+)", text, re.M)
        prefix = (ns.group(1) + ".") if ns else ""
        for mm in re.finditer(r"^theorem\s+([A-Za-z0-9_'.]+)", text, re.M):
            names.append(prefix + mm.group(1))
        nexamples += len(re.findall(r"^example\b", text, re.M))
    ctx.theorems = names
    ctx.obligations = len(names) + nexamples
    if ok and names:
        audit = os.path.join(ctx.scratch, "Audit.lean")
        with open(audit, "w") as f:
            for m in modules:
                f.write("import %s\n" % m)
            for n in names:
                f.write("#print axioms %s\n" % n)
        rc, out, dt = run(["lake", "env", "lean", audit], cwd=LEAN, timeout=1200)
        bad = []
        cur = None
        seen = set()
        for mm in re.finditer(r"'([^']+)' (depends on axioms: \[([^\]]*)\]|does not depend on any axioms)", out, re.S):
            name = mm.group(1)
            axs = set(a.strip() for a in (mm.group(3) or "").replace("\n", " ").split(",") if a.strip())
            ctx.axioms[name] = sorted(axs)
            seen.add(name)
            if not axs <= ALLOWED_AXIOMS:
                bad.append("%s uses %s" % (name, sorted(axs - ALLOWED_AXIOMS)))
        missing = [n for n in names if n not in seen]
        if rc != 0 or bad or missing:
            ctx.tie_broken.append("axiom audit: rc=%d bad=%s missing=%s" % (rc, bad[:4], missing[:4]))
            ok = False
        else:
            ctx.discharged = ctx.obligations
        log("axiom audit: %d theorems, %d examples, all within %s" % (len(names), nexamples, sorted(ALLOWED_AXIOMS))
            if ok else "axiom audit FAILED")
    return ok


def leanchecker(ctx, modules):
    for m in modules:
        rc, out, dt = run(["lake", "env", "leanchecker", m], cwd=LEAN, timeout=3000)
        log("leanchecker %s: rc=%d (%.1fs)" % (m, rc, dt))
        if rc != 0:
            ctx.tie_broken.append("leanchecker %s failed: %s" % (m, out.strip()[-300:]))
            return False
    ctx.cov["leanchecker"] = list(modules)
    return True


def cargo_build(ctx, package, small=False, features=None):
    env = dict(ENV)
    args = ["cargo", "build", "--release", "--offline", "-p", package]
    tdir = os.path.join(HARNESS, "target")
    if small:
        env["RUSTFLAGS"] = "--cfg walrus_verif --cfg walrus_verif_small"
        tdir = os.path.join(HARNESS, "target-small")
    env["CARGO_TARGET_DIR"] = tdir
    rc, out, dt = run(args, cwd=HARNESS, env=env, timeout=3000)
    log("cargo build %s%s: rc=%d (%.1fs)" % (package, " [small]" if small else "", rc, dt))
    if rc != 0:
        errs = [l for l in out.splitlines() if l.startswith("error")][:6]
        return None, "cargo build failed: " + " | ".join(errs)
    return os.path.join(tdir, "release", package), None


def run_driver(ops_path, out_path, timeout=1800):
    if not os.path.exists(WDRIVER):
        return False
    with open(ops_path, "rb") as fi, open(out_path, "wb") as fo:
        try:
            p = subprocess.run([WDRIVER], stdin=fi, stdout=fo, stderr=subprocess.PIPE, timeout=timeout)
        except subprocess.TimeoutExpired:
            return False
    return p.returncode == 0


def diff_lines(ops_path, a_path, b_path, limit=20):
    """Return list of (lineno, op, impl, model) where the streams differ."""
    out = []
    with open(ops_path, encoding="utf-8", errors="replace") as fo, open(a_path, encoding="utf-8", errors="replace") as fa, \
            open(b_path, encoding="utf-8", errors="replace") as fb:
        ops = fo.read().split("\n")
        a = fa.read().split("\n")
        b = fb.read().split("\n")
    n = max(len(a), len(b))
    for i in range(n):
        x = a[i] if i < len(a) else "<missing>"
        y = b[i] if i < len(b) else "<missing>"
        if x != y:
            out.append((i + 1, ops[i] if i < len(ops) else "?", x, y))
            if len(out) >= limit:
                break
    return out


def load_known_findings():
    """KNOWN_FINDINGS.txt: lines `KNOWN-FINDING: property=Cxx quirk=<id> ...` and `fixed: property=Cxx ...`."""
    path = os.path.join(VERIF, "KNOWN_FINDINGS.txt")
    open_, fixed = [], []
    if os.path.exists(path):
        for line in open(path, encoding="utf-8"):
            line = line.strip()
            if line.startswith("KNOWN-FINDING:"):
                kv = dict(re.findall(r"(\w+)=(\S+)", line))
                kv["line"] = line
                kv["what"] = re.sub(r"^KNOWN-FINDING:\s*((\w+)=(\S+)\s+)*", "", line)
                open_.append(kv)
            elif line.startswith("fixed:"):
                kv = dict(re.findall(r"(\w+)=(\S+)", line))
                kv["line"] = line
                fixed.append(kv)
    return open_, fixed


def write_replay(ctx, name, content):
    path = os.path.join(VERIF, "replays", "%s-%s-%d.txt" % (ctx.prop, name, int(time.time())))
    n = 1
    while os.path.exists(path) or os.path.exists(path.replace(".txt", ".prog")):
        n += 1
        path = os.path.join(VERIF, "replays", "%s-%s-%d-%d.txt" % (ctx.prop, name, int(time.time()), n))
    with open(path, "w", encoding="utf-8") as f:
        f.write(content)
    return path


def finish(ctx, level="proof", trusted_base=None, checker_cmd=None):
    """Apply the decision rule, write evidence, print VIOLATION/KNOWN-FINDING lines, exit."""
    # tie/proof broken but no concrete failing input found => still a violation
    if ctx.tie_broken and not ctx.violations:
        body = "property %s is no longer shown to hold: the following no longer checks\n" % ctx.prop
        body += "\n".join("  - " + t for t in ctx.tie_broken) + "\n"
        body += "theorems of this property: %s\n" % ", ".join(ctx.theorems)
        body += "search for a failing input (oracle on the implementation, this run): none found\n"
        body += json.dumps(ctx.cov.get("search", {}), indent=1) + "\n"
        path = write_replay(ctx, "unproved", body)
        ctx.violations.append((path, " no-failing-input-found"))
    cov = dict(ctx.cov)
    cov.setdefault("obligations", ctx.obligations)
    cov.setdefault("discharged", ctx.discharged if not ctx.tie_broken else min(ctx.discharged, max(ctx.obligations - 1, 0)))
    cov.setdefault("checker_cmd", checker_cmd or "lake build <Props module> wdriver && lake env lean <generated #print axioms file>")
    cov.setdefault("trusted_base", trusted_base or [])
    cov["theorems"] = ctx.theorems
    cov["axioms_used"] = sorted(set(a for v in ctx.axioms.values() for a in v))
    cov["tie_broken"] = ctx.tie_broken
    cov["known_findings_reported"] = ctx.known
    ev = {
        "property_id": ctx.prop,
        "tier": ctx.tier,
        "seed": ctx.seed,
        "level": level,
        "coverage": cov,
        "assumptions": ctx.assumptions,
        "wall_s": round(time.time() - ctx.t0, 2),
        "violations": len(ctx.violations),
    }
    with open(os.path.join(VERIF, "evidence", ctx.prop + ".json"), "w") as f:
        json.dump(ev, f, indent=1, sort_keys=True)
    for k in ctx.known:
        print(k)
    for path, suffix in ctx.violations:
        print("VIOLATION property=%s replay=%s%s" % (ctx.prop, path, suffix))
    ctx.cleanup()
    log("%s %s: %s in %.1fs" % (ctx.prop, ctx.tier, "VIOLATION" if ctx.violations else "ok", time.time() - ctx.t0))
    sys.exit(1 if ctx.violations else 0)
