"""Distributed-layer properties.  Repository source files are compiled into harness/dist by #[path];
crates missing offline are replaced by the stand-ins in harness/shims (part of the trusted base)."""
from props_pure import pure, TRUSTED

TRUSTED_DIST = TRUSTED + [
    "harness/shims/bincode: stand-in for bincode 1.3 default configuration (the real crate is absent offline); "
    "'undecodable bytes' exercise this decoder and the model's decodeCmd, not the real crate",
    "harness/shims/octopii: StateMachineTrait copied from octopii/src/state_machine.rs",
]


def check_c18(ctx):
    pure(ctx, "c18", "WalrusVerif.Props.C18",
         "all command sequences of depth 4 (thorough: 5) over a 13-command alphabet (2 topics x leaders x counts {0,1,2^63,2^64-1}, "
         "duplicate create, unknown topic, node upsert, garbage bytes) + random sequences of length <= 200 over 4 topics incl. "
         "truncated/corrupted encodings; replies and get_topic_state compared with the model after every sequence; independent "
         "oracle (keys 1..current, open leader, sum, immutability of sealed history) after every command; non-trivial = "
         "sequence with at least one accepted rollover",
         None,
         ["HashMap iteration order is canonicalised (sorted) before comparison",
          "apply is called under catch_unwind; the harness is built with overflow-checks=on so a wrapped counter would panic"],
         package="dist_harness", trusted=TRUSTED_DIST)


def check_c24(ctx):
    pure(ctx, "c24", "WalrusVerif.Props.C24",
         "2500 (thorough: 20000) scripted connections of 1-8 frames from a grammar of valid commands (PUT/GET/REGISTER/STATE/METRICS, "
         "payloads with inner/leading/trailing whitespace of every Unicode class, non-ASCII topics) and malformed frames (zero length, "
         "oversized length whose body looks like valid frames, invalid UTF-8, unknown/incomplete commands), some cut mid-frame; 500 raw "
         "non-aligned byte streams; char::is_whitespace vs the model's class on Unicode scalar values; oracle: one response per complete "
         "frame, FIFO PUT/GET per topic; non-trivial = connection with a malformed frame followed or preceded by other frames",
         None,
         ["the node controller is replaced by a per-topic FIFO mock (what client.rs needs of it)",
          "String::from_utf8 is an arbitrary decoder in the synchronisation theorems; the round-trip theorem is at the command level"],
         package="dist_harness",
         trusted=TRUSTED_DIST + ["harness/shims/tokio: in-memory TcpStream/TcpListener, immediate-ready read_exact/write_all; a peer that closes "
                                 "mid-frame yields UnexpectedEof as a real socket does"])


def check_c20(ctx):
    pure(ctx, "c20", "WalrusVerif.Props.C20",
         "600 (thorough: 6000) random command sequences (<= 40 commands over 5 topics incl. non-ASCII/empty/long names, counts up to 2^61, "
         "node upserts, garbage bytes): snapshot, restore into a fresh Metadata, compare canonical dumps; the model decodes the REAL snapshot "
         "bytes and must reach its own state; the same further commands on both replicas; truncated snapshots; the adapter's payload "
         "(encoding of an empty BTreeMap) through the real Metadata::restore; non-trivial = sequence with an accepted rollover",
         None,
         ["String::as_bytes/from_utf8 enter the theorems as a codec with decName (encName s) = some s",
          "HashMap iteration order: the model encodes in list order; C20_order_irrelevant covers other orders; dumps are sorted",
          "the Raft adapter (octopii/src/openraft/storage.rs) cannot be compiled offline: its snapshot path is tied by translator facts "
          "(what build_snapshot serialises, that nothing writes that map, what install_snapshot passes to restore) and its payload is replayed "
          "through the real Metadata::restore"],
         package="dist_harness", trusted=TRUSTED_DIST)
