"""Engine properties (walrus-rust): proof in Lean over Model/Engine.lean; tie = translator (geometry,
thresholds) + differential correspondence of the executable model with the real engine on generated
programs (one fresh process per program segment), + the property's own oracle on the implementation."""
import collections
import json
import os
import re
import shutil
import subprocess
import time

from checklib import (VERIF, WDRIVER, cargo_build, finish, lean_build, leanchecker, log, run, translator,
                      banned_scan, write_replay, load_known_findings, ENV)

TRUSTED = [
    "Lean 4 kernel; axioms limited to propext, Classical.choice, Quot.sound (audited per theorem)",
    "translator/extract.py regular expressions (geometry constants, thresholds)",
    "engine harness (harness/engine): program generator coverage, payload descriptor <-> bytes mapping, error-kind enum, "
    "one child process per program segment on /dev/shm, oracle implementation of the property statement",
    "Lean compiler/runtime for the wdriver executable (same definitions as the theorems)",
    "modelled, not verified: rkyv header encoding, pread/pwrite/mmap/io_uring semantics (a completed write is visible), "
    "std locks/collections; the cfg(walrus_verif_small) geometry differs from production only in the generated constants",
]

CORPUS = os.path.join(VERIF, "corpus")


def split_model(raw_path):
    """strip '#' lines from the driver's output; return (reply lines, {reply index: [quirks]},
    number of operations also executed by the entry-level model AEng, [(reply index, AEng output)] mismatches)"""
    mod, quirk_at, aeng_ok, aeng_bad = [], {}, 0, []
    with open(raw_path, encoding="utf-8", errors="replace") as f:
        for l in f.read().split("\n"):
            if l.startswith("#quirk "):
                quirk_at.setdefault(len(mod), []).extend(l[7:].split(","))
            elif l == "#aeng-ok":
                aeng_ok += 1
            elif l.startswith("#aeng-mismatch "):
                aeng_bad.append((len(mod), l[15:]))
            else:
                mod.append(l)
    return mod, quirk_at, aeng_ok, aeng_bad


def mod_line(raw, i):
    return "(see model output line %d)" % (i + 1)


def run_profile(ctx, binp, profile, nprog, tag):
    out = os.path.join(ctx.scratch, tag)
    env = dict(ENV)
    if nprog is not None:
        env["VERIF_NPROG"] = str(nprog)
    rc, o, dt = run([binp, "gen", profile, out, CORPUS], env=env, timeout=3000)
    log("harness gen %s [%s]: rc=%d (%.1fs)" % (profile, tag, rc, dt))
    if rc != 0:
        return None, "harness gen %s failed: %s" % (profile, o[-300:])
    res = analyse(out)
    res["dir"] = out
    return res, None


def analyse(out):
    ops = open(os.path.join(out, "ops.txt"), encoding="utf-8").read().split("\n")
    imp = open(os.path.join(out, "impl.txt"), encoding="utf-8").read().split("\n")
    pm = [tuple(map(int, l.split())) for l in open(os.path.join(out, "progmap.txt")) if l.strip()]
    res = {"programs": len(pm), "stats": json.load(open(os.path.join(out, "stats.json"))), "driver_ok": False,
           "diverging": [], "tolerated_divergences": 0, "quirks": {}, "violations": [], "quirk_hist": collections.Counter()}
    mod, quirk_at = None, {}
    raw = os.path.join(out, "model_raw.txt")
    if os.path.exists(WDRIVER):
        with open(os.path.join(out, "ops.txt"), "rb") as fi, open(raw, "wb") as fo:
            try:
                p = subprocess.run([WDRIVER], stdin=fi, stdout=fo, stderr=subprocess.PIPE, timeout=3000)
                res["driver_ok"] = p.returncode == 0
            except subprocess.TimeoutExpired:
                res["driver_ok"] = False
    res["aeng_ops"] = 0
    res["aeng_mismatch"] = []
    if res["driver_ok"]:
        mod, quirk_at, res["aeng_ops"], aeng_bad = split_model(raw)
        for (i, txt) in aeng_bad[:20]:
            res["aeng_mismatch"].append({"op": ops[i] if i < len(ops) else "?", "eng": mod_line(raw, i), "aeng": txt})
    for k, start, n in pm:
        qs = []
        first_q = None
        for i in range(start - 1, start - 1 + n):
            if i in quirk_at:
                qs.extend(quirk_at[i])
                if first_q is None:
                    first_q = i
        res["quirks"][k] = sorted(set(qs))
        for q in set(qs):
            res["quirk_hist"][q] += 1
        if mod is not None:
            for i in range(start - 1, start - 1 + n):
                a = imp[i] if i < len(imp) else "<missing>"
                b = mod[i] if i < len(mod) else "<missing>"
                if a != b:
                    # byte-level garbage parsing after a multi-unit block was scanned is outside the cell model;
                    # after a failed batch that had rotated (open finding rollbackKeepsNewBlock) the writer holds
                    # (new block, old offset): the next write underflows `limit - offset` (panic with the locks
                    # held, or a wrapped length in builds without overflow checks) - not modelled either
                    if "multiUnitBlockScan" in qs or "rollbackKeepsNewBlock" in qs:
                        res["tolerated_divergences"] += 1
                    else:
                        res["diverging"].append({"program": k, "line": i - start + 1, "op": ops[i], "impl": a, "model": b})
                    break
    for l in open(os.path.join(out, "violations.txt"), encoding="utf-8", errors="replace").read().split("\n"):
        if l:
            f = l.split("\t")
            res["violations"].append({"prop": f[0], "program": int(f[1]), "line": int(f[2]), "msg": f[3]})
    return res


def read_prog(dirp, k):
    return [l for l in open(os.path.join(dirp, "programs", "%d.prog" % k), encoding="utf-8").read().split("\n") if l]


def replay_once(binp, lines, scratch, want_props):
    """run one program; return (set of violated props among want_props, diverges?)"""
    d = os.path.join(scratch, "rp")
    shutil.rmtree(d, ignore_errors=True)
    os.makedirs(d)
    pf = os.path.join(d, "p.prog")
    open(pf, "w").write("\n".join(lines) + "\n")
    env = dict(ENV)
    if "C16" in want_props:
        env["VERIF_BOTH_BACKENDS"] = "1"
    rc, o, dt = run([binp, "replay", pf, os.path.join(d, "out")], env=env, timeout=300)
    if rc != 0:
        return set(), False, None
    r = analyse(os.path.join(d, "out"))
    props = set(v["prop"] for v in r["violations"] if v["prop"] in want_props)
    return props, bool(r["diverging"]), r


def shrink(binp, lines, scratch, want_props, need_div, budget=120):
    """greedy op removal while the same kind of failure persists"""
    def bad(ls):
        props, div, _ = replay_once(binp, ls, scratch, want_props)
        return (bool(props) if want_props else True) and (div or not need_div)
    cur = list(lines)
    tries = 0
    # cut the tail after the first failing point first (halving), then single ops
    chunk = max(1, (len(cur) - 3) // 2)
    while chunk >= 1 and tries < budget:
        i = 3
        progressed = False
        while i < len(cur) and tries < budget:
            cand = cur[:i] + cur[i + chunk:]
            tries += 1
            if len(cand) >= 3 and bad(cand):
                cur = cand
                progressed = True
            else:
                i += chunk
        if not progressed or chunk == 1:
            chunk //= 2
        else:
            chunk = max(1, chunk // 2)
    return cur


def engine_check(ctx, modules, profiles, oracle_props, what, assumptions, real_profiles=None, extra_cov=None):
    """profiles: list of (profile name, quick count, thorough count) for the small geometry;
    real_profiles: same for the production geometry."""
    translator(ctx)
    banned_scan(ctx)
    lean_build(ctx, modules)
    if ctx.tier == "thorough" and not ctx.tie_broken:
        leanchecker(ctx, modules)
    known_open, _fixed = load_known_findings()
    # Decision rule (DESIGN.md 2.6): an oracle violation on a program on which the implementation and the model agree and on
    # which the trigger of a listed open finding fired is produced by that finding (the model reproduces the defect; the
    # property theorems exclude exactly the trigger regions). The finding may be listed under a related property (the same
    # defect breaks several properties); the entry for this property is preferred.
    known_for_prop = {k["quirk"]: k for k in known_open if "quirk" in k}
    known_for_prop.update({k["quirk"]: k for k in known_open if k.get("property") in oracle_props and "quirk" in k})
    known_for_prop.update({k["quirk"]: k for k in known_open if k.get("property") == ctx.prop and "quirk" in k})
    want = set(oracle_props) | {"ANY"}
    results = []
    bins = {}
    for small in (True, False):
        plist = profiles if small else (real_profiles or [])
        if not plist:
            continue
        binp, err = cargo_build(ctx, "engine_harness", small=small)
        if binp is None:
            ctx.tie_broken.append(err)
            continue
        bins[small] = binp
        for (pname, nq, nt) in plist:
            n = nt if ctx.tier == "thorough" else nq
            res, err = run_profile(ctx, binp, pname, n, "%s-%s" % ("small" if small else "real", pname))
            if res is None:
                ctx.tie_broken.append(err)
                continue
            res["small"] = small
            res["profile"] = pname
            results.append(res)
    total_prog = sum(r["programs"] for r in results)
    total_ops = sum(r["stats"].get("operations", 0) for r in results)
    nontrivial = sum(r["stats"].get("distinct_nontrivial", 0) for r in results)
    new_viol = []          # (res, violation)
    known_hits = collections.OrderedDict()
    other_prop = collections.Counter()
    for r in results:
        if not r["driver_ok"] and not any("lake build" in t for t in ctx.tie_broken):
            ctx.tie_broken.append("wdriver could not be run on profile %s" % r["profile"])
        for d in r.get("aeng_mismatch", [])[:3]:
            ctx.tie_broken.append("correspondence AEng/Eng (%s): op=%r AEng=%r %s" % (r["profile"], d["op"], d["aeng"], d["eng"]))
        for d in r["diverging"][:3]:
            ctx.tie_broken.append("correspondence engine/%s: program %d line %d op=%r impl=%r model=%r" %
                                  (r["profile"], d["program"], d["line"], d["op"], d["impl"], d["model"]))
        seen_prog = set()
        for v in r["violations"]:
            if v["prop"] not in want:
                other_prop[v["prop"]] += 1
                continue
            qs = r["quirks"].get(v["program"], [])
            listed = [q for q in qs if q in known_for_prop]
            if qs and listed and r["driver_ok"] and not any(d["program"] == v["program"] for d in r["diverging"]):
                for q in listed:
                    known_hits.setdefault(q, {"count": 0, "example": None})
                    if v["program"] not in seen_prog:
                        known_hits[q]["count"] += 1
                    if known_hits[q]["example"] is None:
                        known_hits[q]["example"] = (r, v)
                seen_prog.add(v["program"])
            else:
                new_viol.append((r, v))
    # report known findings observed in this run (the witness programs in corpus/ are part of every run)
    for q, h in known_hits.items():
        kf = known_for_prop[q]
        ctx.known.append("KNOWN-FINDING: property=%s quirk=%s %s [observed in %d program(s) of this run, e.g. %s]" % (
            kf.get("property", ctx.prop), q, kf.get("what", ""), h["count"], h["example"][1]["msg"][:160]))
    # new violations -> shrink the first, write replays
    if new_viol:
        byprog = collections.OrderedDict()
        for r, v in new_viol:
            byprog.setdefault((id(r), v["program"]), (r, []))[1].append(v)
        for n, (key, (r, vs)) in enumerate(byprog.items()):
            if n >= 3:
                break
            lines = read_prog(r["dir"], vs[0]["program"])
            binp = bins[r["small"]]
            props = set(v["prop"] for v in vs)
            try:
                small_lines = shrink(binp, lines, ctx.scratch, props, False, budget=150 if n == 0 else 40)
            except Exception as ex:  # noqa
                small_lines = lines
            hdr = ["# property %s violated by the implementation (oracle on the real engine's outputs)" % ctx.prop,
                   "# profile=%s geometry=%s quirks_fired=%s" % (r["profile"], "small" if r["small"] else "real", r["quirks"].get(vs[0]["program"], []))]
            hdr += ["# line %d: %s" % (v["line"], v["msg"]) for v in vs[:6]]
            hdr.append("# replay: bin/check %s --replay <this file>   (shrunk from %d to %d lines)" % (ctx.prop, len(lines), len(small_lines)))
            path = write_replay(ctx, "prog%d" % n, "\n".join(hdr + small_lines) + "\n").replace(".txt", ".prog")
            os.rename(path.replace(".prog", ".txt"), path)
            ctx.violations.append((path, ""))
    samples = []
    for r in results[:3]:
        try:
            samples.append({"profile": r["profile"], "geometry": "small" if r["small"] else "real",
                            "program": read_prog(r["dir"], min(3, r["programs"] - 1))[:25]})
        except Exception:  # noqa
            pass
    ctx.cov.update({
        "programs": total_prog,
        "evaluations": total_ops,
        "distinct_nontrivial": nontrivial,
        "rule": what,
        "disagreements_checked": total_prog,
        "disagreements": sum(len(r["diverging"]) for r in results),
        "tolerated_divergences_in_unmodelled_finding_regions": sum(r["tolerated_divergences"] for r in results),
        "operations_also_run_on_entry_level_model_AEng": sum(r.get("aeng_ops", 0) for r in results),
        "AEng_mismatches": sum(len(r.get("aeng_mismatch", [])) for r in results),
        "profiles": [{"profile": r["profile"], "geometry": "small" if r["small"] else "real", "programs": r["programs"],
                      "input_distribution": r["stats"], "programs_with_quirk": dict(r["quirk_hist"]),
                      "oracle_violations_by_property": dict(collections.Counter(v["prop"] for v in r["violations"]))} for r in results],
        "oracle_violations_of_this_property_unexplained": len(new_viol),
        "oracle_violations_attributed_to_known_findings": {q: h["count"] for q, h in known_hits.items()},
        "oracle_violations_of_other_properties_seen": dict(other_prop),
        "samples": samples or ["(harness did not run)"],
        "search": {"programs": total_prog, "oracle_violations": len(new_viol)},
    })
    if extra_cov:
        ctx.cov.update(extra_cov)
    ctx.assumptions = assumptions
    finish(ctx, trusted_base=TRUSTED)


def do_replay(ctx, modules, oracle_props):
    """bin/check Cxx --replay file.prog"""
    translator(ctx)
    lean_build(ctx, modules)
    lines = [l for l in open(ctx.replay, encoding="utf-8").read().split("\n") if l and not l.startswith("#")]
    small = lines[0].split()[1] == "small"
    binp, err = cargo_build(ctx, "engine_harness", small=small)
    if binp is None:
        print(err)
        raise SystemExit(2)
    props, div, r = replay_once(binp, lines, ctx.scratch, set(oracle_props) | {"ANY"})
    for v in (r or {}).get("violations", []):
        print("oracle: %s line %d: %s" % (v["prop"], v["line"], v["msg"]))
    for d in (r or {}).get("diverging", []):
        print("model/implementation differ: line %d op=%r impl=%r model=%r" % (d["line"], d["op"], d["impl"], d["model"]))
    print("quirks fired: %s" % (r or {}).get("quirks", {}))
    if props:
        print("VIOLATION property=%s replay=%s" % (ctx.prop, ctx.replay))
        ctx.cleanup()
        raise SystemExit(1)
    ctx.cleanup()
    raise SystemExit(0)


ENGINE_ASSUME = [
    "sequential programs: one thread issues the operations (concurrency is C05's model)",
    "every I/O succeeds (fault injection is C04/C07's model)",
    "payload bytes are a PRF of the descriptor with every byte >= 0x80",
]


def check_c01(ctx):
    mods = ["WalrusVerif.Props.C01"]
    if ctx.replay:
        do_replay(ctx, mods, ["C01"])
    engine_check(ctx, mods,
                 [("seq", 500, 8000), ("budget", 200, 4000), ("peek", 150, 2000)],
                 ["C01"],
                 "random programs (12-60 ops + full drain) over 1-2 topics: appends/batches with sizes steered to the remaining "
                 "block space, 0-byte and multi-unit payloads, both read APIs interleaved, budgets 0..usize::MAX around entry/raw sizes, "
                 "StrictlyAtOnce and AtLeastOnce, FD(io_uring) and mmap; small geometry (4 KiB blocks, cap 5) and production geometry; "
                 "non-trivial = distinct program that rotated a block, reopened or had a rejected operation",
                 ENGINE_ASSUME, real_profiles=[("seq", 12, 120)])


def check_c03(ctx):
    mods = ["WalrusVerif.Props.C03"]
    if ctx.replay:
        do_replay(ctx, mods, ["C03"])
    engine_check(ctx, mods,
                 [("budget", 500, 8000), ("seq", 200, 3000), ("peek", 200, 3000)],
                 ["C03"],
                 "random programs with budget-directed batch reads: budgets in {0,1,s1-1,s1,s1+1,sum_k,sum_k+-1,raw_k,raw_k+{0,1,255,256,257},"
                 "usize::MAX,random} against upcoming entry sizes {0,1,5,127,128,129,...} and sizes steered to the remaining block space; "
                 "cursor at block start / mid-block / exact block end / tail; cap 5 (small geometry) reached with 6+ entries; offset-addressed reads; "
                 "non-trivial = distinct program that rotated a block, reopened or had a rejected operation",
                 ENGINE_ASSUME, real_profiles=[("budget", 10, 100)])


def check_c02(ctx):
    mods = ["WalrusVerif.Props.C02"]
    if ctx.replay:
        do_replay(ctx, mods, ["C02"])
    engine_check(ctx, mods,
                 [("peek", 500, 8000), ("seq", 150, 2000), ("reclaim", 120, 2000)],
                 ["C02"],
                 "random programs in which 45% of the reads are peeks and 35% of the batch reads are offset-addressed (offsets at every entry "
                 "boundary +-1, inside headers, inside payloads, beyond the end; checkpoint true and false) interleaved with appends and consuming "
                 "reads; every peek is checked against the FIFO oracle (= what the consuming read returns) and counts are queried throughout; "
                 "offset reads are checked to return suffixes of appended entries in append order; non-trivial as for C01",
                 ENGINE_ASSUME + ["which stored data the engine may reclaim is observed on the implementation through the tracker tuples (`trks`) and the reclaimer's "
                                  "victims (`reclaim`) in the `reclaim` profile, and compared with the model's after peeks and offset reads"],
                 real_profiles=[("peek", 10, 100)])


def check_c15(ctx):
    mods = ["WalrusVerif.Props.C15"]
    if ctx.replay:
        do_replay(ctx, mods, ["C15"])
    engine_check(ctx, mods,
                 [("seq", 400, 6000), ("reject", 250, 3000), ("restart", 300, 4000)],
                 ["C15"],
                 "random programs with `count` queried after ~10% of the operations and around every drain, over 2 topics, with rejected operations "
                 "(long topic names, over-cap and over-size batches, oversized entries, empty batches) and, in the restart profile, clean reopen / "
                 "process restart events (StrictlyAtOnce, monotone clock, single-unit entries); oracle: count = appended - consumed (durable "
                 "consumption after a restart); non-trivial as for C01",
                 ENGINE_ASSUME + ["the restart clause is decided by correspondence + oracle on the storage-level model Eng (recovery scan, count rebuild), "
                                  "not by a theorem"],
                 real_profiles=[("seq", 8, 80)])


def check_c17(ctx):
    mods = ["WalrusVerif.Props.C17"]
    if ctx.replay:
        do_replay(ctx, mods, ["C17"])
    engine_check(ctx, mods,
                 [("marks", 300, 6000), ("restart", 60, 1500), ("marksfree", 60, 800)],
                 ["C17"],
                 "random histories over 2 topics in which 45% of the operations are mark_topic_clean / mark_topic_dirty / topic_is_clean / a forced "
                 "pass of the background persister (held otherwise, so the 'reopen immediately, before the persister ran' delay is the default), "
                 "interleaved with appends, batches (also rejected ones), reads, clean close+open in one process and process restarts; oracle: "
                 "every topic_is_clean answer equals what the latest returned append/mark call prescribes (clean for untouched topics), across "
                 "any number of reopen events; profile `marksfree`: the persister runs on its own schedule while bursts of opposite marker changes hit the same "
                 "topics (a change may land while the marker file is being written), then clean shutdown/restart and topic_is_clean of every topic; "
                 "non-trivial = distinct program that rotated a block, reopened or had a rejected operation",
                 ENGINE_ASSUME + ["the persister thread is held by hook H3 and released only by the `persist` operation: every delay between the last "
                                  "call and the shutdown is represented by 'persister ran' / 'persister did not run'",
                                  "clean shutdown = the instance is dropped before the process ends (a killed process is C07/C09's crash model)"])


def check_c16(ctx):
    mods = ["WalrusVerif.Props.C16"]
    if ctx.replay:
        do_replay(ctx, mods, ["C16"])
    engine_check(ctx, mods,
                 [("backends", 250, 4000)],
                 ["C16"],
                 "every generated program is executed twice, once with the FD backend (io_uring batch writes/reads, pread/pwrite) and once with the mmap "
                 "backend, each in its own processes: appends, batches (1-6 entries, rotating blocks, multi-unit), rejected operations (long topic name, "
                 "over-cap, over-size, empty, > MAX_ALLOC), both read APIs, peeks, offset reads, clean reopen and process restarts; oracle: the two "
                 "output streams are equal line by line; each stream is also compared with the (backend-independent) model; non-trivial as for C01",
                 ENGINE_ASSUME + ["kernel behaviour (pread/mmap coherence, io_uring completion order) is exercised, not modelled: the model has one write path; "
                                  "C16_completion_order_irrelevant covers the one place where the FD path is allowed to differ (completion order of a batch)"],
                 real_profiles=[("backends", 6, 60)])


def check_c06(ctx):
    mods = ["WalrusVerif.Props.C06"]
    if ctx.replay:
        do_replay(ctx, mods, ["C06"])
    engine_check(ctx, mods,
                 [("restart", 350, 6000), ("restart_any", 250, 5000)],
                 ["C06"],
                 "restart histories over 2 topics: clean close+open in one process and process restarts (8% of the operations) interleaved with appends, "
                 "batches, both read APIs, peeks and counts, followed by a full drain. Profile `restart`: StrictlyAtOnce, monotone clock, single-unit "
                 "entries, no rejected operation - the region of theorem C06_restarts_invisible, in which the entry-level model AEngR is compared with "
                 "the storage-level model and the engine across every restart. Profile `restart_any`: also AtLeastOnce, rejected operations, multi-unit "
                 "entries and a wall clock stepping back between runs - the regions of the open findings, where violations must be explained by a "
                 "trigger that fired in the same program. Oracle: after any number of restarts the consumer sees the same stream, order, remaining "
                 "entries and counts (StrictlyAtOnce: exactly; AtLeastOnce: resumes at some position <= the in-memory one, nothing skipped); "
                 "non-trivial = distinct program that rotated a block, reopened or had a rejected operation",
                 ENGINE_ASSUME + ["clean shutdown: the instance is dropped before the process ends (kills are C07/C09)",
                                  "the recovery scan (startup_chore) is covered by the correspondence of Eng.openInst with the real engine, not by a theorem"],
                 real_profiles=[("restart", 8, 80)])


def check_c04(ctx):
    mods = ["WalrusVerif.Props.C04"]
    if ctx.replay:
        do_replay(ctx, mods, ["C04"])
    engine_check(ctx, mods,
                 [("faults", 350, 6000), ("reject", 250, 4000)],
                 ["C04"],
                 "profile `faults`: 22% of the appends/batches are preceded by an injected I/O fault (hook H1): failure of the entry write at position 0..5 of "
                 "the operation (a failed Block::write on the mmap path, a failed io_uring completion on the FD path; positions beyond the batch never fire) or, "
                 "on the FD path, a failed submission; batches of 1-6 entries steered to the remaining space of the block (so both single-block and rotating "
                 "batches fail), plus all rejection causes (long topic name, over the entry cap, over the byte limit, > MAX_ALLOC, empty batch) and restarts. "
                 "Profile `reject`: rejection causes only, 12% of the operations. Oracle: a failed or rejected operation appended nothing; every later read and "
                 "count (also after a restart) is that of the FIFO of the successful appends; a successful batch is delivered contiguously; "
                 "non-trivial = distinct program that rotated a block, reopened or had a rejected/failed operation",
                 ENGINE_ASSUME[:1] + ["injected faults are the hook's: an entry write reports failure without (mmap) or after (io_uring completion override) having been "
                                      "performed; real short writes of the kernel are not produced",
                                      "concurrent readers during a batch are C05's model"])


def check_c12(ctx):
    mods = ["WalrusVerif.Props.C12"]
    if ctx.replay:
        do_replay(ctx, mods, ["C12", "C06", "C15"])  # noqa
    engine_check(ctx, mods,
                 [("reclaim", 220, 4000)],
                 ["C12", "C06", "C15"],
                 "reclamation-heavy histories (50-140 operations + drain + final restart) over 3 topics in the small geometry (4 blocks per file: a file is fully "
                 "allocated after 4 block allocations), entries of a third of a block to a full block, consuming reads, peeks (25%), offset reads, repeated empty "
                 "polls at block ends, clean reopen and process restarts; after ~14% of the operations the harness observes the reclamation bookkeeping of the real "
                 "engine through hook H3 - `trks` (locked, checkpointed, total, fully-allocated of every WAL file), `reclaim` (the files the reclaimer's pass deletes; "
                 "deletion requests are captured and executed synchronously), `ls` (directory listing) - and compares them with the model's; oracle: FIFO/count oracle "
                 "across the restarts (an unconsumed entry that disappears with a deleted file shows as a lost entry after the next restart); "
                 "non-trivial = distinct program that rotated a block, reopened or had a rejected operation",
                 ENGINE_ASSUME + ["the reclaimer's 1000-tick period is replaced by a synchronous pass (hook H3: capture_deletions/run_reclaimer); its timing is not explored",
                                  "production geometry (100 blocks per 1 GiB file) is covered by the same model with the generated constants, not by runs of this check"])


CRASH_ASSUME = ENGINE_ASSUME[:1] + [
    "process-crash model: a completed syscall persists (tmpfs data directory; the child process is terminated by _exit(78) at the armed I/O event)",
    "crash points are the instrumented I/O events of hook H1 (entry writes, io_uring submission/completions, header zeroing, index/marker tmp write and rename, "
    "file creation); a kill between two instrumented events is equivalent to a kill at the later one; torn single writes are not produced",
]


def check_c07(ctx):
    mods = ["WalrusVerif.Props.C07"]
    if ctx.replay:
        do_replay(ctx, mods, ["C07", "C06", "C15"])
    engine_check(ctx, mods,
                 [("crashw", 350, 6000), ("crashr", 120, 2000)],
                 ["C07", "C06", "C15"],
                 "histories in which 18% of the appends/batches are executed with an armed crash point: the child process is terminated (_exit) immediately before "
                 "the n-th entry write of the operation (n = 0..4; sequential path: Block::write call n; io_uring path: while the completion of entry n is examined) "
                 "or before the io_uring submission; then a new process reopens the directory, queries the counts and the history continues (more appends, reads, "
                 "further crashes, clean restarts) down to a full drain; both backends, StrictlyAtOnce (so that the consumer position is exact and the recovered prefix of the interrupted operation is determined by the count); plus the read-crash profile. Oracle: every "
                 "acknowledged append is delivered in order and byte-identical, followed by at most a prefix of the operation in flight; open succeeds; "
                 "non-trivial = distinct program that rotated a block, reopened or had a rejected operation",
                 CRASH_ASSUME)


def check_c08(ctx):
    mods = ["WalrusVerif.Props.C08"]
    if ctx.replay:
        do_replay(ctx, mods, ["C08"])
    engine_check(ctx, mods,
                 [("crashw", 450, 8000), ("crashbig", 40, 400)],
                 ["C08"],
                 "the crash-inside-a-write histories of C07 (70% of the armed operations are batches of 1-6 entries steered to the remaining space of the block, so "
                 "batches spanning one and two blocks are interrupted at every entry position, on the sequential and on the io_uring path); oracle: at the first "
                 "count after the reopen the number of recovered entries of the interrupted batch is 0 or all of them - a strict non-empty prefix is the listed "
                 "finding batchNotCrashAtomic (sequential path), anything that is not a prefix is reported under C07; profile `crashbig`: batches up to the entry cap "
                 "(production geometry: up to 2000 entries, one io_uring submission) interrupted before the submission or at an entry write; "
                 "non-trivial = distinct program that rotated a block, reopened or had a rejected operation",
                 CRASH_ASSUME, real_profiles=[("crashbig", 6, 40)])


def check_c09(ctx):
    mods = ["WalrusVerif.Props.C09"]
    if ctx.replay:
        do_replay(ctx, mods, ["C09", "C06", "C15"])
    engine_check(ctx, mods,
                 [("crashr", 400, 6000), ("crashw", 100, 2000)],
                 ["C09", "C06", "C15"],
                 "histories in which 22% of the consuming reads (read_next and batch reads, sealed and tail positions, first entry into a tail block included) are "
                 "executed with an armed crash point: the child process is terminated immediately before the n-th index persist of the read (tmp write or rename, "
                 "n = 0..2); then a new process reopens the directory and the history continues down to a full drain; StrictlyAtOnce (60%) and AtLeastOnce{1..8}. "
                 "Oracle: StrictlyAtOnce - the position after the restart is the one before or after the read in flight, every other returned read stays consumed, "
                 "nothing later is skipped; AtLeastOnce - nothing is skipped (the redelivery bound persist_every is not checked); "
                 "non-trivial = distinct program that rotated a block, reopened or had a rejected operation",
                 CRASH_ASSUME)


def check_c11(ctx):
    """C11: FNV + header-bounds theorems; byte-level correspondence (checksum, header layout); mutation harness (oracle only)."""
    mods = ["WalrusVerif.Props.C11"]
    translator(ctx)
    banned_scan(ctx)
    lean_build(ctx, mods)
    if ctx.tier == "thorough" and not ctx.tie_broken:
        leanchecker(ctx, mods)
    binp, err = cargo_build(ctx, "engine_harness", small=True)
    nmut = 5000 if ctx.tier == "thorough" else 700
    cov = {}
    if binp is None:
        ctx.tie_broken.append(err)
    else:
        out = os.path.join(ctx.scratch, "mut")
        env = dict(ENV)
        env["VERIF_NPROG"] = str(nmut)
        rc, o, dt = run([binp, "mutate", out], env=env, timeout=3000)
        log("harness mutate: rc=%d (%.1fs)" % (rc, dt))
        if rc != 0:
            ctx.tie_broken.append("mutation harness failed: %s" % o[-300:])
        else:
            stats = json.load(open(os.path.join(out, "stats.json")))
            # byte-level correspondence: checksum64 and the header layout
            ndiff = 0
            nreq = 0
            for name in ("fnv", "hdr"):
                ops = os.path.join(out, name + "_ops.txt")
                imp = os.path.join(out, name + "_impl.txt")
                mod = os.path.join(out, name + "_model.txt")
                ok = False
                if os.path.exists(WDRIVER):
                    with open(ops, "rb") as fi, open(mod, "wb") as fo:
                        ok = subprocess.run([WDRIVER], stdin=fi, stdout=fo).returncode == 0
                if not ok:
                    ctx.tie_broken.append("wdriver could not be run on the %s requests" % name)
                    continue
                a = open(imp).read().split("\n")
                b = open(mod).read().split("\n")
                o_ = open(ops).read().split("\n")
                nreq += len([x for x in o_ if x])
                for i, (x, y) in enumerate(zip(a, b)):
                    if x != y:
                        ndiff += 1
                        if ndiff <= 3:
                            ctx.tie_broken.append("correspondence %s: request %r implementation=%r model=%r" % (name, o_[i][:80], x, y))
            # oracle on the damaged directories
            vio = [l.split("\t") for l in open(os.path.join(out, "violations.txt")).read().split("\n") if l]
            samples = []
            for l in open(os.path.join(out, "mutations.tsv")).read().split("\n")[6:12]:
                f = l.split("\t")
                if len(f) >= 5:
                    samples.append({"mutation": f[2], "backend": f[1], "process": f[3], "outputs": f[4][:300]})
            if vio:
                body = ["# property C11 violated by the implementation: damaged directory, fresh process", "# columns: mutation number, backend, mutation, what happened"]
                body += ["\t".join(v) for v in vio[:40]]
                body.append("# re-run: harness/target-small/release/engine_harness mutate <outdir> with VERIF_SEED=%d VERIF_NPROG=%d" % (ctx.seed, nmut))
                path = write_replay(ctx, "mutations", "\n".join(body) + "\n")
                ctx.violations.append((path, ""))
            control = [l for l in open(os.path.join(out, "mutations.tsv")).read().split("\n")[:6] if "control" in l]
            cov = {
                "evaluations": stats.get("mutations", 0),
                "distinct_nontrivial": sum(v for k, v in stats.items() if k.startswith("mut_") and "control" not in k),
                "rule": "each case = an engine-produced directory (6 bases: fd/mmap x 3 workloads with rotation, batches, consumed positions, markers) with ONE "
                        "seeded damage: WAL bit flip / byte overwrite / zeroed range / 0xff range aimed at meta_len, archived metadata, header starts, size+checksum "
                        "fields or anywhere in the used region; truncation of a WAL file (0, inside data, block boundary, near the end); bit flip / truncation / zeroed "
                        "range / byte near the root / random replacement of the cursor index or the marker file; stray .tmp, text, digit-named file or directory. "
                        "Opened in a fresh process that queries counts and markers, reads both topics dry through read_next / batch / offset reads and appends again. "
                        "non-trivial = every mutated (non-control) case; distinct by construction (position/seed differ)",
                "samples": samples or ["(none)"],
                "mutation_histogram": stats,
                "control_runs": len(control),
                "byte_level_requests_compared": nreq,
                "byte_level_disagreements": ndiff,
                "programs": stats.get("mutations", 0),
                "disagreements_checked": nreq,
                "oracle_violations": len(vio),
                "search": {"mutations": stats.get("mutations", 0), "oracle_violations": len(vio)},
            }
    ctx.cov.update(cov)
    ctx.cov.setdefault("samples", ["(harness did not run)"])
    ctx.assumptions = ["memory safety is observed through the exit status / panics of the fresh process, not proved",
                       "one damage per directory; the damage model is the listed mutation kinds",
                       "payload identity: a returned payload must equal (or be a suffix of, for offset reads) a payload appended to that topic"]
    finish(ctx, trusted_base=TRUSTED + ["rkyv's validator (check_archived_root) is trusted to implement the position checks modelled in Model/Header.lean"])


def check_c13(ctx):
    mods = ["WalrusVerif.Props.C13"]
    if ctx.replay:
        do_replay(ctx, mods, ["C13"])
    engine_check(ctx, mods,
                 [("twoinst", 260, 4000)],
                 ["C13", "C06", "C15", "C12"],
                 "two instances in ONE process on two data directories (operations prefixed with `B` address the second), both using the same topic names: "
                 "every append, batch, read (both APIs, peeks), count is addressed to A or B at random; tracker tuples and directory listings of both directories "
                 "and the reclaimer's pass are observed after ~10% of the operations; clean reopen of both, process restart; small geometry (4 blocks per file, so "
                 "files of both instances become fully allocated and reclaimable); each instance has its own FIFO/count oracle (its stream, order, counts must be "
                 "those of its own appends and reads only, also after the restart); non-trivial = distinct program that rotated a block, reopened or had a rejected operation",
                 ENGINE_ASSUME + ["the two instances are driven from one thread (interleaving at operation granularity)",
                                  "different data directories; the 'keys that sanitize differently' half of the premise is C14's theorem"])


def abstract_trace(path):
    """recorded I/O trace of one program -> (event tokens for the driver's `dur` command, positions of the operations)"""
    fid, osync, toks, notes = {}, {}, [], []
    nid, nver = [0], [0]
    cur_op, cur_writes, cur_renames, cur_inst_sync = None, [], [], False
    sync_inst = None   # which instance ("A"/"B") runs under SyncEach
    for l in open(path, errors="replace").read().split("\n"):
        if l.startswith("OP "):
            _, idx, rest = l.split(" ", 2)
            t = rest.split()
            inst = "B" if t[0] == "B" else "A"
            t = t[1:] if t[0] == "B" else t
            cur_op = (int(idx), inst, t)
            cur_writes, cur_renames = [], []
            if t[0] == "opensync":
                sync_inst = inst
        elif l.startswith("EV "):
            e = l[3:].split()
            if e[0] == "open":
                osync[e[1]] = e[2] == "osync=1"
            elif e[0] in ("swrite", "uwrite"):
                f = fid.setdefault(e[1], len(fid))
                nid[0] += 1
                toks.append("w:%d:%d:%d" % (f, nid[0], 1 if osync.get(e[1]) else 0))
                cur_writes.append(nid[0])
            elif e[0] == "syncfile":
                toks.append("s:%d" % fid.setdefault(e[1], len(fid)))
            elif e[0] == "create":
                toks.append("c:%d" % fid.setdefault(e[1], len(fid)))
            elif e[0] == "syncdir":
                toks.append("d")
            elif e[0] == "idxrename":
                nver[0] += 1
                toks.append("r:%d" % nver[0])
                cur_renames.append(nver[0])
        elif l.startswith("RET ") and cur_op is not None:
            ret = l[4:]
            idx, inst, t = cur_op
            if inst == sync_inst:
                if t[0] in ("append", "batch") and ret == "ok":
                    for w in cur_writes:
                        toks.append("a:%d" % w)
                        notes.append((len(toks) - 1, "line %d `%s`" % (idx, " ".join(t))))
                consuming = (t[0] == "next" and t[2] == "1" and ret != "none" and not ret.startswith("err")) or \
                            (t[0] == "bread" and t[3] == "1" and t[4] == "-" and ret not in ("[]",) and ret.startswith("["))
                if consuming and cur_renames:
                    toks.append("k:%d" % cur_renames[-1])
                    notes.append((len(toks) - 1, "line %d `%s`" % (idx, " ".join(t))))
            cur_op = None
    return toks, dict(notes)


def check_c10(ctx):
    """C10: theorems about I/O event traces under power loss; the recorded traces of the real engine under SyncEach are
    decided by the model's executable checkers (driver command `dur`)."""
    mods = ["WalrusVerif.Props.C10"]
    translator(ctx)
    banned_scan(ctx)
    lean_build(ctx, mods)
    if ctx.tier == "thorough" and not ctx.tie_broken:
        leanchecker(ctx, mods)
    known_open, _ = load_known_findings()
    known = {k["quirk"]: k for k in known_open if k.get("property") == "C10" and "quirk" in k}
    nprog = 1500 if ctx.tier == "thorough" else 160
    total, nwrites, nacks, nreads, bad_ack, bad_read, samples = 0, 0, 0, 0, [], 0, []
    for small in (True, False):
        binp, err = cargo_build(ctx, "engine_harness", small=small)
        if binp is None:
            ctx.tie_broken.append(err)
            continue
        out = os.path.join(ctx.scratch, "durable-%s" % ("small" if small else "real"))
        env = dict(ENV)
        env["VERIF_NPROG"] = str(nprog if small else max(4, nprog // 40))
        rc, o, dt = run([binp, "gen", "durable", out, "/nonexistent-corpus"], env=env, timeout=3000)
        log("harness gen durable [%s]: rc=%d (%.1fs)" % ("small" if small else "real", rc, dt))
        if rc != 0:
            ctx.tie_broken.append("harness gen durable failed: %s" % o[-300:])
            continue
        tdir = os.path.join(out, "traces")
        files = sorted(os.listdir(tdir)) if os.path.isdir(tdir) else []
        reqs, metas = [], []
        for f in files:
            toks, notes = abstract_trace(os.path.join(tdir, f))
            reqs.append("dur " + " ".join(toks))
            metas.append((f, toks, notes))
        rq = os.path.join(out, "dur_ops.txt")
        open(rq, "w").write("\n".join(reqs) + "\n")
        mo = os.path.join(out, "dur_model.txt")
        ok = False
        if os.path.exists(WDRIVER):
            with open(rq, "rb") as fi, open(mo, "wb") as fo:
                ok = subprocess.run([WDRIVER], stdin=fi, stdout=fo).returncode == 0
        if not ok:
            ctx.tie_broken.append("wdriver could not be run on the recorded traces")
            continue
        for (f, toks, notes), rep in zip(metas, open(mo).read().split("\n")):
            total += 1
            nwrites += sum(1 for t in toks if t.startswith("w:"))
            nacks += sum(1 for t in toks if t.startswith("a:"))
            nreads += sum(1 for t in toks if t.startswith("k:"))
            m = re.match(r"ack=(\S+) read=(\S+)", rep)
            if not m:
                ctx.tie_broken.append("driver reply %r for trace %s" % (rep[:80], f))
                continue
            if len(samples) < 3:
                samples.append({"geometry": "small" if small else "real", "trace": " ".join(toks[:60]), "verdict": rep})
            if m.group(1) != "ok":
                pos = int(m.group(1).split("@")[1])
                bad_ack.append((small, out, f, pos, notes.get(pos, "?"), toks))
            if m.group(2) != "ok":
                bad_read += 1
    for (small, out, f, pos, what, toks) in bad_ack[:3]:
        k = f.split(".")[0]
        prog = open(os.path.join(out, "programs", "%s.prog" % k)).read()
        body = ["# property C10 violated by the implementation: an append acknowledged under FsyncSchedule::SyncEach whose entry write is not durable",
                "# at the moment of the acknowledgement (no O_SYNC descriptor, no sync of that file after the write, or the file's creation not followed by a directory sync)",
                "# acknowledgement: %s (event %d of the abstract trace below)" % (what, pos),
                "# abstract trace (c create, s file sync, d dir sync, w:file:id:osync write, a ack, r index rename, k read returned):",
                "# " + " ".join(toks[:max(pos + 3, 40)]),
                "# program (%s geometry); recorded events: %s" % ("small" if small else "real", os.path.join(out, "traces", f))]
        path = write_replay(ctx, "trace%s" % k, "\n".join(body) + "\n" + prog).replace(".txt", ".prog")
        os.rename(path.replace(".prog", ".txt"), path)
        ctx.violations.append((path, ""))
    if bad_read:
        if "indexRenameNotDurable" in known:
            ctx.known.append("KNOWN-FINDING: property=C10 quirk=indexRenameNotDurable %s [observed in %d of %d recorded traces of this run]" % (
                known["indexRenameNotDurable"].get("what", ""), bad_read, total))
        else:
            path = write_replay(ctx, "readtrace", "consuming reads returned before the index rename was made durable in %d traces\n" % bad_read)
            ctx.violations.append((path, ""))
    ctx.cov.update({
        "programs": total, "evaluations": nwrites + nacks + nreads, "distinct_nontrivial": total,
        "rule": "each case = the recorded I/O event trace (hook H1) of one program run by the real engine with FsyncSchedule::SyncEach: appends and batches on both "
                "backends with block rotation and file roll-over, consuming reads (StrictlyAtOnce); in 40% of the programs a NoFsync instance is constructed first in the "
                "same process (the storage layer's O_SYNC decision is process-wide). The driver decides AckDisciplined / ReadDisciplined with the executable checkers of "
                "Model/Durable.lean (sound by C10_checker_sound); non-trivial = every trace (all contain acknowledged writes)",
        "entry_writes": nwrites, "acknowledgements_checked": nacks, "consuming_reads_checked": nreads,
        "traces_with_undurable_ack": len(bad_ack), "traces_with_undurable_consumption": bad_read,
        "disagreements_checked": total, "samples": samples or ["(none)"],
        "search": {"traces": total, "undurable_acks": len(bad_ack)},
    })
    ctx.assumptions = ["power-loss model of the statement: synced data and directory entries are kept, anything else may be lost; what a real disk keeps is not observed",
                       "completeness of the recorded trace: every write/sync/creation/rename of the engine goes through the instrumented sites (storage layer, io_uring batch path, paths.rs, index.rs)",
                       "the background fsync thread and the marker file are not part of the checked discipline"]
    finish(ctx, trusted_base=TRUSTED + ["hook H1 event recording and the trace abstraction in bin/props_engine.py (abstract_trace)"])


def check_c05(ctx):
    """C05: theorem relative to atomic calls + real-thread stress harness restricted to the calls that are atomic."""
    mods = ["WalrusVerif.Props.C05"]
    translator(ctx)
    banned_scan(ctx)
    lean_build(ctx, mods)
    if ctx.tier == "thorough" and not ctx.tie_broken:
        leanchecker(ctx, mods)
    known_open, _ = load_known_findings()
    known = {k["quirk"]: k for k in known_open if k.get("property") == "C05" and "quirk" in k}
    binp, err = cargo_build(ctx, "engine_harness", small=True)
    n = 600 if ctx.tier == "thorough" else 70
    rows, vio, kf = [], [], 0
    if binp is None:
        ctx.tie_broken.append(err)
    else:
        out = os.path.join(ctx.scratch, "conc")
        env = dict(ENV)
        env["VERIF_NPROG"] = str(n)
        rc, o, dt = run([binp, "conc", out], env=env, timeout=3000)
        log("harness conc: rc=%d (%.1fs)" % (rc, dt))
        if rc != 0:
            ctx.tie_broken.append("concurrency harness failed: %s" % o[-300:])
        else:
            for l in open(os.path.join(out, "conc.tsv")).read().split("\n"):
                f = l.split("\t")
                if len(f) < 6:
                    continue
                rows.append(f)
                broken = f[4] != "ok" or "VIOLATION" in f[5]
                if f[1] == "readnext":
                    if broken:
                        kf += 1
                elif broken:
                    vio.append(f)
    if kf and "tailReadersShareSnapshot" in known:
        ctx.known.append("KNOWN-FINDING: property=C05 quirk=tailReadersShareSnapshot %s [observed in %d scenario run(s) of this run]" % (known["tailReadersShareSnapshot"].get("what", ""), kf))
    elif kf:
        vio.extend([r for r in rows if r[1] == "readnext" and (r[4] != "ok" or "VIOLATION" in r[5])])
    if vio:
        body = ["# property C05 violated by the implementation: real threads, calls that hold their locks from start to commit",
                "# columns: scenario number, scenario, consistency mode, backend, how the process ended, result and violations",
                "# re-run one: harness/target-small/release/engine_harness concrun <scenario> <seed*1000+number> <datadir> <outfile> <mode> <backend>  (seed %d)" % ctx.seed]
        body += ["\t".join(v) for v in vio[:20]]
        path = write_replay(ctx, "conc", "\n".join(body) + "\n")
        ctx.violations.append((path, ""))
    hist = collections.Counter(r[1] for r in rows)
    ctx.cov.update({
        "evaluations": len(rows), "distinct_nontrivial": len([r for r in rows if r[1] != "readnext"]),
        "rule": "each case = one scenario in its own process with 2-4 real threads on the real engine (small geometry, StrictlyAtOnce or AtLeastOnce{1..8}, fd or mmap): "
                "`producers` - concurrent single and batch appends to one shared topic (a concurrent batch is rejected with WouldBlock and retried), then one consumer drains; "
                "`first` - 40 fresh topics, the first appends of 2-4 threads released together by a spin barrier; `consumers` - 200-500 preloaded entries (sealed blocks + tail), "
                "2-4 concurrent consuming batch readers with random budgets; oracle: every acknowledged entry delivered exactly once, per-producer order, batch contiguity, "
                "per-consumer order. `readnext` (1 in 10) exercises the window of the open finding tailReadersShareSnapshot. non-trivial = every non-readnext scenario; "
                "distinct by seed",
        "scenarios": dict(hist), "violations_outside_known_windows": len(vio), "known_window_observed": kf,
        "samples": [{"scenario": r[1], "mode": r[2], "backend": r[3], "result": r[5][:200]} for r in rows[:4]] or ["(none)"],
        "programs": len(rows), "disagreements_checked": len(rows),
        "search": {"scenarios": len(rows), "violations": len(vio)},
    })
    ctx.assumptions = ["atomicity of append / batch_append / cursor batch read is read off the code (locks held from start to commit), not proved",
                       "real scheduling and memory ordering are exercised by the stress runs, not enumerated; no scheduling hooks (H4) exist",
                       "readers overlapping a block rotation of a concurrent writer, and concurrent read_next, are outside the stress scenarios (open windows)"]
    finish(ctx, trusted_base=TRUSTED)
