"""C21: octopii's Raft log store (WalLogStore + peer address records) over its write-ahead log.

The harness (harness/octo) compiles, from /repo, octopii/src/wal/mod.rs with octopii's vendored engine copy, and the
WalLogStore / MemLogStoreInner / peer-record code sliced verbatim out of octopii/src/openraft/{storage,node}.rs by
build.rs; openraft's types, tokio and bincode are stand-ins.  One child process per program segment."""
import json
import os
import random
import subprocess
import time

from checklib import (VERIF, WDRIVER, log, run, finish, lean_build, leanchecker, cargo_build, translator,
                      banned_scan, write_replay, load_known_findings, ENV)

CORPUS = os.path.join(VERIF, "corpus")


# ---------------------------------------------------------------------------------------------- generator

def gen_store_program(rng, profile):
    """A program for the log store.  Returns list of lines."""
    lines = ["open"]
    nreopen = {"single": rng.choice([0, 1, 1, 1]), "multi": rng.randint(2, 5), "kill": rng.randint(1, 4), "huge": 1}[profile]
    # a "single" program may reopen several times as long as nothing was written before the last-but-one open
    empty_reopens = rng.randint(0, 2) if profile == "single" else 0
    for _ in range(empty_reopens):
        lines += [rng.choice(["restart", "kill", "close"]), "open"]
        if rng.random() < 0.5:
            lines.append("state")
    nxt = 1
    term = 1
    purged = 0
    segs = nreopen + 1
    big = profile == "multi" and rng.random() < 0.15
    for s in range(segs):
        nops = rng.randint(1, 9)
        for _ in range(nops):
            r = rng.random()
            if r < 0.42:
                k = rng.randint(1, 4)
                ents = []
                for _ in range(k):
                    ln = rng.choice([0, 1, 7, 64, 300, 2000]) if not big else rng.choice([0, 5, 4000, 60000])
                    if profile == "huge":      # several 10 MiB blocks of the engine, and more than one 10 MiB read batch
                        ln = rng.choice([3000000, 100, 6000000, 0])
                    ents.append("%d:%d:%d" % (nxt, term, ln))
                    nxt += 1
                lines.append("append " + " ".join(ents))
            elif r < 0.52:
                if nxt > purged + 1:
                    at = rng.randint(purged + 1, nxt - 1)
                    term += 1
                    lines.append("truncate %d:%d" % (at, rng.randint(1, term)))
                    nxt = at
            elif r < 0.62:
                if rng.random() < 0.8:
                    hi = max(purged, min(nxt - 1, purged + rng.randint(0, 3)))
                    lines.append("purge %d:%d" % (hi, term))
                    purged = max(purged, hi)
                    nxt = max(nxt, purged + 1)
                else:  # a purge that may move backwards (the store asserts)
                    lines.append("purge %d:%d" % (rng.randint(0, max(purged, 1)), rng.randint(1, term)))
            elif r < 0.72:
                if rng.random() < 0.5:
                    term += 1
                lines.append("vote %d:%d:%d" % (term, rng.randint(1, 3), rng.randint(0, 1)))
            elif r < 0.80:
                lines.append("committed " + ("none" if rng.random() < 0.15 else "%d:%d" % (rng.randint(0, nxt), rng.randint(1, term))))
            elif r < 0.92:
                lines.append("peer %d %d" % (rng.randint(1, 4), rng.choice([5001, 5002, 5003, 6001, 6002])))
            else:
                lines.append("state")
        if rng.random() < 0.6:
            lines.append("state")
        if s < segs - 1:
            if profile == "kill":
                lines.append("kill")
            else:
                lines.append(rng.choice(["restart", "restart", "kill", "close"]))
            if rng.random() < 0.08:
                lines.append("state")          # operation on a closed store
            lines.append("open")
            lines.append("state")
    lines.append("state")
    return lines


def gen_faulty_program(rng):
    """Write failures of the log underneath (disk full, I/O error) during store operations, then the restart such an
    error forces (a storage error is fatal to the Raft instance).  Model: LogStore.stepFault."""
    lines = ["open"]
    nxt, term = 1, 1
    pending = None          # countdown of Raft-log record writes until the armed failure
    ppending = None         # the same for the peer log
    known_peers = {}
    fired = False
    for _ in range(rng.randint(2, 9)):
        if pending is None and ppending is None and rng.random() < 0.4:
            if rng.random() < 0.85:
                pending = rng.randint(0, 6)
                lines.append("fault %d" % pending)
            else:
                ppending = rng.randint(0, 1)
                lines.append("fault peer %d" % ppending)
        r = rng.random()
        recs = 1
        if r < 0.55:
            k = rng.randint(1, 5)
            ents = []
            for _ in range(k):
                ents.append("%d:%d:%d" % (nxt, term, rng.choice([0, 1, 7, 64, 300])))
                nxt += 1
            recs = k
            lines.append("append " + " ".join(ents))
        elif r < 0.68:
            term += 1
            lines.append("vote %d:%d:%d" % (term, rng.randint(1, 3), rng.randint(0, 1)))
        elif r < 0.80:
            lines.append("committed %d:%d" % (rng.randint(0, nxt), term))
        elif r < 0.88 and nxt > 1:
            at = rng.randint(1, nxt - 1)
            term += 1
            lines.append("truncate %d:%d" % (at, term))
            nxt = at
        else:
            recs = 0
            pid, port = rng.randint(1, 4), rng.choice([5001, 5002, 6001])
            lines.append("peer %d %d" % (pid, port))
            if known_peers.get(pid) != port:
                if ppending is not None:
                    if ppending == 0:
                        fired = True
                    else:
                        ppending -= 1
                if not fired:
                    known_peers[pid] = port
        if pending is not None and recs > 0:
            if pending < recs:
                fired = True
            else:
                pending -= recs
        if fired:
            if rng.random() < 0.4:
                lines.append("state")      # the memory of the failed process: not judged by the oracle, compared with the model
            break
    lines += [rng.choice(["kill", "restart"]), "open", "state"]
    return lines


def gen_wrapper_program(rng):
    """The bare wrapper, used the way the store uses it: `read_all` only straight after opening an instance (the
    vendored engine copy loses entries appended after a non-empty read of the writer's own block when the log is
    reopened; neither WalLogStore nor the peer map ever reads after appending, see DESIGN.md)."""
    lines = []
    n = 0
    for _ in range(rng.randint(2, 7)):
        lines.append("wopen")
        for _ in range(rng.choice([0, 1, 1, 2])):
            lines.append("wreadall")
        for _ in range(rng.randint(0, 6)):
            n += 1
            lines.append("wappend %d:%d" % (rng.choice([1, 2, 9, 100, 1000, 5000]), n))
        r = rng.random()
        if r < 0.7:
            lines.append(rng.choice(["restart", "kill"]))
        elif r < 0.85:
            lines.append("wclose")
            if rng.random() < 0.3:
                lines.append("wreadall")
    lines += ["wopen", "wreadall", "wreadall"]
    return lines


# ---------------------------------------------------------------------------------------------- execution

def run_impl(binp, scratch, lines, tag):
    d = os.path.join(scratch, "d-" + tag)
    subprocess.call(["rm", "-rf", d])
    os.makedirs(d)
    prog = os.path.join(scratch, "prog-" + tag)
    outp = os.path.join(scratch, "out-" + tag)
    with open(prog, "w") as f:
        f.write("\n".join(lines) + "\n")
    if os.path.exists(outp):
        os.remove(outp)
    start = 0
    status = "ok"
    for _ in range(len(lines) + 2):
        try:
            p = subprocess.run([binp, "exec", d, prog, outp, str(start)], stdout=subprocess.DEVNULL, stderr=subprocess.DEVNULL, timeout=120)
        except subprocess.TimeoutExpired:
            status = "timeout"
            break
        done = len(open(outp).read().split("\n")) - 1 if os.path.exists(outp) else 0
        if p.returncode == 77:
            start = done
            continue
        if p.returncode != 0:
            status = "died rc=%d" % p.returncode
        break
    out = open(outp).read().split("\n")[:-1] if os.path.exists(outp) else []
    subprocess.call(["rm", "-rf", d])
    return out, status


def run_model(scratch, programs):
    """All programs through one wdriver process; returns per program (outputs, quirk_lines)."""
    ops = os.path.join(scratch, "ls_ops.txt")
    outp = os.path.join(scratch, "ls_model.txt")
    with open(ops, "w") as f:
        for lines in programs:
            f.write("ls reset\n")
            for l in lines:
                f.write("ls " + l + "\n")
    with open(ops, "rb") as fi, open(outp, "wb") as fo:
        ok = os.path.exists(WDRIVER) and subprocess.run([WDRIVER], stdin=fi, stdout=fo).returncode == 0
    if not ok:
        return None
    raw = open(outp).read().split("\n")
    res = []
    i = 0
    for lines in programs:
        i += 1  # reply to reset
        outs, quirks = [], []
        for k in range(len(lines)):
            while i < len(raw) and raw[i].startswith("#quirk"):
                quirks.append((k, raw[i].split()[1]))
                i += 1
            outs.append(raw[i] if i < len(raw) else "<missing>")
            i += 1
        res.append((outs, quirks))
    return res


# ---------------------------------------------------------------------------------------------- oracle

class AckOracle:
    """The acknowledged state, kept independently of the model: what the operations that returned success did."""

    def __init__(self):
        self.log = {}
        self.vote = None
        self.committed = None
        self.purged = None
        self.peers = {}
        self.open = False
        self.failed = False       # an operation of this process returned the injected write error
        self.armed = False        # an injected write failure is pending
        self.maybe = []           # acceptable reports after a failed operation (its records up to the failing one may be in the log)

    def fmt(self, extra=None):
        def sid(x):
            return "-" if x is None else "%d:%d" % x
        ents = sorted({**self.log, **(extra or {})}.items())
        last = (ents[-1][0], ents[-1][1][0]) if ents else self.purged
        return "purged=%s last=%s vote=%s committed=%s log=[%s] peers=[%s]" % (
            sid(self.purged), sid(last), "-" if self.vote is None else "%d:%d:%d" % self.vote, sid(self.committed),
            ",".join("%d:%d:%d" % (i, t, n) for i, (t, n) in ents),
            ",".join("%d:%d" % kv for kv in sorted(self.peers.items())))

    def apply(self, line, out):
        """Returns None, or a description of a violated expectation."""
        t = line.split()
        if t[0] in ("restart", "kill", "close"):
            self.open = False
            self.failed = False
            self.armed = False
            return None
        if t[0] == "open":
            self.open = out == "ok"
            return None if out == "ok" else "open failed: %s" % out
        if not self.open:
            return None
        # an append is acknowledged when it returns success OR when it signalled the flush callback (what openraft acts on)
        acked = out.startswith("ok") or "flushed=1" in out
        if t[0] == "fault":
            self.armed = True
            return None
        if t[0] == "state":
            exp = self.fmt()
            if self.failed:
                return None        # the memory of a process whose store returned a write error (openraft has shut it down)
            if out in self.maybe:
                return None
            return None if out == exp else "reopened/open store reports\n    %s\n  acknowledged state is\n    %s" % (out, exp)
        if not acked and self.armed:
            # the injected failure: nothing acknowledged; the records written before the failing one may be found later
            self.armed = False
            self.failed = True
            if t[0] == "append":
                extra = {}
                for e in t[1:]:
                    i, tm, n = (int(x) for x in e.split(":"))
                    extra[i] = (tm, n)
                    self.maybe.append(self.fmt(extra))
            return None
        if not acked:
            if out == "panic" and t[0] == "purge":
                return None      # the store refused: nothing acknowledged
            return "operation failed: %s -> %s" % (line, out)
        if t[0] == "append":
            for e in t[1:]:
                i, tm, n = (int(x) for x in e.split(":"))
                self.log[i] = (tm, n)
            if out.startswith("err"):
                return ("append signalled the flush callback (the acknowledgement openraft acts on: the leader counts this node towards the quorum) "
                        "although a record write failed - acknowledged entries are not in the log: %s" % out)
            if out != "ok flushed=1":
                return "append acknowledged without signalling the flush callback exactly once: %s" % out
        elif t[0] == "truncate":
            i = int(t[1].split(":")[0])
            for k in [k for k in self.log if k >= i]:
                del self.log[k]
        elif t[0] == "purge":
            i, tm = (int(x) for x in t[1].split(":"))
            for k in [k for k in self.log if k <= i]:
                del self.log[k]
            self.purged = (i, tm)
        elif t[0] == "vote":
            self.vote = tuple(int(x) for x in t[1].split(":"))
        elif t[0] == "committed":
            self.committed = None if t[1] == "none" else tuple(int(x) for x in t[1].split(":"))
        elif t[0] == "peer":
            self.peers[int(t[1])] = int(t[2])
        return None


def oracle_store(lines, outs):
    o = AckOracle()
    for k, line in enumerate(lines):
        if k >= len(outs):
            return k, "no output (process died)"
        v = o.apply(line, outs[k])
        if v:
            return k, v
    return None


def violates(binp, scratch, lines, tag):
    outs, status = run_impl(binp, scratch, lines, tag)
    if status != "ok":
        return True
    return oracle_store(lines, outs) is not None


def shrink(binp, scratch, lines, tag, budget=120):
    cur = list(lines)
    changed = True
    while changed and budget > 0:
        changed = False
        i = 1
        while i < len(cur) and budget > 0:
            cand = cur[:i] + cur[i + 1:]
            budget -= 1
            if violates(binp, scratch, cand, tag):
                cur = cand
                changed = True
            else:
                i += 1
    return cur


# ---------------------------------------------------------------------------------------------- the check

def check_c21(ctx):
    mods = ["WalrusVerif.Props.C21"]
    translator(ctx)
    banned_scan(ctx)
    lean_build(ctx, mods)
    if ctx.tier == "thorough" and not ctx.tie_broken:
        leanchecker(ctx, mods)
    binp, err = cargo_build(ctx, "octo_harness")
    known_open, _ = load_known_findings()
    known = {k.get("quirk"): k for k in known_open if k.get("property") == "C21"}
    cov = {}
    if binp is None:
        ctx.tie_broken.append(err + " (the slices of octopii/src/openraft/storage.rs / node.rs or octopii/src/wal no longer compile "
                              "over the stand-in types: correspondence cannot be run)")
    else:
        rng = random.Random(ctx.seed * 7919 + 21)
        thorough = ctx.tier == "thorough"
        counts = {"single": 500 if thorough else 70, "multi": 500 if thorough else 70, "kill": 200 if thorough else 30,
                  "wrapper": 300 if thorough else 40}
        programs = []
        # corpus first
        for fn in sorted(os.listdir(CORPUS)):
            if fn.endswith(".oprog"):
                ls = [l for l in open(os.path.join(CORPUS, fn)).read().split("\n") if l and not l.startswith("#")]
                programs.append(("corpus:" + fn, ls))
        counts["huge"] = 12 if thorough else 6
        for prof in ("single", "multi", "kill", "huge"):
            for _ in range(counts[prof]):
                programs.append((prof, gen_store_program(rng, prof)))
        for _ in range(counts["wrapper"]):
            programs.append(("wrapper", gen_wrapper_program(rng)))
        for _ in range(300 if thorough else 50):
            programs.append(("faulty", gen_faulty_program(rng)))
        nomodel = set()
        model = run_model(ctx.scratch, [p for prof, p in programs])
        if model is None:
            ctx.tie_broken.append("wdriver could not be run on the log-store programs")
        # implementations, in parallel
        from concurrent.futures import ThreadPoolExecutor
        t0 = time.time()
        with ThreadPoolExecutor(max_workers=12) as ex:
            impl = list(ex.map(lambda ip: run_impl(binp, ctx.scratch, ip[1][1], "p%d" % ip[0]), enumerate(programs)))
        log("ran %d programs on the real store in %.1fs" % (len(programs), time.time() - t0))
        ndis = 0
        nvio = 0
        nkf = 0
        kf_example = None
        hist = {"programs": len(programs), "ops": 0, "reopens": 0, "kills": 0, "states_checked": 0, "purge_refused": 0,
                "closed_ops": 0, "programs_with_2plus_reopens": 0, "quirk_fired": 0}
        ophist = {}
        samples = []
        seen = set()
        nontrivial = 0
        for idx, ((prof, lines), (outs, status)) in enumerate(zip(programs, impl)):
            hist["ops"] += len(lines)
            ro = sum(1 for l in lines[1:] if l in ("open", "wopen"))
            hist["reopens"] += ro
            hist["kills"] += lines.count("kill")
            hist["programs_with_2plus_reopens"] += 1 if ro >= 2 else 0
            hist["states_checked"] += lines.count("state")
            hist["purge_refused"] += outs.count("panic")
            hist["closed_ops"] += outs.count("err:closed")
            hist["injected_write_errors"] = hist.get("injected_write_errors", 0) + outs.count("err")
            for l in lines:
                ophist[l.split()[0]] = ophist.get(l.split()[0], 0) + 1
            key = "\n".join(lines)
            if ro >= 1 and key not in seen:
                nontrivial += 1
            seen.add(key)
            if len(samples) < 4 and prof in ("single", "multi") and idx % 37 == 5:
                samples.append({"profile": prof, "program": lines[:14], "outputs": outs[:14]})
            mouts, quirks = model[idx] if (model and idx not in nomodel) else (None, [])
            if quirks:
                hist["quirk_fired"] += 1
            dis = None
            if status != "ok":
                dis = (len(outs), "process %s" % status, "")
            elif mouts is not None:
                for k in range(len(lines)):
                    a = outs[k] if k < len(outs) else "<missing>"
                    if a != mouts[k]:
                        dis = (k, a, mouts[k])
                        break
            vio = oracle_store(lines, outs) if prof != "wrapper" else None
            if status != "ok" and vio is None:
                vio = (len(outs), "process %s" % status)
            if vio is not None:
                k, what = vio
                fired = [q for (qk, q) in quirks if qk <= k]
                if dis is None and "readAllConsumes" in fired and "readAllConsumes" in known:
                    nkf += 1
                    kf_example = kf_example or " / ".join(lines[:k + 1][-8:])
                    continue
                nvio += 1
                if nvio <= 3:
                    small = shrink(binp, ctx.scratch, lines, "shrink%d" % idx) if status == "ok" else lines
                    souts, _ = run_impl(binp, ctx.scratch, small, "shrunk%d" % idx)
                    sv = oracle_store(small, souts)
                    body = ["# property C21 violated by the implementation (oracle: acknowledged state), profile %s" % prof,
                            "# replay: harness/target/release/octo_harness exec <empty dir> <this file> <out> 0   (re-run with the number of output lines after each exit status 77)",
                            "# shrunk program:"] + small + ["# outputs:"] + ["#   " + o for o in souts]
                    body += ["# violated at line %d: %s" % (sv[0] + 1, sv[1])] if sv else []
                    body += ["# original program:"] + ["#   " + l for l in lines] + ["# violation: line %d: %s" % (k + 1, what)]
                    if dis:
                        body += ["# the model disagrees here too: line %d implementation=%r model=%r" % (dis[0] + 1, dis[1], dis[2])]
                    ctx.violations.append((write_replay(ctx, "store", "\n".join(body) + "\n"), ""))
            elif dis is not None:
                ndis += 1
                if ndis <= 3:
                    ctx.tie_broken.append("correspondence (%s): line %d %r implementation=%r model=%r; program: %s" % (
                        prof, dis[0] + 1, lines[dis[0]] if dis[0] < len(lines) else "?", dis[1], dis[2], " / ".join(lines[:dis[0] + 1][-10:])))
        if nkf and "readAllConsumes" in known:
            ctx.known.append("KNOWN-FINDING: property=C21 quirk=readAllConsumes %s [observed in %d program(s) of this run, e.g. %s]" % (
                known["readAllConsumes"].get("what", ""), nkf, kf_example))
        cov = {
            "evaluations": len(programs),
            "distinct_nontrivial": nontrivial,
            "rule": "one case = one program run on the real WalLogStore/peer records/WriteAheadLog (fresh directory, one child process per segment) AND on the "
                    "Lean model (LogStore.step), outputs compared line by line; oracle = independently tracked acknowledged state compared with every `state` "
                    "report. profiles: single (at most one reopen after data, plus reopens of an empty store), huge (the same with 3-6 MB entries: several engine blocks and read batches), multi (2-5 reopens, clean and killed), kill "
                    "(killed processes only), wrapper (bare WriteAheadLog append/read_all/reopen), faulty (a record write of the log underneath fails inside an append / vote / committed / peer "
                    "operation, the process is restarted: compared with LogStore.stepFault line by line, and judged by the acknowledged-state oracle). non-trivial = distinct program with at least one reopen",
            "programs": len(programs),
            "histogram": hist,
            "operations": ophist,
            "samples": samples or ["(none)"],
            "model_disagreements": ndis,
            "oracle_violations_unlisted": nvio,
            "oracle_violations_known": nkf,
            "search": {"programs": len(programs), "oracle_violations": nvio + nkf},
        }
    ctx.cov.update(cov)
    ctx.cov.setdefault("samples", ["(harness did not run)"])
    ctx.assumptions = [
        "process restarts (clean drop / kill -9 style _exit) only: machine crashes with lost page cache are not modelled for octopii's vendored engine copy",
        "the node id of every LogId is fixed to 1; entry payloads are Blank or Normal(bytes); membership entries do not occur",
        "peer addresses are recorded through OpenRaftNode::persist_peer_addr_if_needed (node.rs:324-338, sliced and compiled over a three-field stand-in for "
        "OpenRaftNode); the same rule in the node constructor (node.rs:150-157) is not exercised",
        "the log stays below the engine's 10 MiB read budget per batch except in the `big` programs of the thorough tier",
    ]
    finish(ctx, level="proof", trusted_base=[
        "Lean 4 kernel; axioms of the C21 theorems as listed (subset of propext, Classical.choice, Quot.sound)",
        "harness/octo/build.rs: textual slicer of storage.rs / node.rs (anchors must be found, or the build fails and the tie is reported broken)",
        "harness/octo/src/raftshim.rs: stand-in for openraft's LogId/Vote/Entry/LogState/IOFlushed and the RaftLogStorage/RaftLogReader traits "
        "(the real crate cannot be built offline); harness/shims/{tokio,bincode}",
        "modelled, not verified: octopii's vendored engine copy below WriteAheadLog is modelled as a list with a persisted consumed-count; "
        "the correspondence runs compare that model with the real engine copy on every program",
        "the Python acknowledged-state oracle in bin/props_octo.py",
    ])
