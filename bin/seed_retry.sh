#!/bin/bash
# usage: seed_retry.sh [<seed id> ...]   -- re-run the quick check of each seed's property against the seed (default: all seeds).
# Reports seeds whose patch no longer applies to /repo's current tree (they need a rebase: keep patch_original.diff).
cd "$(dirname "$0")/.."
seeds="$@"; [ -z "$seeds" ] && seeds=$(ls -d seeded/C??-? | xargs -n1 basename)
for s in $seeds; do
  p=${s%-*}
  [ -f seeded/$s/patch.diff ] || continue
  if ! git -C /repo apply --check "$PWD/seeded/$s/patch.diff" 2>/dev/null; then echo "$s: PATCH DOES NOT APPLY"; continue; fi
  bin/seed_try.sh seeded/$s $p 2>&1 | grep -E "^==" | head -1
done
