#!/usr/bin/env python3
"""Regenerates MANIFEST.json from the table below (kept in one place so it is always valid)."""
import json, os, subprocess
V = os.path.dirname(os.path.dirname(os.path.abspath(__file__)))
BASE_NOTE = ("Trusted: Lean 4.33 kernel (axioms propext, Classical.choice, Quot.sound only; audited per theorem; no native_decide/"
             "bv_decide/sorry/own axioms), the translator's regexes, the correspondence harness (generator coverage, "
             "canonicalisation), the Lean compiler for the wdriver executable. ")
CHECKS = {
 "C14": dict(text="Full-strength theorem C14 (every key string, arbitrary data dir): the instance directory is the resolved data dir "
             "plus exactly one proper component. Model regenerated constants (character class, fallback, excluded names) from "
             "config.rs on every run; executable model compared with the real sanitize_namespace on ~42k keys (exhaustive short "
             "strings + random Unicode) and the real builder on 9 keys.",
             note=BASE_NOTE + "Modelled, not verified: PathBuf::push and kernel path resolution (lexical component model), symlinks.",
             tech="Lean 4 proof (case analysis on the character map) + translator + differential correspondence", ref="§6 C14"),
 "C25": dict(text="Full-strength theorems C25_roundtrip / C25_injective for every topic string and every u64 segment; format pieces "
             "regenerated from controller/types.rs; executable model compared with the real wal_key/parse_wal_key "
             "(types.rs compiled into the harness by #[path]) on ~170k requests including malformed keys.",
             note=BASE_NOTE + "Modelled by hand: str::rsplitn, strip_prefix, parse::<u64>, u64 Display.",
             tech="Lean 4 proof (induction on the key prefix; decimal round-trip) + translator + differential correspondence", ref="§6 C25"),
 "C18": dict(text="Theorems C18_inv / C18_inv_bytes / C18_sealed_immutable / C18_counters_in_range / C18_rejected_unchanged: for command "
             "(and raw byte) sequences of any length over any topics and nodes, segments are numbered 1..current with one leader each, "
             "the open leader is the topic leader, sealed history is immutable, offset = sum of sealed counts, no u64 counter overflows. "
             "Model = Meta.applyCmd/applyBytes; executable model compared with the real Metadata::apply (metadata.rs compiled by #[path]) "
             "on all sequences of depth 4 over a 13-command alphabet + random long sequences + corrupted encodings; independent oracle on "
             "the implementation's state after every command.",
             note=BASE_NOTE + "bincode and octopii are stand-ins (harness/shims): undecodable-byte handling is compared against the stand-in decoder, "
             "not the real bincode crate. HashMap order canonicalised. Full strength after fix 2d34e24 (checked_add).",
             tech="Lean 4 proof (inductive invariant over command lists) + differential correspondence + oracle", ref="§6 C18"),
 "C03": dict(text="C03_batchRead / C03_run / C03_cap / C03_budget: for EVERY state, disk content, budget, flag and start offset (no invariant "
             "needed) a batch read returns at most cap entries (2000 from the generated constants) and payload <= budget unless it returns "
             "exactly one entry; lifted to every bread output of every program. C03_progress: in every reachable state of the entry-level "
             "model an unconsumed entry implies a non-empty result (planner: first range covers the first entry; parser: first entry always accepted). Executable model (Eng.batchRead) compared "
             "with the real engine on ~900 programs per quick run, both geometries.",
             note=BASE_NOTE + "Sequential model (one thread); every I/O succeeds; rkyv header encoding and pread/io_uring/mmap modelled as cells. "
             "C03_progress (entry-level model AEng, every reachable state): an unconsumed entry implies a non-empty result, for every budget incl. 0.",
             tech="Lean 4 proof (parser invariant by induction, any plan) + translator + differential correspondence + oracle", ref="§6 C03"),
 "C24": dict(text="C24_sync (any concatenation of frames, any announced lengths and bodies, any UTF-8 decoder: exactly one response per frame, "
             "in order, each computed from that frame's own bytes), C24_bad_length/C24_bad_utf8/C24_unknown_command (malformed frames are "
             "answered with the error and leave the backend unchanged), C24_roundtrip + C24_trim_preserves (PUT then GET returns the payload "
             "unchanged; trailing whitespace of the command line is not payload). client.rs compiled by #[path] against a tokio stand-in and a "
             "FIFO mock controller; executable model compared on 2500 scripted connections + raw streams + the whitespace class.",
             note=BASE_NOTE + "tokio, the node controller and String::from_utf8 are stand-ins/parameters (harness/shims/tokio, mock FIFO, abstract dec). "
             "Full strength after fix 7eacd09 (oversized frame body drained).",
             tech="Lean 4 proof (induction over the frame list; split/trim lemmas) + differential correspondence + oracle", ref="§6 C24"),
 "C20": dict(text="C20_restore_snapshot / C20_stays_equal / C20_order_irrelevant / C20_bad_snapshot_rejected: the application's snapshot/restore "
             "(bincode encoding of ClusterState modelled byte for byte) round-trips every state whose numbers fit u64, then stays equal under any "
             "further commands, whatever the hash-map iteration order. The adapter half of the statement is FALSE on this tree: "
             "C20_counterexample_adapterSnapshotsEmptyMap (+ C20_adapter_diverges) — known finding, replayed through the real Metadata::restore "
             "on every run; C20_adapter_model_tied re-checks the translator facts about storage.rs. The model takes snapshot and apply as atomic; the harness probes that "
             "assumption on the real Metadata: ~25 000 snapshots per run taken while another thread applies 20 000 commands, each restored and required to be a state the sender went through "
             "(implementation against oracle; not a theorem).",
             note=BASE_NOTE + "bincode/octopii stand-ins; the adapter file itself cannot be built offline (openraft/tokio missing) and is tied by "
             "translator facts only. Partial: the adapter clause is a recorded finding, not a theorem that holds.",
             tech="Lean 4 proof (encode/decode round trip by structural induction) + translator facts + differential correspondence + oracle", ref="§6 C20"),
 "C01": dict(text="C01_refines: EVERY history (any length, any number of topics, any payload sizes incl. empty and multi-block, any budgets, both read "
             "APIs interleaved, peeks, offset reads, rejected operations) of the entry-level engine model AEng is a history of the FIFO specification "
             "`accepts` (Spec/Queue.lean): appends extend the log, read_next returns the oldest unconsumed entry, a batch read returns a non-empty "
             "prefix of the unconsumed entries, nothing is skipped, returned twice or reordered. Proved by an inductive per-topic invariant "
             "(cursor encodings denote one consumed index), planner lemmas (ranges contiguous on entry boundaries, tail only after fully planned "
             "chain, first range covers the first entry) and parser lemmas (longest admissible contiguous prefix). AEng and the storage-level model "
             "Eng are both executed by the driver on every generated program and compared with the real engine (both geometries, both backends, "
             "both consistency modes).",
             note=BASE_NOTE + "Scope of the theorem: one process lifetime (restart = C06), sequential callers (C05), every I/O succeeds (C04/C07), single entries "
             "<= MAX_ALLOC (finding sealThenAllocFail beyond, repaired: larger entries are rejected before any state changes). AEng abstracts files/allocator/trackers/index (they are in Eng); the AEng<->Eng<->implementation "
             "tie is the correspondence run, not a theorem. Payload bytes are opaque values (byte-identity = same value returned).",
             tech="Lean 4 proof (refinement of a FIFO spec by induction over operation sequences) + translator + differential correspondence + oracle", ref="§6 C01"),
 "C02": dict(text="C02_batch_peek_equals_consume / C02_next_peek_equals_consume (a peek returns what the consuming read returns), "
             "C02_batch_peek_later_outputs / C02_offset_read_later_outputs (inserting a batch peek or an offset-addressed read, checkpoint true or false, "
             "anywhere in any history changes no later output), C02_next_peek_neutral (log, consumed index, count unchanged), "
             "C02_batch_peek_reclaim_neutral (storage-level: files and reclamation trackers untouched). Partial: the third sentence (offset reads "
             "return suffixes of appended entries in order) is decided by the oracle on the implementation only; read_next peeks that step over an "
             "exhausted block mark it consumed in the reclamation bookkeeping (not observed on the implementation yet).",
             note=BASE_NOTE + "Same scope as C01 (one process lifetime, sequential). Reclamation neutrality is a model-level theorem; no tracker hook observes it on the real code yet.",
             tech="Lean 4 proof (state-equivalence congruence of step; unfolding) + differential correspondence + oracle", ref="§6 C02"),
 "C15": dict(text="C15_inprocess: after ANY operation sequence (any topics, rejected operations, both read APIs, peeks, offset reads) `count` reports "
             "(entries of successful appends) - (entries returned by consuming reads), both computed from the history itself; C15_peeks_not_counted. "
             "Restart clause: C15_with_restarts - for every history with clean StrictlyAtOnce restarts anywhere in it (restart model AEngR, friendly region), count = appended - consumed "
             "read off the history with the restarts removed (acceptsR_strip: a history accepted with restarts is accepted without them). The recovery scan + count rebuild themselves are tied by "
             "correspondence (Eng vs the real engine) and the oracle on restart histories; violations in the regions of the open findings emptyBlockAllocated / scanStopsAtEmptyBlock / clockRegressionReordersFiles "
             "are reported as KNOWN-FINDING (sealThenAllocFail is repaired).",
             note=BASE_NOTE + "Theorems on the entry-level models AEng / AEngR (tied by correspondence); the restart theorem covers clean restarts in StrictlyAtOnce within the region where no recovery finding fires; AtLeastOnce and killed restarts by oracle only.",
             tech="Lean 4 proof (corollary of the FIFO refinement, induction over histories) + differential correspondence + oracle", ref="§6 C15"),
 "C17": dict(text="Full-strength theorem C17_markers over the storage-level model Eng: along ANY history of engine operations (appends and batches incl. rejected "
             "ones, mark_topic_clean/dirty, both read APIs, reclamation, clock changes, clean close+open and process restarts at any point, the background "
             "persister running at any point or never) every topic_is_clean answer equals what the latest returned append/mark call on that topic prescribes. "
             "Proved by an invariant relating the live tracker / the marker file to the expected state, with frame lemmas for the whole write and read path. "
             "Executable model compared with the real engine on ~360 marker-heavy histories per quick run (persister held by hook, released only by `persist`), "
             "independent oracle on the implementation's answers.",
             note=BASE_NOTE + "Sequential callers; a killed process is outside the statement (clean shutdown). rkyv encoding of the marker file and fs::rename are modelled as a map update. "
             "Full strength after fixes c8a8099 + 0bd3aa7 (markers flushed on drop).",
             tech="Lean 4 proof (inductive invariant over operation histories + frame lemmas) + differential correspondence + oracle", ref="§6 C17"),
 "C16": dict(text="Partial. Theorems: C16_completion_order_irrelevant (the completed writes of a batch whose byte ranges are pairwise disjoint leave the same "
             "entries in every file whatever order the kernel completes them in - the one degree of freedom the io_uring path has over the sequential mmap path), "
             "C16_plan_ranges_disjoint_in_block (entries planned back to back into a block are pairwise disjoint), batch_writes_are_applyAll (ties the statement to "
             "the model's writerBatchWrite). Everything else is decided by the double correspondence: every generated program (appends, batches, rejected "
             "operations, both read APIs, peeks, offset reads, clean reopen, process restarts; both geometries) is executed once per backend in separate "
             "processes; the two output streams must be equal line by line and each must equal the backend-independent model's. About one program in twenty is a long backlog "
             "(66-105 one-block entries on one topic, then batch reads with an unlimited budget: more planned ranges than any small fixed-size submission ring holds).",
             note=BASE_NOTE + "The model has one write path and one read path (the decisions are shared code in writer.rs / walrus_read.rs); kernel behaviour "
             "(pread/mmap coherence, io_uring ordering, short reads) is exercised by the runs, not modelled. Sequential callers, no injected faults.",
             tech="Lean 4 proof (commutation of disjoint writes up to permutation, induction over List.Perm) + double differential correspondence (fd vs mmap vs model)", ref="§6 C16"),
 "C06": dict(text="Partial. Theorem C06_restarts_invisible (entry-level model AEngR = AEng + clean restart): every history of appends, batches, both read APIs, peeks, "
             "offset reads and counts with ANY number of restart events at ANY positions is a history of the FIFO specification in which a restart is a no-op "
             "(nothing lost, redelivered or reordered; counts unchanged), StrictlyAtOnce, any payload sizes, any geometry; C06_restart_keeps_topic, "
             "C06_next_after_restart, C06_batch_after_restart for every reachable state. The restart transformation of AEngR is tied to startup_chore (scan, "
             "synthetic ids, index hydration) by the correspondence: Eng.openInst and the real engine run the same ~600 restart histories per quick run and must "
             "agree with AEngR operation by operation across every restart. C06_walk_recovers_laid_block (storage-level model: the entry walk of the recovery scan over one block returns exactly the entries laid out back to back in it and their extent, whatever else "
             "the file holds), C06_scan_recovers_laid_file (the scan of a file in which blocks lie back to back - each sized by its first entry, entries back to back, unallocated space after the last - registers "
             "exactly those blocks in file order with consecutive ids, exact `used` and entry counts, and stops), C06_friendly_appends_are_recovered / C06_friendly_append_programs_are_recovered / C06_friendly_programs_are_recovered (end to end on the storage-level model; the latter two on programs of Eng.step starting from what `open` on an empty directory produces, the last with reads of both APIs, counts, single-entry batch appends - the call the data plane makes - and general batches of one-unit entries (lemmas plan_friendly / batch_friendly / layout_placeAll / diskInv_batch) anywhere in the program: from an instance on a fresh file, "
             "any sequence of successful single-entry appends to any topics - ordinary names, entries of at most one unit, within one file - leaves a file whose scan registers blocks that hold, topic by topic and in order, "
             "exactly the appended entries: invariant DiskInv (blocks back to back, no stray cell, every writer on the last block of its topic) preserved by appendForTopic, lemma append_friendly). C06_recovered_chains: the reader chain of every topic then lists exactly that topic's blocks, in file order, with exact extents. Not proved: batches that fail or are rolled back, "
             "multi-unit entries, file roll-over, faults on the write side, the listing/sorting of files and the cursor hydration of `open` (there the tie is the correspondence); AtLeastOnce restarts (oracle only). False on this "
             "tree in three regions, reported as KNOWN-FINDING with corpus witnesses: emptyBlockAllocated, scanStopsAtEmptyBlock, clockRegressionReordersFiles "
             "(the statement's 'any wall-clock behaviour'); a fourth, sealThenAllocFail, is repaired.",
             note=BASE_NOTE + "Scope of the theorem: histories on which no trigger of the four open findings fires (friendlyFrom, monotone clock, entries <= MAX_ALLOC), StrictlyAtOnce, "
             "sequential callers, clean shutdown. The driver stops comparing AEngR at the first trigger; from there on only Eng (which reproduces the defects) is compared.",
             tech="Lean 4 proof (refinement of the FIFO spec extended with restart events; induction over histories) + differential correspondence across restarts + oracle", ref="§6 C06"),
 "C04": dict(text="Partial. Theorems (entry-level model, every reachable state / every history): C04_rejected_append_keeps_topic, C04_rejected_batch_keeps_topic (a rejected "
             "append/batch leaves log, consumed index, count and invariant untouched), C04_rejected_invisible_in_histories (every history is a FIFO history of its successful "
             "appends alone), C04_batch_contiguous. Storage-level model with injected I/O faults: C04_failed_batch_in_block (a failed batch that stays inside the writer's "
             "block leaves writer, chains, index, counts, trackers as they were). FALSE for batches that rotated a block while planning: "
             "C04_counterexample_rollbackKeepsNewBlock (open finding, replayed on the real engine on every run). Correspondence: ~600 programs per quick run with injected "
             "failures of entry writes / io_uring completions / submission at every position of 1-6 entry batches, all rejection causes, restarts; independent oracle.",
             note=BASE_NOTE + "Faults are injected by hook H1 (cfg walrus_verif): the mmap path fails before the write, the io_uring path overrides the completion result after the write. "
             "The 'after a restart' clause is decided by correspondence/oracle (open findings emptyBlockAllocated, scanStopsAtEmptyBlock); > MAX_ALLOC entries are rejected up front since the sealThenAllocFail repair. "
             "Concurrent observers of a batch in flight are C05. After rollbackKeepsNewBlock fired, implementation/model divergences (panic in `limit - offset`) are tolerated and counted.",
             tech="Lean 4 proof (corollaries of the FIFO refinement; unfolding of the batch write path under an injected fault) + fault-injection correspondence + oracle", ref="§6 C04"),
 "C07": dict(text="Partial. Crash model: `kill` (death between operations) and `crashAt kind n fd op` (death inside op, immediately before its n-th I/O event; hook H1 performs _exit at exactly "
             "those points on the real engine). Theorems: C07_crash_in_append_touches_no_entry (old WAL files untouched, at most new empty files, whether or not the append had rotated / rolled "
             "over), C07_crash_in_read_touches_no_entry, C07_kill_touches_no_entry; C07_friendly_appends_survive_crash_in_append (with C06_friendly_appends_are_recovered: after any sequence of successful single-entry appends of one-unit entries within one "
             "file, a death inside the next append leaves a file whose recovery scan registers exactly the acknowledged entries, topic by topic, in order). Beyond that regime, that startup_chore finds every entry "
             "that is on disk is decided by correspondence + oracle: ~470 "
             "histories per quick run with the process killed inside appends/batches at every entry write (io_uring: before submission and at the completions), both backends, then reopen, "
             "counts, more operations, full drain; the model's post-crash disk and recovery must agree with the real engine operation by operation.",
             note=BASE_NOTE + "Process-crash model of the statement (completed syscalls persist; tmpfs). Crash points are the instrumented I/O events; torn single writes are not produced. "
             "False in the regions of the open findings emptyBlockAllocated / scanStopsAtEmptyBlock (acknowledged entries behind an allocated-but-empty block are not recovered) and those of C06.",
             tech="Lean 4 proof (frame lemmas of the write and read path under an injected process death) + crash-point correspondence (real _exit at I/O events) + oracle", ref="§6 C07"),
 "C08": dict(text="FALSE on this tree (open finding batchNotCrashAtomic): C08_counterexample_prefix, replayed on the real engine on every run (sequential write path, _exit before the second Block::write). "
             "Proved instead: C08_partial_prefix_only (what reaches the disk is a prefix of the write plan on both paths, never an arbitrary subset), C08_partial_single_entry_atomic, "
             "C08_partial_uring_points (at the hook's io_uring crash points the batch is recovered entirely or not at all). The check prints the listed finding and reports anything that is not "
             "explained by it (a non-prefix subset, a prefix on the io_uring path) as a new violation.",
             note=BASE_NOTE + "A kernel-level kill between two completed SQEs of one io_uring submission cannot be placed by the hook (runtime truth). Same crash model as C07.",
             tech="Lean 4 proof (counterexample by kernel evaluation; prefix/atomicity lemmas of the crash model) + crash-point correspondence + oracle", ref="§6 C08"),
 "C09": dict(text="Partial. Theorems: C09_crash_in_read_keeps_every_wal_file (a death inside read_next / a batch read at any I/O boundary can move the position but never lose, alter or add an entry), "
             "C09_read_next_persists_only_its_own_position + C09_other_topics_untouched (the index after the crash is the old index with a prefix of the read's own <= 2 persists applied: other "
             "topics untouched, no later position can appear). Which entry the recovered position denotes after startup_chore is decided by correspondence + oracle: ~500 histories per quick run "
             "with the process killed inside consuming reads at every index-persist boundary (tmp write, rename), StrictlyAtOnce and AtLeastOnce{1..8}, sealed and tail positions. "
             "AtLeastOnce bound at the level of the persist counter: C09_alo_counter_bounded, C09_alo_persists_every_n_reads (among any persist_every consecutive consuming read_next calls one persists).",
             note=BASE_NOTE + "Not decided: the AtLeastOnce redelivery bound (persist_every) - the oracle only checks that nothing is skipped. False in the regions of the open findings "
             "emptyBlockAllocated, scanStopsAtEmptyBlock, cursorsNotStableAcrossDeletion, clockRegressionReordersFiles. Same crash model as C07.",
             tech="Lean 4 proof (index-persist log of the read path; frame lemmas) + crash-point correspondence (real _exit at index persists) + oracle", ref="§6 C09"),
 "C12": dict(text="Partial. Theorems on the reclamation bookkeeping (Model/Alloc.lean, carried through every operation of Eng): C12_enqueue_only_when_counters_say_so, C12_checkpoint_counts_once "
             "(idempotence: the defect repaired by fdf7990), C12_peeks_do_not_mark, C12_reclaim_deletes_only_queued. What ties the counters to 'every entry of the file is consumed' over all "
             "histories is decided by correspondence: tracker tuples of every WAL file (trks), the reclaimer's victims (reclaim) and the directory listing (ls) of the real engine are compared with "
             "the model's throughout ~220 reclamation-heavy histories per quick run (4-block files, 3 topics, peeks, offset reads, empty polls, restarts) + FIFO oracle across restarts. FALSE for the "
             "clause 'or after a restart': C12_counterexample_cursorsNotStableAcrossDeletion (open finding, replayed on the real engine on every run).",
             note=BASE_NOTE + "The reclaimer's 1000-tick period is replaced by a synchronous pass (hook H3). Production geometry (100 blocks per file) is covered by the model with the generated constants, not by runs. "
             "AtLeastOnce durability of consumption (aloNotDurable) is not examined.",
             tech="Lean 4 proof (tracker algebra lemmas; counterexample by kernel evaluation) + differential correspondence on tracker tuples / reclaimer victims + oracle", ref="§6 C12"),
 "C11": dict(text="Partial. Theorems: C11_fnv_single_byte / C11_bit_flip_detected (every corruption confined to one payload byte, in particular every bit flip, changes the FNV-1a checksum, "
             "payloads of any length), C11_detects_or_collides (multi-byte damage: detected or a checksum collision - stated, not hidden), C11_validated_header_stays_in_buffer (a header "
             "that passes the validation the code now performs is decoded without touching a byte outside the buffer), C11_encoder_output_is_validated (every header the engine writes passes it), "
             "C11_guard_alone_insufficient (the meta_len guard that was the only check before the fixes admits out-of-buffer reads). Byte-level correspondence: checksum64 on 400 byte strings and "
             "the header layout for 22 topic-name lengths read back from real WAL files. That the real engine never panics, aborts, hangs or returns a foreign payload is decided by the mutation "
             "harness: ~700 damaged directories per quick run (5000 thorough), each opened and read dry in a fresh process.",
             note=BASE_NOTE + "Memory safety is observed (exit status / panics of the process), not proved; rkyv's validator is trusted. One damage per directory. Full on the mutation harness only after "
             "fixes e6ef503 (headers validated, entry size bounded by its block), fd40a0b (index and marker files validated), 5e725a7 (recovery bounded by the file length): on the pinned tree 67 of 400 "
             "damaged directories crashed the open (panic, SIGSEGV, SIGABRT).",
             tech="Lean 4 proof (FNV step bijectivity; position arithmetic of header decoding) + byte-level correspondence + mutation harness (oracle)", ref="§6 C11"),
 "C13": dict(text="Partial. Model: two instances of one process on two directories sharing the process-global trackers, deletion queue and LAST_MILLIS. Theorems: C13_other_instance_untouched / "
             "C13_second_instance_does_not_move_the_first (an operation addressed to one instance - appends, batches, faulted ones, both read APIs, counts, markers, persister, open, close, "
             "reclaim - leaves the other instance's chains, cursors, writers, index, counts, markers exactly as they were, in both directions). FALSE for the reclamation clause: "
             "C13_counterexample_blockIdCollision (open finding; replayed on the real engine on every run: B's consumption makes A's unread file reclaimable, A's entries are lost after the "
             "restart). Correspondence: ~260 two-instance histories per quick run (same topic names in both, random addressing, tracker tuples and listings of both directories, reclaimer, "
             "reopen, restart), one FIFO/count oracle per instance.",
             note=BASE_NOTE + "Instances are driven from one thread (operation-granularity interleaving). The premise 'keys sanitize differently' is C14. The fsync-schedule 'first instance wins' "
             "global (durability, C10) is not modelled. A candidate repair (tracker keyed by file + block id) touches four files and was not judged small.",
             tech="Lean 4 proof (frame lemmas over every operation for the other instance's state; counterexample by kernel evaluation) + two-instance differential correspondence + per-instance oracle", ref="§6 C13"),
 "C10": dict(text="Partial. The statement is about I/O event traces and what a power loss keeps of them (Model/Durable.lean). Theorems, for traces of any length and every power-loss point: "
             "C10_acked_appends_durable (a trace that follows the append discipline - entry write synced by O_SYNC or a later sync of that file before the acknowledgement, file creation followed by a "
             "directory sync - keeps the write of every acknowledged entry durable at every later point), C10_acked_consumption_durable, C10_durable_monotone, C10_checker_sound (the executable "
             "checkers the driver runs are sound for the two disciplines); C10_counterexample_renameWithoutDirSync = the index persist of the pinned tree (rename without directory sync: finding "
             "indexRenameNotDurable, seen in every recorded trace with a consuming read, repaired by fix 5288e6e - every recorded trace is read-disciplined now). Tie: hook H1 records every storage write (with the O_SYNC status of its descriptor), io_uring write, file sync, "
             "file creation, directory sync, index sync/rename of the real engine under SyncEach (~170 programs per quick run, both backends, rotation, roll-over, a NoFsync instance constructed "
             "first in 40% of them); the driver decides the disciplines on each recorded trace.",
             note=BASE_NOTE + "What a real disk keeps is assumed (the statement's own power-loss model), not observed; no post-power-loss directory is reconstructed and reopened. Completeness of the "
             "trace depends on the instrumented sites. The write path is not modelled here: the tie is a property of recorded traces, decided by the model's executable definitions.",
             tech="Lean 4 proof (durability of disciplined event traces at every power-loss point; sound executable checker) + recorded-trace checking on the real engine", ref="§6 C10"),
 "C05": dict(text="Partial: the statement relative to atomicity. Theorems: C05_every_interleaving_is_fifo (EVERY interleaving - any number of threads, any lengths, any topics - of operation lists whose "
             "calls take effect atomically is a history of the FIFO specification: every appended entry delivered by exactly one consuming read, in order, batches contiguous), "
             "C05_per_thread_order_preserved (an interleaving keeps each thread's own order). Which calls are atomic is read off the code (append, batch append, cursor batch read hold their locks "
             "from start to commit; read_next does not: open finding tailReadersShareSnapshot, reproduced; two rotation windows read in the source). Correspondence: real-thread stress harness "
             "restricted to the atomic calls - concurrent producers with single and batch appends on a shared topic, first appends of several threads to fresh topics released together, "
             "concurrent consuming batch readers over sealed + tail data, StrictlyAtOnce and AtLeastOnce, both backends; oracle: exactly-once, per-producer order, batch contiguity.",
             note=BASE_NOTE + "No scheduling hooks (H4): real scheduling and memory ordering are exercised, not enumerated; a race that needs a rare schedule can be missed by a run. Readers overlapping a "
             "rotating writer and concurrent read_next are outside the stress scenarios (the known windows); the theorem says nothing about executions that enter them.",
             tech="Lean 4 proof (every interleaving of atomic operations refines the FIFO spec; induction over the interleaving) + real-thread stress correspondence + oracle", ref="§6 C05"),
 "C19": dict(text="Partial, and the thinnest claim of this manifest: what is proved and tied to the code is octopii's side of the property - the adapter between openraft's apply driver and the application "
             "(MemStateMachine::apply, storage.rs:315-347, with KvStateMachine below it). openraft's core (replication, elections, commit, which entries reach the adapter and when) is NOT modelled, NOT run "
             "(the crate cannot be built offline) and appears in the theorems as an explicit hypothesis: each node is fed, per process lifetime, a prefix of one agreed committed sequence G. Model: Model/Adapter.lean "
             "(applyOne/applyAll/applyBatches, kvApply). Theorems, for entry sequences of any length, any cut into apply calls, any choice of responders: C19_adapter_hands_over_every_command_in_order "
             "(the application sees exactly the commands among the fed entries, in order - nothing skipped, doubled or reordered), C19_adapter_prefix_even_on_rejection, C19_partial (two nodes - or two lifetimes of a "
             "restarted node - fed G.take k1 and G.take k2 have applied command sequences one of which is a prefix of the other), C19_same_commands_same_state (same fed prefix => same application state, membership "
             "and applied id), C19_responders_do_not_matter (proposer and followers end in the same state), C19_last_applied_is_last_fed, C19_local_failure_stops_the_node (a node-local application failure "
             "ends the call with the error and leaves a prefix applied - never a gap), C19_plane_nodes_apply_prefixes_of_one_log (in the data-plane model of C22/C23, for every schedule, every node has applied a prefix of "
             "the one append-only command log and holds exactly the metadata that prefix leads to). Correspondence: MemStateMachine sliced verbatim from storage.rs at build "
             "time + octopii/src/state_machine.rs compiled from /repo, ~190 node programs per quick run (1500 thorough; clusters of 2-3 nodes over one committed sequence, 1-3 process lifetimes each, "
             "rejected commands, node-local application failures, gappy streams) compared line by line with Adapter.applyAll; independent oracle per node and the pairwise prefix relation across each cluster.",
             note=BASE_NOTE + "The second sentence of the property (every successful proposal is eventually applied by every live node) and everything that depends on openraft's replication/election logic, the QUIC "
             "transport and the tokio runtime are outside this check: a change there is not detected. openraft's LogId/Entry/EntryPayload/Membership/StoredMembership/SnapshotMeta/EntryResponder, the RaftStateMachine "
             "trait and futures' Stream/TryStreamExt are stand-ins (harness/octo/src/raftshim.rs). Snapshots are C20.",
             tech="Lean 4 proof (induction over the fed entry sequence; the agreement of openraft's core is a hypothesis, not a theorem) + build-time source slicing + differential correspondence + oracle", ref="§6 C19"),
 "C21": dict(text="Partial: the property is FALSE of the code (open finding readAllConsumes). Model (Model/LogStore.lean): MemLogStoreInner, WalLogRecord, recover_from_wal, the peer-address records and "
             "WriteAheadLog as a record list with the engine's persisted consumed-count; restarts (clean, killed, in-process drop) keep the logs and drop the in-memory part. Theorems, for histories of any "
             "length with any number of restarts: C21_logs_hold_ack (replaying the WHOLE of each log always gives exactly the acknowledged vote, committed id, purge point, entries and peer addresses - "
             "nothing acknowledged is ever missing from the logs), C21_reopen_reports_suffix + open_consumes (a reopened store reports exactly the replay of what no earlier read_all consumed), "
             "C21_partial / C21_partial_at_most_one_open_on_data (the property itself for every history in which at most one open finds a non-empty log), C21_next_open_reports_only_new (open, any operations, restart, "
             "open: the new process sees exactly the replay of the records appended since the previous open), C21_counterexample (two reopens: vote, committed id, "
             "3 of 4 entries and the peer address are gone; replayed on the real store on every run), C21_nonconsuming_holds (over a reader that starts from the beginning the property holds for "
             "every history). Correspondence: the real WalLogStore / MemLogStoreInner / peer-record code (sliced verbatim from storage.rs and node.rs at build time) over the real WriteAheadLog and "
             "octopii's vendored engine copy, one child process per segment, ~210 programs per quick run (1500 thorough) compared line by line with LogStore.step; independent acknowledged-state oracle. Plus 50 (300) `faulty` programs - a record write of the log underneath fails inside an operation, the process restarts - compared with LogStore.stepFault; theorems C21_failed_operation_keeps_the_logs (a failed operation only adds a prefix of its records, acknowledges nothing, touches neither the peer log nor a cursor) and C21_failed_append_then_reopen (the restarted store reports the acknowledged state plus the first k entries of the failed append), C21_failed_single_record_then_reopen (a failed vote / committed / truncate write leaves exactly the acknowledged state).",
             note=BASE_NOTE + "openraft's LogId/Vote/Entry/LogState/IOFlushed and the storage traits, tokio and bincode are stand-ins (harness/octo/src/raftshim.rs, harness/shims): the real crates cannot be "
             "built offline. Process restarts only (no machine crash of the vendored engine copy). The bare wrapper is compared only in the way the store uses it (read_all straight after open). "
             "No repair committed: making recovery non-consuming needs a different read API use in octopii, which the baseline suite does not build.",
             tech="Lean 4 proof (inductive invariant over operation histories: the logs replay to the acknowledged state; counterexample by kernel evaluation) + build-time source slicing + differential correspondence + oracle", ref="§6 C21"),
 "C22": dict(text="Partial: the property is FALSE of the code (open findings sealedCountStale, readerLagsMetadata; the C23 window feeds the first). Model (Model/Plane.lean): small-step model of the data plane - "
             "per node applied metadata (Meta.applyCmd, the C18 model) from one ordered command log, lease set, per-key write locks, in-memory counters, one FIFO queue with a consumed count per (node, wal key), "
             "per-node read cursors; PUT / GET / monitor tasks advance from one named point to the next (7 cfg(walrus_verif) hooks + await-apply + tick); scheduler actions step/apply/sync. Theorems: "
             "C22_exactly_once_per_queue + C22_delivered_prefix_of_written (EVERY schedule: the engine queue of every (node, wal key) holds exactly the payloads written to it, in write order, and what GETs were handed from it is "
             "exactly its consumed prefix - no stored entry returned twice, none invented, write order kept within a segment; invariant carried through all 15 task states by the frame lemma stepTask_qstep); C22_acked_are_stored (every schedule that spawns tasks in their initial state: every PUT answered OK was written to, and sits "
             "in, the engine queue of some (node, wal key)); "
             "C22_counterexample (kernel evaluation): two concurrent PUTs with threshold 1 - both acknowledged, the topic read until EMPTY, one acknowledged payload never returned, segment 2 sealed with a stale "
             "count; replayed on the real code on every run. Correspondence: bucket.rs + controller/{mod,internal,types}.rs + monitor.rs + metadata.rs + rpc.rs compiled from /repo on the REAL engine under a "
             "deterministic scheduler, ~550 schedules per quick run (6000 thorough: sequential / concurrent / with monitor; 1-3 nodes; thresholds 1-4; lagging applies) compared line by line with the model incl. "
             "state dumps; oracle: exactly-once, EMPTY only when drained, nothing acknowledged lost, order for sequential producers. Sequential schedules must satisfy the property outright.",
             note=BASE_NOTE + "The liveness half of the delivery clause (the cursors reach every acknowledged entry) is false in general and has no theorem for the schedules where it holds: there it rests on the correspondence + "
             "oracle (sequential schedules must satisfy the whole property). Raft is assumed (one ordered log, node 1 leader); tokio and octopii are stand-ins; tasks switch only at the named points; no crash/restart, fixed membership.",
             tech="Lean 4 proof (inductive invariant over scheduler actions: queue contents = writes, deliveries = consumed prefix) + counterexample by kernel evaluation + schedule-for-schedule differential correspondence on the real code + oracle", ref="§6 C22"),
 "C23": dict(text="Partial: the property is FALSE of the code (open finding staleLeaseWrite). Same model as C22. Theorems, for EVERY schedule (any cluster size, threshold, topics, any sequence of spawns, task steps, per-node "
             "applies and lease syncs): C23_partial - a write made while the node's lease set is current (nothing applied on the node since its last lease refresh, key still leased) goes to a segment the node's applied "
             "metadata has open and assigns to that node (invariant: metadata has one entry per topic; a lease set refreshed at the current applied index is exactly what the metadata prescribes); "
             "C23_violation_needs_outdated_leases (contrapositive: every violating write happened in the window between a lease refresh and the write in which the node applied a log entry); "
             "C23_holds_when_applies_are_quiet (the property itself, every write owned, for every schedule that applies a log entry on a node only while no append is in flight on that node - any number of tasks, "
             "interleavings, lease syncs, applies on other nodes; invariant FlightInv); C23_counterexample (kernel "
             "evaluation): task 1 passes the lease check, task 2's rollover is applied on the node, task 1 writes into the sealed segment - replayed on the real code on every run. Correspondence as for C22; oracle on "
             "every `written` event: the executing node's applied metadata at that moment.",
             note=BASE_NOTE + "Raft is assumed (one ordered log, node 1 leader); tokio and octopii are stand-ins; a task switches only at the named points, so interleavings inside bucket.rs between two points are not explored "
             "(the real runtime is multi-threaded). No repair committed: closing the window needs fencing at the storage layer (re-validating the lease under the key lock against applied metadata), a design change.",
             tech="Lean 4 proof (inductive invariant over scheduler actions; frame lemma for all 15 task states) + counterexample by kernel evaluation + schedule-for-schedule differential correspondence on the real code + oracle", ref="§6 C23"),
}
NOT_APPLICABLE = {
}
PENDING = "not claimed yet: model/theorems/correspondence for this property are still being built (see DESIGN.md §9 order of work)"
ALL = ["C%02d" % i for i in range(1, 26)]
hooks = subprocess.run(["git", "-C", "/repo", "log", "--format=%H %s", "ae09759..HEAD"], stdout=subprocess.PIPE).stdout.decode().splitlines()
hook_commits = [l.split()[0] for l in hooks if l.split(" ", 1)[1].startswith("verif hooks")]
m = {
 "version": 1,
 "setup_cmd": "bin/setup",
 "hooks": {
  "guard": "walrus_verif",
  "enable": "RUSTFLAGS='--cfg walrus_verif' (plus '--cfg walrus_verif_small' for the 4 KiB-block geometry); set in harness/.cargo/config.toml and by bin/checklib.py",
  "baseline_off_cmd": "cd /repo && cargo nextest run --workspace --no-fail-fast --tool-config-file pb:/w/lib/nextest.toml --profile pb --test-threads 8 --offline || cargo test --workspace --no-fail-fast --offline",
  "source_commits": hook_commits,
  "add_only": True,
 },
 "engines": [
  {"name": "lean-model", "path": "lean/", "serves_properties": sorted(CHECKS), "kind_free_text": "Lean 4 model + property theorems (WalrusVerif/Props), wdriver line-protocol executable"},
  {"name": "translator", "path": "translator/extract.py", "serves_properties": sorted(CHECKS), "kind_free_text": "regenerates Gen/Consts.lean from /repo sources on every run"},
  {"name": "harness", "path": "harness/", "serves_properties": sorted(CHECKS), "kind_free_text": "Rust correspondence harnesses driving the real code (path dependency on /repo, cfg walrus_verif)"},
 ],
 "checks": [
  {"property_id": p, "quick_cmd": "bin/check %s --tier quick" % p, "thorough_cmd": "bin/check %s --tier thorough" % p,
   "evidence_file": "evidence/%s.json" % p, "replay_cmd_template": "bin/check %s --replay {path}" % p,
   "engine": "lean-model", "level_claimed": {"category": "proof", "text": c["text"], "design_ref": c["ref"]},
   "level_note": c["note"], "technique": c["tech"]} for p, c in sorted(CHECKS.items())],
 "not_applicable": [{"property_id": p, "reason": NOT_APPLICABLE.get(p, PENDING)} for p in ALL if p not in CHECKS],
 "notes": "Technique: machine-checked proof in Lean 4 of a model tied to /repo by a translator (constants) and a differential correspondence (behaviour). See DESIGN.md.",
}
json.dump(m, open(os.path.join(V, "MANIFEST.json"), "w"), indent=1)
print("MANIFEST.json: %d checks, %d not_applicable" % (len(m["checks"]), len(m["not_applicable"])))
