#!/usr/bin/env python3
"""Writes seeded/<id>/meta.json from the table below + the confirm.json / check_*.log files the scripts left there."""
import json, os, glob, re
V = os.path.dirname(os.path.dirname(os.path.abspath(__file__)))
T = {
 "C01-1": ("C01", "batch planner's peek guard `<=` became strict (`remaining > PREFIX_META_SIZE`)", "a zero-length entry as the last entry of a sealed block filled to its limit, cursor on it, budget 0..255"),
 "C01-2": ("C01", "parser's budget stop no longer ends the batch (`stop_parsing = true` dropped)", "sealed remainder [<128 B, entry] with size1+size2 > budget, a small entry in the tail, batch read starting at the small entry"),
 "C02-1": ("C02", "read_next peek at the writer tail re-labels tail_block_id without tail_offset", "consume part of a block while active, rotate, consume the rest, first read on the new block is a peek"),
 "C02-2": ("C02", "offset-addressed read with checkpoint=true marks sealed blocks consumed (guard `info_guard.is_some()` dropped)", "offset 0 + checkpoint=true + first sealed block of small (<128 B) entries; loss needs a fully allocated file, the reclaimer and a restart"),
 "C03-1": ("C03", "same peek-guard off-by-one as C01-1 (progress clause)", "zero-length last entry of a sealed block, budget 0..255"),
 "C03-2": ("C03", "payload budget check only for the tail range", "cursor in a sealed block, next entry < 128 B followed by another, size1 <= budget < size1+size2"),
 "C04-1": ("C04", "failed io_uring batch zeroes only the first planned header per block", "I/O fault in a batch of >= 2 entries, later successful append of the size of the failed batch's first entry, restart"),
 "C04-2": ("C04", "io_uring fallback chosen by ErrorKind::Other (a rolled-back batch is retried through the portable loop, which cannot fail)", "a write fault on the batch path (the retry then reports success)"),
 "C05-1": ("C05", "AtLeastOnce batch reads over sealed blocks no longer hold the column lock across I/O", "two concurrent consuming batch reads on one topic, backlog in sealed blocks"),
 "C05-2": ("C05", "get_or_create_writer: re-check under the write lock removed", "two producers' first appends to a new topic overlap"),
 "C06-1": ("C06", "recovery sizes an oversized block from the payload only", "payload within the last 256 bytes below a multiple of the block size, restart"),
 "C06-2": ("C06", "recovered files marked fully allocated while tail-cursor hydration checkpoints every block", "tail cursor with unread entries, new process, reclaimer pass, second restart"),
 "C07-1": ("C07", "Block::write split into header and payload writes + header-only recovery scan", "process killed between the two writes of one append, further appends after the restart"),
 "C07-2": ("C07", "recovery block-size arithmetic `need / BS + 1`", "first entry of a block with header+payload an exact multiple of the block size, next block of another topic, restart"),
 "C08-1": ("C08", "io_uring batch submitted in waves of 1024", "batch of > 1024 entries (production cap 2000), process death between the waves"),
 "C08-2": ("C08", "batches of < 8 entries bypass io_uring (sequential pwrites on the FD backend)", "FD backend, batch of 2..7 entries, process death between two of its writes"),
 "C09-1": ("C09", "recovery advances the synthetic block id by the number of units of a block", "an oversized entry earlier in the log, durable tail cursor in a later block, restart"),
 "C09-2": ("C09", "a persisted tail position at the end of its block is not folded into the chain", "consumer exactly caught up, writer rotates on, crash/restart"),
 "C10-1": ("C10", "SyncEach: per-append fsync skipped on FD-backed files", "a non-SyncEach instance constructed first in the process (O_SYNC is a process-wide first-wins setting), power loss"),
 "C10-2": ("C10", "directory fsync moved in front of the file creation", "file rollover, acknowledged appends in the newest file, power loss"),
 "C11-1": ("C11", "Block::read returns early for read_size == 0, before the checksum comparison (rebased onto the header-validation fix)", "damage that turns a header's read_size into 0 while the header still decodes"),
 "C11-2": ("C11", "recovery's meta_len bound `> PREFIX_META_SIZE` instead of `- 2`", "first header of a block with its length prefix damaged to exactly 255 or 256"),
 "C12-1": ("C12", "read_next marks a sealed block consumed when it returns its last entry, also for peeks", "peek at the last entry of a sealed block in a fully allocated file whose other blocks are consumed, reclaimer, restart"),
 "C12-2": ("C12", "first block of a rolled-over file accounted to the previous file", "rollover triggered by a new topic's first append exactly when the file is full"),
 "C13-1": ("C13", "lock taken on the block's real file by path, unlock still resolved through the block id", "two live instances, colliding block ids, victim with a fully allocated file and an active unread block"),
 "C13-2": ("C13", "register_block overwrites (`insert`) instead of keeping the first registration", "two live instances; the later-opened instance is the victim"),
 "C15-1": ("C15", "recovery counts an entry only if another header fits behind it", "a block filled to within 255 bytes of its limit, restart, count"),
 "C15-2": ("C15", "read_next decrements the count only when the cursor is persisted", "AtLeastOnce{persist_every > 1}, consuming read_next from a sealed block"),
 "C15-3": ("C15", "count rebuild at open: full-vs-partial decided for EVERY block of the chain by the tail cursor's offset (one merged loop)", "a topic spanning two or more blocks, a durable tail cursor whose offset is smaller than an earlier block's `used`, restart: the count is too high"),
 "C17-1": ("C17", "persisted-generation watermark taken from the live state", "two opposite marker changes on one topic within one marker-file write of the background persister"),
 "C17-2": ("C17", "store generation guard + lazy hydration of clean records", "three sessions: clean, restart, dirty, restart"),
 "C17-3": ("C17", "flush_all (run by Drop) persists only dirty records ('a topic without a marker reads as clean')", "a dirty marker already on disk, mark_topic_clean, drop within the persister's latency, reopen: reports dirty"),
 "C18-1": ("C18", "duplicate CreateTopic overwrites segment 1's leader before reporting EXISTS", "CreateTopic for an existing topic with a different initial leader"),
 "C18-2": ("C18", "rollover rejected for overflow has already recorded the seal", "a rollover whose count overflows the cumulative offset"),
 "C06-3": ("C06", "recovery block-size arithmetic `need / UNIT + 1` (the mechanism of C07-2, written independently for this property)", "first entry of a block with header+payload an exact multiple of the block size, a non-empty block right after it, restart"),
 "C06-4": ("C06", "count rebuild at open charges every block before the LAST one as consumed for a tail cursor (chain.len() - 1 instead of the persisted block id)", "consumer reads from the active block, goes idle, the writer rotates at least once, clean restart, count"),
 "C09-3": ("C09", "persisted tail position folded into the LAST recovered block instead of the block with the persisted id", "checkpoint taken in the active block, the writer rotates on with no consuming read in between, crash/restart"),
 "C09-4": ("C09", "AtLeastOnce: should_persist(force) evaluated (and the counter reset) on every read served from the active block", "persist_every >= 2, more than persist_every consuming reads from the active block, crash: more than persist_every redelivered"),
 "C16-3": ("C16", "batch_write's header-size probe `> PREFIX_META_SIZE` instead of `- 2`", "batch append on the FD backend with a topic name of 217..224 bytes: FD panics with poisoned writer locks, mmap reports InvalidData"),
 "C16-4": ("C16", "FD batch read: io_uring ring sized `plan.len().clamp(8, 64)`", "more than 64 unread blocks on one topic and one batch read whose budget spans them: FD errors for ever, mmap returns the entries"),
 "C19-1": ("C19", "the state-machine adapter logs and swallows an application `apply` error instead of returning it (the node keeps applying later entries)", "a node-local application failure while one committed entry is applied: that node skips the command, the others do not"),
 "C19-2": ("C19", "WalLogStore::append reports only the LAST record write's outcome to the flush callback and returns Ok", "a multi-entry append whose non-final record write fails, then a restart: an acknowledged entry is missing from the recovered log"),
 "C18-3": ("C18", "RolloverTopic records the new segment's leader only when leadership moves (`if leader_node != new_leader`)", "a rollover to the node that already leads the topic: the open segment has no leader entry until the next rollover"),
 "C19-3": ("C19", "WalLogStore::append signals the flush callback BEFORE the records are persisted", "a record write failure (or a kill) after the callback: the leader counts the node towards the quorum for entries its log does not hold"),
 "C19-4": ("C19", "the adapter turns an application apply error into an `ERR ...` reply and goes on (the mechanism of C19-1, written independently)", "a node-local application failure on one committed command"),
 "C20-1": ("C20", "snapshot cache not invalidated by re-registration of a node with a new address", "an earlier snapshot, then UpsertNode of a known id with a new address, then snapshot"),
 "C20-2": ("C20", "restore validates node addresses as SocketAddr", "a registered node address with a host name"),
 "C20-3": ("C20", "rollover to a node that is not registered falls back to `state.nodes.keys().next()` (HashMap order, differs per replica)", "at least two registered nodes and a committed rollover to a voter whose UpsertNode has not been applied: replicas restored from a snapshot pick different leaders"),
 "C20-4": ("C20", "Metadata::snapshot takes the state lock with try_read (falls back to an empty ClusterState when a writer holds it)", "a snapshot overlapping the write-lock section of a concurrent apply"),
 "C21-1": ("C21", "read_all's batch byte budget cut from 10 MiB to 1 MiB (`RECOVERY_BATCH_BYTES`)", "one WAL record larger than 1 MiB (a large client proposal) followed by a restart: replay stops in front of it"),
 "C21-2": ("C21", "vendored engine copy: batch read records the resume block index per planned range instead of per parsed entry", "a Raft log spanning more than one 10 MiB engine block with fewer than 2000 records per block, restart: only the first block is replayed"),
 "C21-3": ("C21", "recover_from_wal treats the truncation point as exclusive (`split_off(index + 1)`)", "an acknowledged truncate(T) and a restart before index T is re-appended: the old-term entry at T is back"),
 "C21-4": ("C21", "persist_peer_addr_if_needed writes a record only for an unknown peer (`map.insert(..).is_none()`)", "a known peer recorded with a different address at run time, then a restart: the stale address is reported"),
 "C22-1": ("C22", "reader's `delivered_in_segment = 0` dropped when it leaves a sealed segment that another node drained", "GETs for one topic through two different nodes after a rollover: the second node enters the next segment with a stale count and skips acknowledged entries"),
 "C22-2": ("C22", "update_leases returns early when no lease is missing (a node that only loses a lease keeps it)", "rollover to another node, a PUT arriving through a node whose apply lags by that rollover, forwarded to the old leader"),
 "C22-3": ("C22", "forward_append no longer refreshes the leases before append_with_retry (the change of C23-4, aimed at the delivery clause)", "a PUT with the sealed segment's key reaching the old leader before the next lease tick: acknowledged, never delivered"),
 "C22-4": ("C22", "read_one_for_topic no longer forces delivered_in_segment = sealed_count when a sealed segment reads empty", "a duplicate rollover for one threshold crossing (monitor tick while the first proposal is in flight): the cursor sticks in the empty phantom segment, later PUTs are never delivered"),
 "C23-1": ("C23", "update_leases scans for revocations only when the lease set has to shrink", "a rollover that leaves the node's lease count unchanged (to itself, or one topic lost and one gained) and a late append that is the first lease refresh afterwards"),
 "C23-2": ("C23", "update_leases returns early when the node leads no topic (the revocation of its last lease is skipped)", "a node whose only led topic rolls over to another node, then a late append for the sealed segment reaching it"),
 "C23-3": ("C23", "update_leases prunes revoked leases only when the lease set has to shrink (test taken before the new keys are inserted) - the mechanism of C23-1, written independently", "a rollover that swaps a lease (to itself, or two topics changing hands) and a late append with the old key before any other refresh"),
 "C23-4": ("C23", "forward_append no longer refreshes the leases before append_with_retry (only the 100 ms loop and the retry-after-rejection remain)", "an append with the sealed key reaching the old leader between the applied rollover and the next lease tick"),
 "C24-1": ("C24", "oversized-frame drain reads unbounded chunks", "oversized frame whose body is sent, pipelined following frames, body length not a multiple of the chunk size"),
 "C24-2": ("C24", "per-token trimming removes the payload's leading whitespace", "payload beginning with whitespace"),
 "C24-3": ("C24", "the drain of a rejected oversized frame is capped at 16 * MAX_FRAME_LEN = 1 MiB", "an oversized frame announcing more than 1 MiB with its body sent, followed by more frames: the rest of the body is parsed as frames"),
 "C24-4": ("C24", "`splitn(3, ' ').map(str::trim)` trims the payload too (the mechanism of C24-2, written independently)", "payload beginning with whitespace"),
 "C25-1": ("C25", "parse_wal_key splits at the first `_s_`", "topic whose key contains `_s_` before the separator (name contains `_s_`, ends in `_s`, is `s`, starts with `s_`)"),
 "C25-2": ("C25", "wal_key truncates the topic to 160 bytes", "topic longer than 160 bytes"),
 "C25-3": ("C25", "parse_wal_key via strip_prefix + split_once (splits at the FIRST `_s_`; the mechanism of C25-1, written independently)", "topic containing `_s_` or ending in `_s`"),
 "C25-4": ("C25", "wal_key writes the segment's digits into a 19-byte buffer (a u64 needs 20)", "segment number >= 10^19"),
}
for sid, (prop, what, needs) in sorted(T.items()):
    d = os.path.join(V, "seeded", sid)
    if not os.path.isdir(d):
        continue
    meta = {"seed": sid, "breaks_property": prop, "change": what, "needs_to_manifest": needs,
            "written_by": "independent sub-agent given only the property text and a scratch worktree of /repo",
            "files": {"patch": "patch.diff", "demonstration": "demo/", "notes_of_the_author": "NOTES.md"}}
    cj = os.path.join(d, "confirm.json")
    if os.path.exists(cj):
        c = json.load(open(cj))
        meta["confirmed_by_me"] = {"command": "bin/seed_confirm.sh seeded/%s <scratch worktree>" % sid, **c,
                                   "baseline": "146/146 stable-pass tests" if c.get("baseline_rc_with_change") == 0 else
                                   ("not run (change outside walrus-rust)" if c.get("baseline_rc_with_change") == -1 else "see baseline_with.log")}
    checks = {}
    for f in sorted(glob.glob(os.path.join(d, "check_*.log"))):
        p = re.search(r"check_(C\d+)\.log", f).group(1)
        txt = open(f, errors="replace").read()
        nv = len(re.findall(r"^VIOLATION", txt, re.M))
        checks[p] = {"violation_lines": nv, "with_concrete_replay": nv > 0 and "no-failing-input-found" not in txt}
    meta["checks_run_against_it"] = checks
    meta["detected"] = any(v["violation_lines"] > 0 for v in checks.values())
    json.dump(meta, open(os.path.join(d, "meta.json"), "w"), indent=1)
print("meta.json written for", len([1 for s in T if os.path.isdir(os.path.join(V, "seeded", s))]), "seeds")
