"""C19 (partial): octopii's Raft state-machine adapter (`MemStateMachine`, octopii/src/openraft/storage.rs:232-406).

The harness (harness/octo) compiles the adapter, sliced verbatim out of storage.rs by build.rs, and octopii's
KvStateMachine (octopii/src/state_machine.rs, included as a module) over stand-ins for the openraft types, tokio,
bincode and the two items of `futures` the adapter names.  openraft's core - which entries reach the adapter, and when -
cannot be built here and is not modelled: a "cluster" case draws one committed sequence G and feeds each node of the
cluster a prefix of it (its own cut into `apply` calls, its own responders, restarts that start again from an empty
adapter), which is what the theorems of Props/C19.lean assume about the core."""
import os
import random
import subprocess
import time

from checklib import (VERIF, WDRIVER, log, finish, lean_build, leanchecker, cargo_build, translator, banned_scan,
                      write_replay)
from props_octo import run_impl

CORPUS = os.path.join(VERIF, "corpus")


# ---------------------------------------------------------------------------------------------- generator

def gen_committed(rng, n, reject):
    """One committed sequence: (index, term, payload) with payload in the harness's token syntax."""
    G = []
    term = 1
    for i in range(1, n + 1):
        if rng.random() < 0.12:
            term += 1
            p = "b"                      # a new leader commits a blank entry first
        else:
            r = rng.random()
            if r < 0.08:
                p = "m%d" % rng.randint(1, 7)
            elif r < 0.12:
                p = "b"
            elif r < 0.60:
                p = "s%d=%d" % (rng.randint(0, 5), rng.randint(0, 99))
            elif r < 0.80:
                p = "g%d" % rng.randint(0, 6)
            elif r < 0.97 or not reject:
                p = "d%d" % rng.randint(0, 5)
            else:
                p = "x"
        G.append((i, term, p))
    return G


def cut(rng, ents, proposer_rate, local_failure=False):
    """Cut a list of entries into `sm apply` lines.  `local_failure`: before one of the calls the application is made to
    fail on this node only; that call is the last of the lifetime."""
    lines = []
    i = 0
    ncalls = 0
    fail_at = rng.randint(0, max(0, len(ents) // 3)) if local_failure else -1
    while i < len(ents):
        k = rng.choice([1, 1, 2, 3, 5, 8])
        if ncalls == fail_at and any(cmd_text(p) is not None for (_, _, p) in ents[i:i + k]):
            lines.append("sm failnext")
            toks = ["%d:%d:%s%s" % (idx, term, p, ":r" if rng.random() < proposer_rate else "") for (idx, term, p) in ents[i:i + k]]
            lines.append("sm apply " + " ".join(toks))
            return lines
        if ncalls == fail_at:
            fail_at += 1
        ncalls += 1
        toks = []
        for (idx, term, p) in ents[i:i + k]:
            toks.append("%d:%d:%s%s" % (idx, term, p, ":r" if rng.random() < proposer_rate else ""))
        lines.append("sm apply " + " ".join(toks))
        if rng.random() < 0.25:
            lines.append("sm state")
        if any(p == "x" for (_, _, p) in ents[i:i + k]):
            break        # the call returns a storage error: fatal to the Raft instance, nothing is fed after it in this lifetime
        i += k
    return lines


def gen_node_program(rng, G, lifetimes):
    """A node: `lifetimes` process lifetimes, each fed a prefix of G from the start."""
    lines = []
    proposer_rate = rng.choice([0.0, 0.0, 0.3, 1.0])
    for lt in range(lifetimes):
        lines.append("sm new")
        k = rng.randint(0, len(G))
        lines += cut(rng, G[:k], proposer_rate, local_failure=rng.random() < 0.15)
        lines.append("sm state")
        if lt < lifetimes - 1:
            lines.append("restart")
            if rng.random() < 0.1:
                lines.append("sm state")      # no adapter in the new process yet
    return lines


def gen_malformed_program(rng):
    """Streams at the edge of what openraft feeds: indices strictly increasing but with gaps (as after an installed
    snapshot), terms non-decreasing but jumping, empty calls, every payload kind with and without responder.  (Repeated
    or backward indices are outside the contract of `apply` and are not generated: an adapter that skipped them would
    not break the property.)"""
    lines = ["sm new"]
    idx = rng.randint(0, 3)
    term = rng.randint(0, 2)
    for _ in range(rng.randint(1, 6)):
        toks = []
        for _ in range(rng.randint(0, 4)):
            idx += rng.choice([1, 1, 2, 5])
            term += rng.choice([0, 0, 0, 1, 3])
            p = rng.choice(["b", "m3", "s1=2", "s2=5", "g1", "g9", "d1", "d2", "x"])
            toks.append("%d:%d:%s%s" % (idx, term, p, rng.choice(["", ":r"])))
        lines.append(("sm apply " + " ".join(toks)).strip())
        lines.append("sm state")
        if any(t.split(":")[2] == "x" for t in toks):
            break
    return lines


# ---------------------------------------------------------------------------------------------- model

def run_model(scratch, programs):
    ops = os.path.join(scratch, "ad_ops.txt")
    outp = os.path.join(scratch, "ad_model.txt")
    with open(ops, "w") as f:
        for lines in programs:
            f.write("ad reset\n")
            for l in lines:
                f.write("ad " + l + "\n")
    with open(ops, "rb") as fi, open(outp, "wb") as fo:
        ok = os.path.exists(WDRIVER) and subprocess.run([WDRIVER], stdin=fi, stdout=fo).returncode == 0
    if not ok:
        return None
    raw = open(outp).read().split("\n")
    res = []
    i = 0
    for lines in programs:
        i += 1
        res.append(raw[i:i + len(lines)])
        i += len(lines)
    return res


# ---------------------------------------------------------------------------------------------- oracle

def cmd_text(p):
    if p[0] == "s":
        k, v = p[1:].split("=")
        return "SET_%s_%s" % (k, v)
    if p[0] == "g":
        return "GET_" + p[1:]
    if p[0] == "d":
        return "DELETE_" + p[1:]
    if p[0] == "x":
        return "FROB"
    return None


class NodeOracle:
    """What the property's observer expects of one node, stated without the model: the application has seen exactly
    the commands among the entries fed in this process lifetime, in feeding order (up to and including the first one it
    rejects - after that the Raft instance is dead and the oracle stops judging the lifetime); every entry with a
    responder is answered exactly once, in order, with the application's answer; the reported applied id is the id of
    the last entry looked at."""

    def __init__(self):
        self.reset()

    def reset(self):
        self.live = False
        self.dead = False
        self.cmds = []
        self.kv = {}
        self.applied = "-"
        self.member = "-/0"
        self.fail_next = False

    def expect_state(self):
        return "applied=%s membership=%s cmds=[%s] kv=[%s]" % (
            self.applied, self.member, ",".join(self.cmds), ",".join(sorted("%s=%s" % kv for kv in self.kv.items())))

    def step(self, line, out):
        t = line.split()
        if t[0] == "restart":
            self.reset()
            return None
        if t[1] == "new":
            self.reset()
            self.live = True
            return None if out == "ok" else "sm new -> %s" % out
        if not self.live:
            return None if out == "err:closed" else "no adapter in this process, yet %s -> %s" % (line, out)
        if self.dead:
            return None
        if t[1] == "failnext":
            self.fail_next = True
            return None if out == "ok" else "sm failnext -> %s" % out
        if t[1] == "state":
            exp = self.expect_state()
            return None if out == exp else "node reports\n    %s\n  fed entries say\n    %s" % (out, exp)
        # apply
        resp = []
        ok = True
        for tok in t[2:]:
            f = tok.split(":")
            idx, term, p = f[0], f[1], f[2]
            has_r = len(f) > 3
            self.applied = "%s:%s" % (idx, term)
            ans = ""
            c = cmd_text(p)
            if c is not None and self.fail_next:
                # the application fails on this node before taking the command: the call must return the error
                # (a node that went on would have skipped a command the other nodes apply)
                self.fail_next = False
                ok = False
                break
            if c is not None:
                self.cmds.append(c)
                if p[0] == "s":
                    k, v = p[1:].split("=")
                    self.kv[k] = v
                    ans = "OK"
                elif p[0] == "g":
                    ans = self.kv.get(p[1:], "NOT_FOUND")
                elif p[0] == "d":
                    self.kv.pop(p[1:], None)
                    ans = "OK"
                else:
                    ok = False
                    break
            elif p[0] == "m":
                self.member = "%s:%s/%s" % (idx, term, p[1:])
            if has_r:
                resp.append("%s=%s" % (idx, ans))
        exp = "%s resp=[%s]" % ("ok" if ok else "err", ",".join(resp))
        if not ok:
            self.dead = True
        return None if out == exp else "apply answered\n    %s\n  expected\n    %s" % (out, exp)


def oracle_node(lines, outs):
    o = NodeOracle()
    for k, line in enumerate(lines):
        if k >= len(outs):
            return k, "no output (process died)"
        v = o.step(line, outs[k])
        if v:
            return k, v
    return None


def final_cmds(lines, outs):
    """The command sequences the node reported at the end of each lifetime."""
    res = []
    last = None
    for k, line in enumerate(lines):
        if k < len(outs) and line == "sm state" and outs[k].startswith("applied="):
            last = outs[k].split("cmds=[", 1)[1].split("]", 1)[0]
            last = [c for c in last.split(",") if c]
        if line == "restart" and last is not None:
            res.append(last)
            last = None
    if last is not None:
        res.append(last)
    return res


def is_prefix(a, b):
    return len(a) <= len(b) and b[:len(a)] == a


def violates(binp, scratch, lines, tag):
    outs, status = run_impl(binp, scratch, lines, tag)
    return status != "ok" or oracle_node(lines, outs) is not None


def shrink(binp, scratch, lines, tag, budget=150):
    cur = list(lines)
    changed = True
    while changed and budget > 0:
        changed = False
        i = 0
        while i < len(cur) and budget > 0:
            cands = [cur[:i] + cur[i + 1:]]
            t = cur[i].split()
            if t[:2] == ["sm", "apply"] and len(t) > 3:
                for j in range(2, len(t)):
                    cands.append(cur[:i] + [" ".join(t[:j] + t[j + 1:])] + cur[i + 1:])
            hit = False
            for cand in cands:
                budget -= 1
                if cand and violates(binp, scratch, cand, tag):
                    cur = cand
                    changed = True
                    hit = True
                    break
            if not hit:
                i += 1
    return cur


# ---------------------------------------------------------------------------------------------- the check

def check_c19(ctx):
    mods = ["WalrusVerif.Props.C19"]
    translator(ctx)
    banned_scan(ctx)
    lean_build(ctx, mods)
    if ctx.tier == "thorough" and not ctx.tie_broken:
        leanchecker(ctx, mods)
    binp, err = cargo_build(ctx, "octo_harness")
    cov = {}
    if binp is None:
        ctx.tie_broken.append(err + " (the slice of MemStateMachine out of octopii/src/openraft/storage.rs, or octopii/src/state_machine.rs, "
                              "no longer compiles over the stand-in types: correspondence cannot be run)")
    else:
        rng = random.Random(ctx.seed * 104729 + 19)
        thorough = ctx.tier == "thorough"
        nclusters = 400 if thorough else 60
        nmal = 300 if thorough else 40
        programs = []      # (kind, cluster id, lines)
        for fn in sorted(os.listdir(CORPUS)):
            if fn.endswith(".adprog"):
                ls = [l for l in open(os.path.join(CORPUS, fn)).read().split("\n") if l and not l.startswith("#")]
                programs.append(("corpus:" + fn, None, ls))
        glen = []
        for c in range(nclusters):
            G = gen_committed(rng, rng.choice([3, 8, 15, 30, 60]) if not thorough else rng.choice([3, 8, 15, 30, 60, 150]),
                              reject=rng.random() < 0.25)
            glen.append(len(G))
            for _ in range(rng.randint(2, 3)):
                programs.append(("node", c, gen_node_program(rng, G, rng.choice([1, 1, 2, 3]))))
        for _ in range(nmal):
            programs.append(("malformed", None, gen_malformed_program(rng)))
        model = run_model(ctx.scratch, [p for _, _, p in programs])
        if model is None:
            ctx.tie_broken.append("wdriver could not be run on the adapter programs")
        from concurrent.futures import ThreadPoolExecutor
        t0 = time.time()
        with ThreadPoolExecutor(max_workers=12) as ex:
            impl = list(ex.map(lambda ip: run_impl(binp, ctx.scratch, ip[1][2], "a%d" % ip[0]), enumerate(programs)))
        log("ran %d programs on the real adapter in %.1fs" % (len(programs), time.time() - t0))
        ndis = nvio = 0
        hist = {"programs": len(programs), "clusters": nclusters, "apply_calls": 0, "entries_fed": 0, "with_responder": 0,
                "restarts": 0, "node_local_failures": 0, "states_checked": 0, "rejected_commands": 0, "pairs_compared": 0, "membership_entries": 0,
                "blank_entries": 0, "committed_sequence_lengths": {str(k): glen.count(k) for k in sorted(set(glen))}}
        samples = []
        seen = set()
        nontrivial = 0
        per_cluster = {}
        for idx, ((kind, cid, lines), (outs, status)) in enumerate(zip(programs, impl)):
            for l in lines:
                t = l.split()
                if t[:2] == ["sm", "apply"]:
                    hist["apply_calls"] += 1
                    hist["entries_fed"] += len(t) - 2
                    hist["with_responder"] += sum(1 for x in t[2:] if x.endswith(":r"))
                    hist["membership_entries"] += sum(1 for x in t[2:] if x.split(":")[2].startswith("m"))
                    hist["blank_entries"] += sum(1 for x in t[2:] if x.split(":")[2] == "b")
            hist["restarts"] += lines.count("restart")
            hist["node_local_failures"] += lines.count("sm failnext")
            hist["states_checked"] += lines.count("sm state")
            hist["rejected_commands"] += sum(1 for o in outs if o.startswith("err resp"))
            key = "\n".join(lines)
            if key not in seen and any(l.startswith("sm apply") for l in lines):
                nontrivial += 1
            seen.add(key)
            if len(samples) < 3 and kind == "node" and idx % 41 == 7:
                samples.append({"kind": kind, "program": lines[:10], "outputs": outs[:10]})
            mouts = model[idx] if model else None
            dis = None
            if status != "ok":
                dis = (len(outs), "process %s" % status, "")
            elif mouts is not None:
                for k in range(len(lines)):
                    a = outs[k] if k < len(outs) else "<missing>"
                    b = mouts[k] if k < len(mouts) else "<missing>"
                    if a != b:
                        dis = (k, a, b)
                        break
            vio = oracle_node(lines, outs)
            if status != "ok" and vio is None:
                vio = (len(outs), "process %s" % status)
            if vio is None and kind == "node":
                for fc in final_cmds(lines, outs):
                    per_cluster.setdefault(cid, []).append((idx, fc))
            if vio is not None:
                nvio += 1
                if nvio <= 3:
                    k, what = vio
                    small = shrink(binp, ctx.scratch, lines, "shrink%d" % idx) if status == "ok" else lines
                    souts, _ = run_impl(binp, ctx.scratch, small, "shrunk%d" % idx)
                    sv = oracle_node(small, souts)
                    body = ["# property C19 violated by the implementation (oracle: the application sees exactly the commands among the entries fed, in order; "
                            "every responder is answered once; the applied id is the last entry looked at), %s program" % kind,
                            "# replay: harness/target/release/octo_harness exec <empty dir> <this file> <out> 0   (re-run with the number of output lines after each exit status 77)",
                            "# shrunk program:"] + small + ["# outputs:"] + ["#   " + o for o in souts]
                    body += ["# violated at line %d: %s" % (sv[0] + 1, sv[1].replace("\n", "\n# "))] if sv else []
                    body += ["# original program:"] + ["#   " + l for l in lines] + ["# violation: line %d: %s" % (k + 1, what.replace("\n", "\n# "))]
                    if dis:
                        body += ["# the model disagrees here too: line %d implementation=%r model=%r" % (dis[0] + 1, dis[1], dis[2])]
                    ctx.violations.append((write_replay(ctx, "adapter", "\n".join(body) + "\n"), ""))
            elif dis is not None:
                ndis += 1
                if ndis <= 3:
                    ctx.tie_broken.append("correspondence (%s): line %d %r implementation=%r model=%r; program: %s" % (
                        kind, dis[0] + 1, lines[dis[0]] if dis[0] < len(lines) else "?", dis[1], dis[2], " / ".join(lines[:dis[0] + 1][-8:])))
        # the property itself, across the nodes (and lifetimes) of each cluster
        for cid, lst in per_cluster.items():
            for i in range(len(lst)):
                for j in range(i + 1, len(lst)):
                    hist["pairs_compared"] += 1
                    a, b = lst[i][1], lst[j][1]
                    if not (is_prefix(a, b) or is_prefix(b, a)):
                        nvio += 1
                        if nvio <= 3:
                            pa, pb = programs[lst[i][0]][2], programs[lst[j][0]][2]
                            body = ["# property C19 violated: two nodes fed prefixes of the same committed sequence report applied command sequences neither of which is a prefix of the other",
                                    "# node A applied: " + ",".join(a), "# node B applied: " + ",".join(b), "# program of node A:"] + pa + ["# program of node B:"] + ["#   " + l for l in pb]
                            ctx.violations.append((write_replay(ctx, "cluster", "\n".join(body) + "\n"), ""))
        cov = {
            "evaluations": len(programs),
            "distinct_nontrivial": nontrivial,
            "rule": "one case = one node program (process lifetimes of `sm new`, `sm apply <entries>` calls, `sm state`) run on the real MemStateMachine + "
                    "KvStateMachine (one child process per lifetime) AND on the Lean model (Adapter.applyAll), outputs compared line by line; oracle = "
                    "independent Python statement of what the observer expects (commands seen = commands among the fed entries, in order; responders answered "
                    "once with the application's answer; applied id = last entry looked at), plus the pairwise prefix relation between the final command "
                    "sequences of all nodes and lifetimes of a cluster (nodes of a cluster are fed prefixes of one committed sequence, each cut into calls its "
                    "own way). malformed = streams with index gaps, term jumps and empty calls. non-trivial = distinct program with at least one apply call",
            "programs": len(programs),
            "histogram": hist,
            "samples": samples or ["(none)"],
            "model_disagreements": ndis,
            "oracle_violations": nvio,
            "search": {"programs": len(programs), "oracle_violations": nvio},
        }
    ctx.cov.update(cov)
    ctx.cov.setdefault("samples", ["(harness did not run)"])
    ctx.assumptions = [
        "openraft's core is NOT modelled and NOT run (it cannot be built offline): that every node is fed, per process lifetime, a prefix of one agreed "
        "committed sequence in index order is a hypothesis of C19_partial and the shape of the generated cluster cases, not something this check establishes",
        "the second sentence of the property (every successful proposal is eventually applied by every live node) is not covered",
        "the application below the adapter is octopii's KvStateMachine wrapped by a recorder; distributed-walrus's Metadata state machine is covered by C16-C18/C20",
        "snapshots (build_snapshot / install_snapshot) are outside this check (C20)",
        "an `apply` call that returns an error (the application rejected a command) is the last call of that process lifetime: openraft treats a storage "
        "error of the state machine as fatal and shuts the Raft instance down",
    ]
    finish(ctx, level="proof", trusted_base=[
        "Lean 4 kernel; axioms of the C19 theorems as listed (subset of propext, Classical.choice, Quot.sound)",
        "harness/octo/build.rs: textual slicer of storage.rs (anchors must be found, or the build fails and the tie is reported broken)",
        "harness/octo/src/raftshim.rs: stand-in for openraft's LogId/Entry/EntryPayload/Membership/StoredMembership/SnapshotMeta/Snapshot/EntryResponder and "
        "the RaftStateMachine/RaftSnapshotBuilder traits, and for futures' Stream/TryStreamExt::try_next; harness/shims/{tokio,bincode}",
        "NOT modelled, NOT verified, trusted: the vendored openraft core (log replication, elections, commit, the apply driver), octopii's QUIC transport and RPC layer",
        "the Python oracle in bin/props_adapter.py",
    ])
