//! Correspondence harness for the distributed layer.  Repository source files are compiled in by
//! path; crates that cannot be fetched offline are replaced by the stand-ins in ../shims.
use std::fmt::Write as _;
use std::io::Write as _;

#[path = "/repo/distributed-walrus/src/metadata.rs"]
#[allow(dead_code)]
mod metadata;

mod meta_mode;
mod client_mode;

#[path = "/repo/distributed-walrus/src/client.rs"]
#[allow(dead_code)]
mod client;

/// Mock of the node controller as `client.rs` sees it: per-topic FIFO of payloads.
pub mod controller {
    use std::collections::{HashMap, VecDeque};
    use std::sync::Mutex;
    #[derive(Default)]
    pub struct NodeController {
        q: Mutex<HashMap<String, VecDeque<Vec<u8>>>>,
    }
    impl NodeController {
        pub async fn ensure_topic(&self, topic: &str) -> anyhow::Result<()> {
            self.q.lock().unwrap().entry(topic.to_string()).or_default();
            Ok(())
        }
        pub async fn append_for_topic(&self, topic: &str, data: Vec<u8>) -> anyhow::Result<()> {
            self.q.lock().unwrap().entry(topic.to_string()).or_default().push_back(data);
            Ok(())
        }
        pub async fn read_one_for_topic_shared(&self, topic: &str) -> anyhow::Result<Option<Vec<u8>>> {
            Ok(self.q.lock().unwrap().get_mut(topic).and_then(|q| q.pop_front()))
        }
        pub fn topic_snapshot(&self, _topic: &str) -> anyhow::Result<String> {
            Ok("STATE".into())
        }
        pub fn get_metrics(&self) -> anyhow::Result<String> {
            Ok("METRICS".into())
        }
    }
}

pub struct Rng(pub u64);
impl Rng {
    pub fn next(&mut self) -> u64 {
        self.0 = self.0.wrapping_add(0x9E3779B97F4A7C15);
        let mut z = self.0;
        z = (z ^ (z >> 30)).wrapping_mul(0xBF58476D1CE4E5B9);
        z = (z ^ (z >> 27)).wrapping_mul(0x94D049BB133111EB);
        z ^ (z >> 31)
    }
    pub fn below(&mut self, n: u64) -> u64 {
        self.next() % n
    }
}

pub fn hex(b: &[u8]) -> String {
    if b.is_empty() {
        return "-".into();
    }
    let mut o = String::new();
    for x in b {
        write!(o, "{:02x}", x).unwrap();
    }
    o
}

#[derive(Default)]
pub struct Out {
    pub ops: Vec<String>,
    pub imp: Vec<String>,
    pub violations: Vec<String>,
    pub stats: Vec<(String, u64)>,
    pub samples: Vec<String>,
}

fn main() {
    let args: Vec<String> = std::env::args().collect();
    let mode = args.get(1).expect("mode");
    let outdir = std::path::PathBuf::from(args.get(2).expect("outdir"));
    let seed: u64 = std::env::var("VERIF_SEED").ok().and_then(|s| s.parse().ok()).unwrap_or(1);
    let thorough = std::env::var("VERIF_TIER").map(|t| t == "thorough").unwrap_or(false);
    std::fs::create_dir_all(&outdir).unwrap();
    std::panic::set_hook(Box::new(|_| {}));
    let mut out = Out::default();
    match mode.as_str() {
        "c18" => meta_mode::c18(seed, thorough, &mut out),
        "c24" => client_mode::c24(seed, thorough, &mut out),
        "c20" => meta_mode::c20(seed, thorough, &mut out),
        _ => panic!("unknown mode"),
    }
    let w = |name: &str, lines: &Vec<String>| {
        let mut f = std::io::BufWriter::new(std::fs::File::create(outdir.join(name)).unwrap());
        for l in lines {
            writeln!(f, "{}", l).unwrap();
        }
        f.flush().unwrap();
    };
    w("ops.txt", &out.ops);
    w("impl.txt", &out.imp);
    w("violations.txt", &out.violations);
    w("samples.txt", &out.samples);
    let mut s = String::from("{");
    for (i, (k, v)) in out.stats.iter().enumerate() {
        if i > 0 {
            s.push_str(", ");
        }
        write!(s, "\"{}\": {}", k, v).unwrap();
    }
    write!(s, "{}\"requests\": {}, \"oracle_violations\": {}}}", if out.stats.is_empty() { "" } else { ", " }, out.ops.len(), out.violations.len()).unwrap();
    std::fs::write(outdir.join("stats.json"), s).unwrap();
}
