//! C24: `client.rs` (compiled in by path, against the tokio stand-in) vs the Lean model
//! `Frame.serve`, plus an independent oracle on frame/response correspondence.
use crate::{hex, Out, Rng};
use std::collections::{HashMap, VecDeque};
use std::sync::Arc;

fn le(n: u32) -> Vec<u8> {
    n.to_le_bytes().to_vec()
}

#[derive(Clone, Debug)]
enum Kind {
    Put(String, String),
    Get(String),
    Register(String),
    Other, // STATE/METRICS/unknown/incomplete: response checked by the model only
    Zero,
    Oversized,
    BadUtf8,
}

struct GenFrame {
    bytes: Vec<u8>, // header + body as sent
    kind: Kind,
}

fn frame(body: Vec<u8>, kind: Kind) -> GenFrame {
    let mut b = le(body.len() as u32);
    b.extend_from_slice(&body);
    GenFrame { bytes: b, kind }
}

fn rand_str(r: &mut Rng, pool: &[char], max: u64) -> String {
    let n = r.below(max + 1);
    (0..n).map(|_| pool[r.below(pool.len() as u64) as usize]).collect()
}

fn gen_frame(r: &mut Rng) -> GenFrame {
    let topics = ["t", "a_b", "é", "x1"];
    let t = topics[r.below(topics.len() as u64) as usize].to_string();
    let ws: Vec<char> = vec![' ', '\t', '\n', '\r', '\u{a0}', '\u{2003}', '\u{3000}', '\u{85}', '\u{200b}', '\u{feff}'];
    let pool: Vec<char> = "ab Z9_-/é漢\t\u{a0}\u{1F600} ".chars().collect();
    match r.below(16) {
        0..=4 => {
            let mut p = rand_str(r, &pool, 12);
            if r.below(3) == 0 {
                p.push(ws[r.below(ws.len() as u64) as usize]);
            }
            let tail = if r.below(3) == 0 { rand_str(r, &ws, 3) } else { String::new() };
            let text = format!("PUT {} {}{}", t, p, tail);
            frame(text.clone().into_bytes(), Kind::Put(t, format!("{}{}", p, tail)))
        }
        5..=8 => {
            let tail = if r.below(4) == 0 { rand_str(r, &ws, 2) } else { String::new() };
            let text = format!("GET {}{}", t, tail);
            // the topic the server must see: second field of the trim_end'ed line
            let seen = text.trim_end().splitn(3, ' ').nth(1).unwrap_or("").to_string();
            frame(text.into_bytes(), Kind::Get(seen))
        }
        9 => frame(format!("REGISTER {}", t).into_bytes(), Kind::Register(t)),
        10 => {
            let c = ["STATE t", "METRICS", "STATE", "PUT", "PUT t", "GET", "REGISTER", "NOPE x y", "", " ", "put t x", "PUT  x y", "GET  "];
            frame(c[r.below(c.len() as u64) as usize].as_bytes().to_vec(), Kind::Other)
        }
        11 => GenFrame { bytes: le(0), kind: Kind::Zero },
        12 => {
            // oversized: announced length > 64 KiB, body present in full
            // mostly just above the limit; now and then far above it (a reader that gives up draining after some
            // fixed amount would parse the rest of the body as frames)
            let n = match r.below(30) {
                0 => (1usize << 20) + 1 + r.below(5000) as usize,
                1 => (3usize << 20) + r.below(5000) as usize,
                2 | 3 => 131072 + r.below(200000) as usize,
                _ => 65537 + r.below(3000) as usize,
            };
            let mut b = le(n as u32);
            // the body looks like a stream of valid frames, to expose a desynchronised reader
            let inner = frame(b"PUT t injected".to_vec(), Kind::Other).bytes;
            let mut body = Vec::with_capacity(n);
            while body.len() < n {
                body.extend_from_slice(&inner);
            }
            body.truncate(n);
            b.extend_from_slice(&body);
            GenFrame { bytes: b, kind: Kind::Oversized }
        }
        13 => {
            let mut body = b"PUT t ".to_vec();
            body.extend_from_slice(&[0xff, 0xfe, 0x80]);
            frame(body, Kind::BadUtf8)
        }
        14 => {
            let body: Vec<u8> = (0..1 + r.below(20)).map(|_| r.next() as u8).collect();
            let kind = if std::str::from_utf8(&body).is_ok() { Kind::Other } else { Kind::BadUtf8 };
            frame(body, kind)
        }
        _ => frame(format!("GET {}", t).into_bytes(), Kind::Get(t)),
    }
}

fn run_conn(ctrl: Arc<crate::controller::NodeController>, input: Vec<u8>) -> Vec<Vec<u8>> {
    let out = tokio::net::script_connection(input);
    let _ = tokio::block_on(crate::client::start_client_listener(ctrl, "scripted".into()));
    let bytes = out.lock().unwrap().clone();
    // split the response stream into frames
    let mut res = Vec::new();
    let mut p = 0;
    while p + 4 <= bytes.len() {
        let n = u32::from_le_bytes(bytes[p..p + 4].try_into().unwrap()) as usize;
        res.push(bytes[p + 4..(p + 4 + n).min(bytes.len())].to_vec());
        p += 4 + n;
    }
    res
}

pub fn c24(seed: u64, thorough: bool, out: &mut Out) {
    let mut r = Rng(seed ^ 0xC24);
    let nconn = if thorough { 20000 } else { 2500 };
    let mut nframes = 0u64;
    let mut kinds: HashMap<&'static str, u64> = HashMap::new();
    let mut nontrivial = 0u64;
    for c in 0..nconn {
        let ctrl = Arc::new(crate::controller::NodeController::default());
        let n = 1 + r.below(8) as usize;
        let frames: Vec<GenFrame> = (0..n).map(|_| gen_frame(&mut r)).collect();
        let mut input: Vec<u8> = Vec::new();
        for f in &frames {
            input.extend_from_slice(&f.bytes);
        }
        // sometimes the client dies mid-frame
        let mut complete = frames.len();
        if r.below(6) == 0 {
            let cut = r.below(frames.last().unwrap().bytes.len() as u64) as usize;
            let keep = input.len() - frames.last().unwrap().bytes.len() + cut;
            input.truncate(keep);
            complete -= 1;
        }
        let resps = run_conn(ctrl, input.clone());
        out.ops.push("frame reset".into());
        out.imp.push("ok".into());
        out.ops.push(format!("frame serve {}", hex(&input)));
        out.imp.push(format!("[{}]", resps.iter().map(|x| hex(x)).collect::<Vec<_>>().join(",")));
        // oracle: one response per complete frame, in order, computed from that frame
        let ctx = format!("conn {}", c);
        if resps.len() != complete {
            out.violations.push(format!("{}: {} complete frames but {} responses; input={}", ctx, complete, resps.len(), hex(&input)));
        }
        let mut q: HashMap<String, VecDeque<String>> = HashMap::new();
        let mut had_bad = false;
        for (f, resp) in frames.iter().take(complete).zip(resps.iter()) {
            nframes += 1;
            let resp = String::from_utf8_lossy(resp).into_owned();
            let (name, expect): (&'static str, Option<String>) = match &f.kind {
                Kind::Put(t, p) => {
                    let line = format!("PUT {} {}", t, p);
                    let trimmed = line.trim_end();
                    let payload = trimmed.splitn(3, ' ').nth(2);
                    match payload {
                        Some(pl) => {
                            q.entry(t.clone()).or_default().push_back(pl.to_string());
                            ("put", Some("OK".into()))
                        }
                        None => ("put_incomplete", Some("ERR PUT requires a payload".into())),
                    }
                }
                Kind::Get(t) => match q.entry(t.clone()).or_default().pop_front() {
                    Some(p) => ("get", Some(format!("OK {}", p))),
                    None => ("get_empty", Some("EMPTY".into())),
                },
                Kind::Register(_) => ("register", Some("OK".into())),
                Kind::Zero => { had_bad = true; ("zero_len", Some("ERR invalid frame length".into())) }
                Kind::Oversized => { had_bad = true; ("oversized", Some("ERR invalid frame length".into())) }
                Kind::BadUtf8 => { had_bad = true; ("bad_utf8", Some("ERR invalid utf-8".into())) }
                Kind::Other => ("other", None),
            };
            *kinds.entry(name).or_default() += 1;
            if let Some(e) = expect {
                if resp != e {
                    out.violations.push(format!("{}: frame {:?} answered {:?}, expected {:?}; input={}", ctx, f.kind, resp, e, hex(&input)));
                }
            }
        }
        if had_bad && frames.len() > 1 {
            nontrivial += 1;
        }
        if c == 5 {
            out.samples.push(format!("frame serve {}", hex(&input)));
        }
    }
    // arbitrary (not frame-aligned) byte streams: model comparison only
    let nraw = if thorough { 5000 } else { 500 };
    for _ in 0..nraw {
        let ctrl = Arc::new(crate::controller::NodeController::default());
        let n = r.below(40) as usize;
        let input: Vec<u8> = (0..n).map(|_| if r.below(3) == 0 { 0 } else { r.below(90) as u8 }).collect();
        let resps = run_conn(ctrl, input.clone());
        out.ops.push("frame reset".into());
        out.imp.push("ok".into());
        out.ops.push(format!("frame serve {}", hex(&input)));
        out.imp.push(format!("[{}]", resps.iter().map(|x| hex(x)).collect::<Vec<_>>().join(",")));
    }
    // `trim_end` whitespace class: every Unicode scalar value
    let mut nws = 0u64;
    for cp in 0..0x110000u32 {
        if let Some(ch) = char::from_u32(cp) {
            if !thorough && cp > 0x3100 && cp % 7 != 0 {
                continue;
            }
            out.ops.push(format!("frame ws {}", cp));
            out.imp.push((if ch.is_whitespace() { "1" } else { "0" }).into());
            nws += 1;
        }
    }
    out.stats.push(("connections".into(), nconn as u64));
    out.stats.push(("frames".into(), nframes));
    out.stats.push(("raw_streams".into(), nraw as u64));
    out.stats.push(("whitespace_codepoints".into(), nws));
    for (k, v) in kinds {
        out.stats.push((format!("frames_{}", k), v));
    }
    out.stats.push(("nontrivial_cases".into(), nontrivial));
}
