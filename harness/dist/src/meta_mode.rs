//! C18: `Metadata::apply` against the Lean model `Meta.applyBytes`, plus an independent oracle
//! for the segment-history invariants on the implementation's own state.
use crate::metadata::{Metadata, MetadataCmd, TopicState};
use crate::{hex, Out, Rng};
use octopii::StateMachineTrait;
use std::collections::HashMap;

#[derive(Clone, Debug)]
pub enum Cmd {
    Create(String, u64),
    Roll(String, u64, u64),
    Upsert(u64, String),
    Bytes(Vec<u8>),
}

impl Cmd {
    fn line(&self) -> String {
        match self {
            Cmd::Create(n, l) => format!("meta create {} {}", hex(n.as_bytes()), l),
            Cmd::Roll(n, l, c) => format!("meta roll {} {} {}", hex(n.as_bytes()), l, c),
            Cmd::Upsert(i, a) => format!("meta upsert {} {}", i, hex(a.as_bytes())),
            Cmd::Bytes(b) => format!("meta bytes {}", hex(b)),
        }
    }
    fn bytes(&self) -> Vec<u8> {
        match self {
            Cmd::Create(n, l) => bincode::serialize(&MetadataCmd::CreateTopic { name: n.clone(), initial_leader: *l }).unwrap(),
            Cmd::Roll(n, l, c) => bincode::serialize(&MetadataCmd::RolloverTopic { name: n.clone(), new_leader: *l, sealed_segment_entry_count: *c }).unwrap(),
            Cmd::Upsert(i, a) => bincode::serialize(&MetadataCmd::UpsertNode { node_id: *i, addr: a.clone() }).unwrap(),
            Cmd::Bytes(b) => b.clone(),
        }
    }
}

fn reply(r: Result<bytes::Bytes, String>) -> String {
    match r {
        Ok(b) => String::from_utf8_lossy(&b).into_owned(),
        Err(e) if e == "Topic not found" => "ERR:notfound".into(),
        Err(e) if e.starts_with("decode cmd") => "ERR:decode".into(),
        Err(e) if e == "Rollover counter overflow" => "ERR:overflow".into(),
        Err(e) => format!("ERR:other:{}", e.replace(' ', "_")),
    }
}

pub fn fmt_state(t: Option<&TopicState>) -> String {
    match t {
        None => "none".into(),
        Some(t) => {
            let mut s: Vec<_> = t.sealed_segments.iter().collect();
            s.sort();
            let mut l: Vec<_> = t.segment_leaders.iter().collect();
            l.sort();
            format!(
                "cur={} leader={} off={} sealed=[{}] leaders=[{}]",
                t.current_segment,
                t.leader_node,
                t.last_sealed_entry_offset,
                s.iter().map(|(k, v)| format!("{}:{}", k, v)).collect::<Vec<_>>().join(","),
                l.iter().map(|(k, v)| format!("{}:{}", k, v)).collect::<Vec<_>>().join(",")
            )
        }
    }
}

/// The property's own statement, evaluated on the implementation's state.
fn oracle(prev: &HashMap<String, TopicState>, m: &Metadata, topics: &[String], ctx: &str, out: &mut Out) -> HashMap<String, TopicState> {
    let mut now = HashMap::new();
    for name in topics {
        let Some(t) = m.get_topic_state(name) else {
            if prev.contains_key(name) {
                out.violations.push(format!("{}: topic {} disappeared", ctx, name));
            }
            continue;
        };
        let cur = t.current_segment;
        let mut bad = Vec::new();
        if cur < 1 {
            bad.push("current_segment < 1".to_string());
        }
        let mut lk: Vec<u64> = t.segment_leaders.keys().copied().collect();
        lk.sort();
        if lk != (1..=cur).collect::<Vec<_>>() {
            bad.push(format!("segment_leaders keys {:?} != 1..={}", lk, cur));
        }
        let mut sk: Vec<u64> = t.sealed_segments.keys().copied().collect();
        sk.sort();
        if sk != (1..cur).collect::<Vec<_>>() {
            bad.push(format!("sealed_segments keys {:?} != 1..{}", sk, cur));
        }
        if t.segment_leaders.get(&cur) != Some(&t.leader_node) {
            bad.push("open segment leader != topic leader".into());
        }
        let sum: u128 = t.sealed_segments.values().map(|v| *v as u128).sum();
        if sum != t.last_sealed_entry_offset as u128 {
            bad.push(format!("last_sealed_entry_offset {} != sum of sealed counts {}", t.last_sealed_entry_offset, sum));
        }
        if let Some(p) = prev.get(name) {
            if cur < p.current_segment {
                bad.push("current_segment decreased".into());
            }
            for k in 1..p.current_segment {
                if p.sealed_segments.get(&k) != t.sealed_segments.get(&k) || p.segment_leaders.get(&k) != t.segment_leaders.get(&k) {
                    bad.push(format!("sealed segment {} changed", k));
                }
            }
        }
        for b in bad {
            out.violations.push(format!("{}: topic {}: {}", ctx, name, b));
        }
        now.insert(name.clone(), t);
    }
    now
}

fn run_seq(seq: &[Cmd], topics: &[String], out: &mut Out, record: bool) -> bool {
    let m = Metadata::new();
    let mut prev = HashMap::new();
    if record {
        out.ops.push("meta reset".into());
        out.imp.push("ok".into());
    }
    let mut nontrivial = false;
    for (i, c) in seq.iter().enumerate() {
        let bytes = c.bytes();
        let r = std::panic::catch_unwind(std::panic::AssertUnwindSafe(|| m.apply(&bytes)));
        let rep = match r {
            Ok(r) => reply(r),
            Err(_) => {
                out.violations.push(format!("apply panicked at step {} of {:?}", i, seq.iter().map(|c| c.line()).collect::<Vec<_>>()));
                "PANIC".into()
            }
        };
        if rep == "ROLLED" {
            nontrivial = true;
        }
        if record {
            out.ops.push(c.line());
            out.imp.push(rep);
        }
        let ctx = format!("after step {} of [{}]", i, seq.iter().map(|c| c.line()).collect::<Vec<_>>().join("; "));
        prev = oracle(&prev, &m, topics, &ctx, out);
    }
    if record {
        for t in topics {
            out.ops.push(format!("meta state {}", hex(t.as_bytes())));
            out.imp.push(fmt_state(m.get_topic_state(t).as_ref()));
        }
    }
    nontrivial
}

pub fn c18(seed: u64, thorough: bool, out: &mut Out) {
    let topics: Vec<String> = vec!["a".into(), "b".into(), "".into(), "é_s_1".into()];
    let big = [0u64, 1, 1u64 << 63, u64::MAX];
    // exhaustive alphabet: 2 topics x 3 nodes x counts, an unknown topic, a node upsert, garbage bytes
    let mut alpha: Vec<Cmd> = vec![
        Cmd::Create("a".into(), 1),
        Cmd::Create("b".into(), 2),
        Cmd::Create("a".into(), 3),
        Cmd::Roll("zz".into(), 1, 1),
        Cmd::Upsert(1, "n1:1".into()),
        Cmd::Bytes(vec![1, 0, 0, 0, 1]),
    ];
    for c in big {
        alpha.push(Cmd::Roll("a".into(), 2, c));
    }
    alpha.push(Cmd::Roll("a".into(), 3, 1));
    alpha.push(Cmd::Roll("b".into(), 1, 1u64 << 63));
    alpha.push(Cmd::Roll("b".into(), 3, 5));
    let depth = if thorough { 5 } else { 4 };
    let mut idx = vec![0usize; depth];
    let mut nseq = 0u64;
    let mut nontrivial = 0u64;
    let short_topics: Vec<String> = vec!["a".into(), "b".into()];
    'outer: loop {
        let seq: Vec<Cmd> = idx.iter().map(|&i| alpha[i].clone()).collect();
        if run_seq(&seq, &short_topics, out, true) {
            nontrivial += 1;
        }
        nseq += 1;
        if nseq == 777 {
            out.samples.push(seq.iter().map(|c| c.line()).collect::<Vec<_>>().join("; "));
        }
        let mut k = depth;
        loop {
            if k == 0 {
                break 'outer;
            }
            k -= 1;
            idx[k] += 1;
            if idx[k] < alpha.len() {
                break;
            }
            idx[k] = 0;
        }
    }
    out.stats.push(("exhaustive_sequences".into(), nseq));
    out.stats.push(("exhaustive_depth".into(), depth as u64));
    out.stats.push(("alphabet".into(), alpha.len() as u64));
    // random long sequences
    let mut rng = Rng(seed ^ 0xC18);
    let nrand = if thorough { 4000 } else { 400 };
    let mut nbytes = 0u64;
    for s in 0..nrand {
        let len = 1 + rng.below(200) as usize;
        let mut seq = Vec::new();
        for _ in 0..len {
            let t = topics[rng.below(topics.len() as u64) as usize].clone();
            let c = match rng.below(10) {
                0 | 1 => Cmd::Create(t, 1 + rng.below(3)),
                2..=6 => {
                    let cnt = match rng.below(6) {
                        0 => 0,
                        1 => u64::MAX,
                        2 => 1u64 << rng.below(64),
                        _ => rng.below(1000),
                    };
                    Cmd::Roll(t, 1 + rng.below(3), cnt)
                }
                7 => Cmd::Upsert(rng.below(4), format!("h{}:{}", rng.below(3), rng.below(9000))),
                8 => Cmd::Roll("unknown".into(), 1, 1),
                _ => {
                    nbytes += 1;
                    // garbage: random bytes, or a valid command truncated / with a corrupted tag or length
                    let base = Cmd::Roll(t, 1, 7).bytes();
                    match rng.below(4) {
                        0 => (0..rng.below(24)).map(|_| rng.next() as u8).collect::<Vec<u8>>(),
                        1 => base[..rng.below(base.len() as u64) as usize].to_vec(),
                        2 => {
                            let mut b = base.clone();
                            b[0] = rng.below(5) as u8;
                            b
                        }
                        _ => {
                            let mut b = base.clone();
                            let i = 4 + rng.below(8) as usize;
                            b[i] = rng.next() as u8;
                            b
                        }
                    }
                    .pipe(Cmd::Bytes)
                }
            };
            seq.push(c);
        }
        if run_seq(&seq, &topics, out, true) {
            nontrivial += 1;
        }
        if s == 3 {
            out.samples.push(seq.iter().take(12).map(|c| c.line()).collect::<Vec<_>>().join("; "));
        }
    }
    out.stats.push(("random_sequences".into(), nrand));
    out.stats.push(("garbage_byte_commands".into(), nbytes));
    out.stats.push(("nontrivial_cases".into(), nontrivial));
}

trait Pipe: Sized {
    fn pipe<R>(self, f: impl FnOnce(Self) -> R) -> R {
        f(self)
    }
}
impl<T> Pipe for T {}


/// canonical dump of a `Metadata` over a known universe of topics and node ids
fn dump(m: &Metadata, topics: &[String]) -> String {
    let mut ts: Vec<(String, String)> = topics
        .iter()
        .filter_map(|t| m.get_topic_state(t).map(|st| (hex(t.as_bytes()), fmt_state(Some(&st)))))
        .collect();
    ts.sort();
    ts.dedup();
    let mut ns = m.all_node_addrs();
    ns.sort();
    format!(
        "topics{{{}}} nodes{{{}}}",
        ts.iter().map(|(n, s)| format!("{}={}", n, s)).collect::<Vec<_>>().join(";"),
        ns.iter().map(|(i, a)| format!("{}:{}", i, hex(a.as_bytes()))).collect::<Vec<_>>().join(",")
    )
}

pub fn c20(seed: u64, thorough: bool, out: &mut Out) {
    let topics: Vec<String> = vec!["a".into(), "b".into(), "".into(), "é_s_1".into(), "long-topic-name-with-more-than-eight-bytes".into()];
    let mut rng = Rng(seed ^ 0xC20);
    let nseq = if thorough { 6000 } else { 600 };
    let mut nontrivial = 0u64;
    let gen_cmd = |rng: &mut Rng, topics: &[String]| -> Cmd {
        let t = topics[rng.below(topics.len() as u64) as usize].clone();
        match rng.below(8) {
            0 | 1 => Cmd::Create(t, 1 + rng.below(3)),
            2..=5 => Cmd::Roll(t, 1 + rng.below(3), if rng.below(5) == 0 { 1u64 << rng.below(62) } else { rng.below(1000) }),
            6 => Cmd::Upsert(rng.below(4), format!("h{}:é{}", rng.below(3), rng.below(9000))),
            _ => Cmd::Bytes((0..rng.below(12)).map(|_| rng.next() as u8).collect()),
        }
    };
    for s in 0..nseq {
        let m = Metadata::new();
        out.ops.push("meta reset".into());
        out.imp.push("ok".into());
        let n1 = rng.below(40) as usize;
        let mut rolled = false;
        for _ in 0..n1 {
            let c = gen_cmd(&mut rng, &topics);
            let rep = reply(m.apply(&c.bytes()));
            rolled |= rep == "ROLLED";
            out.ops.push(c.line());
            out.imp.push(rep);
        }
        // snapshot at this point, restore into a fresh state machine
        let snap = m.snapshot();
        let fresh = Metadata::new();
        let ok = fresh.restore(&snap).is_ok();
        let same = ok && dump(&fresh, &topics) == dump(&m, &topics);
        if !same {
            out.violations.push(format!("sequence {}: restore(snapshot) differs from the original: ok={} orig={} restored={}", s, ok, dump(&m, &topics), dump(&fresh, &topics)));
        }
        out.ops.push(format!("meta restorecheck {}", hex(&snap)));
        out.imp.push((if same { "same" } else { "different" }).into());
        out.ops.push("meta selfcheck".into());
        out.imp.push("same".into());
        // the same subsequent commands on both replicas
        let n2 = rng.below(20) as usize;
        for _ in 0..n2 {
            let c = gen_cmd(&mut rng, &topics);
            let b = c.bytes();
            let r1 = reply(m.apply(&b));
            let r2 = reply(fresh.apply(&b));
            if r1 != r2 {
                out.violations.push(format!("sequence {}: replicas answer differently to {}: {} vs {}", s, c.line(), r1, r2));
            }
            out.ops.push(c.line());
            out.imp.push(r2);
        }
        if dump(&fresh, &topics) != dump(&m, &topics) {
            out.violations.push(format!("sequence {}: replicas diverged after the same commands", s));
        }
        out.ops.push("meta dump".into());
        out.imp.push(dump(&fresh, &topics));
        // a snapshot can be taken at any point: a second snapshot of the SAME sender, after the further commands
        // (often ending in a re-registration of a known node), must again reproduce the sender's state
        {
            let extra = rng.below(3) as usize;
            for _ in 0..extra {
                let c = Cmd::Upsert(rng.below(4), format!("h{}:é{}", rng.below(3), rng.below(9000)));
                let b = c.bytes();
                let r1 = reply(m.apply(&b));
                let _ = fresh.apply(&b);
                out.ops.push(c.line());
                out.imp.push(r1);
            }
            let snap2 = m.snapshot();
            let fresh2 = Metadata::new();
            let ok2 = fresh2.restore(&snap2).is_ok();
            let same2 = ok2 && dump(&fresh2, &topics) == dump(&m, &topics);
            if !same2 {
                out.violations.push(format!("sequence {}: second snapshot of the same sender does not reproduce its state: ok={} orig={} restored={}", s, ok2, dump(&m, &topics), dump(&fresh2, &topics)));
            }
            out.ops.push(format!("meta restorecheck {}", hex(&snap2)));
            out.imp.push((if same2 { "same" } else { "different" }).into());
        }
        // corrupted snapshots are rejected and leave the state alone
        if !snap.is_empty() {
            let mut bad = snap.clone();
            let cut = rng.below(bad.len() as u64) as usize;
            bad.truncate(cut);
            let before = dump(&fresh, &topics);
            let r = fresh.restore(&bad);
            if r.is_err() && dump(&fresh, &topics) != before {
                out.violations.push(format!("sequence {}: failed restore changed the state", s));
            }
            if r.is_ok() {
                // a truncated encoding that still decodes: re-synchronise the model
                out.ops.push("meta reset".into());
                out.imp.push("ok".into());
            }
        }
        // the Raft adapter path: install what build_snapshot produces
        let payload = bincode::serialize(&std::collections::BTreeMap::<String, String>::new()).unwrap();
        let receiver = Metadata::new();
        let decoded: std::collections::BTreeMap<String, String> = bincode::deserialize(&payload).unwrap();
        let reenc = bincode::serialize(&decoded).unwrap();
        let inst = receiver.restore(&reenc);
        out.ops.push("meta adapter".into());
        out.imp.push((if inst.is_ok() { "install:ok" } else { "install:err" }).into());
        if dump(&receiver, &topics) != dump(&m, &topics) {
            out.violations.push(format!("KNOWN adapterSnapshotsEmptyMap sequence {}: receiver after adapter install {} != sender {}", s, dump(&receiver, &topics), dump(&m, &topics)));
        }
        if rolled { nontrivial += 1; }
        if s == 2 {
            out.samples.push(format!("{} commands, snapshot {} bytes, restore, {} more commands on both replicas", n1, snap.len(), n2));
        }
    }
    // Snapshots taken WHILE another thread applies commands (Raft builds snapshots concurrently with the apply task):
    // the model takes `snapshot` and `apply` as atomic, so every snapshot must reproduce a state the sender went
    // through - the state after j commands, for some j between the number of commands finished before the snapshot
    // call and the number started before it returned.  (No model comparison: implementation against this oracle only.)
    {
        use std::sync::atomic::{AtomicUsize, Ordering};
        use std::sync::Arc;
        let rounds = if thorough { 24 } else { 6 };
        let k = 20000usize;
        let mut nsnaps = 0u64;
        let mut overlapped = 0u64;
        let mut reported = 0;
        for r in 0..rounds {
            let cmds: Vec<Vec<u8>> = std::iter::once(Cmd::Create("a".into(), 1).bytes())
                .chain((1..k).map(|j| Cmd::Upsert((j % 3) as u64, format!("h{}:{}", r, j)).bytes()))
                .collect();
            let twin = Metadata::new();
            let mut states = vec![dump(&twin, &topics)];
            for c in &cmds {
                let _ = twin.apply(c);
                states.push(dump(&twin, &topics));
            }
            let m = Arc::new(Metadata::new());
            let done = Arc::new(AtomicUsize::new(0));
            let (m2, done2) = (Arc::clone(&m), Arc::clone(&done));
            let applier = std::thread::spawn(move || {
                for c in cmds {
                    let _ = m2.apply(&c);
                    done2.fetch_add(1, Ordering::SeqCst);
                }
            });
            loop {
                let lo = done.load(Ordering::SeqCst);
                let snap = m.snapshot();
                let hi = (done.load(Ordering::SeqCst) + 1).min(k);
                let fresh = Metadata::new();
                let ok = fresh.restore(&snap).is_ok();
                let d = dump(&fresh, &topics);
                nsnaps += 1;
                if hi > lo + 1 || (lo > 0 && lo < k) {
                    overlapped += 1;
                }
                if !(ok && (lo..=hi).any(|j| states[j] == d)) && reported < 3 {
                    reported += 1;
                    out.violations.push(format!(
                        "concurrent snapshot (round {}, {} to {} of {} commands applied): a snapshot taken while another thread applies commands restores to a state the sender never went through: ok={} restored={} expected one of the states after {}..={} commands, e.g. {}",
                        r, lo, hi, k, ok, d, lo, hi, states[lo]
                    ));
                }
                if lo >= k {
                    break;
                }
            }
            applier.join().unwrap();
        }
        out.stats.push(("concurrent_snapshots".into(), nsnaps));
        out.stats.push(("concurrent_snapshots_overlapping_applies".into(), overlapped));
    }
    out.stats.push(("sequences".into(), nseq));
    out.stats.push(("nontrivial_cases".into(), nontrivial));
}
