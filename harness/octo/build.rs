//! Slices the Raft log store (MemLogStoreInner + WalLogStore) out of /repo/octopii/src/openraft/storage.rs and the
//! peer-address record functions out of node.rs, verbatim, into OUT_DIR; main.rs includes them over a small
//! stand-in for the openraft types (the real openraft crate cannot be built offline).
use std::fs;
fn slice(src: &str, from: &str, to: &str, what: &str) -> String {
    let a = src.find(from).unwrap_or_else(|| panic!("anchor not found ({what}): {from:?}"));
    let b = src[a..].find(to).unwrap_or_else(|| panic!("end anchor not found ({what}): {to:?}")) + a;
    src[a..b].to_string()
}
fn main() {
    let repo = std::env::var("WALRUS_REPO").unwrap_or_else(|_| "/repo".into());
    let sp = format!("{repo}/octopii/src/openraft/storage.rs");
    let np = format!("{repo}/octopii/src/openraft/node.rs");
    println!("cargo:rerun-if-changed={sp}");
    println!("cargo:rerun-if-changed={np}");
    println!("cargo:rerun-if-env-changed=WALRUS_REPO");
    let s = fs::read_to_string(&sp).unwrap();
    let n = fs::read_to_string(&np).unwrap();
    let mut out = String::new();
    out += &slice(&s, "#[derive(Debug)]\nstruct MemLogStoreInner", "impl MemLogStore {", "MemLogStoreInner");
    out += "\n";
    out += &slice(&s, "#[derive(Clone)]\npub struct WalLogStore", "/// Helper to create a new memory state machine", "WalLogStore");
    let dir = std::env::var("OUT_DIR").unwrap();
    fs::write(format!("{dir}/storage_slice.rs"), out).unwrap();
    // C19: the state-machine adapter (StoredSnapshot, StateMachineData, MemStateMachine and its two trait impls)
    let mut sm = slice(&s, "// --- State Machine Store ---", "/// Helper to create a new memory log store", "MemStateMachine");
    sm += "\n";
    sm += &s[s.find("/// Helper to create a new memory state machine").expect("new_mem_state_machine")..];
    fs::write(format!("{dir}/sm_slice.rs"), sm).unwrap();
    let peers = slice(&n, "#[derive(Serialize, Deserialize)]\nstruct PeerAddrRecord", "/// OpenRaft-based node", "peer address records");
    fs::write(format!("{dir}/node_slice.rs"), peers).unwrap();
    // the runtime path that records a peer address (add_learner / start): a method of OpenRaftNode
    let method = slice(&n, "    async fn persist_peer_addr_if_needed", "    pub async fn set_custom_rpc_handler", "persist_peer_addr_if_needed");
    fs::write(format!("{dir}/node_method_slice.rs"), format!("impl OpenRaftNode {{\n{method}}}\n")).unwrap();
}
