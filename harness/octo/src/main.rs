//! C21: octopii's Raft log store (`WalLogStore`, sliced verbatim from octopii/src/openraft/storage.rs by build.rs),
//! the peer-address records of octopii/src/openraft/node.rs, and `WriteAheadLog` (octopii/src/wal/mod.rs) on top of
//! octopii's vendored engine copy (octopii/src/wal/wal/*), all compiled from /repo. tokio, bincode and the openraft
//! types are stand-ins (harness/shims, raftshim.rs).
//!   octo_harness exec <datadir> <progfile> <outfile> <startline>
//! program lines:
//!   open | state | restart | kill | close   (close = drop the store inside the process)
//!   append <idx>:<term>:<len> ...   | truncate <idx>:<term> | purge <idx>:<term>
//!   vote <term>:<node>:<0|1>        | committed <idx>:<term> | committed none
//!   peer <id> <port>
//!   fault <n> | fault peer <n>      (the (n+1)-th record write to the Raft log / the peer log from now fails)
//!   wopen | wappend <len>:<seed> | wreadall | wclose        (the bare WAL wrapper)
//!   sm failnext (the application's next apply fails on this node only) | sm new | sm apply <idx>:<term>:<payload>[:r] ... | sm state      (C19: the state-machine adapter; payload =
//!       b (blank) | m<id> (membership) | s<k>=<v> | g<k> | d<k> | x (a command the application rejects); `:r` = the
//!       entry carries a responder, as on the node that proposed it)
#![allow(dead_code, unused_imports, unused_variables, unused_mut)]
mod error {
    #[derive(Debug)]
    pub enum OctopiiError {
        Io(std::io::Error),
        Wal(String),
    }
    impl From<std::io::Error> for OctopiiError {
        fn from(e: std::io::Error) -> Self {
            OctopiiError::Io(e)
        }
    }
    impl std::fmt::Display for OctopiiError {
        fn fmt(&self, f: &mut std::fmt::Formatter<'_>) -> std::fmt::Result {
            write!(f, "{:?}", self)
        }
    }
    pub type Result<T> = std::result::Result<T, OctopiiError>;
}

#[path = "/repo/octopii/src/wal/mod.rs"]
mod wal;
mod raftshim;

/// `WriteAheadLog` as the sliced store and peer code see it: the real one, plus a switch that makes a chosen later
/// `append` fail (a write error of the engine underneath: disk full, I/O error)
mod faultwal {
    use crate::error::{OctopiiError, Result};
    use bytes::Bytes;
    use std::sync::atomic::{AtomicI64, Ordering};
    pub struct WriteAheadLog {
        inner: crate::wal::WriteAheadLog,
        fail_in: AtomicI64,
    }
    impl WriteAheadLog {
        pub async fn new(path: std::path::PathBuf, batch: usize, flush: std::time::Duration) -> Result<Self> {
            Ok(WriteAheadLog { inner: crate::wal::WriteAheadLog::new(path, batch, flush).await?, fail_in: AtomicI64::new(-1) })
        }
        /// the `n`-th append from now (0 = the next one) fails
        pub fn arm(&self, n: i64) {
            self.fail_in.store(n, Ordering::SeqCst);
        }
        pub async fn append(&self, data: Bytes) -> Result<u64> {
            let n = self.fail_in.load(Ordering::SeqCst);
            if n == 0 {
                self.fail_in.store(-1, Ordering::SeqCst);
                return Err(OctopiiError::Wal("Failed to append: injected write failure".into()));
            }
            if n > 0 {
                self.fail_in.store(n - 1, Ordering::SeqCst);
            }
            self.inner.append(data).await
        }
        pub async fn read_all(&self) -> Result<Vec<Bytes>> {
            self.inner.read_all().await
        }
    }
}

mod store {
    use crate::error::OctopiiError;
    use crate::raftshim as openraft;
    use crate::raftshim::*;
    use crate::faultwal::WriteAheadLog;
    use bytes::Bytes;
    use serde::{Deserialize, Serialize};
    use std::collections::BTreeMap;
    use std::fmt::Debug;
    use std::io::{self, Cursor};
    use std::ops::RangeBounds;
    use std::sync::Arc;
    include!(concat!(env!("OUT_DIR"), "/storage_slice.rs"));
}

#[path = "/repo/octopii/src/state_machine.rs"]
mod state_machine;

/// C19: the Raft state-machine adapter (`MemStateMachine`), sliced verbatim from storage.rs
mod smstore {
    use crate::raftshim as openraft;
    use crate::raftshim::alias::SnapshotDataOf;
    use crate::raftshim::*;
    use crate::state_machine::StateMachine;
    use std::collections::BTreeMap;
    use std::io::{self, Cursor};
    use std::sync::atomic::{AtomicU64, Ordering};
    use std::sync::Arc;
    include!(concat!(env!("OUT_DIR"), "/sm_slice.rs"));
    impl MemStateMachine {
        pub fn peek(&self) -> StateMachineData {
            tokio::block_on(async { self.state_machine.read().await.clone() })
        }
    }
}

/// the application below the adapter: octopii's `KvStateMachine`, with every command handed to it recorded
struct RecordingKv {
    inner: state_machine::KvStateMachine,
    seen: std::sync::Mutex<Vec<Vec<u8>>>,
    /// the next `apply` fails on this node only, before the application takes the command
    fail_next: std::sync::atomic::AtomicBool,
}
impl state_machine::StateMachineTrait for RecordingKv {
    fn apply(&self, command: &[u8]) -> std::result::Result<bytes::Bytes, String> {
        if self.fail_next.swap(false, std::sync::atomic::Ordering::SeqCst) {
            return Err("injected node-local failure".into());
        }
        self.seen.lock().unwrap().push(command.to_vec());
        self.inner.apply(command)
    }
    fn snapshot(&self) -> Vec<u8> {
        self.inner.snapshot()
    }
    fn restore(&self, data: &[u8]) -> std::result::Result<(), String> {
        self.inner.restore(data)
    }
}

mod peers {
    use crate::error::Result;
    use crate::faultwal::WriteAheadLog;
    use bytes::Bytes;
    use serde::{Deserialize, Serialize};
    use std::collections::HashMap;
    use std::net::SocketAddr;
    use std::sync::Arc;
    include!(concat!(env!("OUT_DIR"), "/node_slice.rs"));
    pub async fn load(wal: &Arc<WriteAheadLog>) -> HashMap<u64, SocketAddr> {
        load_peer_addr_records(wal).await
    }
    pub async fn append(wal: &Arc<WriteAheadLog>, id: u64, addr: SocketAddr) -> Result<()> {
        append_peer_addr_record(wal, id, addr).await
    }
    /// the three fields of `OpenRaftNode` the peer-address method touches
    pub struct OpenRaftNode {
        pub peer_addrs: Arc<tokio::sync::RwLock<HashMap<u64, SocketAddr>>>,
        pub peer_addr_wal: Arc<WriteAheadLog>,
        pub peer_namespace: Arc<String>,
    }
    /// the process-wide registry is not observable across a restart: not kept
    fn register_global_peer_addr(_namespace: &str, _node_id: u64, _addr: SocketAddr) {}
    include!(concat!(env!("OUT_DIR"), "/node_method_slice.rs"));
    impl OpenRaftNode {
        pub async fn record_peer(&self, id: u64, addr: SocketAddr) -> Result<()> {
            self.persist_peer_addr_if_needed(id, addr).await
        }
        pub fn snapshot(&self) -> HashMap<u64, SocketAddr> {
            tokio::block_on(async { self.peer_addrs.read().await.clone() })
        }
    }
}

use raftshim::*;
use std::io::Write;
use std::marker::PhantomData;
use std::sync::Arc;

fn bytes_of(len: usize, seed: u64) -> Vec<u8> {
    (0..len).map(|i| 0x80u8 | (((seed as usize) + i * 37 + (i / 128) * 11) % 128) as u8).collect()
}
fn lid(s: &str) -> LogId<AppTypeConfig> {
    let v: Vec<u64> = s.split(':').map(|x| x.parse().unwrap()).collect();
    LogId { leader_id: LeaderId { term: v[1], node_id: 1 }, index: v[0], _c: PhantomData }
}
fn show_lid(l: &Option<LogId<AppTypeConfig>>) -> String {
    match l {
        None => "-".into(),
        Some(l) => format!("{}:{}", l.index, l.leader_id.term),
    }
}

struct Node {
    store: store::WalLogStore,
    log_wal: Arc<faultwal::WriteAheadLog>,
    peer_wal: Arc<faultwal::WriteAheadLog>,
    peers: peers::OpenRaftNode,
}

fn main() {
    let args: Vec<String> = std::env::args().collect();
    assert!(args.get(1).map(|s| s == "exec").unwrap_or(false), "usage: octo_harness exec <datadir> <prog> <out> <start>");
    std::env::set_var("WALRUS_QUIET", "1");
    let datadir = std::path::PathBuf::from(&args[2]);
    let prog = std::fs::read_to_string(&args[3]).unwrap();
    let lines: Vec<&str> = prog.lines().collect();
    let start: usize = args[5].parse().unwrap();
    let mut out = std::fs::OpenOptions::new().create(true).append(true).open(&args[4]).unwrap();
    let mut known: std::collections::HashMap<Vec<u8>, String> = Default::default();
    for l in &lines {
        let t: Vec<&str> = l.split_whitespace().collect();
        if t.first().copied() == Some("wappend") {
            let (a, b) = t[1].split_once(':').unwrap();
            known.entry(bytes_of(a.parse().unwrap(), b.parse().unwrap())).or_insert_with(|| t[1].to_string());
        }
    }
    let mut adapter: Option<(Arc<smstore::MemStateMachine>, Arc<RecordingKv>)> = None;
    let mut log: Option<wal::WriteAheadLog> = None;
    let mut node: Option<Node> = None;
    let mut idx = start;
    let mut code = 0;
    std::panic::set_hook(Box::new(|_| {}));
    let zero = std::time::Duration::from_millis(0);
    while idx < lines.len() {
        let t: Vec<&str> = lines[idx].split_whitespace().collect();
        idx += 1;
        if t.is_empty() {
            continue;
        }
        if t[0] == "restart" || t[0] == "kill" {
            if t[0] == "restart" {
                log = None;
                node = None;
                adapter = None;
                std::thread::sleep(std::time::Duration::from_millis(20));
            }
            writeln!(out, "ok").unwrap();
            out.flush().unwrap();
            code = 77;
            break;
        }
        let r = std::panic::catch_unwind(std::panic::AssertUnwindSafe(|| -> String {
            match t[0] {
                "sm" => match t[1] {
                    "new" => {
                        let kv = Arc::new(RecordingKv { inner: state_machine::KvStateMachine::in_memory(), seen: Default::default(), fail_next: Default::default() });
                        adapter = Some((smstore::new_mem_state_machine(kv.clone()), kv));
                        "ok".into()
                    }
                    "apply" => {
                        let Some((a, _)) = adapter.as_mut() else { return "err:closed".into() };
                        let sink = std::rc::Rc::new(std::cell::RefCell::new(Vec::new()));
                        let mut items = std::collections::VecDeque::new();
                        for tok in &t[2..] {
                            let f: Vec<&str> = tok.split(':').collect();
                            let (index, term): (u64, u64) = (f[0].parse().unwrap(), f[1].parse().unwrap());
                            let log_id = LogId { leader_id: LeaderId { term, node_id: 1 }, index, _c: PhantomData };
                            let p = f[2];
                            let payload = match p.as_bytes()[0] {
                                b'b' => EntryPayload::Blank,
                                b'm' => EntryPayload::Membership(Membership { id: p[1..].parse().unwrap(), _c: PhantomData }),
                                b's' => {
                                    let (k, v) = p[1..].split_once('=').unwrap();
                                    EntryPayload::Normal(AppEntry(format!("SET {k} {v}").into_bytes()))
                                }
                                b'g' => EntryPayload::Normal(AppEntry(format!("GET {}", &p[1..]).into_bytes())),
                                b'd' => EntryPayload::Normal(AppEntry(format!("DELETE {}", &p[1..]).into_bytes())),
                                _ => EntryPayload::Normal(AppEntry(b"FROB".to_vec())),
                            };
                            let responder = if f.get(3).copied() == Some("r") { Some(Responder { index, sink: sink.clone(), _c: PhantomData }) } else { None };
                            items.push_back(Ok((Entry { log_id, payload }, responder)));
                        }
                        let r = tokio::block_on(a.apply(VecStream(items)));
                        let resp = sink.borrow().iter().map(|(i, b)| format!("{}={}", i, String::from_utf8_lossy(b))).collect::<Vec<_>>().join(",");
                        format!("{} resp=[{}]", if r.is_ok() { "ok" } else { "err" }, resp)
                    }
                    "failnext" => {
                        let Some((_, kv)) = adapter.as_mut() else { return "err:closed".into() };
                        kv.fail_next.store(true, std::sync::atomic::Ordering::SeqCst);
                        "ok".into()
                    }
                    "state" => {
                        let Some((a, kv)) = adapter.as_mut() else { return "err:closed".into() };
                        let (applied, mem) = tokio::block_on(a.applied_state()).unwrap();
                        let d = a.peek();
                        assert!(d.last_applied_log == applied && d.last_membership == mem);
                        let cmds = kv.seen.lock().unwrap().iter().map(|c| String::from_utf8_lossy(c).replace(' ', "_")).collect::<Vec<_>>().join(",");
                        // the application's state, read back through its own commands' vocabulary: its snapshot, decoded
                        let m: std::collections::HashMap<Vec<u8>, Vec<u8>> = bincode::deserialize(&state_machine::StateMachineTrait::snapshot(&**kv)).unwrap();
                        let mut kvs: Vec<String> = m.iter().map(|(k, v)| format!("{}={}", String::from_utf8_lossy(k), String::from_utf8_lossy(v))).collect();
                        kvs.sort();
                        format!("applied={} membership={}/{} cmds=[{}] kv=[{}]", show_lid(&applied), show_lid(&mem.log_id), mem.membership.id, cmds, kvs.join(","))
                    }
                    _ => "bad-op".into(),
                },
                "wopen" => {
                    log = None;
                    match tokio::block_on(wal::WriteAheadLog::new(datadir.join("raft.wal"), 0, zero)) {
                        Ok(w) => {
                            log = Some(w);
                            "ok".into()
                        }
                        Err(e) => "err".into(),
                    }
                }
                "wclose" => {
                    log = None;
                    "ok".into()
                }
                "wappend" => {
                    let Some(w) = log.as_ref() else { return "err:closed".into() };
                    let (a, b) = t[1].split_once(':').unwrap();
                    match tokio::block_on(w.append(bytes::Bytes::from(bytes_of(a.parse().unwrap(), b.parse().unwrap())))) {
                        Ok(_) => "ok".into(),
                        Err(_) => "err".into(),
                    }
                }
                "wreadall" => {
                    let Some(w) = log.as_ref() else { return "err:closed".into() };
                    match tokio::block_on(w.read_all()) {
                        Ok(v) => format!("[{}]", v.iter().map(|b| known.get(&b.to_vec()).cloned().unwrap_or_else(|| "corrupt".into())).collect::<Vec<_>>().join(",")),
                        Err(_) => "err".into(),
                    }
                }
                "open" => {
                    node = None;
                    let r: error::Result<Node> = tokio::block_on(async {
                        let lw = Arc::new(faultwal::WriteAheadLog::new(datadir.join("openraft_log"), 0, zero).await?);
                        let store = store::new_wal_log_store(lw.clone()).await?;
                        let peer_wal = Arc::new(faultwal::WriteAheadLog::new(datadir.join("peer_addrs"), 0, zero).await?);
                        let loaded = peers::load(&peer_wal).await;
                        let peers = peers::OpenRaftNode {
                            peer_addrs: Arc::new(tokio::sync::RwLock::new(loaded)),
                            peer_addr_wal: peer_wal.clone(),
                            peer_namespace: Arc::new("verif".to_string()),
                        };
                        Ok(Node { store, log_wal: lw, peer_wal, peers })
                    });
                    match r {
                        Ok(n) => {
                            node = Some(n);
                            "ok".into()
                        }
                        Err(_) => "err".into(),
                    }
                }
                "close" => {
                    node = None;
                    "ok".into()
                }
                "fault" => {
                    // the (n+1)-th record write to the Raft log from now fails (`fault peer <n>`: to the peer-address log)
                    let Some(n) = node.as_mut() else { return "err:closed".into() };
                    if t[1] == "peer" { n.peer_wal.arm(t[2].parse().unwrap()) } else { n.log_wal.arm(t[1].parse().unwrap()) }
                    "ok".into()
                }
                "append" => {
                    let Some(n) = node.as_mut() else { return "err:closed".into() };
                    let ents: Vec<Entry<AppTypeConfig>> = t[1..]
                        .iter()
                        .map(|s| {
                            let v: Vec<u64> = s.split(':').map(|x| x.parse().unwrap()).collect();
                            let payload = if v[2] == 0 { EntryPayload::Blank } else { EntryPayload::Normal(AppEntry(bytes_of(v[2] as usize, v[0] * 31 + v[1]))) };
                            Entry { log_id: lid(s), payload }
                        })
                        .collect();
                    let flag = std::rc::Rc::new(std::cell::Cell::new(0));
                    match tokio::block_on(n.store.append(ents, IOFlushed(flag.clone(), PhantomData))) {
                        Ok(_) => format!("ok flushed={}", flag.get()),
                        // the flush callback is the acknowledgement openraft acts on: it must not have fired when the call fails
                        Err(_) if flag.get() > 0 => format!("err flushed={}", flag.get()),
                        Err(_) => "err".into(),
                    }
                }
                "truncate" | "purge" => {
                    let Some(n) = node.as_mut() else { return "err:closed".into() };
                    let l = lid(t[1]);
                    let r = if t[0] == "truncate" { tokio::block_on(n.store.truncate(l)) } else { tokio::block_on(n.store.purge(l)) };
                    if r.is_ok() { "ok".into() } else { "err".into() }
                }
                "vote" => {
                    let Some(n) = node.as_mut() else { return "err:closed".into() };
                    let v: Vec<u64> = t[1].split(':').map(|x| x.parse().unwrap()).collect();
                    let vote = Vote { leader_id: LeaderId { term: v[0], node_id: v[1] }, committed: v[2] == 1, _c: PhantomData };
                    if tokio::block_on(n.store.save_vote(&vote)).is_ok() { "ok".into() } else { "err".into() }
                }
                "committed" => {
                    let Some(n) = node.as_mut() else { return "err:closed".into() };
                    let c = if t[1] == "none" { None } else { Some(lid(t[1])) };
                    if tokio::block_on(n.store.save_committed(c)).is_ok() { "ok".into() } else { "err".into() }
                }
                "peer" => {
                    let Some(n) = node.as_mut() else { return "err:closed".into() };
                    let id: u64 = t[1].parse().unwrap();
                    let addr: std::net::SocketAddr = format!("127.0.0.1:{}", t[2]).parse().unwrap();
                    // OpenRaftNode::persist_peer_addr_if_needed (node.rs:324-338, sliced): what add_learner / start call
                    if tokio::block_on(n.peers.record_peer(id, addr)).is_err() {
                        return "err".into();
                    }
                    "ok".into()
                }
                "state" => {
                    let Some(n) = node.as_mut() else { return "err:closed".into() };
                    let st = tokio::block_on(n.store.get_log_state()).unwrap();
                    let vote = tokio::block_on(n.store.read_vote()).unwrap();
                    let com = tokio::block_on(n.store.read_committed()).unwrap();
                    let ents = tokio::block_on(n.store.try_get_log_entries(..)).unwrap();
                    let mut ps: Vec<_> = n.peers.snapshot().iter().map(|(k, v)| (*k, v.port())).collect();
                    ps.sort();
                    format!(
                        "purged={} last={} vote={} committed={} log=[{}] peers=[{}]",
                        show_lid(&st.last_purged_log_id),
                        show_lid(&st.last_log_id),
                        vote.map(|v| format!("{}:{}:{}", v.leader_id.term, v.leader_id.node_id, v.committed as u8)).unwrap_or_else(|| "-".into()),
                        show_lid(&com),
                        ents.iter()
                            .map(|e| {
                                let (i, tm) = (e.log_id.index, e.log_id.leader_id.term);
                                match &e.payload {
                                    EntryPayload::Blank => format!("{}:{}:0", i, tm),
                                    EntryPayload::Normal(AppEntry(b)) if *b == bytes_of(b.len(), i * 31 + tm) => format!("{}:{}:{}", i, tm, b.len()),
                                    _ => format!("{}:{}:corrupt", i, tm),
                                }
                            })
                            .collect::<Vec<_>>()
                            .join(","),
                        ps.iter().map(|(k, p)| format!("{}:{}", k, p)).collect::<Vec<_>>().join(",")
                    )
                }
                _ => "bad-op".into(),
            }
        }));
        writeln!(out, "{}", r.unwrap_or_else(|_| "panic".into())).unwrap();
        out.flush().unwrap();
    }
    drop(out);
    unsafe { libc::_exit(code) };
}
