//! Stand-in for the handful of openraft items octopii's log store names. Shapes follow
//! octopii/openraft/openraft/src/{log_id,vote,entry,storage}; only what storage.rs touches is here.
use serde::{Deserialize, Serialize};
use std::fmt::Debug;
use std::io;
use std::marker::PhantomData;
use std::ops::RangeBounds;

pub trait RaftTypeConfig {
    type SnapshotData;
}

#[derive(Clone, Copy, Debug, Default, PartialEq, Eq, PartialOrd, Ord, Serialize, Deserialize)]
pub struct AppTypeConfig;
impl RaftTypeConfig for AppTypeConfig {
    type SnapshotData = std::io::Cursor<Vec<u8>>;
}

#[derive(Clone, Debug, Serialize, Deserialize, PartialEq, Eq)]
pub struct AppEntry(pub Vec<u8>);

#[derive(Clone, Copy, Debug, Default, PartialEq, Eq, PartialOrd, Ord, Serialize, Deserialize)]
pub struct LeaderId {
    pub term: u64,
    pub node_id: u64,
}

#[derive(Clone, Copy, Debug, Default, PartialEq, Eq, PartialOrd, Ord, Serialize, Deserialize)]
pub struct LogId<C> {
    pub leader_id: LeaderId,
    pub index: u64,
    #[serde(skip)]
    pub _c: PhantomData<C>,
}

#[derive(Clone, Copy, Debug, Default, PartialEq, Eq, PartialOrd, Ord, Serialize, Deserialize)]
pub struct Vote<C> {
    pub leader_id: LeaderId,
    pub committed: bool,
    #[serde(skip)]
    pub _c: PhantomData<C>,
}

#[derive(Clone, Debug, PartialEq, Eq, Serialize, Deserialize)]
pub enum EntryPayload<C> {
    Blank,
    Normal(AppEntry),
    Membership(Membership<C>),
}

#[derive(Clone, Debug, PartialEq, Eq, Serialize, Deserialize)]
pub struct Entry<C> {
    pub log_id: LogId<C>,
    pub payload: EntryPayload<C>,
}

#[derive(Clone, Debug, PartialEq, Eq)]
pub struct LogState<C> {
    pub last_purged_log_id: Option<LogId<C>>,
    pub last_log_id: Option<LogId<C>>,
}

pub struct IOFlushed<C>(pub std::rc::Rc<std::cell::Cell<u32>>, pub PhantomData<C>);
impl<C> IOFlushed<C> {
    pub async fn io_completed(self, r: Result<(), io::Error>) {
        if r.is_ok() {
            self.0.set(self.0.get() + 1);
        }
    }
}

pub trait OptionalSend {}
impl<T: ?Sized> OptionalSend for T {}

#[allow(async_fn_in_trait)]
pub trait RaftLogReader<C> {
    async fn try_get_log_entries<RB: RangeBounds<u64> + Clone + Debug + Send>(&mut self, range: RB) -> Result<Vec<Entry<C>>, io::Error>;
    async fn read_vote(&mut self) -> Result<Option<Vote<C>>, io::Error>;
}

#[allow(async_fn_in_trait)]
pub trait RaftLogStorage<C>: RaftLogReader<C> {
    type LogReader;
    async fn get_log_state(&mut self) -> Result<LogState<C>, io::Error>;
    async fn save_committed(&mut self, committed: Option<LogId<C>>) -> Result<(), io::Error>;
    async fn read_committed(&mut self) -> Result<Option<LogId<C>>, io::Error>;
    async fn save_vote(&mut self, vote: &Vote<C>) -> Result<(), io::Error>;
    async fn append<I>(&mut self, entries: I, callback: IOFlushed<C>) -> Result<(), io::Error>
    where
        I: IntoIterator<Item = Entry<C>> + OptionalSend,
        I::IntoIter: OptionalSend;
    async fn truncate(&mut self, log_id: LogId<C>) -> Result<(), io::Error>;
    async fn purge(&mut self, log_id: LogId<C>) -> Result<(), io::Error>;
    async fn get_log_reader(&mut self) -> Self::LogReader;
}

// ---- what the state-machine adapter (`MemStateMachine`) names; shapes follow openraft/src/{membership,storage} ----

#[derive(Clone, Debug, PartialEq, Eq, Serialize, Deserialize)]
pub struct AppResponse(pub Vec<u8>);

/// a membership configuration; the adapter only stores and returns it
#[derive(Clone, Debug, Default, PartialEq, Eq, Serialize, Deserialize)]
pub struct Membership<C> {
    pub id: u64,
    #[serde(skip)]
    pub _c: PhantomData<C>,
}

#[derive(Clone, Debug, Default, PartialEq, Eq)]
pub struct StoredMembership<C> {
    pub log_id: Option<LogId<C>>,
    pub membership: Membership<C>,
}
impl<C> StoredMembership<C> {
    pub fn new(log_id: Option<LogId<C>>, membership: Membership<C>) -> Self {
        StoredMembership { log_id, membership }
    }
}

#[derive(Clone, Debug, Default, PartialEq, Eq)]
pub struct SnapshotMeta<C> {
    pub last_log_id: Option<LogId<C>>,
    pub last_membership: StoredMembership<C>,
    pub snapshot_id: String,
}

pub struct Snapshot<C: RaftTypeConfig> {
    pub meta: SnapshotMeta<C>,
    pub snapshot: C::SnapshotData,
}

pub mod alias {
    pub type SnapshotDataOf<C> = <C as super::RaftTypeConfig>::SnapshotData;
}

/// where the adapter sends the application's answer for an entry proposed on this node
pub struct Responder<C> {
    pub index: u64,
    pub sink: std::rc::Rc<std::cell::RefCell<Vec<(u64, Vec<u8>)>>>,
    pub _c: PhantomData<C>,
}
impl<C> Responder<C> {
    pub fn send(self, r: AppResponse) {
        self.sink.borrow_mut().push((self.index, r.0));
    }
}
pub type EntryResponder<C> = (Entry<C>, Option<Responder<C>>);

/// the two items of `futures` the adapter uses
pub trait Stream {
    type Item;
    fn next_item(&mut self) -> Option<Self::Item>;
}
#[allow(async_fn_in_trait)]
pub trait TryStreamExt<T, E>: Stream<Item = Result<T, E>> {
    async fn try_next(&mut self) -> Result<Option<T>, E> {
        self.next_item().transpose()
    }
}
impl<T, E, S: Stream<Item = Result<T, E>> + ?Sized> TryStreamExt<T, E> for S {}

pub struct VecStream<T>(pub std::collections::VecDeque<T>);
impl<T> Stream for VecStream<T> {
    type Item = T;
    fn next_item(&mut self) -> Option<T> {
        self.0.pop_front()
    }
}

#[allow(async_fn_in_trait)]
pub trait RaftSnapshotBuilder<C: RaftTypeConfig> {
    async fn build_snapshot(&mut self) -> Result<Snapshot<C>, io::Error>;
}

#[allow(async_fn_in_trait)]
pub trait RaftStateMachine<C: RaftTypeConfig> {
    type SnapshotBuilder;
    async fn applied_state(&mut self) -> Result<(Option<LogId<C>>, StoredMembership<C>), io::Error>;
    async fn apply<Strm>(&mut self, entries: Strm) -> Result<(), io::Error>
    where
        Strm: Stream<Item = Result<EntryResponder<C>, io::Error>> + Unpin + OptionalSend;
    async fn begin_receiving_snapshot(&mut self) -> Result<alias::SnapshotDataOf<C>, io::Error>;
    async fn install_snapshot(&mut self, meta: &SnapshotMeta<C>, snapshot: alias::SnapshotDataOf<C>) -> Result<(), io::Error>;
    async fn get_current_snapshot(&mut self) -> Result<Option<Snapshot<C>>, io::Error>;
    async fn get_snapshot_builder(&mut self) -> Self::SnapshotBuilder;
}

// Display, as the real types have it (log messages format these)
impl std::fmt::Display for LeaderId {
    fn fmt(&self, f: &mut std::fmt::Formatter<'_>) -> std::fmt::Result {
        write!(f, "T{}-N{}", self.term, self.node_id)
    }
}
impl<C> std::fmt::Display for LogId<C> {
    fn fmt(&self, f: &mut std::fmt::Formatter<'_>) -> std::fmt::Result {
        write!(f, "{}.{}", self.leader_id, self.index)
    }
}
impl<C> std::fmt::Display for Vote<C> {
    fn fmt(&self, f: &mut std::fmt::Formatter<'_>) -> std::fmt::Result {
        write!(f, "<{}:{}>", self.leader_id, if self.committed { "Q" } else { "-" })
    }
}
impl<C> std::fmt::Display for Entry<C> {
    fn fmt(&self, f: &mut std::fmt::Formatter<'_>) -> std::fmt::Result {
        write!(f, "{}", self.log_id)
    }
}
