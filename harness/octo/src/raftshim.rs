//! Stand-in for the handful of openraft items octopii's log store names. Shapes follow
//! octopii/openraft/openraft/src/{log_id,vote,entry,storage}; only what storage.rs touches is here.
use serde::{Deserialize, Serialize};
use std::fmt::Debug;
use std::io;
use std::marker::PhantomData;
use std::ops::RangeBounds;

pub trait RaftTypeConfig {}

#[derive(Clone, Copy, Debug, Default, PartialEq, Eq, PartialOrd, Ord, Serialize, Deserialize)]
pub struct AppTypeConfig;
impl RaftTypeConfig for AppTypeConfig {}

#[derive(Clone, Debug, Serialize, Deserialize, PartialEq, Eq)]
pub struct AppEntry(pub Vec<u8>);

#[derive(Clone, Copy, Debug, Default, PartialEq, Eq, PartialOrd, Ord, Serialize, Deserialize)]
pub struct LeaderId {
    pub term: u64,
    pub node_id: u64,
}

#[derive(Clone, Copy, Debug, Default, PartialEq, Eq, PartialOrd, Ord, Serialize, Deserialize)]
pub struct LogId<C> {
    pub leader_id: LeaderId,
    pub index: u64,
    #[serde(skip)]
    pub _c: PhantomData<C>,
}

#[derive(Clone, Copy, Debug, Default, PartialEq, Eq, PartialOrd, Ord, Serialize, Deserialize)]
pub struct Vote<C> {
    pub leader_id: LeaderId,
    pub committed: bool,
    #[serde(skip)]
    pub _c: PhantomData<C>,
}

#[derive(Clone, Debug, PartialEq, Eq, Serialize, Deserialize)]
pub enum EntryPayload<C> {
    Blank,
    Normal(AppEntry),
    #[serde(skip)]
    _C(PhantomData<C>),
}

#[derive(Clone, Debug, PartialEq, Eq, Serialize, Deserialize)]
pub struct Entry<C> {
    pub log_id: LogId<C>,
    pub payload: EntryPayload<C>,
}

#[derive(Clone, Debug, PartialEq, Eq)]
pub struct LogState<C> {
    pub last_purged_log_id: Option<LogId<C>>,
    pub last_log_id: Option<LogId<C>>,
}

pub struct IOFlushed<C>(pub std::rc::Rc<std::cell::Cell<u32>>, pub PhantomData<C>);
impl<C> IOFlushed<C> {
    pub async fn io_completed(self, r: Result<(), io::Error>) {
        if r.is_ok() {
            self.0.set(self.0.get() + 1);
        }
    }
}

pub trait OptionalSend {}
impl<T: ?Sized> OptionalSend for T {}

#[allow(async_fn_in_trait)]
pub trait RaftLogReader<C> {
    async fn try_get_log_entries<RB: RangeBounds<u64> + Clone + Debug + Send>(&mut self, range: RB) -> Result<Vec<Entry<C>>, io::Error>;
    async fn read_vote(&mut self) -> Result<Option<Vote<C>>, io::Error>;
}

#[allow(async_fn_in_trait)]
pub trait RaftLogStorage<C>: RaftLogReader<C> {
    type LogReader;
    async fn get_log_state(&mut self) -> Result<LogState<C>, io::Error>;
    async fn save_committed(&mut self, committed: Option<LogId<C>>) -> Result<(), io::Error>;
    async fn read_committed(&mut self) -> Result<Option<LogId<C>>, io::Error>;
    async fn save_vote(&mut self, vote: &Vote<C>) -> Result<(), io::Error>;
    async fn append<I>(&mut self, entries: I, callback: IOFlushed<C>) -> Result<(), io::Error>
    where
        I: IntoIterator<Item = Entry<C>> + OptionalSend,
        I::IntoIter: OptionalSend;
    async fn truncate(&mut self, log_id: LogId<C>) -> Result<(), io::Error>;
    async fn purge(&mut self, log_id: LogId<C>) -> Result<(), io::Error>;
    async fn get_log_reader(&mut self) -> Self::LogReader;
}
