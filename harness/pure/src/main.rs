//! Correspondence harness for the pure functions: C14 (sanitize_namespace + builder paths) and
//! C25 (wal_key / parse_wal_key).  Writes <out>/ops.txt (requests for `wdriver`),
//! <out>/impl.txt (the implementation's answers, one per request) and <out>/stats.json.
use std::fmt::Write as _;
use std::io::Write as _;

#[path = "/repo/distributed-walrus/src/controller/types.rs"]
#[allow(dead_code)]
mod types;

mod rng {
    pub struct Rng(pub u64);
    impl Rng {
        pub fn next(&mut self) -> u64 {
            // splitmix64
            self.0 = self.0.wrapping_add(0x9E3779B97F4A7C15);
            let mut z = self.0;
            z = (z ^ (z >> 30)).wrapping_mul(0xBF58476D1CE4E5B9);
            z = (z ^ (z >> 27)).wrapping_mul(0x94D049BB133111EB);
            z ^ (z >> 31)
        }
        pub fn below(&mut self, n: u64) -> u64 {
            self.next() % n
        }
    }
}
use rng::Rng;

fn hex(s: &str) -> String {
    if s.is_empty() {
        return "-".into();
    }
    let mut o = String::new();
    for b in s.as_bytes() {
        write!(o, "{:02x}", b).unwrap();
    }
    o
}

fn all_strings(alpha: &[&str], max_len: usize) -> Vec<String> {
    let mut out = vec![String::new()];
    let mut frontier = vec![String::new()];
    for _ in 0..max_len {
        let mut next = Vec::new();
        for s in &frontier {
            for a in alpha {
                let mut t = s.clone();
                t.push_str(a);
                next.push(t);
            }
        }
        out.extend(next.iter().cloned());
        frontier = next;
    }
    out
}

struct Out {
    ops: Vec<String>,
    imp: Vec<String>,
    violations: Vec<String>,
}

fn component_ok(c: &str) -> bool {
    !c.is_empty() && !c.contains('/') && !c.contains('\0') && c != "." && c != ".."
}

fn c14(seed: u64, thorough: bool, out: &mut Out) -> serde_free::Stats {
    let mut st = serde_free::Stats::default();
    let alpha = ["a", "Z", "0", "-", "_", ".", "/", " ", "\0", "é", "..", "\u{1F600}"];
    let mut keys = all_strings(&alpha, if thorough { 5 } else { 4 });
    st.exhaustive = keys.len();
    let mut rng = Rng(seed ^ 0xC14);
    let pool: Vec<char> = "abzAZ09-_./\\ \t\n\0~:é漢\u{1F600}\u{7f}\u{80}\u{202e}".chars().collect();
    let nrand = if thorough { 200_000 } else { 20_000 };
    for _ in 0..nrand {
        let len = rng.below(12) as usize;
        let mut s = String::new();
        for _ in 0..len {
            if rng.below(8) == 0 {
                // arbitrary scalar value
                loop {
                    if let Some(c) = char::from_u32(rng.below(0x110000) as u32) {
                        s.push(c);
                        break;
                    }
                }
            } else {
                s.push(pool[rng.below(pool.len() as u64) as usize]);
            }
        }
        keys.push(s);
    }
    st.random = nrand;
    let mut distinct = std::collections::HashSet::new();
    for k in &keys {
        let got = walrus_rust::wal::verif_hooks::sanitize_namespace(k);
        if !component_ok(&got) {
            out.violations.push(format!("sanitize key_hex={} -> {:?}", hex(k), got));
        }
        let fresh = distinct.insert(k.clone());
        if fresh && got != *k {
            st.changed += 1;
        }
        if fresh && got.starts_with("ns_") && !k.starts_with("ns_") {
            st.fallback += 1;
        }
        out.ops.push(format!("sanitize {}", hex(k)));
        out.imp.push(hex(&got));
    }
    st.distinct = distinct.len();
    // The real builder / constructors on a sample of keys: where do files appear?
    let base = std::path::PathBuf::from(format!("/dev/shm/walrus-verif-c14-{}", std::process::id()));
    let _ = std::fs::remove_dir_all(&base);
    let sample = ["..", ".", "", "a/b", "../x", "/abs", "ok", "_", "..."];
    for (i, k) in sample.iter().enumerate() {
        let data = base.join(format!("d{}", i)).join("data");
        std::fs::create_dir_all(&data).unwrap();
        let res = walrus_rust::Walrus::builder().data_dir(data.clone()).key(k).build();
        match res {
            Ok(w) => {
                let _ = w.append_for_topic("t", b"x");
                drop(w);
            }
            Err(e) => {
                out.violations.push(format!("builder key={:?} failed: {}", k, e));
                continue;
            }
        }
        let comp = walrus_rust::wal::verif_hooks::sanitize_namespace(k);
        // every regular file under base/d<i> must live in data/<comp>/
        let mut bad = Vec::new();
        let mut stack = vec![base.join(format!("d{}", i))];
        let mut nfiles = 0;
        while let Some(d) = stack.pop() {
            for e in std::fs::read_dir(&d).unwrap().flatten() {
                let p = e.path();
                if p.is_dir() {
                    stack.push(p);
                } else {
                    nfiles += 1;
                    if p.parent() != Some(data.join(&comp).as_path()) {
                        bad.push(p);
                    }
                }
            }
        }
        if !bad.is_empty() || nfiles == 0 {
            out.violations.push(format!("builder key={:?}: files outside data/{}: {:?} (n={})", k, comp, bad, nfiles));
        }
        st.builder_runs += 1;
    }
    let _ = std::fs::remove_dir_all(&base);
    st
}

fn c25(seed: u64, thorough: bool, out: &mut Out) -> serde_free::Stats {
    let mut st = serde_free::Stats::default();
    let alpha = ["t", "_", "s", "0", "1", "a"];
    let topics = all_strings(&alpha, if thorough { 6 } else { 5 });
    let segs: [u64; 6] = [0, 1, 9, 10, 1u64 << 63, u64::MAX];
    let mut distinct = std::collections::HashSet::new();
    let mut check = |t: &str, n: u64, out: &mut Out, st: &mut serde_free::Stats| {
        let k = types::wal_key(t, n);
        let back = types::parse_wal_key(&k);
        if back != Some((t.to_string(), n)) {
            out.violations.push(format!("roundtrip topic_hex={} seg={} key={:?} parsed={:?}", hex(t), n, k, back));
        }
        let fresh = distinct.insert((t.to_string(), n));
        if fresh && (t.contains("_s_") || t.contains("t_")) {
            st.changed += 1; // topics that contain a separator themselves
        }
        out.ops.push(format!("walkey {} {}", hex(t), n));
        out.imp.push(hex(&k));
        out.ops.push(format!("parsekey {}", hex(&k)));
        out.imp.push(match back {
            Some((a, b)) => format!("some {} {}", hex(&a), b),
            None => "none".into(),
        });
    };
    for t in &topics {
        for n in segs {
            check(t, n, out, &mut st);
        }
    }
    st.exhaustive = topics.len() * segs.len();
    let mut rng = Rng(seed ^ 0xC25);
    let pool: Vec<char> = "ts_0123456789+-a é/\0".chars().collect();
    let nrand = if thorough { 200_000 } else { 20_000 };
    for _ in 0..nrand {
        let len = rng.below(10) as usize;
        let t: String = (0..len).map(|_| pool[rng.below(pool.len() as u64) as usize]).collect();
        let n = match rng.below(4) {
            0 => rng.below(100),
            1 => u64::MAX - rng.below(3),
            _ => rng.next(),
        };
        check(&t, n, out, &mut st);
        // arbitrary keys through the parser alone (malformed stream)
        let klen = rng.below(14) as usize;
        let k: String = (0..klen).map(|_| pool[rng.below(pool.len() as u64) as usize]).collect();
        let back = types::parse_wal_key(&k);
        if back.is_some() {
            st.fallback += 1; // arbitrary key that parsed
        }
        out.ops.push(format!("parsekey {}", hex(&k)));
        out.imp.push(match back {
            Some((a, b)) => format!("some {} {}", hex(&a), b),
            None => "none".into(),
        });
    }
    st.random = nrand;
    st.distinct = distinct.len();
    st
}

mod serde_free {
    #[derive(Default)]
    pub struct Stats {
        pub exhaustive: usize,
        pub random: usize,
        pub distinct: usize,
        pub changed: usize,
        pub fallback: usize,
        pub builder_runs: usize,
    }
}

fn main() {
    let args: Vec<String> = std::env::args().collect();
    let mode = args.get(1).expect("mode");
    let outdir = std::path::PathBuf::from(args.get(2).expect("outdir"));
    let seed: u64 = std::env::var("VERIF_SEED").ok().and_then(|s| s.parse().ok()).unwrap_or(1);
    let thorough = std::env::var("VERIF_TIER").map(|t| t == "thorough").unwrap_or(false);
    std::env::set_var("WALRUS_QUIET", "1");
    std::fs::create_dir_all(&outdir).unwrap();
    let mut out = Out { ops: vec![], imp: vec![], violations: vec![] };
    let st = match mode.as_str() {
        "c14" => c14(seed, thorough, &mut out),
        "c25" => c25(seed, thorough, &mut out),
        _ => panic!("unknown mode"),
    };
    let mut f = std::io::BufWriter::new(std::fs::File::create(outdir.join("ops.txt")).unwrap());
    for l in &out.ops {
        writeln!(f, "{}", l).unwrap();
    }
    f.flush().unwrap();
    let mut f = std::io::BufWriter::new(std::fs::File::create(outdir.join("impl.txt")).unwrap());
    for l in &out.imp {
        writeln!(f, "{}", l).unwrap();
    }
    f.flush().unwrap();
    let mut f = std::fs::File::create(outdir.join("violations.txt")).unwrap();
    for l in &out.violations {
        writeln!(f, "{}", l).unwrap();
    }
    let mut f = std::fs::File::create(outdir.join("stats.json")).unwrap();
    writeln!(
        f,
        "{{\"requests\": {}, \"exhaustive_cases\": {}, \"random_cases\": {}, \"distinct_cases\": {}, \"nontrivial_cases\": {}, \"special_branch_cases\": {}, \"builder_runs\": {}, \"oracle_violations\": {}}}",
        out.ops.len(), st.exhaustive, st.random, st.distinct, st.changed, st.fallback, st.builder_runs, out.violations.len()
    )
    .unwrap();
    // the process may hold leaked walrus background threads; exit explicitly
    std::process::exit(0);
}
