//! Engine correspondence harness.
//!   engine_harness exec <datadir> <progfile> <outfile> <startline>   run one process segment of a program
//!   engine_harness gen <profile> <outdir>                            generate programs, run them, oracle, emit ops/impl
//!   engine_harness replay <progfile> <outdir>                        run one program file (corpus / replay)
mod exec;
mod conc;
mod gen;
mod mutate;
mod oracle;
mod prog;

fn main() {
    let args: Vec<String> = std::env::args().collect();
    std::env::set_var("WALRUS_QUIET", "1");
    match args.get(1).map(|s| s.as_str()) {
        Some("exec") => exec::main(&args[2..]),
        Some("gen") => gen::main(&args[2..]),
        Some("replay") => gen::replay(&args[2..]),
        Some("mutate") => mutate::main(&args[2..]),
        Some("conc") => conc::main(&args[2..]),
        Some("concrun") => conc::run(&args[2..]),
        _ => {
            eprintln!("usage: engine_harness exec|gen|replay ...");
            std::process::exit(2);
        }
    }
}
