//! Program generator + parallel runner (one fresh process per program segment) + emitter.
use crate::oracle;
use crate::prog::*;
use std::fmt::Write as _;
use std::io::Write as _;
use std::sync::atomic::{AtomicUsize, Ordering};
use std::sync::Mutex;

pub struct Rng(pub u64);
impl Rng {
    pub fn next(&mut self) -> u64 {
        self.0 = self.0.wrapping_add(0x9E3779B97F4A7C15);
        let mut z = self.0;
        z = (z ^ (z >> 30)).wrapping_mul(0xBF58476D1CE4E5B9);
        z = (z ^ (z >> 27)).wrapping_mul(0x94D049BB133111EB);
        z ^ (z >> 31)
    }
    pub fn below(&mut self, n: u64) -> u64 {
        if n == 0 { 0 } else { self.next() % n }
    }
    pub fn pick<'a, T>(&mut self, v: &'a [T]) -> &'a T {
        &v[self.below(v.len() as u64) as usize]
    }
    pub fn chance(&mut self, pct: u64) -> bool {
        self.below(100) < pct
    }
}

#[derive(Clone)]
pub struct Profile {
    pub name: &'static str,
    pub n_quick: usize,
    pub n_thorough: usize,
    pub ops: (usize, usize),
    pub topics: usize,
    pub restart_pct: u64,   // per op
    pub reject_pct: u64,    // per op: rejected appends (long topic, oversized, too many entries)
    pub peek_pct: u64,      // share of reads that are peeks
    pub offset_pct: u64,    // share of batch reads that are offset-addressed
    pub multi_unit_pct: u64, // share of appends with > 1 unit payloads
    pub marks_pct: u64,
    pub alo_pct: u64,       // share of programs in AtLeastOnce
    pub mmap_pct: u64,
    pub both_backends: bool,
    pub clock_back_pct: u64,
    pub fault_pct: u64,     // share of appends/batches preceded by an injected I/O fault
    pub reclaim_pct: u64,   // per op: observe the reclamation bookkeeping (`trks`), run the reclaimer, list the directory
    pub crash_w_pct: u64,   // share of appends/batches inside which the process is killed (at an entry write / the submission)
    pub crash_r_pct: u64,   // share of consuming reads inside which the process is killed (at an index persist)
}

pub fn profile(name: &str) -> Profile {
    let base = Profile { name: "seq", n_quick: 400, n_thorough: 6000, ops: (12, 60), topics: 2, restart_pct: 0, reject_pct: 0,
        peek_pct: 15, offset_pct: 0, multi_unit_pct: 3, marks_pct: 0, alo_pct: 30, mmap_pct: 40, both_backends: false, clock_back_pct: 0, fault_pct: 0, reclaim_pct: 0, crash_w_pct: 0, crash_r_pct: 0 };
    match name {
        "seq" => base,
        "peek" => Profile { name: "peek", peek_pct: 45, offset_pct: 35, ..base },
        "budget" => Profile { name: "budget", topics: 1, peek_pct: 20, ..base },
        "reject" => Profile { name: "reject", reject_pct: 12, restart_pct: 3, ..base },
        "restart" => Profile { name: "restart", restart_pct: 8, alo_pct: 0, multi_unit_pct: 0, ..base },
        "restart_any" => Profile { name: "restart_any", restart_pct: 8, reject_pct: 5, alo_pct: 30, multi_unit_pct: 6, clock_back_pct: 15, ..base },
        "backends" => Profile { name: "backends", restart_pct: 4, reject_pct: 6, peek_pct: 25, offset_pct: 20, multi_unit_pct: 5, both_backends: true, ..base },
        "faults" => Profile { name: "faults", fault_pct: 22, reject_pct: 6, restart_pct: 3, multi_unit_pct: 2, ..base },
        "reclaim" => Profile { name: "reclaim", reclaim_pct: 14, restart_pct: 3, ops: (50, 140), topics: 3, peek_pct: 25, offset_pct: 10, multi_unit_pct: 1, ..base },
        "crashw" => Profile { name: "crashw", crash_w_pct: 18, restart_pct: 2, multi_unit_pct: 1, alo_pct: 0, ops: (10, 45), ..base },
        "crashr" => Profile { name: "crashr", crash_r_pct: 22, restart_pct: 2, multi_unit_pct: 1, alo_pct: 40, peek_pct: 10, ops: (12, 50), ..base },
        "marksfree" => Profile { name: "marksfree", marks_pct: 100, topics: 6, ops: (120, 260), alo_pct: 0, ..base },
        "durable_inner" => Profile { name: "durable_inner", alo_pct: 0, peek_pct: 10, multi_unit_pct: 2, ops: (25, 70), restart_pct: 0, ..base },
        "durable" => Profile { name: "durable", alo_pct: 0, peek_pct: 10, multi_unit_pct: 2, ops: (25, 70), restart_pct: 0, ..base },
        "twoinst" => Profile { name: "twoinst", reclaim_pct: 10, restart_pct: 2, ops: (50, 130), topics: 2, peek_pct: 15, multi_unit_pct: 0, alo_pct: 20, ..base },
        "crashbig" => Profile { name: "crashbig", crash_w_pct: 100, alo_pct: 0, mmap_pct: 25, ..base },
        "marks" => Profile { name: "marks", marks_pct: 45, restart_pct: 10, ops: (6, 30), ..base },
        _ => panic!("unknown profile {}", name),
    }
}

pub struct Geo {
    pub small: bool,
    pub bs: u64,
    pub meta: u64,
    pub cap: u64,
    pub max_alloc: u64,
    pub max_batch_bytes: u64,
}

pub fn geo() -> Geo {
    let (bs, _bpf, ma, meta, cap, mbb) = walrus_rust::wal::verif_hooks::geometry();
    Geo { small: bs == 4096, bs, meta, cap, max_alloc: ma, max_batch_bytes: mbb }
}

struct SimTopic {
    /// every entry of this topic is under the 128-byte "small entry" threshold of the offset scan
    tiny: bool,
    /// sizes to replay next (the sizes of the entries of a batch that was made to fail)
    replay: Vec<u64>,
    name: String,
    off: u64,
    limit: u64,
    log: Vec<u64>,
    consumed: usize,
}

fn gen_size(r: &mut Rng, g: &Geo, st: &SimTopic, p: &Profile) -> u64 {
    if st.tiny {
        return r.below(128);
    }
    let rem = st.limit - st.off;
    let fit = rem.saturating_sub(g.meta);
    let c = r.below(100);
    if c < p.multi_unit_pct {
        // more than one unit
        let units = 1 + r.below(2);
        if r.below(100) < 45 {
            // payload just below a multiple of the unit: header + payload crosses into the next unit (or just does not)
            let d = *r.pick(&[1u64, 2, 100, 255, 256, 257, 300]);
            return ((units + 1) * g.bs - d).min(g.max_alloc - g.meta);
        }
        return (units * g.bs + r.below(g.bs / 2)).min(g.max_alloc - g.meta);
    }
    if p.reclaim_pct > 0 && c < 75 {
        // fill blocks and files quickly: entries of a third of a block up to a full block
        return g.bs / 3 + r.below(g.bs - g.bs / 3 - g.meta + 1);
    }
    if c < 30 {
        *r.pick(&[0u64, 0, 1, 5, 127, 128, 129, 200])
    } else if c < 50 {
        // around the remaining space of the current block
        let d = *r.pick(&[0i64, -1, 1, -2, 255, 256, 257]);
        let v = fit as i64 - d;
        if v < 0 || v as u64 > g.bs - g.meta { r.below(600) } else { v as u64 }
    } else if c < 60 {
        // a full block, exactly / one less / a few less
        g.bs - g.meta - *r.pick(&[0u64, 1, 2, 100, 255, 256])
    } else if g.small {
        r.below(1200)
    } else {
        *r.pick(&[300u64, 1000, 65536, 1 << 20, 3 << 20, (5 << 20) + 17])
    }
}

fn sim_append(g: &Geo, st: &mut SimTopic, len: u64) {
    let need = g.meta + len;
    if st.off + need > st.limit {
        st.limit = ((need + g.bs - 1) / g.bs) * g.bs;
        st.off = 0;
    }
    st.off += need;
    st.log.push(len);
}

/// large batches (up to the entry cap) interrupted at the submission / at an entry write
fn gen_crashbig(r: &mut Rng, g: &Geo, backend: &str) -> Vec<String> {
    let mut lines = vec![format!("cfg {} strict {}", if g.small { "small" } else { "real" }, backend), "clock 1700000000000".into(), "open".into()];
    let mut seedctr = 0u64;
    let mut clock = 1_700_000_000_000u64;
    for round in 0..2 {
        for _ in 0..(1 + r.below(3)) {
            seedctr += 1;
            lines.push(format!("append t0 {}:{}", 1 + r.below(300), 1 + seedctr % 120));
        }
        let n = match r.below(4) { 0 => g.cap, 1 => g.cap - r.below(g.cap / 4 + 1), 2 => g.cap / 2 + 1 + r.below(g.cap / 4 + 1), _ => 2 + r.below(g.cap.min(12)) };
        let items: Vec<String> = (0..n).map(|_| { seedctr += 1; format!("{}:{}", 1 + r.below(24), 1 + seedctr % 120) }).collect();
        if backend == "fd" && r.chance(60) { lines.push("crash 7 0".into()); }
        else { lines.push(format!("crash {} {}", if r.chance(50) { 0 } else { 8 }, r.below(n))); }
        lines.push(format!("batch t0 {}", items.join(",")));
        clock += 5000;
        lines.push(format!("clock {}", clock));
        lines.push("open".into());
        lines.push("count t0".into());
        if round == 1 {
            for _ in 0..(2 * g.cap / g.cap.min(2000) + 3) { lines.push(format!("bread t0 {} 1 -", u64::MAX)); }
            lines.push("count t0".into());
        }
    }
    lines
}

pub fn gen_program(r: &mut Rng, g: &Geo, p: &Profile, backend: &str, seed_tag: u64) -> Vec<String> {
    if p.name == "crashbig" {
        return gen_crashbig(r, g, backend);
    }
    if p.name == "durable" {
        // C10: an instance with FsyncSchedule::SyncEach, its I/O events recorded. Variant B: a NoFsync instance is
        // constructed first in the same process (the O_SYNC decision of the storage layer is process-wide and
        // taken by the first instance), then the SyncEach instance on another directory.
        let mut q = p.clone();
        q.name = "durable_inner";
        let inner = gen_program(r, g, &q, backend, seed_tag);
        let two = r.chance(40);
        let mut out: Vec<String> = Vec::new();
        for l in inner.iter() {
            let kind = l.split_whitespace().next().unwrap_or("");
            match kind {
                "cfg" | "clock" => out.push(l.clone()),
                "open" => {
                    if two { out.push("open".into()); out.push("append t0 7:1".into()); out.push("trace on".into()); out.push("B opensync".into()); }
                    else { out.push("trace on".into()); out.push("opensync".into()); }
                }
                _ => out.push(if two { format!("B {}", l) } else { l.clone() }),
            }
        }
        return out;
    }
    if p.name == "backends" && r.chance(5) {
        // a long backlog on one topic (more sealed blocks than any fixed-size submission ring holds), then batch reads
        // whose budget spans all of it: one planned range per block
        let mut lines = vec![format!("cfg {} {} {}", if g.small { "small" } else { "real" }, if r.chance(30) { "alo:3" } else { "strict" }, backend),
            "clock 1700000000000".into(), "open".into()];
        let n = if g.small { 66 + r.below(40) } else { 3 + r.below(4) };
        let mut ctr = 0u64;
        for k in 0..n {
            ctr += 1;
            lines.push(format!("append t0 {}:{}", g.bs - g.meta - r.below(g.bs / 3), 1 + ctr % 120));
            if k % 17 == 5 { ctr += 1; lines.push(format!("append t1 {}:{}", 1 + r.below(200), 1 + ctr % 120)); }
        }
        lines.push("count t0".into());
        if r.chance(50) { lines.push(format!("bread t0 {} 0 -", u64::MAX)); }
        lines.push(format!("bread t0 {} 1 -", u64::MAX));
        lines.push("count t0".into());
        if r.chance(50) { lines.push("restart".into()); lines.push("clock 1700000009000".into()); lines.push("open".into()); lines.push("count t0".into()); }
        for _ in 0..(2 + r.below(3)) { lines.push(format!("bread t0 {} 1 -", if r.chance(50) { u64::MAX } else { g.bs * (2 + r.below(80)) })); }
        lines.push("count t0".into());
        lines.push("next t1 1".into());
        return lines;
    }
    if p.name == "marksfree" {
        // the background persister runs freely: bursts of opposite marker changes on the same topic while its
        // file write may be in flight, then a clean restart and the question what every topic reports
        let mut lines = vec![format!("cfg {} strict {}", if g.small { "small" } else { "real" }, backend), "clock 1700000000000".into(), "open".into(), "persister free".into()];
        let nt = p.topics as u64;
        let mut clock = 1_700_000_000_000u64;
        for round in 0..3 {
            let n = p.ops.0 / 3 + r.below(((p.ops.1 - p.ops.0) / 3) as u64) as usize;
            for _ in 0..n {
                let t = format!("t{}", r.below(nt));
                match r.below(6) {
                    0 => { lines.push(format!("append {} 5:1", t)); lines.push(format!("mark {} clean", t)); }
                    1 => { lines.push(format!("mark {} dirty", t)); lines.push(format!("mark {} clean", t)); }
                    2 => { lines.push(format!("mark {} clean", t)); lines.push(format!("mark {} dirty", t)); }
                    3 => { lines.push(format!("mark {} dirty", t)); lines.push(format!("mark {} clean", t)); lines.push(format!("mark {} dirty", t)); }
                    4 => lines.push(format!("isclean {}", t)),
                    _ => { for k in 0..nt { lines.push(format!("mark t{} {}", k, if r.chance(50) { "clean" } else { "dirty" })); } }
                }
            }
            let _ = round;
            if r.chance(50) { lines.push("restart".into()); clock += 3000; lines.push(format!("clock {}", clock)); } else { lines.push("close".into()); }
            lines.push("open".into());
            lines.push("persister free".into());
            for k in 0..nt { lines.push(format!("isclean t{}", k)); }
        }
        return lines;
    }
    let mode = if r.chance(p.alo_pct) { format!("alo:{}", 1 + r.below(8)) } else { "strict".to_string() };
    let mut lines = vec![format!("cfg {} {} {}", if g.small { "small" } else { "real" }, mode, backend)];
    let mut clock = 1_700_000_000_000 + (seed_tag % 7) * 1000;
    lines.push(format!("clock {}", clock));
    lines.push("open".into());
    let mut topics: Vec<SimTopic> = (0..p.topics).map(|k| SimTopic { tiny: false, replay: vec![], name: format!("t{}", k), off: 0, limit: g.bs, log: vec![], consumed: 0 }).collect();
    if p.reclaim_pct > 0 && r.chance(35) {
        // blocks made of small entries only: the offset scan skips them all
        topics[0].tiny = true;
    }
    let nops = p.ops.0 + r.below((p.ops.1 - p.ops.0) as u64) as usize;
    let mut seedctr = 0u64;
    let mut next_desc = |len: u64| -> String {
        seedctr += 1;
        if len == 0 { "0:0".to_string() } else { format!("{}:{}", len, 1 + seedctr % 120) }
    };
    // programs come in flavours: write-heavy first (fill blocks) or interleaved
    let write_heavy = r.chance(40);
    for k in 0..nops {
        let ti = r.below(topics.len() as u64) as usize;
        let c = r.below(100);
        if r.chance(p.restart_pct) {
            match r.below(3) {
                0 => {
                    lines.push("close".into());
                    lines.push("open".into());
                }
                _ => {
                    lines.push("restart".into());
                    // the wall clock may move either way between runs
                    if r.chance(p.clock_back_pct) {
                        clock -= 1 + r.below(5000);
                    } else if r.chance(20) {
                        clock += 10_000_000;
                    } else {
                        clock += 1 + r.below(3000);
                    }
                    lines.push(format!("clock {}", clock));
                    lines.push("open".into());
                }
            }
            continue;
        }
        if r.chance(p.reclaim_pct) {
            match r.below(5) {
                0 | 1 => lines.push("trks".into()),
                2 => lines.push("ls".into()),
                _ => { lines.push("reclaim".into()); lines.push("trks".into()); }
            }
            continue;
        }
        if r.chance(p.marks_pct) {
            let t = &topics[ti].name;
            match r.below(4) {
                0 => lines.push(format!("mark {} clean", t)),
                1 => lines.push(format!("mark {} dirty", t)),
                2 => lines.push("persist".into()),
                _ => lines.push(format!("isclean {}", t)),
            }
            continue;
        }
        if r.chance(p.reject_pct) && (!topics[ti].log.is_empty() || r.chance(15)) {
            let t = topics[ti].name.clone();
            match *r.pick(&[0u64, 1, 2, 3, 3, 3, 3, 4, 4, 4, 5, 5, 5, 5, 6, 6, 7, 7]) {
                0 => lines.push(format!("append L{} {}", r.below(2), next_desc(10))),
                1 => lines.push(format!("batch L{} {},{}", r.below(2), next_desc(10), next_desc(300))),
                // topic names at the edge of what the entry header can hold (216 bytes fit, 217 do not)
                6 => { let m = r.below(6); lines.push(format!("append M{} {}", m, next_desc(10))); lines.push(format!("next M{} 1", m)); }
                7 => { let m = r.below(6); lines.push(format!("batch M{} {},{}", m, next_desc(10), next_desc(300))); lines.push(format!("append M{} {}", m, next_desc(5))); lines.push(format!("bread M{} 99999 1 -", m)); }
                2 if g.small => lines.push(format!("append {} {}", t, next_desc(g.max_alloc - g.meta + 1 + r.below(50)))),
                3 => {
                    let n = g.cap + 1;
                    let items: Vec<String> = (0..n).map(|_| next_desc(1)).collect();
                    if g.small { lines.push(format!("batch {} {}", t, items.join(","))) }
                }
                4 if g.small => {
                    // over the byte limit: entries of one unit each
                    let n = g.max_batch_bytes / (g.bs - 200) + 1;
                    if n <= g.cap {
                        let items: Vec<String> = (0..n).map(|_| next_desc(g.bs - g.meta)).collect();
                        lines.push(format!("batch {} {}", t, items.join(",")));
                    } else {
                        lines.push(format!("batch {} -", t));
                    }
                }
                _ => lines.push(format!("batch {} -", t)),
            }
            continue;
        }
        let writing = if write_heavy { k < nops * 2 / 3 && c < 85 } else { c < 50 };
        if writing {
            let st = &mut topics[ti];
            if !st.replay.is_empty() && r.chance(70) {
                // re-append entries of the sizes of the failed batch's first entries: the new entries end
                // exactly where the failed batch's later entries began
                let k = 1 + r.below(st.replay.len() as u64) as usize;
                let sizes: Vec<u64> = st.replay[..k].to_vec();
                st.replay.clear();
                for len in sizes {
                    sim_append(g, st, len);
                    lines.push(format!("append {} {}", st.name, next_desc(len)));
                }
                if r.chance(50) {
                    lines.push("restart".into());
                    clock += 1 + r.below(3000);
                    lines.push(format!("clock {}", clock));
                    lines.push("open".into());
                }
                continue;
            }
            let faulty = r.chance(p.fault_pct);
            let crashy = !faulty && r.chance(p.crash_w_pct);
            let is_batch = r.chance(if faulty || crashy { 70 } else { 30 });
            if crashy {
                if backend == "fd" && is_batch && r.chance(20) { lines.push("crash 7 0".into()); }
                else if r.chance(35) { lines.push(format!("crash 8 {}", if is_batch { r.below(5) } else { r.below(2) })); }
                else { lines.push(format!("crash 0 {}", if is_batch { r.below(5) } else { 0 })); }
            }
            if faulty {
                // entry-write failure at position 0..=5 (a position beyond the batch never fires), or,
                // on the io_uring path only, a failed submission
                if backend == "fd" && r.chance(15) { lines.push("fault 7 0".into()); }
                else { lines.push(format!("fault 0 {}", if is_batch { r.below(6) } else { r.below(2) })); }
            }
            if is_batch {
                let n = 1 + r.below(g.cap.min(6));
                let mut items = Vec::new();
                let mut total = 0;
                for _ in 0..n {
                    let len = gen_size(r, g, st, p);
                    if total + len + g.meta > g.max_batch_bytes { break; }
                    total += len + g.meta;
                    sim_append(g, st, len);
                    items.push(next_desc(len));
                }
                if items.is_empty() { items.push(next_desc(1)); sim_append(g, st, 1); }
                if faulty {
                    st.replay = items.iter().map(|d| d.split(':').next().unwrap().parse::<u64>().unwrap()).collect();
                }
                lines.push(format!("batch {} {}", st.name, items.join(",")));
            } else {
                let len = gen_size(r, g, st, p);
                sim_append(g, st, len);
                lines.push(format!("append {} {}", st.name, next_desc(len)));
            }
            if crashy {
                clock += 1 + r.below(3000);
                lines.push(format!("clock {}", clock));
                lines.push("open".into());
                for tt in topics.iter() { lines.push(format!("count {}", tt.name)); }
            }
        } else {
            let crash_read = r.chance(p.crash_r_pct);
            if crash_read {
                lines.push(format!("crash {} {}", 2 + r.below(2), r.below(3)));
            }
            let st = &mut topics[ti];
            let cp = crash_read || !r.chance(p.peek_pct);
            match if crash_read { r.below(9) } else { r.below(10) } {
                0..=3 => {
                    lines.push(format!("next {} {}", st.name, cp as u8));
                    if cp && st.consumed < st.log.len() { st.consumed += 1; }
                }
                4..=8 => {
                    // budget steered by the sizes of the next unconsumed entries
                    let upcoming: Vec<u64> = st.log[st.consumed.min(st.log.len())..].iter().take(8).copied().collect();
                    let s1 = upcoming.first().copied().unwrap_or(10);
                    let k2 = 1 + r.below(upcoming.len().max(1) as u64) as usize;
                    let sumk: u64 = upcoming.iter().take(k2).sum();
                    let rawk: u64 = sumk + k2 as u64 * g.meta;
                    let max = match r.below(12) {
                        0 => 0,
                        1 => 1,
                        2 => s1.saturating_sub(1),
                        3 => s1,
                        4 => s1 + 1,
                        5 => sumk,
                        6 => sumk.saturating_sub(1),
                        7 => sumk + 1,
                        8 => rawk,
                        9 => rawk + *r.pick(&[0u64, 1, 255, 256, 257]),
                        10 => u64::MAX,
                        _ => r.below(3 * g.bs),
                    };
                    let off = if r.chance(p.offset_pct) {
                        let total: u64 = st.log.iter().map(|l| l + g.meta).sum();
                        let mut bounds = vec![0u64];
                        let mut acc = 0;
                        for l in &st.log { acc += l + g.meta; bounds.push(acc); }
                        let b = *r.pick(&bounds);
                        let o = match if p.reclaim_pct > 0 && r.chance(40) { 9 } else { r.below(6) } { 9 => 0, 0 => b, 1 => b + 1, 2 => b.saturating_sub(1), 3 => b + g.meta, 4 => b + g.meta + 3, _ => r.below(total + 600) };
                        format!("{}", o)
                    } else { "-".to_string() };
                    // a non-consuming batch read must leave the reclamation bookkeeping alone: observe it on both sides
                    let bracket = p.reclaim_pct > 0 && (!cp || off != "-") && r.chance(60);
                    if bracket { lines.push("trks".into()); }
                    lines.push(format!("bread {} {} {} {}", st.name, max, cp as u8, off));
                    if bracket { lines.push("trks".into()); }
                    if cp && off == "-" {
                        // rough estimate of consumption to keep steering meaningful
                        let mut tot = 0; let mut n = 0;
                        for l in upcoming.iter() { if n > 0 && tot + l > max { break; } tot += l; n += 1; if n as u64 >= g.cap { break; } }
                        st.consumed = (st.consumed + n).min(st.log.len());
                    }
                }
                _ => lines.push(format!("count {}", st.name)),
            }
            if crash_read {
                clock += 1 + r.below(3000);
                lines.push(format!("clock {}", clock));
                lines.push("open".into());
            }
        }
    }
    // drain: everything appended must come out (C01 "no entry is ever skipped")
    for st in &topics {
        lines.push(format!("count {}", st.name));
        let pending = st.log.len() + 2;
        if r.chance(50) {
            for _ in 0..(pending / 2 + 2) { lines.push(format!("bread {} {} 1 -", st.name, u64::MAX)); }
        } else {
            for _ in 0..pending.min(40) { lines.push(format!("next {} 1", st.name)); }
            for _ in 0..3 { lines.push(format!("bread {} {} 1 -", st.name, u64::MAX)); }
        }
        lines.push(format!("count {}", st.name));
    }
    if p.name == "twoinst" {
        // two instances in one process: every data operation is addressed to A or to B at random; both use the
        // same topic names; B is opened right after A and reopened whenever A is
        let mut out: Vec<String> = Vec::new();
        for l in lines.iter() {
            let kind = l.split_whitespace().next().unwrap_or("");
            match kind {
                "cfg" | "clock" | "reclaim" => out.push(l.clone()),
                "open" => { out.push(l.clone()); out.push(format!("B {}", l)); }
                "close" => { out.push(l.clone()); out.push(format!("B {}", l)); }
                "restart" => out.push(l.clone()),
                "trks" | "ls" => { out.push(l.clone()); out.push(format!("B {}", l)); }
                _ => { if r.chance(50) { out.push(format!("B {}", l)); } else { out.push(l.clone()); } }
            }
        }
        // the generator's bookkeeping above was per topic, not per instance: drain both instances completely
        for inst in ["", "B "] {
            for st in &topics {
                for _ in 0..(st.log.len() / 2 + 4) { out.push(format!("{}bread {} {} 1 -", inst, st.name, u64::MAX)); }
                out.push(format!("{}count {}", inst, st.name));
            }
        }
        out.push("trks".into());
        out.push("B trks".into());
        out.push("reclaim".into());
        out.push("ls".into());
        out.push("B ls".into());
        out.push("restart".into());
        out.push(format!("clock {}", clock + 50_000));
        out.push("open".into());
        out.push("B open".into());
        for inst in ["", "B "] {
            for st in &topics {
                out.push(format!("{}count {}", inst, st.name));
                out.push(format!("{}bread {} {} 1 -", inst, st.name, u64::MAX));
            }
        }
        return out;
    }
    if p.reclaim_pct > 0 {
        lines.push("trks".into());
        lines.push("reclaim".into());
        lines.push("ls".into());
        lines.push("restart".into());
        lines.push(format!("clock {}", clock + 50_000));
        lines.push("open".into());
        for st in &topics {
            lines.push(format!("count {}", st.name));
            lines.push(format!("bread {} {} 1 -", st.name, u64::MAX));
        }
    }
    lines
}

pub struct RunResult {
    pub outs: Vec<String>,
    pub note: Option<String>,
    /// the I/O event trace of the program (`trace on`), if any
    pub trace: String,
}

/// Run one program: a fresh child process per segment (segments end at `restart`).
/// A segment that exceeds 120 s is not reported as a hang at once: the whole program is run a second time with a
/// 900 s limit per segment (real-geometry programs move hundreds of MB and slow down a lot on a loaded machine);
/// only a hang that repeats is reported.
pub fn run_program(lines: &[String], tag: &str) -> RunResult {
    let r = run_program_with_limit(lines, tag, 120);
    if r.note.as_deref().map(|n| n.contains("hung")).unwrap_or(false) {
        return run_program_with_limit(lines, tag, 900);
    }
    r
}

fn run_program_with_limit(lines: &[String], tag: &str, limit_s: u64) -> RunResult {
    let exe = std::env::current_exe().unwrap();
    let base = std::path::PathBuf::from(format!("/dev/shm/walrus-verif-e-{}-{}", std::process::id(), tag));
    let _ = std::fs::remove_dir_all(&base);
    std::fs::create_dir_all(base.join("data")).unwrap();
    let progf = base.join("prog.txt");
    std::fs::write(&progf, lines.join("\n") + "\n").unwrap();
    let outf = base.join("out.txt");
    let nops = lines.len() - 1;
    let mut note = None;
    let mut start = 1usize;
    loop {
        let mut child = std::process::Command::new(&exe)
            .args(["exec", base.join("data").to_str().unwrap(), progf.to_str().unwrap(), outf.to_str().unwrap(), &start.to_string()])
            .stdout(std::process::Stdio::null())
            .stderr(std::process::Stdio::null())
            .spawn()
            .unwrap();
        let t0 = std::time::Instant::now();
        let status = loop {
            match child.try_wait().unwrap() {
                Some(s) => break Some(s),
                None => {
                    if t0.elapsed().as_secs() > limit_s {
                        let _ = child.kill();
                        let _ = child.wait();
                        break None;
                    }
                    std::thread::sleep(std::time::Duration::from_millis(2));
                }
            }
        };
        let done = std::fs::read_to_string(&outf).unwrap_or_default().lines().count();
        match status.map(|s| s.code()) {
            Some(Some(77)) => {
                start = done + 1;
                if start > nops { break; }
            }
            Some(Some(78)) => {
                // the armed crash point was reached inside the operation at line done+1: it has no output
                use std::io::Write as _;
                let mut f = std::fs::OpenOptions::new().create(true).append(true).open(&outf).unwrap();
                writeln!(f, "crashed").unwrap();
                start = done + 2;
                if start > nops { break; }
            }
            Some(Some(0)) => break,
            Some(code) => {
                note = Some(format!("child died with {:?} while executing line {}", code, done + 1));
                break;
            }
            None => {
                note = Some(format!("child hung ({} s) while executing line {}", limit_s, done + 1));
                break;
            }
        }
    }
    let mut outs: Vec<String> = std::fs::read_to_string(&outf).unwrap_or_default().lines().map(|s| s.to_string()).collect();
    if outs.len() < nops {
        let tagw = if note.as_deref().map(|n| n.contains("hung")).unwrap_or(false) { "hang" } else { "abort" };
        outs.push(tagw.to_string());
        while outs.len() < nops { outs.push("skipped".into()); }
    }
    let trace = std::fs::read_to_string(format!("{}.trace", outf.to_string_lossy())).unwrap_or_default();
    let _ = std::fs::remove_dir_all(&base);
    RunResult { outs, note, trace }
}

fn json_str(s: &str) -> String {
    let mut o = String::from("\"");
    for c in s.chars() {
        match c {
            '"' => o.push_str("\\\""),
            '\\' => o.push_str("\\\\"),
            '\n' => o.push_str("\\n"),
            c if (c as u32) < 0x20 => { write!(o, "\\u{:04x}", c as u32).unwrap(); }
            c => o.push(c),
        }
    }
    o.push('"');
    o
}

pub fn run_all(programs: Vec<Vec<String>>, outdir: &std::path::Path, g: &Geo, pname: &str, pairs_from: Option<usize>) {
    std::fs::create_dir_all(outdir.join("programs")).unwrap();
    let n = programs.len();
    let results: Mutex<Vec<Option<RunResult>>> = Mutex::new((0..n).map(|_| None).collect());
    let nextp = AtomicUsize::new(0);
    let threads = std::thread::available_parallelism().map(|x| x.get()).unwrap_or(8).min(16);
    std::thread::scope(|s| {
        for _ in 0..threads {
            s.spawn(|| loop {
                let k = nextp.fetch_add(1, Ordering::SeqCst);
                if k >= n { break; }
                let r = run_program(&programs[k], &format!("{}", k));
                results.lock().unwrap()[k] = Some(r);
            });
        }
    });
    let results = results.into_inner().unwrap();
    let mut ops = std::io::BufWriter::new(std::fs::File::create(outdir.join("ops.txt")).unwrap());
    let mut imp = std::io::BufWriter::new(std::fs::File::create(outdir.join("impl.txt")).unwrap());
    let mut map = std::io::BufWriter::new(std::fs::File::create(outdir.join("progmap.txt")).unwrap());
    let mut vio = std::io::BufWriter::new(std::fs::File::create(outdir.join("violations.txt")).unwrap());
    let mut line_no = 1usize;
    let mut hist: std::collections::BTreeMap<String, u64> = Default::default();
    let mut nontrivial = 0u64;
    let mut distinct = std::collections::HashSet::new();
    let mut total_ops = 0u64;
    for (k, (prog, res)) in programs.iter().zip(results.iter()).enumerate() {
        let res = res.as_ref().unwrap();
        std::fs::write(outdir.join("programs").join(format!("{}.prog", k)), prog.join("\n") + "\n").unwrap();
        if !res.trace.is_empty() {
            std::fs::create_dir_all(outdir.join("traces")).unwrap();
            std::fs::write(outdir.join("traces").join(format!("{}.trace", k)), &res.trace).unwrap();
        }
        let cfg = parse_cfg(&prog[0]);
        writeln!(map, "{} {} {}", k, line_no, prog.len()).unwrap();
        writeln!(ops, "eng {}", prog[0]).unwrap();
        writeln!(imp, "ok").unwrap();
        for (op, out) in prog[1..].iter().zip(res.outs.iter()) {
            writeln!(ops, "eng {}", op).unwrap();
            writeln!(imp, "{}", out).unwrap();
            let kind = op.split_whitespace().next().unwrap_or("");
            *hist.entry(format!("op_{}", kind)).or_default() += 1;
            if out.starts_with("err:") { *hist.entry(format!("out_{}", out)).or_default() += 1; }
            if out == "panic" || out == "abort" || out == "hang" { *hist.entry(format!("out_{}", out)).or_default() += 1; }
            total_ops += 1;
        }
        line_no += prog.len();
        *hist.entry(format!("mode_{}", if cfg.mode == "strict" { "strict" } else { "alo" })).or_default() += 1;
        *hist.entry(format!("backend_{}", cfg.backend)).or_default() += 1;
        // non-trivial: the program rotated a block or restarted or contains a rejected op
        let mut rot = false;
        {
            let mut offs: std::collections::HashMap<String, u64> = Default::default();
            for (op, out) in prog[1..].iter().zip(res.outs.iter()) {
                let t: Vec<&str> = op.split_whitespace().collect();
                if (t[0] == "append" || t[0] == "batch") && out == "ok" {
                    let e = offs.entry(t[1].to_string()).or_default();
                    for d in if t[0] == "append" { vec![Desc::parse(t[2])] } else { parse_batch(t[2]) } {
                        *e += g.meta + d.len as u64;
                    }
                    if *e > g.bs { rot = true; }
                }
            }
        }
        let restarted = prog.iter().filter(|l| l.as_str() == "open").count() > 1;
        let rejected = res.outs.iter().any(|o| o.starts_with("err:"));
        if rot { *hist.entry("programs_rotating".into()).or_default() += 1; }
        if restarted { *hist.entry("programs_reopening".into()).or_default() += 1; }
        if rejected { *hist.entry("programs_with_rejection".into()).or_default() += 1; }
        if distinct.insert(prog.join("\n")) && (rot || restarted || rejected) { nontrivial += 1; }
        if let Some(note) = &res.note {
            writeln!(vio, "ANY\t{}\t0\t{}", k, note).unwrap();
        }
        for v in oracle::check(&cfg, g.cap as usize, (g.max_alloc - g.meta) as usize, &prog[1..], &res.outs) {
            writeln!(vio, "{}\t{}\t{}\t{}", v.prop, k, v.line, v.msg).unwrap();
        }
        // C16: programs come in (fd, mmap) pairs; the two backends must answer every operation identically
        if let Some(first) = pairs_from {
            if k >= first && (k - first) % 2 == 1 {
                let other = results[k - 1].as_ref().unwrap();
                for (j, (a, b)) in other.outs.iter().zip(res.outs.iter()).enumerate() {
                    if a != b {
                        writeln!(vio, "C16\t{}\t{}\t`{}` -> fd backend: {} / mmap backend: {}", k, j + 1, prog.get(j + 1).map(|s| s.as_str()).unwrap_or("?"), a, b).unwrap();
                        *hist.entry("backend_pairs_differing".into()).or_default() += 1;
                        break;
                    }
                }
                *hist.entry("backend_pairs_compared".into()).or_default() += 1;
            }
        }
    }
    ops.flush().unwrap();
    imp.flush().unwrap();
    map.flush().unwrap();
    vio.flush().unwrap();
    let mut s = String::from("{");
    write!(s, "\"profile\": {}, \"geometry\": {}, \"programs\": {}, \"operations\": {}, \"distinct_nontrivial\": {}",
        json_str(pname), json_str(if g.small { "small" } else { "real" }), n, total_ops, nontrivial).unwrap();
    for (k, v) in &hist { write!(s, ", {}: {}", json_str(k), v).unwrap(); }
    s.push('}');
    std::fs::write(outdir.join("stats.json"), s).unwrap();
}

pub fn main(args: &[String]) {
    let p = profile(&args[0]);
    let outdir = std::path::PathBuf::from(&args[1]);
    let seed: u64 = std::env::var("VERIF_SEED").ok().and_then(|s| s.parse().ok()).unwrap_or(1);
    let thorough = std::env::var("VERIF_TIER").map(|t| t == "thorough").unwrap_or(false);
    let count_override: Option<usize> = std::env::var("VERIF_NPROG").ok().and_then(|s| s.parse().ok());
    let g = geo();
    let mut r = Rng(seed.wrapping_mul(0x1234567) ^ (p.name.len() as u64) << 32 ^ g.bs);
    let mut n = if thorough { p.n_thorough } else { p.n_quick };
    if !g.small { n = (n / 10).max(8); }
    if let Some(c) = count_override { n = c; }
    let mut programs = Vec::new();
    // corpus first
    if let Some(corpus) = args.get(2) {
        if let Ok(rd) = std::fs::read_dir(corpus) {
            let mut files: Vec<_> = rd.flatten().map(|e| e.path()).filter(|p| p.extension().map(|e| e == "prog").unwrap_or(false)).collect();
            files.sort();
            for f in files {
                let lines: Vec<String> = std::fs::read_to_string(&f).unwrap().lines().map(|s| s.to_string()).filter(|l| !l.starts_with('#') && !l.is_empty()).collect();
                if lines.is_empty() { continue; }
                let cfg = parse_cfg(&lines[0]);
                if (cfg.geom == "small") == g.small { programs.push(lines); }
            }
        }
    }
    let ncorpus = programs.len();
    for k in 0..n {
        if p.both_backends {
            let a = gen_program(&mut r, &g, &p, "fd", k as u64);
            let mut b = a.clone();
            b[0] = b[0].replace(" fd", " mmap");
            programs.push(a);
            programs.push(b);
        } else {
            let backend = if r.chance(p.mmap_pct) { "mmap" } else { "fd" };
            programs.push(gen_program(&mut r, &g, &p, backend, k as u64));
        }
    }
    run_all(programs, &outdir, &g, p.name, if p.both_backends { Some(ncorpus) } else { None });
    std::fs::write(outdir.join("corpus_count.txt"), format!("{}\n", ncorpus)).unwrap();
}

pub fn replay(args: &[String]) {
    let lines: Vec<String> = std::fs::read_to_string(&args[0]).unwrap().lines().map(|s| s.to_string()).filter(|l| !l.starts_with('#') && !l.is_empty()).collect();
    let outdir = std::path::PathBuf::from(&args[1]);
    let g = geo();
    if std::env::var("VERIF_BOTH_BACKENDS").is_ok() {
        let mut a = lines.clone();
        a[0] = a[0].replace(" mmap", " fd");
        let mut b = lines.clone();
        b[0] = b[0].replace(" fd", " mmap");
        run_all(vec![a, b], &outdir, &g, "replay", Some(0));
    } else {
        run_all(vec![lines], &outdir, &g, "replay", None);
    }
}
