//! The properties' own statements, evaluated on the implementation's outputs (independent of the
//! Lean model).  Sequential single-instance programs.
use crate::prog::*;
use std::collections::HashMap;

#[derive(Debug, Clone)]
pub struct Violation {
    pub prop: &'static str,
    pub line: usize,
    pub msg: String,
}

struct TopicSt {
    log: Vec<Desc>,
    /// candidate values of "number of entries consumed so far"; a singleton except in
    /// AtLeastOnce after a reopen, where any durable position <= the in-memory one is allowed
    cands: std::collections::BTreeSet<usize>,
    clean: bool,
    /// entries of an append/batch that was in flight when the process died: a prefix of them may have
    /// reached the disk; resolved at the next `count` of the topic
    maybe: Option<Vec<Desc>>,
}

impl Default for TopicSt {
    fn default() -> Self {
        TopicSt { log: Vec::new(), cands: [0usize].into_iter().collect(), clean: true, maybe: None }
    }
}

fn parse_entry(s: &str) -> Option<(Desc, usize)> {
    let (d, trim) = match s.split_once('+') {
        Some((a, b)) => (a, b.parse().ok()?),
        None => (s, 0usize),
    };
    let (a, b) = d.split_once(':')?;
    Some((Desc { len: a.parse().ok()?, seed: b.parse().ok()? }, trim))
}

fn parse_list(s: &str) -> Option<Vec<(Desc, usize)>> {
    let inner = s.strip_prefix('[')?.strip_suffix(']')?;
    if inner.is_empty() {
        return Some(vec![]);
    }
    inner.split(',').map(parse_entry).collect()
}

pub fn check(cfg: &Cfg, cap: usize, max_entry: usize, ops: &[String], outs: &[String]) -> Vec<Violation> {
    let mut v = check_inner(cfg, cap, ops, outs);
    // C01/C02/C03 quantify over payload sizes "up to the advertised limits": once a single entry larger than
    // MAX_ALLOC was offered, later delivery mismatches are C04's (rejected appends leave no trace) and C15's.
    let first_oversize = ops.iter().position(|op| {
        let t: Vec<&str> = op.split_whitespace().collect();
        match t.first().copied() {
            Some("append") => Desc::parse(t[2]).len > max_entry,
            Some("batch") => parse_batch(t[2]).iter().any(|d| d.len > max_entry),
            _ => false,
        }
    });
    if let Some(fo) = first_oversize {
        for x in v.iter_mut() {
            if x.line > fo + 1 && matches!(x.prop, "C01" | "C02" | "C03") {
                x.prop = "C04";
                x.msg = format!("after the over-limit entry at line {}: {}", fo + 1, x.msg);
            }
        }
    }
    // C07 / C09: after a process death inside a write (a consuming read), any later delivery, order, count or
    // position mismatch is a failure of crash recovery of appends (of consumer positions)
    let first_crash_w = ops.iter().zip(outs.iter()).position(|(op, out)| out == "crashed" && (op.starts_with("append") || op.starts_with("batch")));
    let first_crash_r = ops.iter().zip(outs.iter()).position(|(op, out)| out == "crashed" && (op.starts_with("next") || op.starts_with("bread")));
    for (fc, prop) in [(first_crash_w, "C07"), (first_crash_r, "C09")] {
        if let Some(fc) = fc {
            let extra: Vec<Violation> = v
                .iter()
                .filter(|x| x.line > fc + 1 && matches!(x.prop, "C01" | "C02" | "C03" | "C15" | "C06" | "ANY"))
                .map(|x| Violation { prop, line: x.line, msg: format!("after the crash at line {}: {}", fc + 1, x.msg) })
                .collect();
            v.extend(extra);
        }
    }
    // C13: in a process with two live instances (different data directories) every mismatch of one instance's
    // stream, counts or reclamation is (also) a failure of isolation
    if ops.iter().any(|op| op.starts_with("B ")) {
        let extra: Vec<Violation> = v
            .iter()
            .filter(|x| matches!(x.prop, "C01" | "C02" | "C03" | "C15" | "C06" | "C12" | "ANY"))
            .map(|x| Violation { prop: "C13", line: x.line, msg: x.msg.clone() })
            .collect();
        v.extend(extra);
    }
    // C04: a rejected append must leave no trace. Any delivery/count mismatch that follows a rejected
    // append or batch in the same program is (also) a violation of C04.
    let first_reject = ops.iter().zip(outs.iter()).position(|(op, out)| (op.starts_with("append") || op.starts_with("batch")) && out.starts_with("err:"));
    if let Some(fr) = first_reject {
        let extra: Vec<Violation> = v
            .iter()
            .filter(|x| x.line > fr + 1 && matches!(x.prop, "C01" | "C02" | "C03" | "C15" | "C06"))
            .map(|x| Violation { prop: "C04", line: x.line, msg: format!("after the rejected operation at line {}: {}", fr + 1, x.msg) })
            .collect();
        v.extend(extra);
    }
    v
}

fn check_inner(cfg: &Cfg, cap: usize, ops: &[String], outs: &[String]) -> Vec<Violation> {
    let mut v = Vec::new();
    let strict = cfg.mode == "strict";
    let mut topics: HashMap<String, TopicSt> = HashMap::new();
    // per instance (A = operations without prefix, B = operations prefixed with `B`): number of opens so far
    let mut opened_all = [0usize; 2];
    // process deaths seen so far inside a write / inside a consuming read
    let mut crashed_w = false;
    let mut crashed_r = false;
    // after a reopen, a mismatch is a failure of restart invisibility (C06) rather than of the in-process property
    let tag = |inproc: &'static str, opened: usize| -> &'static str { if opened > 1 { "C06" } else { inproc } };
    let _ = (&crashed_w, &crashed_r);
    for (k, (op, out)) in ops.iter().zip(outs.iter()).enumerate() {
        let t: Vec<&str> = op.split_whitespace().collect();
        if t.is_empty() {
            continue;
        }
        // operations on the second instance of the process: its topics are its own (C13)
        let inst_b = t[0] == "B";
        let t: Vec<&str> = if inst_b { t[1..].to_vec() } else { t };
        if t.is_empty() {
            continue;
        }
        let wi = inst_b as usize;
        let tk = |s: &str| -> String { if inst_b { format!("B/{}", s) } else { s.to_string() } };
        let opened = opened_all[wi];
        let line = k + 1;
        // C02: `trks; <non-consuming batch read>; trks` - the tracker tuples of every WAL file must be unchanged
        if t[0] == "trks" && k >= 2 && ops[k - 2] == "trks" {
            let m: Vec<&str> = ops[k - 1].split_whitespace().collect();
            if m.first().copied() == Some("bread") && (m[3] == "0" || m[4] != "-") && outs[k - 2] != *out && outs[k - 1].starts_with('[') {
                v.push(Violation { prop: "C02", line, msg: format!("`{}` changed the reclamation bookkeeping: {} -> {}", ops[k - 1], outs[k - 2], out) });
            }
        }
        if out == "crashed" {
            // the process died inside this operation (C07/C08/C09): what it was doing may or may not have happened
            match t[0] {
                "append" | "batch" => {
                    let st = topics.entry(tk(t[1])).or_insert_with(|| TopicSt::default());
                    st.clean = false;
                    let es = if t[0] == "append" { vec![Desc::parse(t[2])] } else { parse_batch(t[2]) };
                    st.maybe = Some(es);
                    crashed_w = true;
                }
                "next" | "bread" => {
                    let st = topics.entry(tk(t[1])).or_insert_with(|| TopicSt::default());
                    let cp = if t[0] == "next" { t[2] == "1" } else { t[3] == "1" && t[4] == "-" };
                    if cp {
                        // only the read in flight may go either way
                        let extra = if t[0] == "next" { 1 } else { cap };
                        let lo = st.cands.iter().min().copied().unwrap_or(0);
                        let hi = st.cands.iter().max().copied().unwrap_or(0);
                        st.cands = (lo..=(hi + extra).min(st.log.len())).collect();
                        crashed_r = true;
                    }
                }
                _ => {}
            }
            continue;
        }
        if out == "panic" {
            let prop = if t[0] == "open" { "C06" } else { "ANY" };
            v.push(Violation { prop, line, msg: format!("`{}` panicked", op) });
            continue;
        }
        match t[0] {
            "open" => {
                if out != "ok" {
                    v.push(Violation { prop: "C06", line, msg: format!("open failed: {}", out) });
                }
                opened_all[wi] += 1;
                let opened = opened_all[wi];
                if opened > 1 && !strict {
                    for (_name, st) in topics.iter_mut().filter(|(n, _)| n.starts_with("B/") == inst_b) {
                        let hi = st.cands.iter().max().copied().unwrap_or(0);
                        st.cands = (0..=hi).collect();
                    }
                }
                // markers: a reopen must report the state of the last returned call (C17)
            }
            "append" | "batch" => {
                let st = topics.entry(tk(t[1])).or_insert_with(|| TopicSt::default());
                // the dirty mark is set by the call whether or not the append succeeds
                st.clean = false;
                if out == "ok" {
                    if t[0] == "append" {
                        st.log.push(Desc::parse(t[2]));
                    } else {
                        st.log.extend(parse_batch(t[2]));
                    }
                } else if !out.starts_with("err:") {
                    v.push(Violation { prop: "ANY", line, msg: format!("`{}` -> unexpected {}", op, out) });
                }
            }
            "next" => {
                let cp = t[2] == "1";
                let st = topics.entry(tk(t[1])).or_insert_with(|| TopicSt::default());
                let got = if out == "none" { None } else { parse_entry(out) };
                if out != "none" && (got.is_none() || got.as_ref().unwrap().1 != 0) {
                    v.push(Violation { prop: "C01", line, msg: format!("`{}` -> {} (not an appended payload)", op, out) });
                    continue;
                }
                let floating = st.cands.len() > 1;
                let keep: std::collections::BTreeSet<usize> = st.cands.iter().copied().filter(|&c| match (&got, st.log.get(c)) {
                    (None, None) => true,
                    (Some((d, _)), Some(e)) => d == e,
                    _ => false,
                }).collect();
                if keep.is_empty() {
                    let c = st.cands.iter().max().copied().unwrap_or(0);
                    let prop = if floating { "C09" } else if cp { tag("C01", opened) } else { tag("C02", opened) };
                    v.push(Violation { prop, line, msg: format!("`{}` -> {} but entry #{} is {:?} (log len {}{})", op, out, c, st.log.get(c).map(|e| e.text()), st.log.len(), if floating { ", position floating after an AtLeastOnce reopen" } else { "" }) });
                    // resynchronise on what was actually delivered so that one defect is one report
                    if let (Some((d, _)), true) = (&got, cp) {
                        if let Some(j) = st.log.iter().position(|e| e == d) {
                            st.cands = [j + 1].into_iter().collect();
                        }
                    }
                } else if cp && got.is_some() {
                    st.cands = keep.iter().map(|c| c + 1).collect();
                } else {
                    st.cands = keep;
                }
            }
            "bread" => {
                let max: usize = t[2].parse().unwrap();
                let cp = t[3] == "1";
                let stateless = t[4] != "-";
                let st = topics.entry(tk(t[1])).or_insert_with(|| TopicSt::default());
                if stateless {
                    // entries come as digests `~len:s1:s2` of the returned bytes
                    let Some(inner) = out.strip_prefix('[').and_then(|x| x.strip_suffix(']')) else {
                        v.push(Violation { prop: "ANY", line, msg: format!("`{}` -> {}", op, out) });
                        continue;
                    };
                    let items: Vec<&str> = if inner.is_empty() { vec![] } else { inner.split(',').collect() };
                    if items.len() > cap {
                        v.push(Violation { prop: "C03", line, msg: format!("`{}` returned {} entries (cap {})", op, items.len(), cap) });
                    }
                    let lens: Vec<usize> = items.iter().map(|x| x.trim_start_matches('~').split(':').next().unwrap_or("0").parse().unwrap_or(0)).collect();
                    let total: usize = lens.iter().sum();
                    if total > max && items.len() != 1 {
                        v.push(Violation { prop: "C03", line, msg: format!("`{}` returned {} payload bytes in {} entries", op, total, items.len()) });
                    }
                    // C02: each returned entry is a suffix of an appended entry of this topic, in append order
                    let mut j = 0usize;
                    for (it, n) in items.iter().zip(lens.iter()) {
                        let hit = st.log[j..].iter().position(|e| {
                            if e.len < *n { return false; }
                            let b = e.bytes();
                            crate::exec::digest(&b[e.len - *n..]) == *it
                        });
                        match hit {
                            Some(o) => j += o + 1,
                            None => {
                                v.push(Violation { prop: "C02", line, msg: format!("`{}` -> {}: {} is not (a suffix of) a later entry of the topic", op, out, it) });
                                break;
                            }
                        }
                    }
                    continue;
                }
                let Some(got) = parse_list(out) else {
                    v.push(Violation { prop: "ANY", line, msg: format!("`{}` -> {}", op, out) });
                    continue;
                };
                if got.len() > cap {
                    v.push(Violation { prop: "C03", line, msg: format!("`{}` returned {} entries (cap {})", op, got.len(), cap) });
                }
                let total: usize = got.iter().map(|(d, tr)| d.len - tr).sum();
                if total > max && got.len() != 1 {
                    v.push(Violation { prop: "C03", line, msg: format!("`{}` returned {} payload bytes in {} entries", op, total, got.len()) });
                }
                if got.iter().any(|(_, tr)| *tr != 0) {
                    v.push(Violation { prop: "C01", line, msg: format!("`{}` -> {} (trimmed entry from a cursor read)", op, out) });
                }
                let floating = st.cands.len() > 1;
                let keep: std::collections::BTreeSet<usize> = st.cands.iter().copied().filter(|&c| {
                    let avail = &st.log[c.min(st.log.len())..];
                    got.len() <= avail.len() && got.iter().zip(avail.iter()).all(|((d, _), e)| d == e) && !(got.is_empty() && !avail.is_empty())
                }).collect();
                if keep.is_empty() {
                    let c = st.cands.iter().max().copied().unwrap_or(0);
                    let avail = &st.log[c.min(st.log.len())..];
                    let prefix_ok = st.cands.iter().any(|&c| { let a = &st.log[c.min(st.log.len())..]; got.len() <= a.len() && got.iter().zip(a.iter()).all(|((d, _), e)| d == e) });
                    if got.is_empty() && prefix_ok {
                        v.push(Violation { prop: tag("C03", opened), line, msg: format!("`{}` -> [] although {} entries are unconsumed", op, avail.len()) });
                    } else {
                        let prop = if floating { "C09" } else if cp { tag("C01", opened) } else { tag("C02", opened) };
                        v.push(Violation { prop, line, msg: format!("`{}` -> {} but the unconsumed entries start {:?}{}", op, out, avail.iter().take(got.len().max(1) + 1).map(|e| e.text()).collect::<Vec<_>>(), if floating { " (position floating after an AtLeastOnce reopen)" } else { "" }) });
                        if cp {
                            if let Some((d, _)) = got.last() {
                                if let Some(j) = st.log.iter().rposition(|e| e == d) {
                                    st.cands = [j + 1].into_iter().collect();
                                }
                            }
                        }
                    }
                } else if cp {
                    st.cands = keep.iter().map(|c| c + got.len()).collect();
                } else {
                    st.cands = keep;
                }
            }
            "count" => {
                let st = topics.entry(tk(t[1])).or_insert_with(|| TopicSt::default());
                if let Some(es) = st.maybe.take() {
                    // which prefix of the interrupted operation's entries was recovered?
                    let got = out.parse::<usize>().ok();
                    // all or nothing first; a strict prefix only if neither explains the count (with a floating
                    // AtLeastOnce position several (k, position) pairs can explain one number)
                    let mut hit = None;
                    let mut order: Vec<usize> = vec![es.len(), 0];
                    order.extend(1..es.len());
                    for k in order {
                        if st.cands.iter().any(|&c| got == Some(st.log.len() + k - c.min(st.log.len() + k))) { hit = Some(k); break; }
                    }
                    match hit {
                        Some(k) => {
                            if k > 0 && k < es.len() {
                                v.push(Violation { prop: "C08", line, msg: format!("after the crash inside a batch of {} entries, {} of them were recovered (`{}` -> {})", es.len(), k, op, out) });
                            }
                            st.log.extend(es[..k].iter().cloned());
                        }
                        None => {
                            v.push(Violation { prop: "C07", line, msg: format!("`{}` -> {} after a crash: no prefix of the interrupted operation's {} entries explains it (acknowledged {} entries)", op, out, es.len(), st.log.len()) });
                        }
                    }
                }
                // with a floating position the count must match one of the candidates
                let ok = st.cands.iter().any(|&c| out.parse::<usize>().ok() == Some(st.log.len() - c.min(st.log.len())));
                if !ok {
                    let c = st.cands.iter().max().copied().unwrap_or(0);
                    let msg = format!("`{}` -> {} but appended {} - consumed {} = {}", op, out, st.log.len(), c, st.log.len() - c.min(st.log.len()));
                    if opened > 1 {
                        v.push(Violation { prop: "C06", line, msg: msg.clone() });
                    }
                    if opened <= 1 || strict {
                        v.push(Violation { prop: "C15", line, msg });
                    }
                }
            }
            "mark" => {
                let st = topics.entry(tk(t[1])).or_insert_with(|| TopicSt::default());
                st.clean = t[2] == "clean";
            }
            "isclean" => {
                let st = topics.entry(tk(t[1])).or_insert_with(|| TopicSt::default());
                let exp = if st.clean { "1" } else { "0" };
                if out != exp {
                    v.push(Violation { prop: "C17", line, msg: format!("`{}` -> {} but the last change set clean={}", op, out, st.clean) });
                }
            }
            _ => {}
        }
    }
    v
}
