//! C11: damage engine-produced directories (bit flips, truncation, zeroed ranges, stray and leftover
//! temporary files) and open them with the real engine in a fresh process.
//!   engine_harness mutate <outdir>
//! For every mutation: `kind`, `file class`, position, and what the fresh process did: every operation's
//! output (`panic` lines included) and how the process ended.  Oracle: the process ends normally, no
//! operation panics, every payload returned was appended to that topic.
use crate::gen::Rng;
use std::io::Write as _;

fn base_program(small: bool, backend: &str, seedk: u64) -> Vec<String> {
    let mut l = vec![format!("cfg {} strict {}", if small { "small" } else { "real" }, backend), "clock 1700000000000".into(), "open".into()];
    let mut r = Rng(seedk.wrapping_mul(77) + 5);
    let mut n = 0u64;
    for k in 0..14 {
        n += 1;
        let t = if k % 3 == 0 { "t1" } else { "t0" };
        let len = *r.pick(&[0u64, 1, 7, 100, 127, 128, 300, 900, 2000, 3800]);
        if r.chance(30) {
            l.push(format!("batch {} {}:{},{}:{}", t, len, n, 1 + r.below(200), n + 50));
        } else {
            l.push(format!("append {} {}:{}", t, len, n));
        }
    }
    l.push("next t0 1".into());
    l.push("next t0 1".into());
    l.push("bread t1 500 1 -".into());
    l.push("mark t0 clean".into());
    l.push("persist".into());
    l.push("count t0".into());
    l.push("count t1".into());
    l.push("restart".into());
    l
}

fn read_program(small: bool, backend: &str) -> Vec<String> {
    let mut l = vec![format!("cfg {} strict {}", if small { "small" } else { "real" }, backend), "clock 1700000100000".into(), "open".into()];
    for t in ["t0", "t1"] {
        l.push(format!("count {}", t));
        l.push(format!("isclean {}", t));
        l.push(format!("bread {} 1000 0 0", t));
        l.push(format!("bread {} 5000 0 300", t));
        for _ in 0..12 { l.push(format!("next {} 1", t)); }
        for _ in 0..4 { l.push(format!("bread {} {} 1 -", t, u64::MAX)); }
        l.push(format!("append {} 9:99", t));
        l.push(format!("next {} 1", t));
    }
    l
}

fn copy_dir(src: &std::path::Path, dst: &std::path::Path) {
    std::fs::create_dir_all(dst).unwrap();
    for e in std::fs::read_dir(src).unwrap().flatten() {
        let p = e.path();
        let d = dst.join(e.file_name());
        if p.is_dir() { copy_dir(&p, &d); } else { std::fs::copy(&p, &d).unwrap(); }
    }
}

struct Mutation { desc: String }

fn wal_files(dir: &std::path::Path) -> Vec<std::path::PathBuf> {
    let mut v: Vec<_> = std::fs::read_dir(dir).unwrap().flatten().map(|e| e.path())
        .filter(|p| p.file_name().and_then(|n| n.to_str()).map(|n| n.chars().all(|c| c.is_ascii_digit())).unwrap_or(false)).collect();
    v.sort();
    v
}

/// offsets of the used (non-zero) region of a WAL file, to aim damage at data rather than at zeros
fn used_len(bytes: &[u8]) -> usize {
    bytes.iter().rposition(|b| *b != 0).map(|p| p + 1).unwrap_or(0)
}

fn apply_mutation(dir: &std::path::Path, r: &mut Rng, meta: usize) -> Mutation {
    let wals = wal_files(dir);
    let idx = dir.join("read_offset_idx_index.db");
    let mk = dir.join("topic_clean_index.db");
    let kind = r.below(100);
    let pick_wal = |r: &mut Rng| -> Option<std::path::PathBuf> {
        let with_data: Vec<_> = wals.iter().filter(|p| used_len(&std::fs::read(p).unwrap()) > 0).cloned().collect();
        if with_data.is_empty() { None } else { Some(with_data[r.below(with_data.len() as u64) as usize].clone()) }
    };
    if kind < 12 {
        // the 2-byte length prefix of a header (first header of a block, or a 256-aligned position) set to a
        // boundary value of the decoders' guard, or the 4-byte read_size field zeroed / set to a boundary
        if let Some(p) = pick_wal(r) {
            let mut b = std::fs::read(&p).unwrap();
            let used = used_len(&b);
            let pos = if r.chance(60) { (r.below((used / 4096 + 1) as u64) as usize) * 4096 } else { let q = r.below(used.max(1) as u64) as usize; q - q % meta };
            let pos = pos.min(b.len() - 64);
            if r.chance(65) {
                let (lo, hi) = *r.pick(&[(255u8, 0u8), (0, 1), (254, 0), (253, 0), (1, 0), (31, 0), (32, 0), (33, 0), (255, 255), (2, 1)]);
                b[pos] = lo; b[pos + 1] = hi;
                std::fs::write(&p, &b).unwrap();
                return Mutation { desc: format!("wal metalen pos={} set={}", pos, (lo as usize) | ((hi as usize) << 8)) };
            } else {
                // read_size lives at root+24 of the archive; the root is the last 32 bytes of the meta_len bytes
                let ml = (b[pos] as usize) | ((b[pos + 1] as usize) << 8);
                if ml >= 32 && ml <= 254 {
                    let at = pos + 2 + ml - 32 + 24;
                    let v: [u8; 4] = *r.pick(&[[0, 0, 0, 0], [1, 0, 0, 0], [255, 255, 255, 255], [0, 0, 0, 128], [0, 16, 0, 0]]);
                    b[at..at + 4].copy_from_slice(&v);
                    std::fs::write(&p, &b).unwrap();
                    return Mutation { desc: format!("wal readsize pos={} set={:?}", pos, v) };
                }
            }
        }
    }
    if kind < 45 {
        // damage inside a WAL file: header bytes (aimed), payload bytes, or anywhere in the used region
        if let Some(p) = pick_wal(r) {
            let mut b = std::fs::read(&p).unwrap();
            let used = used_len(&b);
            let sub = r.below(6);
            let pos = match sub {
                0 => (r.below((used / 4096 + 1) as u64) as usize) * 4096 + r.below(2) as usize,          // meta_len of a block's first entry
                1 => (r.below((used / 4096 + 1) as u64) as usize) * 4096 + 2 + r.below(40) as usize,     // archived metadata
                2 => r.below(used.max(1) as u64) as usize,
                3 => { let q = r.below(used.max(1) as u64) as usize; q - q % meta }                      // 256-aligned: likely a header start
                4 => { let q = r.below(used.max(1) as u64) as usize; (q - q % meta) + 2 + 24 + r.below(8) as usize } // read_size / checksum area
                _ => r.below(used.max(1) as u64) as usize,
            }.min(b.len() - 1);
            let how = r.below(4);
            let desc;
            match how {
                0 => { let bit = r.below(8); b[pos] ^= 1 << bit; desc = format!("wal bitflip pos={} bit={} aim={}", pos, bit, sub); }
                1 => { let v = r.below(256) as u8; b[pos] = v; desc = format!("wal setbyte pos={} val={} aim={}", pos, v, sub); }
                2 => { let n = 1 + r.below(600) as usize; for x in b.iter_mut().skip(pos).take(n) { *x = 0; } desc = format!("wal zero pos={} len={} aim={}", pos, n, sub); }
                _ => { let n = 1 + r.below(64) as usize; for x in b.iter_mut().skip(pos).take(n) { *x = 0xff; } desc = format!("wal ones pos={} len={} aim={}", pos, n, sub); }
            }
            std::fs::write(&p, &b).unwrap();
            return Mutation { desc };
        }
    }
    if kind < 58 {
        // truncate a WAL file (inside the used region, at a block boundary, to zero length)
        if let Some(p) = pick_wal(r) {
            let b = std::fs::read(&p).unwrap();
            let used = used_len(&b);
            let n = match r.below(4) { 0 => 0, 1 => r.below(used.max(1) as u64) as usize, 2 => (used / 4096) * 4096, _ => used.saturating_sub(r.below(300) as usize) };
            let f = std::fs::OpenOptions::new().write(true).open(&p).unwrap();
            f.set_len(n as u64).unwrap();
            return Mutation { desc: format!("wal truncate to={} used={}", n, used) };
        }
    }
    if kind < 80 {
        // damage the cursor index or the marker file
        let (p, name) = if r.chance(50) { (idx.clone(), "index") } else { (mk.clone(), "markers") };
        if let Ok(mut b) = std::fs::read(&p) {
            if !b.is_empty() {
                let how = r.below(5);
                let desc;
                match how {
                    0 => { let pos = r.below(b.len() as u64) as usize; let bit = r.below(8); b[pos] ^= 1 << bit; desc = format!("{} bitflip pos={} bit={} len={}", name, pos, bit, b.len()); }
                    1 => { let n = r.below(b.len() as u64) as usize; b.truncate(n); desc = format!("{} truncate to={}", name, n); }
                    2 => { let pos = r.below(b.len() as u64) as usize; let n = 1 + r.below(16) as usize; for x in b.iter_mut().skip(pos).take(n) { *x = 0; } desc = format!("{} zero pos={} len={}", name, pos, n); }
                    3 => { let pos = b.len().saturating_sub(1 + r.below(24.min(b.len() as u64)) as usize); let v = r.below(256) as u8; b[pos] = v; desc = format!("{} setbyte-near-root pos={} val={} len={}", name, pos, v, b.len()); }
                    _ => { let n = 1 + r.below(40) as usize; b = (0..n).map(|_| r.below(256) as u8).collect(); desc = format!("{} replaced by {} random bytes", name, n); }
                }
                std::fs::write(&p, &b).unwrap();
                return Mutation { desc };
            }
        }
    }
    // stray and leftover files
    let which = r.below(6);
    let desc = match which {
        0 => { std::fs::write(dir.join("read_offset_idx_index.db.tmp"), b"\x01\x02garbage").unwrap(); "stray index tmp".to_string() }
        1 => { std::fs::write(dir.join("topic_clean_index.db.tmp"), vec![0xffu8; 37]).unwrap(); "stray marker tmp".to_string() }
        2 => { std::fs::write(dir.join("notes.txt"), b"hello").unwrap(); "stray text file".to_string() }
        3 => { std::fs::write(dir.join("1699999999999"), vec![0x41u8; 100]).unwrap(); "stray short digit-named file".to_string() }
        4 => { std::fs::create_dir_all(dir.join("1699999999998")).unwrap(); "stray digit-named directory".to_string() }
        _ => { std::fs::write(dir.join("1700000000000.bak"), vec![0u8; 5000]).unwrap(); "stray .bak file".to_string() }
    };
    Mutation { desc }
}

pub fn main(args: &[String]) {
    let outdir = std::path::PathBuf::from(&args[0]);
    std::fs::create_dir_all(&outdir).unwrap();
    let seed: u64 = std::env::var("VERIF_SEED").ok().and_then(|s| s.parse().ok()).unwrap_or(1);
    let n: usize = std::env::var("VERIF_NPROG").ok().and_then(|s| s.parse().ok()).unwrap_or(300);
    let g = crate::gen::geo();
    let exe = std::env::current_exe().unwrap();
    let root = std::path::PathBuf::from(format!("/dev/shm/walrus-verif-m-{}", std::process::id()));
    let _ = std::fs::remove_dir_all(&root);
    std::fs::create_dir_all(&root).unwrap();
    // base directories: one per backend, a few variants
    let mut bases = Vec::new();
    for (bi, backend) in ["fd", "mmap"].iter().enumerate() {
        for v in 0..3u64 {
            let b = root.join(format!("base-{}-{}", backend, v));
            std::fs::create_dir_all(b.join("data")).unwrap();
            let prog = base_program(g.small, backend, seed * 10 + v + bi as u64 * 100);
            let pf = b.join("prog.txt");
            std::fs::write(&pf, prog.join("\n") + "\n").unwrap();
            let st = std::process::Command::new(&exe).args(["exec", b.join("data").to_str().unwrap(), pf.to_str().unwrap(), b.join("out.txt").to_str().unwrap(), "1"])
                .stdout(std::process::Stdio::null()).stderr(std::process::Stdio::null()).status().unwrap();
            assert!(st.code() == Some(77) || st.code() == Some(0), "base program failed: {:?}", st);
            bases.push((backend.to_string(), b, prog));
        }
    }
    // --- correspondence of the byte-level pieces of the model (C11) ---
    // (a) checksum64 on random byte strings
    {
        let mut ops = std::io::BufWriter::new(std::fs::File::create(outdir.join("fnv_ops.txt")).unwrap());
        let mut imp = std::io::BufWriter::new(std::fs::File::create(outdir.join("fnv_impl.txt")).unwrap());
        let mut r = Rng(seed.wrapping_mul(31) + 17);
        for k in 0..400u64 {
            let len = match k % 8 { 0 => 0, 1 => 1, 2 => 2, 3 => 7, 4 => 8, 5 => 255, _ => r.below(600) as usize };
            let data: Vec<u8> = (0..len).map(|_| r.below(256) as u8).collect();
            let hex: String = if data.is_empty() { "-".into() } else { data.iter().map(|b| format!("{:02x}", b)).collect() };
            writeln!(ops, "fnv {}", hex).unwrap();
            writeln!(imp, "{}", walrus_rust::wal::verif_hooks::checksum64(&data)).unwrap();
        }
    }
    // (b) header layout: one entry per topic-name length, headers read back from the WAL files
    {
        let hd = root.join("hdr");
        std::fs::create_dir_all(hd.join("data")).unwrap();
        let lens: Vec<usize> = vec![1, 2, 6, 7, 8, 9, 15, 16, 17, 23, 24, 25, 31, 32, 33, 64, 100, 199, 200, 201, 215, 216];
        let mut prog = vec![format!("cfg {} strict fd", if g.small { "small" } else { "real" }), "clock 1700000000000".into(), "open".into()];
        for k in &lens { prog.push(format!("append {} 5:1", "x".repeat(*k))); }
        prog.push("close".into());
        let pf = hd.join("prog.txt");
        std::fs::write(&pf, prog.join("\n") + "\n").unwrap();
        let _ = std::process::Command::new(&exe).args(["exec", hd.join("data").to_str().unwrap(), pf.to_str().unwrap(), hd.join("out.txt").to_str().unwrap(), "1"])
            .stdout(std::process::Stdio::null()).stderr(std::process::Stdio::null()).status().unwrap();
        let mut ops = std::io::BufWriter::new(std::fs::File::create(outdir.join("hdr_ops.txt")).unwrap());
        let mut imp = std::io::BufWriter::new(std::fs::File::create(outdir.join("hdr_impl.txt")).unwrap());
        for f in wal_files(&hd.join("data")) {
            let b = std::fs::read(&f).unwrap();
            let mut off = 0usize;
            while off + 256 <= b.len() {
                let ml = (b[off] as usize) | ((b[off + 1] as usize) << 8);
                if ml >= 32 && ml <= 254 {
                    let buf = &b[off + 2..off + 2 + ml];
                    let rootb = &buf[ml - 32..];
                    let (desc, namelen) = if rootb[7] & 0x80 == 0 {
                        (format!("inline:{}", rootb[7]), rootb[7] as usize)
                    } else {
                        let len = u32::from_le_bytes([rootb[0], rootb[1], rootb[2], rootb[3]]);
                        let rel = i32::from_le_bytes([rootb[4], rootb[5], rootb[6], rootb[7]]);
                        (format!("ool:{}:{}", len, rel), len as usize)
                    };
                    writeln!(ops, "hdr {}", namelen).unwrap();
                    writeln!(imp, "metalen={} repr={}", ml, desc).unwrap();
                }
                off += g.bs as usize;
            }
        }
    }
    let results = std::sync::Mutex::new(Vec::new());
    let next = std::sync::atomic::AtomicUsize::new(0);
    std::thread::scope(|s| {
        for _ in 0..16 {
            s.spawn(|| loop {
                let k = next.fetch_add(1, std::sync::atomic::Ordering::SeqCst);
                if k >= n { break; }
                let mut r = Rng(seed.wrapping_mul(1_000_003).wrapping_add(k as u64 * 7919));
                let (backend, base, baseprog) = &bases[k % bases.len()];
                let d = root.join(format!("m{}", k));
                copy_dir(&base.join("data"), &d.join("data"));
                // k = 0..bases: unmutated control runs
                let m = if k < bases.len() { Mutation { desc: "none (control)".into() } } else { apply_mutation(&d.join("data"), &mut r, g.meta as usize) };
                let mut prog = read_program(g.small, backend);
                // the executor learns the payloads from append lines: prepend the base program's appends as comments it parses
                let mut full = vec![prog.remove(0)];
                let nbase = baseprog.len() - 1;
                full.extend(baseprog[1..].iter().cloned());
                let start = full.len();
                full.extend(prog);
                let pf = d.join("prog.txt");
                std::fs::write(&pf, full.join("\n") + "\n").unwrap();
                let outf = d.join("out.txt");
                let mut child = std::process::Command::new(&exe).args(["exec", d.join("data").to_str().unwrap(), pf.to_str().unwrap(), outf.to_str().unwrap(), &start.to_string()])
                    .stdout(std::process::Stdio::null()).stderr(std::process::Stdio::null()).spawn().unwrap();
                let t0 = std::time::Instant::now();
                let status = loop {
                    match child.try_wait().unwrap() {
                        Some(s) => break Some(s),
                        None => {
                            if t0.elapsed().as_secs() > 60 { let _ = child.kill(); let _ = child.wait(); break None; }
                            std::thread::sleep(std::time::Duration::from_millis(3));
                        }
                    }
                };
                let outs: Vec<String> = std::fs::read_to_string(&outf).unwrap_or_default().lines().map(|s| s.to_string()).collect();
                let ops: Vec<String> = full[start..].to_vec();
                let end = match status { None => "hang".to_string(), Some(s) => match s.code() { Some(0) => "exit0".into(), Some(c) => format!("exit{}", c), None => format!("signal:{:?}", std::os::unix::process::ExitStatusExt::signal(&s)) } };
                let _ = nbase;
                // what each topic was given before the damage, in order
                let mut appended: std::collections::HashMap<String, Vec<String>> = Default::default();
                for l in baseprog.iter() {
                    let t: Vec<&str> = l.split_whitespace().collect();
                    match t.first().copied() {
                        Some("append") => appended.entry(t[1].to_string()).or_default().push(t[2].to_string()),
                        Some("batch") => appended.entry(t[1].to_string()).or_default().extend(t[2].split(',').map(|s| s.to_string())),
                        _ => {}
                    }
                }
                let mut extra_bad: Vec<String> = Vec::new();
                for (topic, list) in appended.iter() {
                    // entries returned by the consuming reads of this topic, in order
                    let mut got: Vec<String> = Vec::new();
                    for (op, o) in ops.iter().zip(outs.iter()) {
                        let t: Vec<&str> = op.split_whitespace().collect();
                        if t.len() < 2 || t[1] != topic { continue; }
                        if t[0] == "next" && t[2] == "1" && o.contains(':') && !o.starts_with("err") { got.push(o.clone()); }
                        if t[0] == "bread" && t[3] == "1" && t[4] == "-" && o.starts_with('[') {
                            for e in o.trim_matches(|c| c == '[' || c == ']').split(',') { if !e.is_empty() { got.push(e.to_string()); } }
                        }
                    }
                    // they must form a subsequence of what was appended (followed by the entry appended after the reopen)
                    let mut full = list.clone();
                    full.push("9:99".to_string());
                    // all empty payloads are the same bytes: compare them by length only
                    let norm = |s: &String| -> String { if s.starts_with("0:") { "0:0".to_string() } else { s.clone() } };
                    let full: Vec<String> = full.iter().map(norm).collect();
                    let got: Vec<String> = got.iter().map(norm).collect();
                    let mut j = 0usize;
                    for g in got.iter() {
                        match full[j..].iter().position(|e| e == g) {
                            Some(p) => j += p + 1,
                            None => { extra_bad.push(format!("topic {} returned {} which is not a later appended entry of that topic (appended: {})", topic, g, full.join(","))); break; }
                        }
                    }
                }
                results.lock().unwrap().push((k, backend.clone(), m.desc, ops, outs, end, extra_bad));
                let _ = std::fs::remove_dir_all(&d);
            });
        }
    });
    let mut results = results.into_inner().unwrap();
    results.sort_by_key(|x| x.0);
    let mut out = std::io::BufWriter::new(std::fs::File::create(outdir.join("mutations.tsv")).unwrap());
    let mut vio = std::io::BufWriter::new(std::fs::File::create(outdir.join("violations.txt")).unwrap());
    let mut hist: std::collections::BTreeMap<String, u64> = Default::default();
    for (k, backend, desc, ops, outs, end, extra_bad) in &results {
        let class = desc.split_whitespace().take(2).collect::<Vec<_>>().join("_");
        *hist.entry(format!("mut_{}", class)).or_default() += 1;
        *hist.entry(format!("end_{}", end.split(':').next().unwrap())).or_default() += 1;
        let mut bad: Vec<String> = extra_bad.clone();
        if end != "exit0" { bad.push(format!("process ended with {} after {} of {} operations", end, outs.len(), ops.len())); }
        for (op, o) in ops.iter().zip(outs.iter()) {
            if o == "panic" { bad.push(format!("`{}` panicked", op)); }
            if o.contains("corrupt") { bad.push(format!("`{}` returned a payload that was never appended: {}", op, o)); }
            if op == "open" && o != "ok" { *hist.entry("open_err".into()).or_default() += 1; }
        }
        let nret = outs.iter().filter(|o| o.contains(':') && !o.starts_with("err")).count();
        if nret > 0 { *hist.entry("runs_returning_entries".into()).or_default() += 1; }
        writeln!(out, "{}\t{}\t{}\t{}\t{}", k, backend, desc, end, outs.join(" | ")).unwrap();
        for b in bad { writeln!(vio, "{}\t{}\t{}\t{}", k, backend, desc, b).unwrap(); }
    }
    out.flush().unwrap();
    vio.flush().unwrap();
    let mut s = format!("{{\"mutations\": {}", results.len());
    for (k, v) in &hist { s.push_str(&format!(", \"{}\": {}", k, v)); }
    s.push('}');
    std::fs::write(outdir.join("stats.json"), s).unwrap();
    let _ = std::fs::remove_dir_all(&root);
}
