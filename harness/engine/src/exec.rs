//! Executes one process segment of a program against the real engine, in-process.
use crate::prog::*;
use std::collections::HashMap;
use std::io::Write;
use walrus_rust::{FsyncSchedule, ReadConsistency, Walrus};

fn errkind(e: &std::io::Error) -> String {
    use std::io::ErrorKind::*;
    match e.kind() {
        InvalidInput => "err:invalidInput".into(),
        WouldBlock => "err:wouldBlock".into(),
        InvalidData => "err:invalidData".into(),
        Other => "err:other".into(),
        k => format!("err:other:{:?}", k),
    }
}

struct Known {
    by_bytes: HashMap<Vec<u8>, Desc>,
    all: Vec<(Desc, Vec<u8>)>,
}

pub fn digest(data: &[u8]) -> String {
    let k = data.len().min(64);
    let s1: u64 = data[..k].iter().map(|b| *b as u64).sum();
    let s2: u64 = data[data.len() - k..].iter().map(|b| *b as u64).sum();
    format!("~{}:{}:{}", data.len(), s1, s2)
}

impl Known {
    fn canon(&self, data: &[u8]) -> String {
        if let Some(d) = self.by_bytes.get(data) {
            return d.text();
        }
        // a trimmed entry: suffix of a known payload
        for (d, b) in &self.all {
            if b.len() > data.len() && b.ends_with(data) {
                return format!("{}+{}", d.text(), b.len() - data.len());
            }
        }
        "corrupt".into()
    }
}

pub fn main(args: &[String]) {
    let datadir = std::path::PathBuf::from(&args[0]);
    let prog = std::fs::read_to_string(&args[1]).expect("program");
    let start: usize = args[3].parse().unwrap();
    let lines: Vec<&str> = prog.lines().collect();
    let cfg = parse_cfg(lines[0]);
    let (bs, _bpf, _ma, _meta, _cap, _mbb) = walrus_rust::wal::verif_hooks::geometry();
    let want_small = cfg.geom == "small";
    if want_small != (bs == 4096) {
        eprintln!("geometry mismatch: program wants {}, binary has block size {}", cfg.geom, bs);
        std::process::exit(3);
    }
    if cfg.backend == "mmap" {
        walrus_rust::disable_fd_backend();
    } else {
        walrus_rust::enable_fd_backend();
    }
    let mode = if cfg.mode == "strict" {
        ReadConsistency::StrictlyAtOnce
    } else {
        let n: u32 = cfg.mode.strip_prefix("alo:").expect("mode").parse().unwrap();
        ReadConsistency::AtLeastOnce { persist_every: n }
    };
    // all payloads of the whole program are known (also those appended before a restart)
    let mut known = Known { by_bytes: HashMap::new(), all: Vec::new() };
    for l in &lines[1..] {
        let mut t: Vec<&str> = l.split_whitespace().collect();
        if t.first().copied() == Some("B") { t.remove(0); }
        let descs = match t.first().copied() {
            Some("append") => vec![Desc::parse(t[2])],
            Some("batch") => parse_batch(t[2]),
            _ => vec![],
        };
        for d in descs {
            if d.len > (64 << 20) {
                continue; // rejected sizes are never materialised for the reverse map
            }
            let b = d.bytes();
            known.by_bytes.entry(b.clone()).or_insert_with(|| d.clone());
            known.all.push((d, b));
        }
    }
    let mut out = std::io::BufWriter::new(std::fs::OpenOptions::new().create(true).append(true).open(&args[2]).unwrap());
    if std::env::var("VERIF_PANIC_MSG").is_err() {
        std::panic::set_hook(Box::new(|_| {}));
    }
    // deterministic background behaviour: deletions are captured (run by `reclaim`), the marker
    // persister only writes at `persist`
    walrus_rust::wal::verif_hooks::capture_deletions(true);
    walrus_rust::wal::verif_hooks::hold_marker_persister(true);
    // instance A lives in <datadir>, instance B (operations prefixed with `B`) in <datadir>_b: same process,
    // different data directories (C13)
    let datadir_a = datadir.clone();
    let datadir_b = std::path::PathBuf::from(format!("{}_b", datadir.to_string_lossy()));
    let mut wals: [Option<Walrus>; 2] = [None, None];
    let mut fault_armed = false;
    // `trace on`: the I/O events of every following operation (hook H1) go to <outfile>.trace
    let mut tracing = false;
    let mut trace_out = std::fs::OpenOptions::new().create(true).append(true).open(format!("{}.trace", args[2])).unwrap();
    let mut idx = start;
    let mut code = 0;
    while idx < lines.len() {
        let line = lines[idx];
        idx += 1;
        let t0: Vec<&str> = line.split_whitespace().collect();
        if t0.is_empty() {
            continue;
        }
        let (wi, t): (usize, Vec<&str>) = if t0[0] == "B" { (1, t0[1..].to_vec()) } else { (0, t0.clone()) };
        let datadir = if wi == 1 { datadir_b.clone() } else { datadir_a.clone() };
        if t[0] == "restart" || t[0] == "kill" {
            if t[0] == "restart" {
                // clean shutdown: drop the instance, then the process ends. The marker tracker is
                // reference counted and the persister thread holds a temporary reference while it
                // checks for work, so the final drop (which writes the markers) may run on that
                // thread: give it a moment before the process image goes away.
                wals[0] = None;
                wals[1] = None;
                std::thread::sleep(std::time::Duration::from_millis(20));
            }
            writeln!(out, "ok").unwrap();
            code = 77;
            break;
        }
        if t[0] == "trace" {
            tracing = t[1] == "on";
            walrus_rust::wal::verif_hooks::trace_enable(tracing);
            let _ = walrus_rust::wal::verif_hooks::trace_take();
            writeln!(out, "ok").unwrap();
            out.flush().unwrap();
            continue;
        }
        if t[0] == "crash" {
            // arm a process death inside the operation that follows (hook H1): `_exit(78)` immediately
            // before its n-th I/O event of the given kind
            walrus_rust::wal::verif_hooks::arm_fault(t[1].parse().unwrap(), t[2].parse().unwrap(), true);
            fault_armed = true;
            writeln!(out, "ok").unwrap();
            out.flush().unwrap();
            continue;
        }
        if t[0] == "fault" {
            // arm an injected I/O fault for the operation that follows (hook H1)
            walrus_rust::wal::verif_hooks::arm_fault(t[1].parse().unwrap(), t[2].parse().unwrap(), false);
            fault_armed = true;
            writeln!(out, "ok").unwrap();
            out.flush().unwrap();
            continue;
        }
        let disarm_after = fault_armed;
        fault_armed = false;
        let res = std::panic::catch_unwind(std::panic::AssertUnwindSafe(|| -> String {
            match t[0] {
                "clock" => {
                    walrus_rust::wal::verif_hooks::set_clock_override(t[1].parse().unwrap());
                    "ok".into()
                }
                "open" | "opensync" => {
                    wals[wi] = None;
                    match Walrus::builder()
                        .data_dir(datadir.clone())
                        .consistency(mode)
                        .fsync_schedule(if t[0] == "opensync" { FsyncSchedule::SyncEach } else { FsyncSchedule::NoFsync })
                        .build()
                    {
                        Ok(w) => {
                            wals[wi] = Some(w);
                            "ok".into()
                        }
                        Err(e) => errkind(&e),
                    }
                }
                "close" => {
                    wals[wi] = None;
                    "ok".into()
                }
                "persister" => {
                    // `persister free`: the background marker persister runs on its own schedule from here on
                    walrus_rust::wal::verif_hooks::hold_marker_persister(t[1] != "free");
                    "ok".into()
                }
                "persist" => {
                    // let the background persister make one full pass: two loop iterations must
                    // start after the release (the first may have passed the hold check already)
                    if wals[0].is_some() || wals[1].is_some() {
                        let t0 = walrus_rust::wal::verif_hooks::marker_persister_ticks();
                        walrus_rust::wal::verif_hooks::hold_marker_persister(false);
                        let started = std::time::Instant::now();
                        while walrus_rust::wal::verif_hooks::marker_persister_ticks() < t0 + 3
                            && started.elapsed().as_secs() < 10
                        {
                            std::thread::sleep(std::time::Duration::from_millis(1));
                        }
                        walrus_rust::wal::verif_hooks::hold_marker_persister(true);
                    }
                    "ok".into()
                }
                "reclaim" => {
                    let mut names: Vec<u64> = walrus_rust::wal::verif_hooks::run_reclaimer()
                        .iter()
                        .filter_map(|p| std::path::Path::new(p).file_name().and_then(|n| n.to_str()).and_then(|n| n.parse().ok()))
                        .collect();
                    names.sort();
                    format!("[{}]", names.iter().map(|n| n.to_string()).collect::<Vec<_>>().join(","))
                }
                "ls" => {
                    let mut names: Vec<u64> = std::fs::read_dir(&datadir)
                        .map(|rd| rd.flatten().filter_map(|e| e.file_name().to_str().and_then(|n| n.parse().ok())).collect())
                        .unwrap_or_default();
                    names.sort();
                    format!("[{}]", names.iter().map(|n| n.to_string()).collect::<Vec<_>>().join(","))
                }
                "trks" => {
                    let mut names: Vec<u64> = std::fs::read_dir(&datadir)
                        .map(|rd| rd.flatten().filter_map(|e| e.file_name().to_str().and_then(|n| n.parse().ok())).collect())
                        .unwrap_or_default();
                    names.sort();
                    names
                        .iter()
                        .map(|n| {
                            let p = datadir.join(n.to_string());
                            match walrus_rust::wal::verif_hooks::file_state(&p.to_string_lossy()) {
                                Some((l, c, tot, f)) => format!("{}={},{},{},{}", n, l, c, tot, f as u8),
                                None => format!("{}=none", n),
                            }
                        })
                        .collect::<Vec<_>>()
                        .join(";")
                }
                "trk" => {
                    let p = datadir.join(t[1]);
                    match walrus_rust::wal::verif_hooks::file_state(&p.to_string_lossy()) {
                        Some((l, c, tot, f)) => format!("{},{},{},{}", l, c, tot, f as u8),
                        None => "none".into(),
                    }
                }
                _ => {
                    let Some(w) = wals[wi].as_ref() else { return "err:closed".into() };
                    match t[0] {
                        "append" => {
                            let d = Desc::parse(t[2]);
                            let r = if d.len > (64 << 20) {
                                // oversized: a zero-filled buffer (never readable back)
                                let v = vec![0x80u8; d.len];
                                w.append_for_topic(&topic_name(t[1]), &v)
                            } else {
                                w.append_for_topic(&topic_name(t[1]), &d.bytes())
                            };
                            match r {
                                Ok(()) => "ok".into(),
                                Err(e) => errkind(&e),
                            }
                        }
                        "batch" => {
                            let ds = parse_batch(t[2]);
                            let bufs: Vec<Vec<u8>> = ds.iter().map(|d| d.bytes()).collect();
                            let refs: Vec<&[u8]> = bufs.iter().map(|b| b.as_slice()).collect();
                            match w.batch_append_for_topic(&topic_name(t[1]), &refs) {
                                Ok(()) => "ok".into(),
                                Err(e) => errkind(&e),
                            }
                        }
                        "next" => match w.read_next(&topic_name(t[1]), t[2] == "1") {
                            Ok(Some(e)) => known.canon(&e.data),
                            Ok(None) => "none".into(),
                            Err(e) => errkind(&e),
                        },
                        "bread" => {
                            let max: usize = t[2].parse().unwrap();
                            let off = if t[4] == "-" { None } else { Some(t[4].parse::<u64>().unwrap()) };
                            match w.batch_read_for_topic(&topic_name(t[1]), max, t[3] == "1", off) {
                                Ok(es) => format!(
                                    "[{}]",
                                    es.iter()
                                        .map(|e| if off.is_some() { digest(&e.data) } else { known.canon(&e.data) })
                                        .collect::<Vec<_>>()
                                        .join(",")
                                ),
                                Err(e) => errkind(&e),
                            }
                        }
                        "count" => format!("{}", w.get_topic_entry_count(&topic_name(t[1]))),
                        "size" => format!("{}", w.get_topic_size(&topic_name(t[1]))),
                        "mark" => {
                            if t[2] == "clean" {
                                w.mark_topic_clean(&topic_name(t[1]));
                            } else {
                                w.mark_topic_dirty(&topic_name(t[1]));
                            }
                            "ok".into()
                        }
                        "isclean" => (if w.topic_is_clean(&topic_name(t[1])) { "1" } else { "0" }).into(),
                        _ => format!("bad-op:{}", t[0]),
                    }
                }
            }
        }));
        if disarm_after {
            walrus_rust::wal::verif_hooks::disarm_fault();
        }
        if tracing {
            writeln!(trace_out, "OP {} {}", idx - 1, line).unwrap();
            for ev in walrus_rust::wal::verif_hooks::trace_take() {
                writeln!(trace_out, "EV {}", ev).unwrap();
            }
            writeln!(trace_out, "RET {}", match &res { Ok(s) => s.as_str(), Err(_) => "panic" }).unwrap();
            trace_out.flush().unwrap();
        }
        match res {
            Ok(s) => {
                writeln!(out, "{}", s).unwrap();
                out.flush().unwrap();
            }
            Err(_) => {
                writeln!(out, "panic").unwrap();
                out.flush().unwrap();
                // after a panic inside the engine, locks may be poisoned; keep going: later lines show it
            }
        }
    }
    out.flush().unwrap();
    drop(out);
    // leaked background threads: leave without running destructors of globals
    unsafe { libc::_exit(code) };
}
