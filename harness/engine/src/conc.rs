//! C05: real threads on the real engine, restricted to the calls that hold their locks from start to
//! commit (append, batch append, cursor-based batch read).  One scenario = one child process.
//!   engine_harness conc <outdir>              orchestrator
//!   engine_harness concrun <scenario> <seed> <datadir> <outfile> <mode> <backend>
use crate::gen::Rng;
use std::io::Write as _;
use std::sync::atomic::{AtomicUsize, Ordering};
use std::sync::Arc;
use walrus_rust::{FsyncSchedule, ReadConsistency, Walrus};

fn payload(idx: usize) -> Vec<u8> {
    // identity = length (unique per entry of a scenario); bytes >= 0x80 like every harness payload
    (0..(8 + idx)).map(|i| 0x80u8 | ((idx + i * 31) % 128) as u8).collect()
}

fn idx_of(data: &[u8]) -> Option<usize> {
    if data.len() < 8 { return None; }
    let idx = data.len() - 8;
    if payload(idx) == data { Some(idx) } else { None }
}

fn spin_barrier(ctr: &AtomicUsize, n: usize) {
    ctr.fetch_add(1, Ordering::SeqCst);
    while ctr.load(Ordering::SeqCst) < n { std::hint::spin_loop(); }
}

pub fn run(args: &[String]) {
    let scenario = args[0].as_str();
    let seed: u64 = args[1].parse().unwrap();
    let datadir = std::path::PathBuf::from(&args[2]);
    let mode = if args[4] == "strict" { ReadConsistency::StrictlyAtOnce } else { ReadConsistency::AtLeastOnce { persist_every: args[4][4..].parse().unwrap() } };
    if args[5] == "mmap" { walrus_rust::disable_fd_backend(); } else { walrus_rust::enable_fd_backend(); }
    let mut out = std::io::BufWriter::new(std::fs::File::create(&args[3]).unwrap());
    let wal = Arc::new(Walrus::builder().data_dir(datadir).consistency(mode).fsync_schedule(FsyncSchedule::NoFsync).build().unwrap());
    let mut r = Rng(seed);
    let mut bad: Vec<String> = Vec::new();
    // drain helper: one consumer, batch reads until two empties in a row
    let drain = |wal: &Walrus, topic: &str, r: &mut Rng| -> Vec<usize> {
        let mut got = Vec::new();
        let mut empties = 0;
        while empties < 2 {
            let budget = *r.pick(&[500usize, 4000, 20000, usize::MAX]);
            let es = wal.batch_read_for_topic(topic, budget, true, None).unwrap();
            if es.is_empty() { empties += 1; } else { empties = 0; }
            for e in es { got.push(idx_of(&e.data).unwrap_or(usize::MAX)); }
        }
        got
    };
    match scenario {
        "producers" => {
            // T producers on one shared topic: single appends and batches of 2..4; afterwards one consumer drains
            let t = 2 + r.below(3) as usize;
            let per = 60 + r.below(120) as usize;
            let start = Arc::new(AtomicUsize::new(0));
            let mut hs = Vec::new();
            for p in 0..t {
                let wal = wal.clone();
                let start = start.clone();
                let mut pr = Rng(seed * 31 + p as u64);
                hs.push(std::thread::spawn(move || {
                    spin_barrier(&start, t);
                    let mut k = 0usize;
                    let mut batches: Vec<Vec<usize>> = Vec::new();
                    while k < per {
                        if pr.chance(35) && k + 4 <= per {
                            let n = 2 + pr.below(3) as usize;
                            let ids: Vec<usize> = (k..k + n).map(|j| p * 400 + j).collect();
                            let bufs: Vec<Vec<u8>> = ids.iter().map(|i| payload(*i)).collect();
                            let refs: Vec<&[u8]> = bufs.iter().map(|b| b.as_slice()).collect();
                            // a concurrent batch on the same topic is rejected with WouldBlock: retry
                            loop {
                                match wal.batch_append_for_topic("shared", &refs) {
                                    Ok(()) => break,
                                    Err(e) if e.kind() == std::io::ErrorKind::WouldBlock => std::thread::yield_now(),
                                    Err(e) => panic!("batch append failed: {}", e),
                                }
                            }
                            batches.push(ids);
                            k += n;
                        } else {
                            loop {
                                match wal.append_for_topic("shared", &payload(p * 400 + k)) {
                                    Ok(()) => break,
                                    Err(e) if e.kind() == std::io::ErrorKind::WouldBlock => std::thread::yield_now(),
                                    Err(e) => panic!("append failed: {}", e),
                                }
                            }
                            k += 1;
                        }
                    }
                    batches
                }));
            }
            let mut all_batches = Vec::new();
            for h in hs { all_batches.extend(h.join().unwrap()); }
            let got = drain(&wal, "shared", &mut r);
            // exactly once
            let mut seen = std::collections::HashMap::new();
            for g in &got { *seen.entry(*g).or_insert(0usize) += 1; }
            for p in 0..t { for k in 0..per { let id = p * 400 + k; match seen.get(&id) { Some(1) => {}, Some(n) => bad.push(format!("entry {} of producer {} delivered {} times", k, p, n)), None => bad.push(format!("entry {} of producer {} never delivered", k, p)) } } }
            if got.contains(&usize::MAX) { bad.push("a payload that was never appended was delivered".into()); }
            // per-producer order
            for p in 0..t {
                let seq: Vec<usize> = got.iter().filter(|g| **g != usize::MAX && **g / 400 == p).copied().collect();
                if seq.windows(2).any(|w| w[0] >= w[1]) { bad.push(format!("entries of producer {} delivered out of order", p)); }
            }
            // batch contiguity
            for b in &all_batches {
                if let Some(pos) = got.iter().position(|g| *g == b[0]) {
                    if got.len() < pos + b.len() || got[pos..pos + b.len()] != b[..] { bad.push(format!("batch {:?} not delivered contiguously", b)); }
                }
            }
            writeln!(out, "producers threads={} per={} delivered={}", t, per, got.len()).unwrap();
        }
        "first" => {
            // several threads' FIRST appends to fresh topics, released together
            let topics = 40usize;
            let mut total = 0usize;
            for tp in 0..topics {
                let t = 2 + r.below(3) as usize;
                let start = Arc::new(AtomicUsize::new(0));
                let name = format!("fresh{}", tp);
                let mut hs = Vec::new();
                for p in 0..t {
                    let wal = wal.clone();
                    let start = start.clone();
                    let name = name.clone();
                    hs.push(std::thread::spawn(move || {
                        spin_barrier(&start, t);
                        for k in 0..3 { wal.append_for_topic(&name, &payload(p * 400 + k)).unwrap(); }
                    }));
                }
                for h in hs { h.join().unwrap(); }
                let got = drain(&wal, &name, &mut r);
                total += got.len();
                let mut seen = std::collections::HashMap::new();
                for g in &got { *seen.entry(*g).or_insert(0usize) += 1; }
                for p in 0..t { for k in 0..3 { match seen.get(&(p * 400 + k)) { Some(1) => {}, Some(n) => bad.push(format!("topic {}: entry {} of thread {} delivered {} times", name, k, p, n)), None => bad.push(format!("topic {}: acknowledged first-append entry {} of thread {} never delivered", name, k, p)) } } }
            }
            writeln!(out, "first topics={} delivered={}", topics, total).unwrap();
        }
        "consumers" => {
            // preload (sealed blocks + tail), then C concurrent batch consumers
            let m = 200 + r.below(300) as usize;
            for k in 0..m { wal.append_for_topic("backlog", &payload(k)).unwrap(); }
            let c = 2 + r.below(3) as usize;
            let start = Arc::new(AtomicUsize::new(0));
            let mut hs = Vec::new();
            for ci in 0..c {
                let wal = wal.clone();
                let start = start.clone();
                let mut cr = Rng(seed * 77 + ci as u64);
                hs.push(std::thread::spawn(move || {
                    spin_barrier(&start, c);
                    let mut got = Vec::new();
                    let mut empties = 0;
                    while empties < 3 {
                        let budget = *cr.pick(&[300usize, 2000, 9000, 40000]);
                        let es = wal.batch_read_for_topic("backlog", budget, true, None).unwrap();
                        if es.is_empty() { empties += 1; std::thread::yield_now(); } else { empties = 0; }
                        for e in es { got.push(idx_of(&e.data).unwrap_or(usize::MAX)); }
                    }
                    got
                }));
            }
            let per: Vec<Vec<usize>> = hs.into_iter().map(|h| h.join().unwrap()).collect();
            let mut seen = std::collections::HashMap::new();
            for g in per.iter().flatten() { *seen.entry(*g).or_insert(0usize) += 1; }
            for k in 0..m { match seen.get(&k) { Some(1) => {}, Some(n) => bad.push(format!("entry {} delivered {} times to concurrent batch consumers", k, n)), None => bad.push(format!("entry {} never delivered", k)) } }
            for (ci, g) in per.iter().enumerate() { if g.windows(2).any(|w| w[0] >= w[1]) { bad.push(format!("consumer {} received entries out of order", ci)); } }
            writeln!(out, "consumers n={} entries={} delivered={}", c, m, per.iter().map(|g| g.len()).sum::<usize>()).unwrap();
        }
        "readnext" => {
            // the window of the open finding tailReadersShareSnapshot: concurrent read_next on ONE topic
            let m = 1500usize;
            for k in 0..m { wal.append_for_topic("tailq", &payload(k % 1400)).unwrap(); }
            let c = 4usize;
            let start = Arc::new(AtomicUsize::new(0));
            let mut hs = Vec::new();
            for _ in 0..c {
                let wal = wal.clone();
                let start = start.clone();
                hs.push(std::thread::spawn(move || {
                    spin_barrier(&start, c);
                    let mut n = 0usize;
                    let mut empties = 0;
                    while empties < 3 {
                        match wal.read_next("tailq", true) { Ok(Some(_)) => { n += 1; empties = 0; } _ => { empties += 1; std::thread::yield_now(); } }
                    }
                    n
                }));
            }
            let total: usize = hs.into_iter().map(|h| h.join().unwrap()).sum();
            if total != m { bad.push(format!("{} deliveries of {} entries to 4 concurrent read_next consumers", total, m)); }
            writeln!(out, "readnext entries={} delivered={}", m, total).unwrap();
        }
        _ => panic!("unknown scenario"),
    }
    for b in bad.iter().take(12) { writeln!(out, "VIOLATION {}", b).unwrap(); }
    if bad.len() > 12 { writeln!(out, "VIOLATION ... {} more", bad.len() - 12).unwrap(); }
    out.flush().unwrap();
    drop(out);
    unsafe { libc::_exit(0) };
}

pub fn main(args: &[String]) {
    let outdir = std::path::PathBuf::from(&args[0]);
    std::fs::create_dir_all(&outdir).unwrap();
    let seed: u64 = std::env::var("VERIF_SEED").ok().and_then(|s| s.parse().ok()).unwrap_or(1);
    let n: usize = std::env::var("VERIF_NPROG").ok().and_then(|s| s.parse().ok()).unwrap_or(60);
    let exe = std::env::current_exe().unwrap();
    let root = std::path::PathBuf::from(format!("/dev/shm/walrus-verif-c-{}", std::process::id()));
    let _ = std::fs::remove_dir_all(&root);
    let mut lines = Vec::new();
    let mut r = Rng(seed.wrapping_mul(97) + 3);
    // scenarios run one after the other: each uses several threads of its own
    for k in 0..n {
        let scenario = if k % 10 == 9 { "readnext" } else { ["producers", "first", "consumers"][k % 3] };
        let mode = if r.chance(50) { "strict".to_string() } else { format!("alo:{}", 1 + r.below(8)) };
        let backend = if r.chance(40) { "mmap" } else { "fd" };
        let d = root.join(format!("s{}", k));
        std::fs::create_dir_all(d.join("data")).unwrap();
        let outf = d.join("out.txt");
        let sseed = seed.wrapping_mul(1000) + k as u64;
        let mut child = std::process::Command::new(&exe)
            .args(["concrun", scenario, &sseed.to_string(), d.join("data").to_str().unwrap(), outf.to_str().unwrap(), &mode, backend])
            .stdout(std::process::Stdio::null()).stderr(std::process::Stdio::null()).spawn().unwrap();
        let t0 = std::time::Instant::now();
        let status = loop {
            match child.try_wait().unwrap() {
                Some(s) => break Some(s),
                None => { if t0.elapsed().as_secs() > 120 { let _ = child.kill(); let _ = child.wait(); break None; } std::thread::sleep(std::time::Duration::from_millis(5)); }
            }
        };
        let body = std::fs::read_to_string(&outf).unwrap_or_default();
        let end = match status { None => "hang".to_string(), Some(s) if s.code() == Some(0) => "ok".to_string(), Some(s) => format!("died:{:?}", s.code()) };
        lines.push(format!("{}\t{}\t{}\t{}\t{}\t{}", k, scenario, mode, backend, end, body.trim().replace('\n', " | ")));
        let _ = std::fs::remove_dir_all(&d);
    }
    std::fs::write(outdir.join("conc.tsv"), lines.join("\n") + "\n").unwrap();
    let _ = std::fs::remove_dir_all(&root);
}
