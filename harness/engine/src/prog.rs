//! Program text format shared by generator, executor and oracle.
//! Line 0: `cfg <small|real> <strict|alo:N> <fd|mmap>`; then one op per line:
//!   clock <ms> | open | close | restart | append <t> <len>:<seed> | batch <t> <len>:<seed>,.. (or -)
//!   next <t> <0|1> | bread <t> <max> <0|1> <off|-> | count <t> | size <t> | mark <t> clean|dirty
//!   isclean <t> | persist | reclaim | ls | trk <name>
//! topics: t<k> (short name) or L<k> (name of 230 bytes: too long for the entry header)

#[derive(Clone, Debug, PartialEq, Eq, Hash)]
pub struct Desc {
    pub len: usize,
    pub seed: u64,
}

impl Desc {
    pub fn bytes(&self) -> Vec<u8> {
        // every byte >= 0x80 (see Model/Recover.lean: payload bytes never look like a valid header)
        (0..self.len)
            .map(|i| 0x80u8 | (((self.seed as usize) + i * 37 + (i / 128) * 11) % 128) as u8)
            .collect()
    }
    pub fn parse(s: &str) -> Desc {
        let (a, b) = s.split_once(':').expect("len:seed");
        Desc { len: a.parse().unwrap(), seed: b.parse().unwrap() }
    }
    pub fn text(&self) -> String {
        format!("{}:{}", self.len, self.seed)
    }
}

/// byte lengths of the topic names `M0`..`M5`: around the longest name whose header still fits (216)
pub const M_LENS: [usize; 6] = [216, 217, 220, 222, 223, 200];

pub fn topic_name(t: &str) -> String {
    if let Some(k) = t.strip_prefix('M') {
        let len = M_LENS[k.parse::<usize>().unwrap_or(0) % M_LENS.len()];
        let head = format!("M{}", k);
        format!("{}{}", head, "y".repeat(len - head.len()))
    } else if let Some(k) = t.strip_prefix('L') {
        format!("L{}{}", k, "x".repeat(230))
    } else {
        t.to_string()
    }
}

pub fn parse_batch(s: &str) -> Vec<Desc> {
    if s == "-" {
        Vec::new()
    } else {
        s.split(',').map(Desc::parse).collect()
    }
}

#[derive(Clone, Debug)]
pub struct Cfg {
    pub geom: String,
    pub mode: String,
    pub backend: String,
}

pub fn parse_cfg(line: &str) -> Cfg {
    let t: Vec<&str> = line.split_whitespace().collect();
    assert!(t.len() == 4 && t[0] == "cfg", "bad cfg line {:?}", line);
    Cfg { geom: t[1].into(), mode: t[2].into(), backend: t[3].into() }
}
