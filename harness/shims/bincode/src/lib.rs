//! Minimal stand-in for bincode 1.3's `serialize` / `deserialize` (default options).
use serde::de::{self, DeserializeSeed, EnumAccess, MapAccess, SeqAccess, VariantAccess, Visitor};
use serde::ser::{self, Serialize};
use std::fmt;

#[derive(Debug)]
pub struct Error(pub String);
impl fmt::Display for Error {
    fn fmt(&self, f: &mut fmt::Formatter<'_>) -> fmt::Result {
        write!(f, "{}", self.0)
    }
}
impl std::error::Error for Error {}
impl ser::Error for Error {
    fn custom<T: fmt::Display>(m: T) -> Self {
        Error(m.to_string())
    }
}
impl de::Error for Error {
    fn custom<T: fmt::Display>(m: T) -> Self {
        Error(m.to_string())
    }
}
pub type Result<T> = std::result::Result<T, Error>;

pub fn serialize<T: ?Sized + Serialize>(v: &T) -> Result<Vec<u8>> {
    let mut s = Ser { out: Vec::new() };
    v.serialize(&mut s)?;
    Ok(s.out)
}

pub fn deserialize<'a, T: de::Deserialize<'a>>(bytes: &'a [u8]) -> Result<T> {
    let mut d = De { inp: bytes };
    T::deserialize(&mut d) // trailing bytes allowed, as in bincode 1.x `deserialize`
}

struct Ser {
    out: Vec<u8>,
}

macro_rules! ser_int {
    ($name:ident, $t:ty) => {
        fn $name(self, v: $t) -> Result<()> {
            self.out.extend_from_slice(&v.to_le_bytes());
            Ok(())
        }
    };
}

impl<'a> ser::Serializer for &'a mut Ser {
    // bincode is a binary format: std::net addresses, for one, are encoded as enums, not strings
    fn is_human_readable(&self) -> bool {
        false
    }
    type Ok = ();
    type Error = Error;
    type SerializeSeq = Self;
    type SerializeTuple = Self;
    type SerializeTupleStruct = Self;
    type SerializeTupleVariant = Self;
    type SerializeMap = Self;
    type SerializeStruct = Self;
    type SerializeStructVariant = Self;
    fn serialize_bool(self, v: bool) -> Result<()> {
        self.out.push(v as u8);
        Ok(())
    }
    ser_int!(serialize_i8, i8);
    ser_int!(serialize_i16, i16);
    ser_int!(serialize_i32, i32);
    ser_int!(serialize_i64, i64);
    ser_int!(serialize_u8, u8);
    ser_int!(serialize_u16, u16);
    ser_int!(serialize_u32, u32);
    ser_int!(serialize_u64, u64);
    ser_int!(serialize_f32, f32);
    ser_int!(serialize_f64, f64);
    fn serialize_char(self, v: char) -> Result<()> {
        let mut b = [0u8; 4];
        self.out.extend_from_slice(v.encode_utf8(&mut b).as_bytes());
        Ok(())
    }
    fn serialize_str(self, v: &str) -> Result<()> {
        self.serialize_bytes(v.as_bytes())
    }
    fn serialize_bytes(self, v: &[u8]) -> Result<()> {
        self.out.extend_from_slice(&(v.len() as u64).to_le_bytes());
        self.out.extend_from_slice(v);
        Ok(())
    }
    fn serialize_none(self) -> Result<()> {
        self.out.push(0);
        Ok(())
    }
    fn serialize_some<T: ?Sized + Serialize>(self, v: &T) -> Result<()> {
        self.out.push(1);
        v.serialize(self)
    }
    fn serialize_unit(self) -> Result<()> {
        Ok(())
    }
    fn serialize_unit_struct(self, _: &'static str) -> Result<()> {
        Ok(())
    }
    fn serialize_unit_variant(self, _: &'static str, idx: u32, _: &'static str) -> Result<()> {
        self.serialize_u32(idx)
    }
    fn serialize_newtype_struct<T: ?Sized + Serialize>(self, _: &'static str, v: &T) -> Result<()> {
        v.serialize(self)
    }
    fn serialize_newtype_variant<T: ?Sized + Serialize>(self, _: &'static str, idx: u32, _: &'static str, v: &T) -> Result<()> {
        self.out.extend_from_slice(&idx.to_le_bytes());
        v.serialize(self)
    }
    fn serialize_seq(self, len: Option<usize>) -> Result<Self> {
        let len = len.ok_or_else(|| Error("sequence length required".into()))?;
        self.out.extend_from_slice(&(len as u64).to_le_bytes());
        Ok(self)
    }
    fn serialize_tuple(self, _: usize) -> Result<Self> {
        Ok(self)
    }
    fn serialize_tuple_struct(self, _: &'static str, _: usize) -> Result<Self> {
        Ok(self)
    }
    fn serialize_tuple_variant(self, _: &'static str, idx: u32, _: &'static str, _: usize) -> Result<Self> {
        self.out.extend_from_slice(&idx.to_le_bytes());
        Ok(self)
    }
    fn serialize_map(self, len: Option<usize>) -> Result<Self> {
        let len = len.ok_or_else(|| Error("map length required".into()))?;
        self.out.extend_from_slice(&(len as u64).to_le_bytes());
        Ok(self)
    }
    fn serialize_struct(self, _: &'static str, _: usize) -> Result<Self> {
        Ok(self)
    }
    fn serialize_struct_variant(self, _: &'static str, idx: u32, _: &'static str, _: usize) -> Result<Self> {
        self.out.extend_from_slice(&idx.to_le_bytes());
        Ok(self)
    }
}

macro_rules! ser_compound {
    ($tr:ident, $m:ident) => {
        impl<'a> ser::$tr for &'a mut Ser {
            type Ok = ();
            type Error = Error;
            fn $m<T: ?Sized + Serialize>(&mut self, v: &T) -> Result<()> {
                v.serialize(&mut **self)
            }
            fn end(self) -> Result<()> {
                Ok(())
            }
        }
    };
}
ser_compound!(SerializeSeq, serialize_element);
ser_compound!(SerializeTuple, serialize_element);
ser_compound!(SerializeTupleStruct, serialize_field);
ser_compound!(SerializeTupleVariant, serialize_field);
impl<'a> ser::SerializeMap for &'a mut Ser {
    type Ok = ();
    type Error = Error;
    fn serialize_key<T: ?Sized + Serialize>(&mut self, k: &T) -> Result<()> {
        k.serialize(&mut **self)
    }
    fn serialize_value<T: ?Sized + Serialize>(&mut self, v: &T) -> Result<()> {
        v.serialize(&mut **self)
    }
    fn end(self) -> Result<()> {
        Ok(())
    }
}
impl<'a> ser::SerializeStruct for &'a mut Ser {
    type Ok = ();
    type Error = Error;
    fn serialize_field<T: ?Sized + Serialize>(&mut self, _: &'static str, v: &T) -> Result<()> {
        v.serialize(&mut **self)
    }
    fn end(self) -> Result<()> {
        Ok(())
    }
}
impl<'a> ser::SerializeStructVariant for &'a mut Ser {
    type Ok = ();
    type Error = Error;
    fn serialize_field<T: ?Sized + Serialize>(&mut self, _: &'static str, v: &T) -> Result<()> {
        v.serialize(&mut **self)
    }
    fn end(self) -> Result<()> {
        Ok(())
    }
}

struct De<'de> {
    inp: &'de [u8],
}

impl<'de> De<'de> {
    fn take(&mut self, n: usize) -> Result<&'de [u8]> {
        if self.inp.len() < n {
            return Err(Error("io error: unexpected end of file".into()));
        }
        let (a, b) = self.inp.split_at(n);
        self.inp = b;
        Ok(a)
    }
    fn len(&mut self) -> Result<usize> {
        let b = self.take(8)?;
        let v = u64::from_le_bytes(b.try_into().unwrap());
        usize::try_from(v).map_err(|_| Error("length overflow".into()))
    }
}

macro_rules! de_int {
    ($name:ident, $visit:ident, $t:ty, $n:expr) => {
        fn $name<V: Visitor<'de>>(self, v: V) -> Result<V::Value> {
            let b = self.take($n)?;
            v.$visit(<$t>::from_le_bytes(b.try_into().unwrap()))
        }
    };
}

impl<'de, 'a> de::Deserializer<'de> for &'a mut De<'de> {
    type Error = Error;
    fn deserialize_any<V: Visitor<'de>>(self, _: V) -> Result<V::Value> {
        Err(Error("bincode does not support deserialize_any".into()))
    }
    fn deserialize_bool<V: Visitor<'de>>(self, v: V) -> Result<V::Value> {
        match self.take(1)?[0] {
            0 => v.visit_bool(false),
            1 => v.visit_bool(true),
            x => Err(Error(format!("invalid bool {}", x))),
        }
    }
    de_int!(deserialize_i8, visit_i8, i8, 1);
    de_int!(deserialize_i16, visit_i16, i16, 2);
    de_int!(deserialize_i32, visit_i32, i32, 4);
    de_int!(deserialize_i64, visit_i64, i64, 8);
    de_int!(deserialize_u8, visit_u8, u8, 1);
    de_int!(deserialize_u16, visit_u16, u16, 2);
    de_int!(deserialize_u32, visit_u32, u32, 4);
    de_int!(deserialize_u64, visit_u64, u64, 8);
    de_int!(deserialize_f32, visit_f32, f32, 4);
    de_int!(deserialize_f64, visit_f64, f64, 8);
    fn deserialize_char<V: Visitor<'de>>(self, v: V) -> Result<V::Value> {
        let first = self.take(1)?[0];
        let width = if first < 0x80 { 1 } else if first >> 5 == 0b110 { 2 } else if first >> 4 == 0b1110 { 3 } else if first >> 3 == 0b11110 { 4 } else { 0 };
        if width == 0 {
            return Err(Error("invalid char encoding".into()));
        }
        let mut buf = vec![first];
        buf.extend_from_slice(self.take(width - 1)?);
        let s = std::str::from_utf8(&buf).map_err(|_| Error("invalid char encoding".into()))?;
        v.visit_char(s.chars().next().unwrap())
    }
    fn deserialize_str<V: Visitor<'de>>(self, v: V) -> Result<V::Value> {
        let n = self.len()?;
        let b = self.take(n)?;
        let s = std::str::from_utf8(b).map_err(|e| Error(format!("invalid utf-8: {}", e)))?;
        v.visit_borrowed_str(s)
    }
    fn deserialize_string<V: Visitor<'de>>(self, v: V) -> Result<V::Value> {
        self.deserialize_str(v)
    }
    fn deserialize_bytes<V: Visitor<'de>>(self, v: V) -> Result<V::Value> {
        let n = self.len()?;
        v.visit_borrowed_bytes(self.take(n)?)
    }
    fn deserialize_byte_buf<V: Visitor<'de>>(self, v: V) -> Result<V::Value> {
        self.deserialize_bytes(v)
    }
    fn deserialize_option<V: Visitor<'de>>(self, v: V) -> Result<V::Value> {
        match self.take(1)?[0] {
            0 => v.visit_none(),
            1 => v.visit_some(self),
            x => Err(Error(format!("invalid option tag {}", x))),
        }
    }
    fn deserialize_unit<V: Visitor<'de>>(self, v: V) -> Result<V::Value> {
        v.visit_unit()
    }
    fn deserialize_unit_struct<V: Visitor<'de>>(self, _: &'static str, v: V) -> Result<V::Value> {
        v.visit_unit()
    }
    fn deserialize_newtype_struct<V: Visitor<'de>>(self, _: &'static str, v: V) -> Result<V::Value> {
        v.visit_newtype_struct(self)
    }
    fn deserialize_seq<V: Visitor<'de>>(self, v: V) -> Result<V::Value> {
        let n = self.len()?;
        v.visit_seq(Counted { de: self, left: n })
    }
    fn deserialize_tuple<V: Visitor<'de>>(self, n: usize, v: V) -> Result<V::Value> {
        v.visit_seq(Counted { de: self, left: n })
    }
    fn deserialize_tuple_struct<V: Visitor<'de>>(self, _: &'static str, n: usize, v: V) -> Result<V::Value> {
        v.visit_seq(Counted { de: self, left: n })
    }
    fn deserialize_map<V: Visitor<'de>>(self, v: V) -> Result<V::Value> {
        let n = self.len()?;
        v.visit_map(Counted { de: self, left: n })
    }
    fn deserialize_struct<V: Visitor<'de>>(self, _: &'static str, fields: &'static [&'static str], v: V) -> Result<V::Value> {
        v.visit_seq(Counted { de: self, left: fields.len() })
    }
    fn deserialize_enum<V: Visitor<'de>>(self, _: &'static str, _: &'static [&'static str], v: V) -> Result<V::Value> {
        v.visit_enum(self)
    }
    fn deserialize_identifier<V: Visitor<'de>>(self, _: V) -> Result<V::Value> {
        Err(Error("bincode does not support deserialize_identifier".into()))
    }
    fn deserialize_ignored_any<V: Visitor<'de>>(self, _: V) -> Result<V::Value> {
        Err(Error("bincode does not support deserialize_ignored_any".into()))
    }
    fn is_human_readable(&self) -> bool {
        false
    }
}

struct Counted<'a, 'de> {
    de: &'a mut De<'de>,
    left: usize,
}
impl<'a, 'de> SeqAccess<'de> for Counted<'a, 'de> {
    type Error = Error;
    fn next_element_seed<T: DeserializeSeed<'de>>(&mut self, seed: T) -> Result<Option<T::Value>> {
        if self.left == 0 {
            return Ok(None);
        }
        self.left -= 1;
        seed.deserialize(&mut *self.de).map(Some)
    }
    fn size_hint(&self) -> Option<usize> {
        Some(self.left.min(4096))
    }
}
impl<'a, 'de> MapAccess<'de> for Counted<'a, 'de> {
    type Error = Error;
    fn next_key_seed<K: DeserializeSeed<'de>>(&mut self, seed: K) -> Result<Option<K::Value>> {
        if self.left == 0 {
            return Ok(None);
        }
        self.left -= 1;
        seed.deserialize(&mut *self.de).map(Some)
    }
    fn next_value_seed<V: DeserializeSeed<'de>>(&mut self, seed: V) -> Result<V::Value> {
        seed.deserialize(&mut *self.de)
    }
    fn size_hint(&self) -> Option<usize> {
        Some(self.left.min(4096))
    }
}
impl<'a, 'de> EnumAccess<'de> for &'a mut De<'de> {
    type Error = Error;
    type Variant = Self;
    fn variant_seed<V: DeserializeSeed<'de>>(self, seed: V) -> Result<(V::Value, Self)> {
        let b = self.take(4)?;
        let idx = u32::from_le_bytes(b.try_into().unwrap());
        let val = seed.deserialize(de::value::U32Deserializer::<Error>::new(idx))?;
        Ok((val, self))
    }
}
impl<'a, 'de> VariantAccess<'de> for &'a mut De<'de> {
    type Error = Error;
    fn unit_variant(self) -> Result<()> {
        Ok(())
    }
    fn newtype_variant_seed<T: DeserializeSeed<'de>>(self, seed: T) -> Result<T::Value> {
        seed.deserialize(self)
    }
    fn tuple_variant<V: Visitor<'de>>(self, n: usize, v: V) -> Result<V::Value> {
        v.visit_seq(Counted { de: self, left: n })
    }
    fn struct_variant<V: Visitor<'de>>(self, fields: &'static [&'static str], v: V) -> Result<V::Value> {
        v.visit_seq(Counted { de: self, left: fields.len() })
    }
}
