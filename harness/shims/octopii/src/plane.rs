//! Stand-in for the parts of octopii the data plane of distributed-walrus names: one totally ordered command log
//! for the whole cluster (what Raft provides, property C19, assumed here), applied to each node's state machine when
//! the harness says so; `propose` appends and then waits (at a named point) until the proposing node has applied
//! the entry; custom RPCs are delivered by calling the handler the target node registered.  Node 1 is the leader.
use crate::StateMachineTrait;
use bytes::Bytes;
use std::cell::RefCell;
use std::collections::{BTreeSet, HashMap};
use std::future::Future;
use std::net::SocketAddr;
use std::pin::Pin;
use std::sync::Arc;
use std::time::Duration;

#[derive(Debug)]
pub struct OctoError(pub String);
impl std::fmt::Display for OctoError {
    fn fmt(&self, f: &mut std::fmt::Formatter<'_>) -> std::fmt::Result {
        write!(f, "{}", self.0)
    }
}
impl std::error::Error for OctoError {}

pub mod rpc {
    use super::*;
    #[derive(Debug)]
    pub enum RequestPayload {
        Custom { operation: String, data: Bytes },
    }
    #[derive(Debug)]
    pub enum ResponsePayload {
        CustomResponse { success: bool, data: Bytes },
        Error { message: String },
    }
    pub struct Request {
        pub payload: RequestPayload,
    }
    #[derive(Debug)]
    pub struct Response {
        pub payload: ResponsePayload,
    }
    pub struct RpcHandler;
    impl RpcHandler {
        pub async fn request(&self, target: SocketAddr, payload: RequestPayload, _timeout: Duration) -> Result<Response, OctoError> {
            let h = CLUSTER.with(|c| c.borrow().handlers.get(&target).cloned());
            match h {
                Some(h) => Ok(Response { payload: h(Request { payload }).await }),
                None => Err(OctoError(format!("no node listens on {}", target))),
            }
        }
    }
}
use rpc::*;

pub type Handler = Arc<dyn Fn(Request) -> Pin<Box<dyn Future<Output = ResponsePayload>>>>;

#[derive(Default)]
pub struct Cluster {
    pub log: Vec<Vec<u8>>,
    pub results: Vec<HashMap<u64, Result<Bytes, String>>>,
    pub applied: HashMap<u64, usize>,
    pub sms: HashMap<u64, Arc<dyn StateMachineTrait>>,
    pub handlers: HashMap<SocketAddr, Handler>,
    pub voters: BTreeSet<u64>,
}
thread_local! {
    pub static CLUSTER: RefCell<Cluster> = RefCell::new(Cluster::default());
}

pub fn cluster_reset() {
    CLUSTER.with(|c| *c.borrow_mut() = Cluster::default());
}
pub fn register_handler(addr: SocketAddr, h: Handler) {
    CLUSTER.with(|c| c.borrow_mut().handlers.insert(addr, h));
}
/// append a command to the cluster log (harness set-up; the code under test goes through `propose`)
pub fn log_push(cmd: Vec<u8>) -> usize {
    CLUSTER.with(|c| {
        let mut c = c.borrow_mut();
        c.log.push(cmd);
        c.results.push(HashMap::new());
        c.log.len() - 1
    })
}
/// Apply the next log entry on `node`; returns its index, or None when the node is up to date.
pub fn apply_next(node: u64) -> Option<usize> {
    let (idx, cmd, sm) = CLUSTER.with(|c| {
        let c = c.borrow();
        let idx = *c.applied.get(&node).unwrap_or(&0);
        if idx >= c.log.len() {
            return None;
        }
        Some((idx, c.log[idx].clone(), c.sms.get(&node).cloned().expect("unknown node")))
    })?;
    let r = sm.apply(&cmd);
    CLUSTER.with(|c| {
        let mut c = c.borrow_mut();
        c.results[idx].insert(node, r);
        c.applied.insert(node, idx + 1);
    });
    Some(idx)
}
pub fn applied_index(node: u64) -> usize {
    CLUSTER.with(|c| *c.borrow().applied.get(&node).unwrap_or(&0))
}
pub fn log_len() -> usize {
    CLUSTER.with(|c| c.borrow().log.len())
}

#[derive(serde::Serialize, Debug)]
pub struct Membership {
    configs: Vec<BTreeSet<u64>>,
}
impl Membership {
    pub fn get_joint_config(&self) -> &Vec<BTreeSet<u64>> {
        &self.configs
    }
}
#[derive(serde::Serialize, Debug)]
pub struct MembershipConfig {
    membership: Membership,
}
impl MembershipConfig {
    pub fn membership(&self) -> &Membership {
        &self.membership
    }
}
#[derive(serde::Serialize, Debug)]
pub struct Metrics {
    pub current_leader: Option<u64>,
    pub state: String,
    pub last_log_index: Option<u64>,
    pub membership_config: MembershipConfig,
}

pub const LEADER: u64 = 1;

pub struct OctopiiNode {
    id: u64,
    peers: RefCell<HashMap<u64, SocketAddr>>,
}
unsafe impl Send for OctopiiNode {}
unsafe impl Sync for OctopiiNode {}

impl OctopiiNode {
    pub fn new_standin(id: u64, sm: Arc<dyn StateMachineTrait>) -> Self {
        CLUSTER.with(|c| {
            let mut c = c.borrow_mut();
            c.sms.insert(id, sm);
            c.applied.insert(id, 0);
            c.voters.insert(id);
        });
        OctopiiNode { id, peers: RefCell::new(HashMap::new()) }
    }
    pub fn id(&self) -> u64 {
        self.id
    }
    pub async fn is_leader(&self) -> bool {
        self.id == LEADER
    }
    pub async fn propose(&self, payload: Vec<u8>) -> Result<Bytes, OctoError> {
        if self.id != LEADER {
            return Err(OctoError("not the leader".into()));
        }
        let idx = log_push(payload);
        loop {
            if applied_index(self.id) > idx {
                let r = CLUSTER.with(|c| c.borrow().results[idx].get(&self.id).cloned());
                return match r {
                    Some(Ok(b)) => Ok(b),
                    Some(Err(e)) => Err(OctoError(e)),
                    None => Err(OctoError("no result".into())),
                };
            }
            tokio_sched::sched::point("await-apply", idx.to_string()).await;
        }
    }
    pub fn raft_metrics(&self) -> Metrics {
        let voters = CLUSTER.with(|c| c.borrow().voters.clone());
        Metrics {
            current_leader: Some(LEADER),
            state: if self.id == LEADER { "Leader".into() } else { "Follower".into() },
            last_log_index: Some(log_len() as u64),
            membership_config: MembershipConfig { membership: Membership { configs: vec![voters] } },
        }
    }
    pub fn rpc_handler(&self) -> Arc<RpcHandler> {
        Arc::new(RpcHandler)
    }
    pub async fn peer_addr_for(&self, id: u64) -> Option<SocketAddr> {
        self.peers.borrow().get(&id).copied()
    }
    pub async fn update_peer_addr(&self, id: u64, addr: SocketAddr) {
        self.peers.borrow_mut().insert(id, addr);
    }
    pub async fn add_learner(&self, _id: u64, _addr: SocketAddr) -> Result<(), OctoError> {
        Err(OctoError("membership changes are not part of the stand-in".into()))
    }
    pub async fn is_learner_caught_up(&self, _id: u64) -> Result<bool, OctoError> {
        Ok(false)
    }
    pub async fn promote_learner(&self, _id: u64) -> Result<(), OctoError> {
        Err(OctoError("membership changes are not part of the stand-in".into()))
    }
}
