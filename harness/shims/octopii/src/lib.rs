//! `StateMachineTrait` is copied from /repo/octopii/src/state_machine.rs (lines 6-14).
use bytes::Bytes;

pub trait StateMachineTrait: Send + Sync {
    fn apply(&self, command: &[u8]) -> std::result::Result<Bytes, String>;
    fn snapshot(&self) -> Vec<u8>;
    fn restore(&self, data: &[u8]) -> std::result::Result<(), String>;
    fn compact(&self) -> std::result::Result<(), String> {
        Ok(())
    }
}

#[cfg(feature = "plane")]
mod plane;
#[cfg(feature = "plane")]
pub use plane::*;
