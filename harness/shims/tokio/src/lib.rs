//! Minimal tokio stand-in: every operation completes immediately; `spawn` runs the future inline.
use std::future::Future;
use std::pin::Pin;
use std::sync::{Arc, Mutex};
use std::task::{Context, Poll, RawWaker, RawWakerVTable, Waker};

fn noop_waker() -> Waker {
    fn clone(_: *const ()) -> RawWaker {
        RawWaker::new(std::ptr::null(), &VTABLE)
    }
    fn noop(_: *const ()) {}
    static VTABLE: RawWakerVTable = RawWakerVTable::new(clone, noop, noop, noop);
    unsafe { Waker::from_raw(RawWaker::new(std::ptr::null(), &VTABLE)) }
}

pub fn block_on<F: Future>(fut: F) -> F::Output {
    let mut fut = Box::pin(fut);
    let waker = noop_waker();
    let mut cx = Context::from_waker(&waker);
    loop {
        if let Poll::Ready(v) = Pin::as_mut(&mut fut).poll(&mut cx) {
            return v;
        }
    }
}

pub struct JoinHandle;

pub fn spawn<F>(fut: F) -> JoinHandle
where
    F: Future + Send + 'static,
    F::Output: Send + 'static,
{
    let _ = block_on(fut);
    JoinHandle
}

pub mod io {
    use std::future::{ready, Ready};
    pub trait AsyncReadExt {
        fn read_exact<'a>(&'a mut self, buf: &'a mut [u8]) -> Ready<std::io::Result<usize>>;
    }
    pub trait AsyncWriteExt {
        fn write_all<'a>(&'a mut self, src: &'a [u8]) -> Ready<std::io::Result<()>>;
    }
    impl AsyncReadExt for crate::net::TcpStream {
        fn read_exact<'a>(&'a mut self, buf: &'a mut [u8]) -> Ready<std::io::Result<usize>> {
            if self.input.len() - self.pos < buf.len() {
                // like a socket closed by the peer: whatever was there is consumed, then EOF
                self.pos = self.input.len();
                return ready(Err(std::io::Error::new(std::io::ErrorKind::UnexpectedEof, "early eof")));
            }
            buf.copy_from_slice(&self.input[self.pos..self.pos + buf.len()]);
            self.pos += buf.len();
            ready(Ok(buf.len()))
        }
    }
    impl AsyncWriteExt for crate::net::TcpStream {
        fn write_all<'a>(&'a mut self, src: &'a [u8]) -> Ready<std::io::Result<()>> {
            self.output.lock().unwrap().extend_from_slice(src);
            ready(Ok(()))
        }
    }
}

pub mod net {
    use super::*;
    use std::future::{ready, Ready};

    pub struct TcpStream {
        pub(crate) input: Vec<u8>,
        pub(crate) pos: usize,
        pub(crate) output: Arc<Mutex<Vec<u8>>>,
    }

    static SCRIPT: Mutex<Vec<TcpStream>> = Mutex::new(Vec::new());

    /// Queue a connection whose peer sends `input` and then closes; returns the bytes the server writes.
    pub fn script_connection(input: Vec<u8>) -> Arc<Mutex<Vec<u8>>> {
        let out = Arc::new(Mutex::new(Vec::new()));
        SCRIPT.lock().unwrap().push(TcpStream { input, pos: 0, output: out.clone() });
        out
    }

    pub struct TcpListener;
    impl TcpListener {
        pub fn bind(_addr: &str) -> Ready<std::io::Result<TcpListener>> {
            ready(Ok(TcpListener))
        }
        pub fn accept(&self) -> Ready<std::io::Result<(TcpStream, String)>> {
            let mut s = SCRIPT.lock().unwrap();
            if s.is_empty() {
                ready(Err(std::io::Error::new(std::io::ErrorKind::Other, "no more scripted connections")))
            } else {
                ready(Ok((s.remove(0), "scripted:0".to_string())))
            }
        }
    }
}


pub mod task {
    /// the stand-in has no worker pool: the closure runs inline
    pub fn block_in_place<F: FnOnce() -> R, R>(f: F) -> R {
        f()
    }
}

pub mod runtime {
    /// stand-in for the runtime handle: `block_on` polls inline
    pub struct Handle;
    impl Handle {
        pub fn current() -> Handle {
            Handle
        }
        pub fn block_on<F: std::future::Future>(&self, fut: F) -> F::Output {
            crate::block_on(fut)
        }
    }
}

pub mod time {
    pub use std::time::Duration;
    /// completes immediately (the real call only waits for a background fsync)
    pub fn sleep(_d: Duration) -> std::future::Ready<()> {
        std::future::ready(())
    }
}

pub mod sync {
    /// uncontended stand-in: `lock()` is ready at once (the harness is single-threaded)
    #[derive(Debug, Default)]
    pub struct Mutex<T>(std::sync::Mutex<T>);
    impl<T> Mutex<T> {
        pub fn new(v: T) -> Self {
            Mutex(std::sync::Mutex::new(v))
        }
        pub fn lock(&self) -> std::future::Ready<std::sync::MutexGuard<'_, T>> {
            std::future::ready(self.0.lock().unwrap_or_else(|e| e.into_inner()))
        }
    }
    /// uncontended stand-in: `read()` / `write()` are ready at once
    #[derive(Debug, Default)]
    pub struct RwLock<T>(std::sync::RwLock<T>);
    impl<T> RwLock<T> {
        pub fn new(v: T) -> Self {
            RwLock(std::sync::RwLock::new(v))
        }
        pub fn read(&self) -> std::future::Ready<std::sync::RwLockReadGuard<'_, T>> {
            std::future::ready(self.0.read().unwrap_or_else(|e| e.into_inner()))
        }
        pub fn write(&self) -> std::future::Ready<std::sync::RwLockWriteGuard<'_, T>> {
            std::future::ready(self.0.write().unwrap_or_else(|e| e.into_inner()))
        }
    }
}
