//! tokio stand-in for the data-plane harness.  Nothing here runs by itself: the harness polls one task at a time;
//! a task runs until it reaches a named point (`sched::point`), blocks on a held lock, or finishes.
use std::cell::{Cell, RefCell, UnsafeCell};
use std::future::Future;
use std::pin::Pin;
use std::task::{Context, Poll};

pub mod sched {
    use super::*;
    thread_local! {
        static EVENTS: RefCell<Vec<(String, String)>> = RefCell::new(Vec::new());
        static BLOCKED: RefCell<Option<String>> = RefCell::new(None);
    }
    pub fn log(label: &str, detail: &str) {
        EVENTS.with(|e| e.borrow_mut().push((label.to_string(), detail.to_string())));
    }
    pub fn take_events() -> Vec<(String, String)> {
        EVENTS.with(|e| std::mem::take(&mut *e.borrow_mut()))
    }
    pub fn mark_blocked(on: &str) {
        BLOCKED.with(|b| *b.borrow_mut() = Some(on.to_string()));
    }
    pub fn take_blocked() -> Option<String> {
        BLOCKED.with(|b| b.borrow_mut().take())
    }
    /// Pending once, then ready.
    pub struct YieldOnce(pub bool);
    impl Future for YieldOnce {
        type Output = ();
        fn poll(mut self: Pin<&mut Self>, _cx: &mut Context<'_>) -> Poll<()> {
            if self.0 {
                Poll::Ready(())
            } else {
                self.0 = true;
                Poll::Pending
            }
        }
    }
    /// A named point: records the event and hands control back to the scheduler.
    pub async fn point(label: &'static str, detail: String) {
        log(label, &detail);
        YieldOnce(false).await
    }
    pub fn noop_waker() -> std::task::Waker {
        use std::task::{RawWaker, RawWakerVTable, Waker};
        fn clone(_: *const ()) -> RawWaker {
            RawWaker::new(std::ptr::null(), &VTABLE)
        }
        fn noop(_: *const ()) {}
        static VTABLE: RawWakerVTable = RawWakerVTable::new(clone, noop, noop, noop);
        unsafe { Waker::from_raw(RawWaker::new(std::ptr::null(), &VTABLE)) }
    }
    /// Poll a future once.
    pub fn poll_once<F: Future + ?Sized>(f: Pin<&mut F>) -> Poll<F::Output> {
        let w = noop_waker();
        let mut cx = Context::from_waker(&w);
        f.poll(&mut cx)
    }
    /// Run a future that is known not to yield (panics if it does).
    pub fn run_atomic<F: Future>(f: F) -> F::Output {
        let mut f = Box::pin(f);
        match poll_once(f.as_mut()) {
            Poll::Ready(v) => v,
            Poll::Pending => panic!("run_atomic: the future yielded"),
        }
    }
}

pub mod sync {
    use super::*;
    use std::ops::{Deref, DerefMut};
    use std::sync::Arc;

    pub struct Mutex<T> {
        locked: Cell<bool>,
        v: UnsafeCell<T>,
    }
    unsafe impl<T> Send for Mutex<T> {}
    unsafe impl<T> Sync for Mutex<T> {}
    impl<T> Mutex<T> {
        pub fn new(v: T) -> Self {
            Mutex { locked: Cell::new(false), v: UnsafeCell::new(v) }
        }
        pub fn lock(&self) -> LockFut<'_, T> {
            LockFut(self)
        }
        pub fn lock_owned(self: Arc<Self>) -> OwnedLockFut<T> {
            OwnedLockFut(Some(self))
        }
        pub fn is_locked(&self) -> bool {
            self.locked.get()
        }
    }
    pub struct LockFut<'a, T>(&'a Mutex<T>);
    impl<'a, T> Future for LockFut<'a, T> {
        type Output = MutexGuard<'a, T>;
        fn poll(self: Pin<&mut Self>, _cx: &mut Context<'_>) -> Poll<Self::Output> {
            if self.0.locked.get() {
                sched::mark_blocked("mutex");
                Poll::Pending
            } else {
                self.0.locked.set(true);
                Poll::Ready(MutexGuard(self.0))
            }
        }
    }
    pub struct MutexGuard<'a, T>(&'a Mutex<T>);
    impl<'a, T> Deref for MutexGuard<'a, T> {
        type Target = T;
        fn deref(&self) -> &T {
            unsafe { &*self.0.v.get() }
        }
    }
    impl<'a, T> DerefMut for MutexGuard<'a, T> {
        fn deref_mut(&mut self) -> &mut T {
            unsafe { &mut *self.0.v.get() }
        }
    }
    impl<'a, T> Drop for MutexGuard<'a, T> {
        fn drop(&mut self) {
            self.0.locked.set(false);
        }
    }
    pub struct OwnedLockFut<T>(Option<Arc<Mutex<T>>>);
    impl<T> Unpin for OwnedLockFut<T> {}
    impl<T> Future for OwnedLockFut<T> {
        type Output = OwnedMutexGuard<T>;
        fn poll(mut self: Pin<&mut Self>, _cx: &mut Context<'_>) -> Poll<Self::Output> {
            let m = self.0.as_ref().expect("polled after completion");
            if m.locked.get() {
                sched::mark_blocked("mutex");
                Poll::Pending
            } else {
                m.locked.set(true);
                Poll::Ready(OwnedMutexGuard(self.0.take().unwrap()))
            }
        }
    }
    pub struct OwnedMutexGuard<T>(Arc<Mutex<T>>);
    impl<T> Deref for OwnedMutexGuard<T> {
        type Target = T;
        fn deref(&self) -> &T {
            unsafe { &*self.0.v.get() }
        }
    }
    impl<T> Drop for OwnedMutexGuard<T> {
        fn drop(&mut self) {
            self.0.locked.set(false);
        }
    }

    /// Readers-writer lock.  In the code under test these are held only between two points, so they are never
    /// contended at a scheduling point; a contended acquisition blocks like the mutex.
    pub struct RwLock<T> {
        readers: Cell<usize>,
        writer: Cell<bool>,
        v: UnsafeCell<T>,
    }
    unsafe impl<T> Send for RwLock<T> {}
    unsafe impl<T> Sync for RwLock<T> {}
    impl<T> RwLock<T> {
        pub fn new(v: T) -> Self {
            RwLock { readers: Cell::new(0), writer: Cell::new(false), v: UnsafeCell::new(v) }
        }
        pub fn read(&self) -> ReadFut<'_, T> {
            ReadFut(self)
        }
        pub fn write(&self) -> WriteFut<'_, T> {
            WriteFut(self)
        }
    }
    pub struct ReadFut<'a, T>(&'a RwLock<T>);
    impl<'a, T> Future for ReadFut<'a, T> {
        type Output = RwLockReadGuard<'a, T>;
        fn poll(self: Pin<&mut Self>, _cx: &mut Context<'_>) -> Poll<Self::Output> {
            if self.0.writer.get() {
                sched::mark_blocked("rwlock-read");
                Poll::Pending
            } else {
                self.0.readers.set(self.0.readers.get() + 1);
                Poll::Ready(RwLockReadGuard(self.0))
            }
        }
    }
    pub struct WriteFut<'a, T>(&'a RwLock<T>);
    impl<'a, T> Future for WriteFut<'a, T> {
        type Output = RwLockWriteGuard<'a, T>;
        fn poll(self: Pin<&mut Self>, _cx: &mut Context<'_>) -> Poll<Self::Output> {
            if self.0.writer.get() || self.0.readers.get() > 0 {
                sched::mark_blocked("rwlock-write");
                Poll::Pending
            } else {
                self.0.writer.set(true);
                Poll::Ready(RwLockWriteGuard(self.0))
            }
        }
    }
    pub struct RwLockReadGuard<'a, T>(&'a RwLock<T>);
    impl<'a, T: std::fmt::Debug> std::fmt::Debug for RwLockReadGuard<'a, T> {
        fn fmt(&self, f: &mut std::fmt::Formatter<'_>) -> std::fmt::Result {
            (**self).fmt(f)
        }
    }
    impl<'a, T> Deref for RwLockReadGuard<'a, T> {
        type Target = T;
        fn deref(&self) -> &T {
            unsafe { &*self.0.v.get() }
        }
    }
    impl<'a, T> Drop for RwLockReadGuard<'a, T> {
        fn drop(&mut self) {
            self.0.readers.set(self.0.readers.get() - 1);
        }
    }
    pub struct RwLockWriteGuard<'a, T>(&'a RwLock<T>);
    impl<'a, T> Deref for RwLockWriteGuard<'a, T> {
        type Target = T;
        fn deref(&self) -> &T {
            unsafe { &*self.0.v.get() }
        }
    }
    impl<'a, T> DerefMut for RwLockWriteGuard<'a, T> {
        fn deref_mut(&mut self) -> &mut T {
            unsafe { &mut *self.0.v.get() }
        }
    }
    impl<'a, T> Drop for RwLockWriteGuard<'a, T> {
        fn drop(&mut self) {
            self.0.writer.set(false);
        }
    }
}

pub mod task {
    use std::future::{ready, Ready};
    #[derive(Debug)]
    pub struct JoinError;
    impl std::fmt::Display for JoinError {
        fn fmt(&self, f: &mut std::fmt::Formatter<'_>) -> std::fmt::Result {
            write!(f, "join error")
        }
    }
    impl std::error::Error for JoinError {}
    /// the closure runs inline, to completion
    pub fn spawn_blocking<F: FnOnce() -> R, R>(f: F) -> Ready<Result<R, JoinError>> {
        ready(Ok(f()))
    }
    pub struct JoinHandle;
    /// background tasks of the code under test are not run (only the learner-promotion loop uses this)
    pub fn spawn<F: std::future::Future>(_fut: F) -> JoinHandle {
        JoinHandle
    }
}
pub use task::spawn;

pub mod time {
    pub use std::time::Duration;
    #[derive(Debug)]
    pub struct Elapsed;
    impl std::fmt::Display for Elapsed {
        fn fmt(&self, f: &mut std::fmt::Formatter<'_>) -> std::fmt::Result {
            write!(f, "deadline has elapsed")
        }
    }
    impl std::error::Error for Elapsed {}
    /// no clock: the inner future decides
    pub async fn timeout<F: std::future::Future>(_d: Duration, f: F) -> Result<F::Output, Elapsed> {
        Ok(f.await)
    }
    pub async fn sleep(_d: Duration) {
        crate::sched::point("sleep", String::new()).await
    }
    pub struct Interval;
    pub fn interval(_d: Duration) -> Interval {
        Interval
    }
    impl Interval {
        pub async fn tick(&mut self) {
            crate::sched::point("tick", String::new()).await
        }
    }
}

pub mod net {
    /// host names do not resolve in the harness
    pub async fn lookup_host<T: AsRef<str>>(host: T) -> std::io::Result<std::vec::IntoIter<std::net::SocketAddr>> {
        Err(std::io::Error::new(std::io::ErrorKind::NotFound, format!("no resolver for {}", host.as_ref())))
    }
}
