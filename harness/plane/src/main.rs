//! C22/C23: the data plane of distributed-walrus (bucket.rs, controller/{mod,internal,types}.rs, monitor.rs,
//! metadata.rs, rpc.rs compiled from /repo by #[path]) on the REAL storage engine (walrus-rust), several nodes in
//! one process, under a deterministic scheduler: a task runs until the next named point (`crate::verif::point`,
//! the cfg(walrus_verif) hooks in the sources, plus `await-apply` / `tick` of the stand-ins), blocks on a held
//! lock, or finishes.  Raft (octopii) is a stand-in: one ordered command log, applied per node on request.
//!   plane_harness <datadir> <progfile> <outfile>
//! program lines:
//!   init <nodes> <threshold> | topic <name> <leader>
//!   spawn <tid> put <node> <topic> <payload> | spawn <tid> get <node> <topic> | spawn <tid> monitor <node>
//!   step <tid> | apply <node> | sync <node> | drain | dump
#![allow(dead_code, unused_imports, unused_variables)]
#[path = "/repo/distributed-walrus/src/metadata.rs"]
mod metadata;
#[path = "/repo/distributed-walrus/src/rpc.rs"]
mod rpc;
#[path = "/repo/distributed-walrus/src/bucket.rs"]
mod bucket;
#[path = "/repo/distributed-walrus/src/controller/mod.rs"]
mod controller;
#[path = "/repo/distributed-walrus/src/monitor.rs"]
mod monitor;
mod config {
    /// monitor.rs only stores it
    #[derive(Clone, Debug)]
    pub struct NodeConfig;
}
mod verif {
    pub use tokio::sched::point;
}

use controller::NodeController;
use metadata::{Metadata, MetadataCmd};
use octopii::rpc::{RequestPayload, ResponsePayload};
use rpc::{InternalOp, InternalResp};
use std::collections::BTreeMap;
use std::future::Future;
use std::io::Write;
use std::pin::Pin;
use std::sync::Arc;
use std::task::Poll;
use tokio::sched;

struct Task {
    fut: Option<Pin<Box<dyn Future<Output = String>>>>,
    background: bool,
    /// the node the append executes on (from the `leases-refreshed` event)
    exec: Option<u64>,
}

struct World {
    nodes: Vec<Arc<NodeController>>,
    tasks: BTreeMap<u64, Task>,
    topics: Vec<String>,
}

fn addr_of(node: u64) -> String {
    format!("127.0.0.1:{}", 6000 + node)
}

fn step(w: &mut World, tid: u64) -> String {
    let Some(t) = w.tasks.get_mut(&tid) else { return "no-such-task".into() };
    let Some(f) = t.fut.as_mut() else { return "finished".into() };
    sched::take_events();
    sched::take_blocked();
    match sched::poll_once(f.as_mut()) {
        Poll::Ready(out) => {
            t.fut = None;
            let _ = sched::take_events();
            format!("done {}", out)
        }
        Poll::Pending => {
            if sched::take_blocked().is_some() {
                "blocked".into()
            } else {
                let ev = sched::take_events();
                match ev.last() {
                    Some((l, d)) => {
                        if l == "leases-refreshed" {
                            t.exec = d.rsplit_once(" n").and_then(|(_, n)| n.parse().ok());
                        }
                        let mut line = format!("{} {}", l, d).trim_end().to_string();
                        if l == "written" {
                            // ghost information for the C23 oracle: what the executing node's applied metadata says about the topic
                            if let (Some(e), Some((topic, _))) = (t.exec, controller::parse_wal_key(d)) {
                                if let Some(st) = w.nodes[e as usize - 1].metadata.get_topic_state(&topic) {
                                    line = format!("{} e={} open={}@{}", line, e, st.current_segment, st.leader_node);
                                }
                            }
                        }
                        format!("yield {}", line)
                    }
                    None => "yield ?".into(),
                }
            }
        }
    }
}

fn apply_all(n: usize) {
    for i in 1..=n as u64 {
        while octopii::apply_next(i).is_some() {}
    }
}

fn dump(w: &World) -> String {
    let mut parts = Vec::new();
    for c in &w.nodes {
        let offs: BTreeMap<String, u64> = sched::run_atomic(async { c.offsets.read().await.iter().map(|(k, v)| (k.clone(), *v)).collect() });
        let curs: BTreeMap<String, (u64, u64)> = if let Some(g) = try_cursors(c) { g } else { BTreeMap::new() };
        let mut topics = Vec::new();
        for t in &w.topics {
            if let Some(st) = c.metadata.get_topic_state(t) {
                let mut sealed: Vec<(u64, u64)> = (1..st.current_segment).map(|s| (s, c.metadata.sealed_count(t, s).unwrap_or(0))).collect();
                sealed.sort();
                topics.push(format!(
                    "{}:{}@{}[{}]",
                    t,
                    st.current_segment,
                    st.leader_node,
                    sealed.iter().map(|(s, n)| format!("{}={}", s, n)).collect::<Vec<_>>().join(",")
                ));
            }
        }
        parts.push(format!(
            "n{} applied={} topics={} offsets={} cursors={}",
            c.node_id,
            octopii::applied_index(c.node_id),
            topics.join(";"),
            offs.iter().map(|(k, v)| format!("{}={}", k, v)).collect::<Vec<_>>().join(","),
            curs.iter().map(|(k, v)| format!("{}:{}:{}", k, v.0, v.1)).collect::<Vec<_>>().join(",")
        ));
    }
    parts.join(" | ")
}

fn try_cursors(c: &Arc<NodeController>) -> Option<BTreeMap<String, (u64, u64)>> {
    if c.read_cursors.is_locked() {
        return None; // a GET of this node is in flight: its cursor is not observable
    }
    Some(sched::run_atomic(async { c.read_cursors.lock().await.iter().map(|(k, v)| (k.clone(), (v.segment, v.delivered_in_segment))).collect() }))
}

fn main() {
    let args: Vec<String> = std::env::args().collect();
    let datadir = std::path::PathBuf::from(&args[1]);
    let prog = std::fs::read_to_string(&args[2]).unwrap();
    let mut out = std::fs::File::create(&args[3]).unwrap();
    std::env::set_var("WALRUS_QUIET", "1");
    std::panic::set_hook(Box::new(|_| {}));
    let mut w = World { nodes: Vec::new(), tasks: BTreeMap::new(), topics: Vec::new() };
    for line in prog.lines() {
        let t: Vec<&str> = line.split_whitespace().collect();
        if t.is_empty() {
            continue;
        }
        let r = std::panic::catch_unwind(std::panic::AssertUnwindSafe(|| -> String {
            match t[0] {
                "init" => {
                    let n: u64 = t[1].parse().unwrap();
                    std::env::set_var("WALRUS_MAX_SEGMENT_ENTRIES", t[2]);
                    octopii::cluster_reset();
                    for i in 1..=n {
                        let bucket = Arc::new(sched::run_atomic(bucket::Storage::new(datadir.join(format!("node{}", i)))).unwrap());
                        let metadata = Arc::new(Metadata::new());
                        let raft = Arc::new(octopii::OctopiiNode::new_standin(i, metadata.clone()));
                        let c = Arc::new(NodeController {
                            node_id: i,
                            bucket,
                            metadata,
                            raft,
                            offsets: Arc::new(tokio::sync::RwLock::new(std::collections::HashMap::new())),
                            read_cursors: Arc::new(tokio::sync::Mutex::new(std::collections::HashMap::new())),
                            test_fail_forward_read: std::sync::atomic::AtomicBool::new(false),
                            test_fail_monitor: std::sync::atomic::AtomicBool::new(false),
                            test_fail_dir_size: std::sync::atomic::AtomicBool::new(false),
                        });
                        // the custom RPC handler of distributed-walrus/src/main.rs:170-199, restated
                        let controller_rpc = c.clone();
                        octopii::register_handler(
                            addr_of(i).parse().unwrap(),
                            Arc::new(move |req: octopii::rpc::Request| {
                                let controller_rpc = controller_rpc.clone();
                                Box::pin(async move {
                                    let RequestPayload::Custom { operation, data } = req.payload;
                                    if operation == "Forward" {
                                        match bincode::deserialize::<InternalOp>(&data) {
                                            Ok(op) => {
                                                let resp = controller_rpc.handle_rpc(op).await;
                                                let success = !matches!(resp, InternalResp::Error(_));
                                                let bytes = bincode::serialize(&resp).unwrap_or_default();
                                                return ResponsePayload::CustomResponse { success, data: bytes.into() };
                                            }
                                            Err(e) => return ResponsePayload::Error { message: format!("decode error: {e}") },
                                        }
                                    }
                                    ResponsePayload::Error { message: "unsupported request".into() }
                                }) as Pin<Box<dyn Future<Output = ResponsePayload>>>
                            }),
                        );
                        w.nodes.push(c);
                    }
                    for i in 1..=n {
                        octopii::log_push(bincode::serialize(&MetadataCmd::UpsertNode { node_id: i, addr: addr_of(i) }).unwrap());
                    }
                    apply_all(w.nodes.len());
                    "ok".into()
                }
                "topic" => {
                    octopii::log_push(bincode::serialize(&MetadataCmd::CreateTopic { name: t[1].to_string(), initial_leader: t[2].parse().unwrap() }).unwrap());
                    apply_all(w.nodes.len());
                    w.topics.push(t[1].to_string());
                    "ok".into()
                }
                "spawn" => {
                    let tid: u64 = t[1].parse().unwrap();
                    let node: usize = t[3].parse().unwrap();
                    let Some(c) = w.nodes.get(node.wrapping_sub(1)).cloned() else { return "bad-node".into() };
                    let (fut, background): (Pin<Box<dyn Future<Output = String>>>, bool) = match t[2] {
                        "put" => {
                            let topic = t[4].to_string();
                            let data = t[5].as_bytes().to_vec();
                            (
                                Box::pin(async move {
                                    match c.append_for_topic(&topic, data).await {
                                        Ok(()) => "OK".to_string(),
                                        Err(e) => format!("ERR {}", e),
                                    }
                                }),
                                false,
                            )
                        }
                        "get" => {
                            let topic = t[4].to_string();
                            (
                                Box::pin(async move {
                                    match c.read_one_for_topic_shared(&topic).await {
                                        Ok(Some(d)) => format!("VAL {}", String::from_utf8_lossy(&d)),
                                        Ok(None) => "EMPTY".to_string(),
                                        Err(e) => format!("ERR {}", e),
                                    }
                                }),
                                false,
                            )
                        }
                        "monitor" => (
                            Box::pin(async move {
                                monitor::Monitor::new(c, config::NodeConfig).run().await;
                                "monitor-exit".to_string()
                            }),
                            true,
                        ),
                        _ => return "bad-op".into(),
                    };
                    w.tasks.insert(tid, Task { fut: Some(fut), background, exec: None });
                    "ok".into()
                }
                "step" => step(&mut w, t[1].parse().unwrap()),
                "apply" => match octopii::apply_next(t[1].parse().unwrap()) {
                    Some(i) => format!("applied {}", i),
                    None => "none".into(),
                },
                "sync" => {
                    let node: usize = t[1].parse().unwrap();
                    let c = w.nodes[node - 1].clone();
                    sched::run_atomic(c.update_leases());
                    "ok".into()
                }
                "drain" => {
                    // rounds of: every node applies everything, then every unfinished foreground task takes one step
                    let mut res = Vec::new();
                    for _round in 0..400 {
                        apply_all(w.nodes.len());
                        let tids: Vec<u64> = w.tasks.iter().filter(|(_, t)| t.fut.is_some() && !t.background).map(|(k, _)| *k).collect();
                        if tids.is_empty() {
                            break;
                        }
                        let mut progress = false;
                        for tid in tids {
                            let r = step(&mut w, tid);
                            if r != "blocked" {
                                progress = true;
                            }
                            res.push(format!("t{} {}", tid, r));
                        }
                        if !progress {
                            break;
                        }
                    }
                    apply_all(w.nodes.len());
                    res.join(" | ")
                }
                "dump" => dump(&w),
                _ => "bad-op".into(),
            }
        }));
        writeln!(out, "{}", r.unwrap_or_else(|_| "panic".into())).unwrap();
    }
    out.flush().unwrap();
    drop(out);
    unsafe { libc_exit() };
}

unsafe fn libc_exit() -> ! {
    std::process::exit(0)
}
