#!/usr/bin/env python3
"""Translator: re-reads /repo's Rust sources and regenerates lean/WalrusVerif/Gen/Consts.lean.

Values only (constants, literal thresholds, character classes, format strings); control flow is
tied by the correspondence harness.  Every extraction is mandatory: a fact that cannot be found,
or is found more than once, aborts with exit status 2 (tie broken).
stdlib only."""
import json
import os
import re
import sys

REPO = os.environ.get("VERIF_REPO", "/repo")
HERE = os.path.dirname(os.path.abspath(__file__))
OUT_LEAN = os.path.join(HERE, "..", "lean", "WalrusVerif", "Gen", "Consts.lean")
OUT_FACTS = os.path.join(HERE, "facts.json")

facts = {}
errors = []


def src(rel):
    with open(os.path.join(REPO, rel), encoding="utf-8") as f:
        return f.read()


def lineno(text, pos):
    return text.count("\n", 0, pos) + 1


def eval_int(expr):
    e = expr.strip()
    e = re.sub(r"//.*", "", e)
    e = re.sub(r"(?<=[0-9a-fA-Fx_])(u64|usize|u32|u128|i64)\b", "", e)
    e = re.sub(r"\bas\s+(u64|usize|u32)\b", "", e)
    e = e.replace("_", "")
    if not re.fullmatch(r"[0-9xXa-fA-F\s\*\+\-\(\)<]+", e):
        raise ValueError("not a constant integer expression: %r" % expr)
    return int(eval(e, {"__builtins__": {}}, {}))


def one(rel, pattern, name, conv=eval_int, flags=re.M, group=1, cfg=None):
    """Find exactly one match of `pattern` in file `rel` (optionally: whose preceding line is `cfg`)."""
    text = src(rel)
    ms = list(re.finditer(pattern, text, flags))
    if cfg is not None:
        keep = []
        for m in ms:
            start = text.rfind("\n", 0, m.start())
            prev = text[text.rfind("\n", 0, start) + 1:start].strip() if start > 0 else ""
            if prev == cfg:
                keep.append(m)
        ms = keep
    if len(ms) != 1:
        errors.append("%s: expected exactly one match for %s (%s), found %d" % (rel, name, pattern, len(ms)))
        return None
    m = ms[0]
    try:
        val = conv(m.group(group))
    except Exception as ex:  # noqa
        errors.append("%s: cannot convert %s: %s" % (rel, name, ex))
        return None
    facts[name] = {"value": val, "file": rel, "line": lineno(text, m.start())}
    return val


def geom(name, ty):
    pat = r"^pub(?:\(crate\))? const %s: %s = ([^;]+);" % (name, ty)
    text = src("src/wal/config.rs")
    n = len(re.findall(pat, text, re.M))
    if n == 1:
        v = one("src/wal/config.rs", pat, name)
        facts[name + "_SMALL"] = dict(facts[name]) if v is not None else None
        return v, v
    real = one("src/wal/config.rs", pat, name, cfg="#[cfg(not(walrus_verif_small))]")
    text = src("src/wal/config.rs")
    small = None
    ms = []
    for m in re.finditer(pat, text, re.M):
        start = text.rfind("\n", 0, m.start())
        prev = text[text.rfind("\n", 0, start) + 1:start].strip()
        if prev == "#[cfg(walrus_verif_small)]":
            ms.append(m)
    if len(ms) != 1:
        errors.append("config.rs: expected one small-geometry %s, found %d" % (name, len(ms)))
    else:
        small = eval_int(ms[0].group(1))
        facts[name + "_SMALL"] = {"value": small, "file": "src/wal/config.rs", "line": lineno(text, ms[0].start())}
    return real, small


def rust_char(lit):
    lit = lit.strip()
    m = re.fullmatch(r"'(.)'", lit)
    if not m:
        raise ValueError("unsupported char literal %r" % lit)
    return m.group(1)


def main():
    G = {}
    for name, ty in [("DEFAULT_BLOCK_SIZE", "u64"), ("BLOCKS_PER_FILE", "u64"), ("MAX_ALLOC", "u64"),
                     ("MAX_BATCH_ENTRIES", "usize"), ("MAX_BATCH_BYTES", "u64")]:
        G[name] = geom(name, ty)
    meta = one("src/wal/config.rs", r"^pub const PREFIX_META_SIZE: usize = ([^;]+);", "PREFIX_META_SIZE")
    one("src/wal/config.rs", r"^pub\(crate\) const MAX_FILE_SIZE: u64 = (DEFAULT_BLOCK_SIZE \* BLOCKS_PER_FILE);",
        "MAX_FILE_SIZE_EXPR", conv=str)
    fnv_off = one("src/wal/config.rs", r"const FNV_OFFSET: u64 = ([^;]+);", "FNV_OFFSET")
    fnv_prime = one("src/wal/config.rs", r"const FNV_PRIME: u64 = ([^;]+);", "FNV_PRIME")
    # checksum loop shape: xor then wrapping_mul
    one("src/wal/config.rs", r"(hash \^= b as u64;\s*hash = hash\.wrapping_mul\(FNV_PRIME\);)", "FNV_STEP_SHAPE", conv=lambda s: "xor-then-mul")

    # sanitize_namespace: character class, replacement, fallback, excluded names
    san = one("src/wal/config.rs",
              r"if c\.is_ascii_alphanumeric\(\) \|\| matches!\(c, ([^)]*)\) \{\s*c\s*\} else \{\s*('.')\s*\}",
              "SANITIZE_EXTRA", conv=lambda s: [rust_char(x) for x in s.split("|")])
    repl = one("src/wal/config.rs",
               r"if c\.is_ascii_alphanumeric\(\) \|\| matches!\(c, [^)]*\) \{\s*c\s*\} else \{\s*('.')\s*\}",
               "SANITIZE_REPLACEMENT", conv=rust_char)
    fb = one("src/wal/config.rs",
             r"if sanitized\.trim_matches\(('.')\)\.is_empty\(\)((?: \|\| sanitized == \"[^\"]*\")*) \{\s*sanitized = format!\(\"([a-z_]*)\{:x\}\", checksum64\(key\.as_bytes\(\)\)\);",
             "SANITIZE_FALLBACK_COND", conv=str, group=0)
    trimc, excl, prefix = None, [], None
    if fb is not None:
        m = re.search(r"trim_matches\(('.')\)\.is_empty\(\)((?: \|\| sanitized == \"[^\"]*\")*) \{\s*sanitized = format!\(\"([a-z_]*)\{:x\}\"", fb)
        trimc = rust_char(m.group(1))
        excl = re.findall(r"sanitized == \"([^\"]*)\"", m.group(2))
        prefix = m.group(3)
        facts["SANITIZE_TRIM_CHAR"] = {"value": trimc}
        facts["SANITIZE_EXCLUDED"] = {"value": excl}
        facts["SANITIZE_FALLBACK_PREFIX"] = {"value": prefix}
    # every constructor path pushes sanitize_namespace(key) and nothing else
    ptext = src("src/wal/paths.rs")
    pushes = re.findall(r"root\.push\(([^;]*)\);", ptext)
    facts["PATH_PUSHES"] = {"value": pushes, "file": "src/wal/paths.rs"}
    if not pushes or any(not re.fullmatch(r"sanitize_namespace\(&?key\)", p) for p in pushes):
        errors.append("paths.rs: a root.push(...) does not go through sanitize_namespace: %r" % pushes)
    idx_suffix = one("src/wal/paths.rs", r"self\.root\.join\(format!\(\"\{\}([a-z_.]+)\", file_name\)\)", "INDEX_SUFFIX", conv=str)
    one("src/wal/runtime/walrus.rs", r"if s\.ends_with\(\"([a-z_.]+)\"\) \{\s*continue;", "RECOVERY_SKIP_SUFFIX", conv=str)

    # reader thresholds
    tails = set(re.findall(r"const TAIL_FLAG: u64 = ([^;]+);", src("src/wal/runtime/walrus_read.rs") + src("src/wal/runtime/walrus.rs")))
    if len(tails) != 1:
        errors.append("TAIL_FLAG: expected one distinct definition, found %r" % tails)
        tail_flag = None
    else:
        tail_flag = eval_int(tails.pop())
        facts["TAIL_FLAG"] = {"value": tail_flag}
    peek = one("src/wal/runtime/walrus_read.rs", r"if size1 < (\d+) \{", "PEEK_SMALL")
    skips = set(re.findall(r"if rem == 0 && data_size < (\d+) \{", src("src/wal/runtime/walrus_read.rs")))
    if len(skips) != 1:
        errors.append("stateless small-entry skip threshold: expected one distinct value, found %r" % skips)
        skip_small = None
    else:
        skip_small = int(skips.pop())
        facts["SKIP_SMALL"] = {"value": skip_small}
    reclaim = one("src/wal/runtime/background.rs", r"if n >= (\d+) \{", "RECLAIM_TICKS")

    # distributed layer
    frame = one("distributed-walrus/src/client.rs", r"^const MAX_FRAME_LEN: usize = ([^;]+);", "MAX_FRAME_LEN")
    keyfmt = one("distributed-walrus/src/controller/types.rs", r"format!\(\"([^\"]*)\", topic, segment\)", "WAL_KEY_FORMAT", conv=str)
    keysep = one("distributed-walrus/src/controller/types.rs", r"wal_key\.rsplitn\(2, \"([^\"]*)\"\)", "WAL_KEY_SEP", conv=str)
    keypre = one("distributed-walrus/src/controller/types.rs", r"strip_prefix\(\"([^\"]*)\"\)\?", "WAL_KEY_PREFIX", conv=str)

    # Raft state-machine adapter (octopii/src/openraft/storage.rs): what build_snapshot serialises
    st = src("octopii/src/openraft/storage.rs")
    own_map = len(re.findall(r"let data = bincode::serialize\(&state_machine\.data\)", st)) == 1
    calls_app_snapshot = len(re.findall(r"\.sm\s*\.snapshot\(\)|self\.sm\.snapshot\(\)", st)) > 0
    data_writes = len(re.findall(r"\.data\.insert\(|sm\.data\s*=[^=]|state_machine\.data\s*=[^=]", st))
    restores_reencoded = len(re.findall(r"let snapshot_bytes = bincode::serialize\(&updated_state_machine_data\)", st)) == 1 and \
        len(re.findall(r"\.restore\(&snapshot_bytes\)", st)) == 1
    facts["ADAPTER_SNAPSHOTS_OWN_MAP"] = {"value": bool(own_map and not calls_app_snapshot and data_writes == 0), "file": "octopii/src/openraft/storage.rs",
                                          "detail": {"serialises_state_machine_data": own_map, "calls_sm_snapshot": calls_app_snapshot, "writes_to_data": data_writes}}
    facts["ADAPTER_RESTORES_REENCODED_MAP"] = {"value": bool(restores_reencoded), "file": "octopii/src/openraft/storage.rs"}

    if errors:
        for e in errors:
            print("TRANSLATOR-ERROR: " + e)
        with open(OUT_FACTS, "w") as f:
            json.dump({"errors": errors, "facts": facts}, f, indent=1, sort_keys=True)
        return 2

    def lean_char(c):
        return "Char.ofNat %d" % ord(c)

    def lean_str(s):
        return json.dumps(s)

    L = []
    L.append("-- GENERATED by /verif/translator/extract.py from /repo's working tree. Do not edit.")
    L.append("namespace WalrusVerif.Consts")
    L.append("")
    for name in ["DEFAULT_BLOCK_SIZE", "BLOCKS_PER_FILE", "MAX_ALLOC", "MAX_BATCH_ENTRIES", "MAX_BATCH_BYTES"]:
        L.append("def %s : Nat := %d" % (name, G[name][0]))
        L.append("def %s_SMALL : Nat := %d" % (name, G[name][1]))
    L.append("def PREFIX_META_SIZE : Nat := %d" % meta)
    L.append("def FNV_OFFSET : Nat := %d" % fnv_off)
    L.append("def FNV_PRIME : Nat := %d" % fnv_prime)
    L.append("def TAIL_FLAG : Nat := %d" % tail_flag)
    L.append("def PEEK_SMALL : Nat := %d" % peek)
    L.append("def SKIP_SMALL : Nat := %d" % skip_small)
    L.append("def RECLAIM_TICKS : Nat := %d" % reclaim)
    L.append("def MAX_FRAME_LEN : Nat := %d" % frame)
    L.append("def SANITIZE_EXTRA : List Char := [%s]" % ", ".join(lean_char(c) for c in san))
    L.append("def SANITIZE_REPLACEMENT : Char := %s" % lean_char(repl))
    L.append("def SANITIZE_TRIM_CHAR : Char := %s" % lean_char(trimc))
    L.append("def SANITIZE_EXCLUDED : List (List Char) := [%s]" % ", ".join("[%s]" % ", ".join(lean_char(c) for c in e) for e in excl))
    L.append("def SANITIZE_FALLBACK_PREFIX : List Char := [%s]" % ", ".join(lean_char(c) for c in prefix))
    L.append("def INDEX_SUFFIX : String := %s" % lean_str(idx_suffix))
    L.append("def ADAPTER_SNAPSHOTS_OWN_MAP : Bool := %s" % ("true" if facts["ADAPTER_SNAPSHOTS_OWN_MAP"]["value"] else "false"))
    L.append("def ADAPTER_RESTORES_REENCODED_MAP : Bool := %s" % ("true" if facts["ADAPTER_RESTORES_REENCODED_MAP"]["value"] else "false"))
    # wal_key format "t_{}_s_{}" -> prefix, separator
    m = re.fullmatch(r"([^{}]*)\{\}([^{}]*)\{\}", keyfmt)
    if not m:
        print("TRANSLATOR-ERROR: wal_key format %r is not <prefix>{}<sep>{}" % keyfmt)
        return 2
    L.append("def WAL_KEY_FMT_PREFIX : List Char := [%s]" % ", ".join(lean_char(c) for c in m.group(1)))
    L.append("def WAL_KEY_FMT_SEP : List Char := [%s]" % ", ".join(lean_char(c) for c in m.group(2)))
    L.append("def WAL_KEY_PARSE_SEP : List Char := [%s]" % ", ".join(lean_char(c) for c in keysep))
    L.append("def WAL_KEY_PARSE_PREFIX : List Char := [%s]" % ", ".join(lean_char(c) for c in keypre))
    L.append("")
    L.append("end WalrusVerif.Consts")
    text = "\n".join(L) + "\n"
    os.makedirs(os.path.dirname(OUT_LEAN), exist_ok=True)
    old = None
    if os.path.exists(OUT_LEAN):
        with open(OUT_LEAN) as f:
            old = f.read()
    if old != text:  # keep mtime stable when nothing changed (incremental lake build)
        with open(OUT_LEAN, "w") as f:
            f.write(text)
    with open(OUT_FACTS, "w") as f:
        json.dump({"errors": [], "facts": facts}, f, indent=1, sort_keys=True)
    print("translator: %d facts extracted%s" % (len(facts), "" if old == text else " (Consts.lean rewritten)"))
    return 0


if __name__ == "__main__":
    sys.exit(main())
