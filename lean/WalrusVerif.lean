import WalrusVerif.Gen.Consts
import WalrusVerif.Model.Fnv
import WalrusVerif.Model.Sanitize
