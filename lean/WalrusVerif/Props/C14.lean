import WalrusVerif.Lemmas.SanitizeLemmas
/-!
# C14 — a namespace key always maps to a private directory inside the data dir

Statement (properties.jsonl): for every namespace key, through any constructor or the builder,
all files of the instance are created in a directory strictly inside the configured data
directory; that directory is neither the data directory itself nor any location outside it.

Model: `Sanitize.sanitize` (character class, fallback and exclusions regenerated from
`src/wal/config.rs` by the translator) and `Sanitize.instanceDir root key`
= lexical resolution of `root.push(sanitize_namespace(key))`.  Paths are component lists; the
data dir `root` is arbitrary (it may itself contain `.`/`..`/empty components).
Only property theorems in this file.
-/
namespace WalrusVerif.Props.C14
open WalrusVerif WalrusVerif.Sanitize

/-- The directory component is non-empty, has no `/` and no NUL, and is neither `.` nor `..` —
for **every** key string. -/
theorem C14_component_safe (key : List Char) :
    sanitize key ≠ [] ∧ (∀ c ∈ sanitize key, c ≠ '/' ∧ c ≠ Char.ofNat 0) ∧
      sanitize key ≠ ['.'] ∧ sanitize key ≠ ['.', '.'] :=
  sanitize_ok key

/-- C14: the instance directory is the (resolved) data dir extended by exactly one proper
component: strictly inside the data dir, never the data dir itself, never outside. -/
theorem C14 (root : List (List Char)) (key : List Char) :
    instanceDir root key = resolve root ++ [sanitize key] := by
  obtain ⟨h0, hc, h1, h2⟩ := sanitize_ok key
  have hns : ∀ c ∈ sanitize key, c ≠ '/' := fun c h => (hc c h).1
  unfold instanceDir push
  split
  · rename_i rest heq
    exact absurd rfl (hns '/' (by rw [heq]; simp))
  · rw [splitSlash_noslash _ hns]
    exact resolve_append_single root _ h0 h1 h2

/-- Corollaries in the wording of the property. -/
theorem C14_strictly_inside (root : List (List Char)) (key : List Char) :
    resolve root <+: instanceDir root key ∧ instanceDir root key ≠ resolve root ∧
      (instanceDir root key).length = (resolve root).length + 1 := by
  rw [C14]
  refine ⟨List.prefix_append _ _, ?_, by simp⟩
  intro h
  have := congrArg List.length h
  simp at this

/-- Distinct sanitized keys give distinct directories (used by C13's isolation premise). -/
theorem C14_distinct (root : List (List Char)) (k₁ k₂ : List Char)
    (h : sanitize k₁ ≠ sanitize k₂) : instanceDir root k₁ ≠ instanceDir root k₂ := by
  rw [C14, C14]
  intro e
  exact h (by simpa using e)

/-! Non-vacuity / regression witnesses (evaluated by the kernel on the model). -/
example : sanitize ['.', '.'] ≠ ['.', '.'] := (C14_component_safe _).2.2.2
example : (sanitize ['.', '.']).take 3 = ['n', 's', '_'] := by decide
example : sanitize ['a', '/', 'b'] = ['a', '_', 'b'] := by decide
example : instanceDir [['d'], ['.', '.'], ['w']] ['x', ' ', 'y'] = [['w'], ['x', '_', 'y']] := by decide

end WalrusVerif.Props.C14
