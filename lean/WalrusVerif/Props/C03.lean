import WalrusVerif.Lemmas.ParseLemmas
import WalrusVerif.Model.Engine
import WalrusVerif.Lemmas.AEngProgress
import WalrusVerif.Lemmas.AEngStep
/-!
# C03 — batch reads honour the entry cap and byte budget and always make progress

Statement: every batch read returns at most 2000 entries.  Their total payload never exceeds the
byte budget unless the read returns exactly one entry.  Whenever the topic holds an entry that the
caller's cursor has not yet consumed, the read returns at least one entry.

Model: `Eng.batchRead` (`walrus_read.rs::batch_read_for_topic`, cursor-based and offset-addressed).
`C03_cap` and `C03_budget` are proved for **every** state, disk content, budget, flag and start
offset (no invariant needed: they are properties of the parser for any plan), on the storage-level
model `Eng`.  The progress clause `C03_progress` is proved on the entry-level model `AEng` for every
reachable state (the engine invariant `TInv`), every budget (including 0) and every cursor
position; `C03_progress_history` restates it over histories.
-/
namespace WalrusVerif.Props.C03
open WalrusVerif WalrusVerif.Eng

/-- The result of a batch read is a list of entries obeying cap and budget — any state, any args. -/
theorem C03_batchRead (c : Cfg) (p : Proc) (i : Inst) (t : Topic) (maxB : Nat) (cp : Bool)
    (start : Option Nat) :
    ∃ es, (Eng.batchRead c p i t maxB cp start).2.2 = .entries es ∧
      es.length ≤ c.cap ∧ (sumReturned es ≤ maxB ∨ es.length ≤ 1) := by
  unfold batchRead
  cases start with
  | none =>
    simp only
    split
    · exact ⟨[], rfl, by simp, Or.inr (by simp)⟩
    · exact ⟨_, rfl, parsePlan_result c _ maxB 0 _⟩
  | some req =>
    simp only
    split
    · exact ⟨[], rfl, by simp, Or.inr (by simp)⟩
    · exact ⟨_, rfl, parsePlan_result c _ maxB _ _⟩

/-- Every output of a `bread` operation in **any** program (any history before it, restarts,
rejected operations, both modes) obeys cap and budget. -/
theorem C03_run (c : Cfg) (p : Proc) (ops : List Op) (k : Nat) (t : Topic) (maxB : Nat) (cp : Bool)
    (start : Option Nat) (h : ops[k]? = some (.bread t maxB cp start)) :
    ∃ o, (runFrom c p ops)[k]? = some o ∧
      (o = .err .closed ∨ ∃ es, o = .entries es ∧ es.length ≤ c.cap ∧ (sumReturned es ≤ maxB ∨ es.length ≤ 1)) := by
  induction ops generalizing p k with
  | nil => simp at h
  | cons op rest ih =>
    cases k with
    | zero =>
      simp only [List.getElem?_cons_zero, Option.some.injEq] at h
      subst h
      refine ⟨(step c p (.bread t maxB cp start)).2, by simp [runFrom], ?_⟩
      simp only [step, withInst]
      cases p.inst with
      | none => exact Or.inl rfl
      | some i =>
        right
        obtain ⟨es, he, hb⟩ := C03_batchRead c p i t maxB cp start
        exact ⟨es, by simpa using he, hb⟩
    | succ k =>
      simp only [List.getElem?_cons_succ] at h
      obtain ⟨o, ho, hp⟩ := ih (step c p op).1 k h
      exact ⟨o, by simpa [runFrom] using ho, hp⟩

/-- C03, first clause, with the literal of the statement: production geometry ⇒ at most 2000. -/
theorem C03_cap (p : Proc) (i : Inst) (t : Topic) (maxB : Nat) (cp : Bool) (start : Option Nat) :
    ∃ es, (batchRead realCfg p i t maxB cp start).2.2 = .entries es ∧ es.length ≤ 2000 := by
  obtain ⟨es, he, hc, _⟩ := C03_batchRead realCfg p i t maxB cp start
  have : realCfg.cap = 2000 := by decide
  exact ⟨es, he, by omega⟩

/-- C03, second clause: total payload ≤ budget unless exactly one entry is returned. -/
theorem C03_budget (c : Cfg) (p : Proc) (i : Inst) (t : Topic) (maxB : Nat) (cp : Bool)
    (start : Option Nat) :
    ∃ es, (batchRead c p i t maxB cp start).2.2 = .entries es ∧
      (sumReturned es ≤ maxB ∨ es.length = 1) := by
  obtain ⟨es, he, _, hb⟩ := C03_batchRead c p i t maxB cp start
  refine ⟨es, he, ?_⟩
  rcases hb with hb | hb
  · exact Or.inl hb
  · match es, hb with
    | [], _ => left; simp [sumReturned]
    | [_], _ => right; rfl

/-- **C03, third clause.** In every reachable state of a topic (`TInv`), with any byte budget and
either flag: if an entry is unconsumed, the cursor batch read returns at least one entry. -/
theorem C03_progress (c : Cfg) (hc : AEng.CfgOK c) (n : Nat) (a : AEng.ATopic) (k : Nat) (h : AEng.TInv c n a k)
    (maxB : Nat) (cp : Bool) (hne : k < (AEng.log a).length) : 1 ≤ (AEng.batchRead c a maxB cp).2.length :=
  AEng.batchRead_progress c hc.meta_pos hc.cap_pos n a k h maxB cp _ (List.getElem?_eq_getElem hne)

/-- … and over histories: the specification every history satisfies (`C01_refines`) demands a
non-empty result whenever the topic has pending entries (`accepts`, clause for `bread`). -/
theorem C03_progress_history (c : Cfg) (hc : AEng.CfgOK c) (ops : List AEng.AOp)
    (hl : ∀ op ∈ ops, op.WithinLimits c) :
    AEng.accepts AEng.Spec.init (ops.zip (AEng.run c ops)) :=
  AEng.runFrom_accepts c hc ops {} (fun _ => 0) (AEng.sinv_init c) hl |> fun h => by
    have e : AEng.specOf {} (fun _ => 0) = AEng.Spec.init := by unfold AEng.specOf AEng.Spec.init; congr 1
    rw [e] at h; exact h

/-! Non-vacuity: a concrete run in the small geometry that rotates a block and hits the cap (5). -/
def demoOps : List Op :=
  [.open_ .strict,
   .batch ⟨0, false⟩ [⟨3000, 1⟩, ⟨100, 2⟩, ⟨0, 0⟩, ⟨700, 3⟩, ⟨1, 4⟩],
   .batch ⟨0, false⟩ [⟨5, 5⟩, ⟨5, 6⟩, ⟨5, 7⟩],
   .bread ⟨0, false⟩ 50 true none,
   .bread ⟨0, false⟩ (2 ^ 64 - 1) true none,
   .bread ⟨0, false⟩ 0 true none]

example : (run smallCfg demoOps).drop 3 =
    [.entries [(⟨3000, 1⟩, 0)],
     .entries [(⟨100, 2⟩, 0), (⟨0, 0⟩, 0), (⟨700, 3⟩, 0), (⟨1, 4⟩, 0), (⟨5, 5⟩, 0)],
     .entries [(⟨5, 6⟩, 0)]] := by decide

end WalrusVerif.Props.C03
