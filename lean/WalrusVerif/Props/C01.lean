import WalrusVerif.Lemmas.AEngStep
/-!
# C01 — consuming reads deliver every appended entry once, in order, byte-identical

Statement: for any sequence of single and batch appends (any payload sizes up to the advertised
limits, including empty payloads and payloads that force block rotation) and consuming reads
(`read_next` or `batch_read_for_topic` with checkpoint=true and any byte budget) on any set of
topics, the entries returned for a topic are exactly the successfully appended entries of that
topic, in append order, each returned once and byte-identical.  No appended entry is ever skipped:
a consuming read comes back empty only when every appended entry of that topic has already been
returned.

Model: `AEng` (Model/AEng.lean) — `write`, `batch_write`, `append_block_to_chain`, `read_next`,
`batch_read_for_topic` (planner with single/double peek and raw-byte budget, parser with cap,
payload budget, incomplete entries, commit) at the level of entries in blocks, any number of
topics, any geometry satisfying `CfgOK`.  Payloads are opaque values that the model returns or
not (byte-identity = the same value comes back).  The specification is `accepts`
(Spec/Queue.lean): a per-topic FIFO with a consumed index.

`C01_refines` is the full statement for one process lifetime (no restart: that is C06) and
sequential callers (concurrency is C05).  Operations that the engine rejects (too many entries,
over the byte limit, topic name too long for the header, empty batch) are inside the quantifier;
the only operations outside it are appends of a single entry larger than `MAX_ALLOC` (1 GiB),
where the code seals the active block before failing (finding `sealThenAllocFail`, repaired since: such an entry is now rejected before any state changes).
-/
namespace WalrusVerif.Props.C01
open WalrusVerif WalrusVerif.Eng WalrusVerif.AEng

/-- both geometries the correspondence runs use satisfy the configuration hypotheses -/
theorem realCfg_ok : CfgOK realCfg := ⟨by decide, by decide, by decide, by decide⟩
theorem smallCfg_ok : CfgOK smallCfg := ⟨by decide, by decide, by decide, by decide⟩

/-- **C01.** Every history of appends, batch appends, consuming reads, peeks, offset reads and
counts, over any number of topics, of any length, is a history of the FIFO specification. -/
theorem C01_refines (c : Cfg) (hc : CfgOK c) (ops : List AOp) (hl : ∀ op ∈ ops, op.WithinLimits c) :
    accepts Spec.init (ops.zip (run c ops)) := by
  have h := runFrom_accepts c hc ops {} (fun _ => 0) (sinv_init c) hl
  have e : specOf {} (fun _ => 0) = Spec.init := by
    unfold specOf Spec.init
    congr 1
  rw [e] at h
  exact h

/-- the production geometry, with the literal constants of `config.rs` -/
theorem C01_production (ops : List AOp) (hl : ∀ op ∈ ops, op.WithinLimits realCfg) :
    accepts Spec.init (ops.zip (run realCfg ops)) := C01_refines realCfg realCfg_ok ops hl

/-- `read_next` in any reachable state returns the oldest unconsumed entry, `none` exactly when
everything is consumed -/
theorem C01_next_is_oldest_unconsumed (c : Cfg) (hc : CfgOK c) (n : Nat) (a : ATopic) (k : Nat) (h : TInv c n a k)
    (cp : Bool) : (readNext c a cp).2 = (log a)[k]? ∧ ((readNext c a cp).2 = none ↔ k = (log a).length) := by
  have := readNext_spec c hc.meta_pos cp n a k h
  refine ⟨this.1, ?_⟩
  rw [this.1]
  constructor
  · intro hn
    have := h.k_le
    rcases Nat.lt_or_ge k (log a).length with h1 | h1
    · rw [List.getElem?_eq_getElem h1] at hn; cases hn
    · omega
  · intro he; rw [he]; simp

/-- a batch read in any reachable state returns a prefix of the unconsumed entries, untrimmed and
in order, and it is empty only if nothing is unconsumed (this is also C03's progress clause) -/
theorem C01_batch_is_prefix (c : Cfg) (hc : CfgOK c) (n : Nat) (a : ATopic) (k : Nat) (h : TInv c n a k)
    (maxB : Nat) (cp : Bool) :
    (∃ m, (batchRead c a maxB cp).2 = (((log a).drop k).take m).map (·, 0)) ∧
      ((batchRead c a maxB cp).2 = [] → k = (log a).length) := by
  obtain ⟨m, hes, _⟩ := batchRead_spec c hc.meta_pos n a k h maxB cp
  refine ⟨⟨m, hes⟩, ?_⟩
  intro he
  have := h.k_le
  rcases Nat.lt_or_ge k (log a).length with h1 | h1
  · have hx : (log a)[k]? = some (log a)[k] := List.getElem?_eq_getElem h1
    have := batchRead_progress c hc.meta_pos hc.cap_pos n a k h maxB cp _ hx
    rw [he] at this; simp at this
  · omega

/-! Non-vacuity: a run that rotates a block, mixes both read APIs, with an empty payload and a
rejected batch, evaluated by the kernel on the model (small geometry). -/
def demo : List AOp :=
  [.append ⟨0, false⟩ ⟨3000, 1⟩, .batch ⟨0, false⟩ [⟨100, 2⟩, ⟨0, 0⟩, ⟨1200, 3⟩], .append ⟨1, false⟩ ⟨7, 4⟩,
   .batch ⟨0, false⟩ [⟨1, 5⟩, ⟨1, 6⟩, ⟨1, 7⟩, ⟨1, 8⟩, ⟨1, 9⟩, ⟨1, 10⟩],
   .next ⟨0, false⟩ true, .bread ⟨0, false⟩ 100 true none, .bread ⟨0, false⟩ 5000 true none,
   .next ⟨0, false⟩ true, .count ⟨0, false⟩, .next ⟨1, false⟩ true]

example : run smallCfg demo =
    [.ok, .ok, .ok, .err .invalidInput, .entry (some ⟨3000, 1⟩), .entries [(⟨100, 2⟩, 0), (⟨0, 0⟩, 0)],
     .entries [(⟨1200, 3⟩, 0)], .entry none, .num 0, .entry (some ⟨7, 4⟩)] := by decide
example : ∀ op ∈ demo, op.WithinLimits smallCfg := by
  intro op h
  simp only [demo, List.mem_cons, List.mem_nil_iff, or_false] at h
  rcases h with rfl | rfl | rfl | rfl | rfl | rfl | rfl | rfl | rfl | rfl <;>
    simp [AOp.WithinLimits, raw, smallCfg, Consts.PREFIX_META_SIZE, Consts.MAX_ALLOC_SMALL]

end WalrusVerif.Props.C01
