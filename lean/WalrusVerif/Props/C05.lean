import WalrusVerif.Props.C15
/-!
# C05 — concurrent producers and consumers get exactly-once, ordered delivery

Statement: under any interleaving of concurrent appenders and concurrent consuming readers on the same
topics, every successfully appended entry is returned by exactly one consuming read.  Entries appended
by one producer thread are returned in the order that thread appended them, and a batch's entries are
returned contiguously.  This holds in StrictlyAtOnce mode and, within a single process lifetime, in
AtLeastOnce mode.

**Partial.**  What a theorem can carry here is the statement *relative to atomicity*: if every API call
takes effect atomically at some point between its invocation and its return (it holds the locks that
make it so), then an execution of any number of threads is one of the interleavings (`Interleaving`) of
their operation lists, and

* `C05_every_interleaving_is_fifo` — **every** interleaving of the threads' operation lists, of any
  length, over any topics, is a history of the FIFO specification: every appended entry is delivered by
  exactly one consuming read, in append order, a batch contiguously (its entries are appended by one
  atomic operation), nothing twice, nothing skipped;
* `C05_per_thread_order_preserved` — an interleaving keeps each thread's own operations in that
  thread's order (so "entries appended by one producer are returned in the order it appended them"
  follows from FIFO order of the merged history).

Which calls of the real engine *are* atomic is read off the code, not proved: `append`, `batch_append`
(writer mutexes held from validation to commit) and cursor-based batch reads (column lock held from
planning to commit, in both consistency modes) are; `read_next` releases the column lock between its
tail snapshot and its commit and is **not** (open finding `tailReadersShareSnapshot`: concurrent
`read_next` calls on one topic deliver entries twice — reproduced on the pinned tree with 4 threads:
21 575 deliveries of 20 000 entries), and a reader overlapping a block rotation of the writer has two
further windows (`rotationInsideTailWindow`, `staleWriterSnapshot`, read in the source).  The
correspondence is a real-thread stress harness restricted to the calls that are atomic: concurrent
producers (single and batch appends) on shared topics, first appends of several threads to fresh
topics released together, concurrent batch consumers (StrictlyAtOnce and AtLeastOnce) over sealed
and tail data; oracle: exactly-once, per-producer order, batch contiguity.  Real thread scheduling and
memory ordering are exercised by it, not modelled.
-/
namespace WalrusVerif.Props.C05
open WalrusVerif WalrusVerif.Eng WalrusVerif.AEng

/-- `Interleaving threads h`: `h` is a merge of the threads' operation lists that keeps each list's order -/
inductive Interleaving : List (List AOp) → List AOp → Prop where
  | done (ts : List (List AOp)) (h : ∀ t ∈ ts, t = []) : Interleaving ts []
  | step (pre post : List (List AOp)) (op : AOp) (t : List AOp) (rest : List AOp)
      (h : Interleaving (pre ++ t :: post) rest) : Interleaving (pre ++ (op :: t) :: post) (op :: rest)

/-- every operation of an interleaving comes from one of the threads -/
theorem interleaving_mem {ts : List (List AOp)} {h : List AOp} (hi : Interleaving ts h) :
    ∀ op ∈ h, ∃ t ∈ ts, op ∈ t := by
  induction hi with
  | done ts h => intro op hop; cases hop
  | step pre post op t rest _ ih =>
    intro o ho
    rcases List.mem_cons.mp ho with e | e
    · subst e
      exact ⟨o :: t, by simp, by simp⟩
    · obtain ⟨t', ht', hm⟩ := ih o e
      rcases List.mem_append.mp ht' with h1 | h1
      · exact ⟨t', List.mem_append.mpr (Or.inl h1), hm⟩
      · rcases List.mem_cons.mp h1 with h2 | h2
        · subst h2
          exact ⟨op :: t', by simp, List.mem_cons_of_mem _ hm⟩
        · exact ⟨t', List.mem_append.mpr (Or.inr (List.mem_cons_of_mem _ h2)), hm⟩

/-- **C05 (relative to atomic calls).** Whatever the schedule, the history of the engine is a FIFO
history: every successfully appended entry is delivered by exactly one consuming read, in order. -/
theorem C05_every_interleaving_is_fifo (c : Cfg) (hc : CfgOK c) (threads : List (List AOp)) (h : List AOp)
    (hi : Interleaving threads h) (hl : ∀ t ∈ threads, ∀ op ∈ t, op.WithinLimits c) :
    accepts Spec.init (h.zip (AEng.run c h)) := by
  apply Props.C01.C01_refines c hc h
  intro op hop
  obtain ⟨t, ht, hm⟩ := interleaving_mem hi op hop
  exact hl t ht op hm

/-- an interleaving keeps every thread's operations in that thread's order -/
theorem C05_per_thread_order_preserved {ts : List (List AOp)} {h : List AOp} (hi : Interleaving ts h) :
    ∀ t ∈ ts, t.Sublist h := by
  induction hi with
  | done ts hn => intro t ht; rw [hn t ht]; exact List.nil_sublist _
  | step pre post op t rest _ ih =>
    intro t' ht'
    rcases List.mem_append.mp ht' with h1 | h1
    · exact (ih t' (List.mem_append.mpr (Or.inl h1))).cons _
    · rcases List.mem_cons.mp h1 with h2 | h2
      · subst h2
        exact (ih t (by simp)).cons_cons _
      · exact (ih t' (List.mem_append.mpr (Or.inr (List.mem_cons_of_mem _ h2)))).cons _

/-! Non-vacuity: two producers and a batch consumer, one schedule (small geometry). -/
example : Interleaving [[.append ⟨0, false⟩ ⟨5, 1⟩, .append ⟨0, false⟩ ⟨6, 2⟩], [.batch ⟨0, false⟩ [⟨7, 3⟩, ⟨8, 4⟩]], [.bread ⟨0, false⟩ 9999 true none]]
    [.append ⟨0, false⟩ ⟨5, 1⟩, .batch ⟨0, false⟩ [⟨7, 3⟩, ⟨8, 4⟩], .append ⟨0, false⟩ ⟨6, 2⟩, .bread ⟨0, false⟩ 9999 true none] := by
  apply Interleaving.step [] _ _ _ _
  apply Interleaving.step [[.append ⟨0, false⟩ ⟨6, 2⟩]] _ _ [] _
  apply Interleaving.step [] _ _ [] _
  apply Interleaving.step [[], []] [] _ [] _
  exact Interleaving.done _ (by intro t ht; simp at ht; rcases ht with rfl | rfl | rfl <;> rfl)

example : AEng.run smallCfg [.append ⟨0, false⟩ ⟨5, 1⟩, .batch ⟨0, false⟩ [⟨7, 3⟩, ⟨8, 4⟩], .append ⟨0, false⟩ ⟨6, 2⟩, .bread ⟨0, false⟩ 9999 true none] =
    [.ok, .ok, .ok, .entries [(⟨5, 1⟩, 0), (⟨7, 3⟩, 0), (⟨8, 4⟩, 0), (⟨6, 2⟩, 0)]] := by decide +kernel

end WalrusVerif.Props.C05
