import WalrusVerif.Props.C23
/-!
# C22 — every acknowledged PUT is delivered by GET exactly once, in order

*Statement.* For any interleaving of client PUTs and GETs on any nodes, segment rollovers and lease synchronisation,
every PUT answered OK is returned by exactly one GET on the topic.  GETs return a topic's acknowledged payloads in
acknowledgement order for a sequential producer, and a GET answers EMPTY only when every acknowledged PUT has
already been returned.

The property is **false of the code** (open findings `sealedCountStale`, `readerLagsMetadata`; `staleLeaseWrite` of
C23 feeds the first): the count a rollover records for the segment it seals is read from an in-memory counter
*before* the proposal is ordered, appends that pass the lease check later still land in that segment and are
acknowledged, and the reader leaves a sealed segment as soon as it has delivered the recorded count.
`C22_counterexample` is a schedule of two concurrent PUTs after which one acknowledged payload is never returned,
although the topic is read until it answers EMPTY; `corpus/sealedCountStale.plprog` replays it on the real code.
-/
namespace WalrusVerif.Plane
open WalrusVerif

/-- the outputs of the `step` actions of a schedule -/
def outsOf (w : World) : List Act → List StepOut
  | [] => []
  | .step tid :: r => (stepTask w tid).2 :: outsOf (act w (.step tid)) r
  | a :: r => outsOf (act w a) r

/-- `staleLeaseSchedule` continued: task 1 is acknowledged, everything is applied everywhere, and node 1 reads the
topic until it answers EMPTY -/
def lostAckSchedule : List Act :=
  staleLeaseSchedule ++
  [.step 1, .step 1, .step 1, .apply 1, .step 1, .apply 2, .apply 2,
   .spawn 3 (.getStart 1 ta), .step 3, .step 3,
   .spawn 4 (.getStart 1 ta), .step 4, .step 4, .step 4]

/-- **C22 is false of the code.** Both PUTs are acknowledged (payload 2, then payload 1); reading the topic dry
returns payload 2 and then EMPTY: payload 1, written into the segment after its count had been recorded as 1,
is never returned.  (The second rollover also sealed segment 2 with the stale count 2.) -/
theorem C22_counterexample :
    let w := runActs (setup 2 1 [(ta, 1)]) lostAckSchedule
    w.acked = [2, 1] ∧ w.delivered = [(1, (ta, 1), 2)] ∧
    (outsOf (setup 2 1 [(ta, 1)]) lostAckSchedule).getLast? = some (.done .empty) ∧
    ((w.node 1).md.topics.get? ta).map (fun ts => (ts.currentSegment, ts.sealedSegments)) = some (3, [(2, 2), (1, 1)]) ∧
    (((w.node 1).queues.get? (ta, 1)).map (·.entries)) = some [2, 1] := by
  decide +kernel

end WalrusVerif.Plane

namespace WalrusVerif.Plane
open WalrusVerif

theorem qinv_setup (n thresh : Nat) (topics : List (Name × Nat)) : QInv (setup n thresh topics) := by
  unfold setup
  have : ∀ (l : List (Name × Nat)) (w : World), QInv w → QInv (l.foldl (fun w t => createTopic w t.1 t.2) w) := by
    intro l
    induction l with
    | nil => intro w h; exact h
    | cons a r ih => intro w h; exact ih _ (qinv_createTopic w a.1 a.2 h)
  exact this _ _ (qinv_initWorld n thresh)

/-- **C22, the part that holds on every schedule: exactly-once and order per segment queue.**  In every execution -
any cluster, any tasks, any interleaving of steps, applies and lease syncs - and for every node `e` and wal key `k`:
the engine queue of (`e`, `k`) holds exactly the payloads written to it, in write order; the payloads GETs were handed
from it are exactly its consumed prefix, in that order.  So no stored entry is ever returned twice, none is invented,
and within a segment the delivery order is the write order.  What the code does *not* guarantee is that the readers'
cursors reach every entry (`C22_counterexample`). -/
theorem C22_exactly_once_per_queue (n thresh : Nat) (topics : List (Name × Nat)) (acts : List Act) (e : Nat) (k : Key) :
    let w := runActs (setup n thresh topics) acts
    (qOf w e k).entries = wTo w e k ∧
    dFrom w e k = (wTo w e k).take (qOf w e k).consumed ∧
    (qOf w e k).consumed ≤ (wTo w e k).length := by
  have h := qinv_runActs _ acts (qinv_setup n thresh topics) e k
  simp only
  exact ⟨h.1, by rw [← h.1]; exact h.2.1, by rw [← h.1]; exact h.2.2⟩

/-- what was delivered from a queue is a prefix of what was written to it -/
theorem C22_delivered_prefix_of_written (n thresh : Nat) (topics : List (Name × Nat)) (acts : List Act) (e : Nat) (k : Key) :
    dFrom (runActs (setup n thresh topics) acts) e k <+: wTo (runActs (setup n thresh topics) acts) e k := by
  have h := C22_exactly_once_per_queue n thresh topics acts e k
  simp only at h
  rw [h.2.1]
  exact List.take_prefix _ _

/-- the invariant is not vacuous: on the counterexample schedule, queue (node 1, segment 1 of `a`) was written
[2, 1] and delivered [2] -/
example : wTo (runActs (setup 2 1 [(ta, 1)]) lostAckSchedule) 1 (ta, 1) = [2, 1] ∧
    dFrom (runActs (setup 2 1 [(ta, 1)]) lostAckSchedule) 1 (ta, 1) = [2] := by decide +kernel

end WalrusVerif.Plane

namespace WalrusVerif.Plane
open WalrusVerif

/-- everything `applyNext` leaves alone stays as it is through set-up -/
theorem applyNext_ta (w : World) (n : Nat) : (applyNext w n).1.tasks = w.tasks ∧ (applyNext w n).1.acked = w.acked := by
  unfold applyNext; simp only; split <;> exact ⟨rfl, rfl⟩

theorem applyAllOn_ta (w : World) (n fuel : Nat) : (applyAllOn w n fuel).tasks = w.tasks ∧ (applyAllOn w n fuel).acked = w.acked := by
  induction fuel generalizing w with
  | zero => exact ⟨rfl, rfl⟩
  | succ k ih =>
    unfold applyAllOn
    have := applyNext_ta w n
    split
    · rename_i w' _ heq; rw [heq] at this; exact ⟨(ih w').1.trans this.1, (ih w').2.trans this.2⟩
    · rename_i w' heq; rw [heq] at this; exact this

theorem applyAll_ta (w : World) : (applyAll w).tasks = w.tasks ∧ (applyAll w).acked = w.acked := by
  unfold applyAll
  have : ∀ (l : List Nat) (w : World),
      (l.foldl (fun w n => applyAllOn w n (w.log.length + 1)) w).tasks = w.tasks ∧
      (l.foldl (fun w n => applyAllOn w n (w.log.length + 1)) w).acked = w.acked := by
    intro l
    induction l with
    | nil => intro w; exact ⟨rfl, rfl⟩
    | cons a r ih =>
      intro w
      simp only [List.foldl_cons]
      exact ⟨(ih _).1.trans (applyAllOn_ta w a _).1, (ih _).2.trans (applyAllOn_ta w a _).2⟩
  exact this _ w

theorem setup_ta (n thresh : Nat) (topics : List (Name × Nat)) :
    (setup n thresh topics).tasks = AMap.empty ∧ (setup n thresh topics).acked = [] := by
  unfold setup
  have : ∀ (l : List (Name × Nat)) (w : World), (w.tasks = AMap.empty ∧ w.acked = []) →
      ((l.foldl (fun w t => createTopic w t.1 t.2) w).tasks = AMap.empty ∧ (l.foldl (fun w t => createTopic w t.1 t.2) w).acked = []) := by
    intro l
    induction l with
    | nil => intro w h; exact h
    | cons a r ih =>
      intro w h
      apply ih
      unfold createTopic
      exact ⟨(applyAll_ta _).1.trans h.1, (applyAll_ta _).2.trans h.2⟩
  apply this
  unfold initWorld
  exact ⟨(applyAll_ta _).1, (applyAll_ta _).2⟩

/-- the schedule only spawns tasks in their initial states (what the harness and `wdriver` do) -/
def SpawnsFresh (acts : List Act) : Prop := ∀ a ∈ acts, ∀ tid t, a = .spawn tid t → holds t = none

theorem ackInv_runActs (w : World) (acts : List Act) (hs : SpawnsFresh acts) (h : AckInv w) : AckInv (runActs w acts) := by
  induction acts generalizing w with
  | nil => exact h
  | cons a r ih =>
    apply ih
    · intro b hb; exact hs b (List.mem_cons_of_mem _ hb)
    · exact ackInv_act w a (hs a List.mem_cons_self) h

/-- **C22, second part that holds on every schedule: an acknowledged PUT is stored.**  Every payload whose PUT was
answered OK was written to the engine queue of some (node, wal key) - and by `C22_exactly_once_per_queue` it sits there,
once, in write order, and is handed out at most once.  (Whether a reader's cursor ever reaches it is what fails.) -/
theorem C22_acked_are_stored (n thresh : Nat) (topics : List (Name × Nat)) (acts : List Act) (hs : SpawnsFresh acts) :
    ∀ x ∈ (runActs (setup n thresh topics) acts).acked,
      ∃ ev ∈ (runActs (setup n thresh topics) acts).writes, ev.payload = x ∧
        x ∈ (qOf (runActs (setup n thresh topics) acts) ev.node ev.key).entries := by
  intro x hx
  have hA : AckInv (setup n thresh topics) := by
    constructor
    · intro tid t hget; rw [(setup_ta n thresh topics).1] at hget; simp [AMap.empty, AMap.get?] at hget
    · intro y hy; rw [(setup_ta n thresh topics).2] at hy; simp at hy
  obtain ⟨ev, hev, hp⟩ := (ackInv_runActs _ acts hs hA).2 x hx
  refine ⟨ev, hev, hp, ?_⟩
  rw [(C22_exactly_once_per_queue n thresh topics acts ev.node ev.key).1]
  unfold wTo
  rw [List.mem_map]
  exact ⟨ev, List.mem_filter.mpr ⟨hev, by simp⟩, hp⟩

/-- the schedules of this file spawn fresh tasks -/
example : SpawnsFresh lostAckSchedule := by
  intro a ha tid t he
  subst he
  simp only [lostAckSchedule, staleLeaseSchedule, List.mem_append, List.mem_cons, List.mem_nil_iff, or_false] at ha
  rcases ha with (h | h | h | h | h | h | h | h | h | h | h | h | h | h | h) | h <;>
    first
    | (cases h; done)
    | (simp only [Act.spawn.injEq] at h; obtain ⟨_, rfl⟩ := h; rfl)
    | skip
  all_goals
    rcases h with h | h | h | h | h | h | h | h | h | h | h | h | h | h <;>
      first
      | (cases h; done)
      | (simp only [Act.spawn.injEq] at h; obtain ⟨_, rfl⟩ := h; rfl)

end WalrusVerif.Plane

namespace WalrusVerif.Plane
open WalrusVerif

/-! ### `drain` (used by the schedules of the correspondence runs) is a sequence of scheduler actions, so the
theorems about `runActs` cover it -/

theorem runActs_append (w : World) (a b : List Act) : runActs w (a ++ b) = runActs (runActs w a) b := by
  simp [runActs, List.foldl_append]

theorem applyAllOn_acts (w : World) (n fuel : Nat) : ∃ acts, applyAllOn w n fuel = runActs w acts ∧ SpawnsFresh acts := by
  induction fuel generalizing w with
  | zero => exact ⟨[], rfl, fun a h => by simp at h⟩
  | succ k ih =>
    unfold applyAllOn
    split
    · rename_i w' _ heq
      obtain ⟨acts, h1, h2⟩ := ih w'
      refine ⟨.apply n :: acts, ?_, ?_⟩
      · rw [h1]
        show runActs w' acts = runActs (act w (.apply n)) acts
        have : act w (.apply n) = w' := by show (applyNext w n).1 = w'; rw [heq]
        rw [this]
      · intro a ha tid t he
        simp only [List.mem_cons] at ha
        rcases ha with ha | ha
        · subst ha; cases he
        · exact h2 a ha tid t he
    · rename_i w' heq
      refine ⟨[.apply n], ?_, fun a ha tid t he => by simp only [List.mem_singleton] at ha; subst ha; cases he⟩
      show w' = act w (.apply n)
      show w' = (applyNext w n).1
      rw [heq]

theorem applyAll_acts (w : World) : ∃ acts, applyAll w = runActs w acts ∧ SpawnsFresh acts := by
  unfold applyAll
  have : ∀ (l : List Nat) (w : World), ∃ acts,
      l.foldl (fun w n => applyAllOn w n (w.log.length + 1)) w = runActs w acts ∧ SpawnsFresh acts := by
    intro l
    induction l with
    | nil => intro w; exact ⟨[], rfl, fun a h => by simp at h⟩
    | cons n r ih =>
      intro w
      obtain ⟨a1, h1, s1⟩ := applyAllOn_acts w n (w.log.length + 1)
      obtain ⟨a2, h2, s2⟩ := ih (applyAllOn w n (w.log.length + 1))
      refine ⟨a1 ++ a2, ?_, ?_⟩
      · simp only [List.foldl_cons]; rw [h2, h1, runActs_append]
      · intro a ha; rw [List.mem_append] at ha; rcases ha with ha | ha
        · exact s1 a ha
        · exact s2 a ha
  exact this _ w

theorem stepsFold_acts (tids : List Nat) (w : World) (acc : List (Nat × StepOut)) :
    (tids.foldl (fun (acc : World × List (Nat × StepOut)) tid =>
        ((stepTask acc.1 tid).1, acc.2 ++ [(tid, (stepTask acc.1 tid).2)])) (w, acc)).1 =
      runActs w (tids.map Act.step) := by
  induction tids generalizing w acc with
  | nil => rfl
  | cons t r ih => simp only [List.foldl_cons, List.map_cons]; rw [ih]; rfl

theorem drainRounds_acts (fuel : Nat) (w : World) : ∃ acts, (drainRounds w fuel).1 = runActs w acts ∧ SpawnsFresh acts := by
  induction fuel generalizing w with
  | zero =>
    unfold drainRounds
    exact applyAll_acts w
  | succ k ih =>
    unfold drainRounds
    obtain ⟨a1, h1, s1⟩ := applyAll_acts w
    simp only
    split
    · obtain ⟨a2, h2, s2⟩ := applyAll_acts (applyAll w)
      refine ⟨a1 ++ a2, by rw [runActs_append, ← h1, ← h2], ?_⟩
      intro a ha; rw [List.mem_append] at ha; rcases ha with ha | ha
      · exact s1 a ha
      · exact s2 a ha
    · rename_i hne
      -- the steps of this round, as actions
      generalize htids : (((List.filter (fun (p : Nat × Task) => isForeground p.2) (applyAll w).tasks).map (·.1)).toArray.qsort (· < ·)).toList = tids
      have hsteps : ∀ (acc : List (Nat × StepOut)),
          (tids.foldl (fun (acc : World × List (Nat × StepOut)) tid =>
            let (w1, o) := stepTask acc.1 tid
            (w1, acc.2 ++ [(tid, o)])) (applyAll w, acc)).1 = runActs (applyAll w) (tids.map Act.step) :=
        fun acc => stepsFold_acts tids (applyAll w) acc
      have sfresh : SpawnsFresh (tids.map Act.step) := by
        intro a ha tid t he
        rw [List.mem_map] at ha
        obtain ⟨x, _, hx⟩ := ha
        rw [← hx] at he; cases he
      split
      · obtain ⟨a2, h2, s2⟩ := applyAll_acts
          (tids.foldl (fun (acc : World × List (Nat × StepOut)) tid =>
            let (w1, o) := stepTask acc.1 tid
            (w1, acc.2 ++ [(tid, o)])) (applyAll w, [])).1
        refine ⟨a1 ++ (tids.map Act.step ++ a2), ?_, ?_⟩
        · rw [runActs_append, runActs_append, ← h1, ← hsteps []]; exact h2
        · intro a ha
          simp only [List.mem_append] at ha
          rcases ha with ha | ha | ha
          · exact s1 a ha
          · exact sfresh a ha
          · exact s2 a ha
      · obtain ⟨a2, h2, s2⟩ := ih
          (tids.foldl (fun (acc : World × List (Nat × StepOut)) tid =>
            let (w1, o) := stepTask acc.1 tid
            (w1, acc.2 ++ [(tid, o)])) (applyAll w, [])).1
        refine ⟨a1 ++ (tids.map Act.step ++ a2), ?_, ?_⟩
        · rw [runActs_append, runActs_append, ← h1, ← hsteps []]; exact h2
        · intro a ha
          simp only [List.mem_append] at ha
          rcases ha with ha | ha | ha
          · exact s1 a ha
          · exact sfresh a ha
          · exact s2 a ha

/-- `drain` adds nothing to the scheduler's vocabulary: it is some sequence of `apply` and `step` actions -/
theorem drain_is_acts (w : World) : ∃ acts, (drain w).1 = runActs w acts ∧ SpawnsFresh acts := drainRounds_acts 400 w

end WalrusVerif.Plane
