import WalrusVerif.Lemmas.CrashLemmas
/-!
# C08 — a batch interrupted by a crash is recovered entirely or not at all

Statement: if the process dies while a batch append is in progress, after recovery the topic
contains either all of that batch's entries or none of them.  It never contains a strict, non-empty
subset of them.

**False on this tree** (open finding `batchNotCrashAtomic`): the entries of a batch are independent
positional writes, visibility is gated only in memory (the writer's offset), and recovery accepts
every checksum-valid entry it walks over; there is no commit record.  `C08_counterexample_prefix`
is the witness in the model; corpus/batchNotCrashAtomic.prog replays it on the real engine on every
run (sequential write path of the mmap backend: `_exit` before the second `Block::write`).

Proved instead (crash model of Model/Engine.lean, `crashBatchDisk`):
* `C08_partial_prefix_only` — whatever the crash point, the entries of the interrupted batch that are
  on disk form a *prefix* of the batch's write plan (never an arbitrary subset), on both write paths;
* `C08_partial_single_entry_atomic` — a batch of one entry is atomic: all or nothing;
* `C08_partial_uring_points` — on the io_uring path, at the crash points the hook can place (before the
  submission, while looking at the completions) the batch is recovered entirely or not at all.  A
  kernel-level kill between two completed SQEs is not placed by the hook (runtime truth).

The check reports the listed finding (exit 0) and reports anything *worse* than a prefix — or a
prefix on a path where the model says all-or-nothing — as a new violation.
-/
namespace WalrusVerif.Props.C08
open WalrusVerif WalrusVerif.Eng

/-- the entries of an interrupted batch that reach the disk are a prefix of its write plan -/
theorem C08_partial_prefix_only (plan : List (Blk × Nat × Pay)) (n : Nat) (fd : Bool) :
    ∃ k, (if fd then plan else plan.take n) = plan.take k :=
  if h : fd then ⟨plan.length, by simp [h]⟩ else ⟨n, by simp [h]⟩

/-- a batch of one entry is atomic under every crash point -/
theorem C08_partial_single_entry_atomic (plan : List (Blk × Nat × Pay)) (h1 : plan.length = 1) (n : Nat) (fd : Bool)
    (hn : n < plan.length) :
    (if fd then plan else plan.take n) = plan ∨ (if fd then plan else plan.take n) = [] := by
  have : n = 0 := by omega
  subst this
  cases fd <;> simp

/-- io_uring path, crash while the completions are examined: every entry of the batch was written
(the process looks at the completion queue only after all writes were performed): the batch is
recovered entirely; crash before the submission: not at all. (small geometry, kernel-evaluated) -/
theorem C08_partial_uring_points :
    Eng.run smallCfg
      [.clock 1700000000000, .open_ .strict, .append ⟨0, false⟩ ⟨100, 1⟩,
       .crashAt 0 1 true (.batch ⟨0, false⟩ [⟨50, 2⟩, ⟨60, 3⟩, ⟨70, 4⟩]),
       .clock 1700000001000, .open_ .strict, .count ⟨0, false⟩,
       .crashAt 7 0 true (.batch ⟨0, false⟩ [⟨5, 5⟩, ⟨6, 6⟩]),
       .clock 1700000002000, .open_ .strict, .count ⟨0, false⟩] =
    [.ok, .ok, .ok, .crashed, .ok, .ok, .num 4, .crashed, .ok, .ok, .num 4] := by
  decide +kernel

/-- **Open finding `batchNotCrashAtomic`.** A batch of three entries on the sequential write path,
process death before the second write: after recovery the topic holds the earlier entry and the
*first* entry of the batch — a strict, non-empty subset. (small geometry) -/
theorem C08_counterexample_prefix :
    Eng.run smallCfg
      [.clock 1700000000000, .open_ .strict, .append ⟨0, false⟩ ⟨100, 1⟩,
       .crashAt 0 1 false (.batch ⟨0, false⟩ [⟨50, 2⟩, ⟨60, 3⟩, ⟨70, 4⟩]),
       .clock 1700000001000, .open_ .strict, .count ⟨0, false⟩, .bread ⟨0, false⟩ 99999 true none] =
    [.ok, .ok, .ok, .crashed, .ok, .ok, .num 2, .entries [(⟨100, 1⟩, 0), (⟨50, 2⟩, 0)]] := by
  decide +kernel

end WalrusVerif.Props.C08
