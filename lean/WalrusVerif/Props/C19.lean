import WalrusVerif.Model.Adapter
import WalrusVerif.Lemmas.PlaneLog
/-!
# C19 — all nodes apply the same metadata commands in the same order  (partial)

Statement: across node crashes, restarts and message loss, the sequence of metadata commands applied on any node is a
prefix of the sequence applied on any other node that has applied at least as many, or vice versa; every proposal
reported as successful is eventually applied by every live node.

What decides the first sentence in the running system is two things: (a) openraft's core - it feeds every node's state
machine the committed entries of one agreed log, each exactly once per process lifetime, in index order; (b) octopii's
adapter between that core and the application (`MemStateMachine::apply`, storage.rs:315-347) - what it does with the
entries it is fed.  (a) is the vendored openraft crate, which cannot be built or run in this sandbox and is **not
modelled**: it appears below as the hypothesis "the entries fed to a node so far are a prefix of one sequence `G`"
(`G.take k`, cut into calls of `apply` in any way).  (b) is modelled (Model/Adapter.lean), tied to the code by the
correspondence run, and is what these theorems are about:

* `C19_adapter_hands_over_every_command_in_order` - whatever the adapter is fed, cut into calls in any way, with or
  without responders, the application sees exactly the commands among those entries, in order, up to the first one it
  rejects;
* `C19_partial` - two nodes (or two lifetimes of one node: a restart starts from an empty adapter) that have been
  fed prefixes of the same committed sequence have applied command sequences one of which is a prefix of the other;
* `C19_same_commands_same_state` - and the application state is a function of that command sequence, so nodes that
  applied the same number of commands agree on the state;
* `C19_responders_do_not_matter` - the node that proposed an entry (it answers the client) and the nodes that
  received it by replication end in the same state;
* `C19_last_applied_is_last_fed` - the id reported to openraft as applied is the id of the last entry looked at.

* `C19_plane_nodes_apply_prefixes_of_one_log` - inside the data-plane model (C22/C23), for every schedule: each node
  has applied a prefix of the one command log and holds exactly the metadata that prefix leads to.

Not covered: the second sentence (liveness), everything that depends on openraft's replication and election logic,
the QUIC transport, snapshots (C20).
-/
namespace WalrusVerif.Props.C19
open WalrusVerif WalrusVerif.Adapter

/-- one entry: the application is handed the entry's command (if it is one) - unless the application fails on this
node before taking it, and then the call fails -/
theorem applyOne_cmds (s : SmSt) (e : REntry) :
    ((applyOne s e).1.cmds = s.cmds ++ cmdsOf [e]) ∨
    ((applyOne s e).1.cmds = s.cmds ∧ (applyOne s e).2.2 = false) := by
  unfold applyOne cmdsOf
  cases hp : e.payload with
  | blank => left; simp [hp]
  | membership m => left; simp [hp]
  | normal c =>
    simp only [hp, List.filterMap_cons, List.filterMap_nil]
    by_cases hf : s.failNext = true
    · right; simp [hf]
    · left
      simp only [hf, Bool.false_eq_true, if_false]
      cases kvApply s.kv c with
      | none => rfl
      | some x => rfl

theorem cmdsOf_append (a b : List REntry) : cmdsOf (a ++ b) = cmdsOf a ++ cmdsOf b := by
  simp [cmdsOf, List.filterMap_append]

theorem cmdsOf_cons (e : REntry) (r : List REntry) : cmdsOf (e :: r) = cmdsOf [e] ++ cmdsOf r :=
  cmdsOf_append [e] r

theorem applyAll_cons_ok (s s' : SmSt) (e : REntry) (r : List REntry) (o : Option (Nat × Resp))
    (h : applyOne s e = (s', o, true)) :
    applyAll s (e :: r) = ((applyAll s' r).1, o.toList ++ (applyAll s' r).2.1, (applyAll s' r).2.2) := by
  simp only [applyAll, h]

theorem applyAll_cons_fail (s s' : SmSt) (e : REntry) (r : List REntry) (o : Option (Nat × Resp))
    (h : applyOne s e = (s', o, false)) : applyAll s (e :: r) = (s', o.toList, false) := by
  simp only [applyAll, h]

/-- `apply` hands the application a prefix of the commands it was fed, in order: all of them when it succeeds -/
theorem applyAll_cmds (es : List REntry) : ∀ s : SmSt,
    ∃ done, (applyAll s es).1.cmds = s.cmds ++ done ∧ done <+: cmdsOf es ∧
      ((applyAll s es).2.2 = true → done = cmdsOf es) := by
  induction es with
  | nil => intro s; exact ⟨[], by simp [applyAll], by simp [cmdsOf], by simp [cmdsOf]⟩
  | cons e r ih =>
    intro s
    have h1 := applyOne_cmds s e
    have hc := cmdsOf_cons e r
    rcases h : applyOne s e with ⟨s', o, ok⟩
    rw [h] at h1
    cases ok with
    | true =>
      rw [applyAll_cons_ok s s' e r o h]
      have h1 : s'.cmds = s.cmds ++ cmdsOf [e] := by
        rcases h1 with h1 | ⟨_, h2⟩
        · exact h1
        · simp at h2
      obtain ⟨d, hd1, hd2, hd3⟩ := ih s'
      refine ⟨cmdsOf [e] ++ d, ?_, ?_, ?_⟩
      · simp only; rw [hd1, h1, List.append_assoc]
      · rw [hc]; exact List.prefix_append_right_inj _ |>.mpr hd2
      · intro hok; simp only at hok; rw [hc, hd3 hok]
    | false =>
      rw [applyAll_cons_fail s s' e r o h]
      rcases h1 with h1 | ⟨h1, _⟩
      · refine ⟨cmdsOf [e], by simpa using h1, ?_, ?_⟩
        · rw [hc]; exact List.prefix_append _ _
        · intro hok; simp at hok
      · refine ⟨[], by simpa using h1, List.nil_prefix, ?_⟩
        intro hok; simp at hok

/-- cutting the stream into calls changes nothing: several successful calls are one call on the concatenation -/
theorem applyAll_append (a b : List REntry) : ∀ s : SmSt, (applyAll s a).2.2 = true →
    (applyAll s (a ++ b)).1 = (applyAll (applyAll s a).1 b).1 ∧
    (applyAll s (a ++ b)).2.2 = (applyAll (applyAll s a).1 b).2.2 := by
  induction a with
  | nil => intro s _; simp [applyAll]
  | cons e r ih =>
    intro s hok
    simp only [List.cons_append]
    rcases h : applyOne s e with ⟨s', o, ok⟩
    cases ok with
    | true =>
      rw [applyAll_cons_ok s s' e r o h] at hok ⊢
      rw [applyAll_cons_ok s s' e (r ++ b) o h]
      simp only at hok ⊢; exact ih s' hok
    | false => rw [applyAll_cons_fail s s' e r o h] at hok; simp at hok

theorem applyBatches_eq (bs : List (List REntry)) : ∀ s : SmSt, (applyBatches s bs).2 = true →
    (applyBatches s bs).1 = (applyAll s bs.flatten).1 ∧ (applyAll s bs.flatten).2.2 = true := by
  induction bs with
  | nil => intro s _; simp [applyBatches, applyAll]
  | cons b r ih =>
    intro s hok
    unfold applyBatches at hok ⊢
    rcases h : applyAll s b with ⟨s', os, ok⟩
    rw [h] at hok
    cases ok with
    | false => simp at hok
    | true =>
      simp only at hok ⊢
      have hb : (applyAll s b).2.2 = true := by rw [h]
      have := applyAll_append b r.flatten s hb
      rw [h] at this
      simp only at this
      obtain ⟨i1, i2⟩ := ih s' hok
      rw [List.flatten_cons, this.1, this.2]
      exact ⟨i1, i2⟩

/-- **The adapter hands the application every command it is fed, in order.**  Whatever entries openraft feeds the
adapter of a freshly started process, cut into calls of `apply` in any way, with or without responders: as long as
the application accepts the commands, the commands it has seen are exactly the commands among those entries, in
feeding order - nothing skipped, nothing doubled, nothing reordered. -/
theorem C19_adapter_hands_over_every_command_in_order (bs : List (List REntry)) (h : (applyBatches {} bs).2 = true) :
    (applyBatches {} bs).1.cmds = cmdsOf bs.flatten := by
  obtain ⟨h1, h2⟩ := applyBatches_eq bs {} h
  obtain ⟨d, hd1, _, hd3⟩ := applyAll_cmds bs.flatten {}
  rw [h1, hd1, hd3 h2]; rfl

/-- ... and when the application rejects one, what it has seen is still a prefix of them (the Raft instance stops
there: a storage error is fatal) -/
theorem C19_adapter_prefix_even_on_rejection (bs : List (List REntry)) :
    (applyBatches {} bs).1.cmds <+: cmdsOf bs.flatten := by
  suffices H : ∀ s : SmSt, ∃ d, (applyBatches s bs).1.cmds = s.cmds ++ d ∧ d <+: cmdsOf bs.flatten by
    obtain ⟨d, h1, h2⟩ := H {}
    rw [h1]; exact h2
  induction bs with
  | nil => intro s; exact ⟨[], by simp [applyBatches], by simp [cmdsOf]⟩
  | cons b r ih =>
    intro s
    obtain ⟨d, hd1, hd2, hd3⟩ := applyAll_cmds b s
    unfold applyBatches
    rcases h : applyAll s b with ⟨s', os, ok⟩
    rw [h] at hd1 hd3
    rw [List.flatten_cons, cmdsOf_append]
    cases ok with
    | false => exact ⟨d, hd1, List.IsPrefix.trans hd2 (List.prefix_append _ _)⟩
    | true =>
      obtain ⟨d2, e1, e2⟩ := ih s'
      refine ⟨d ++ d2, ?_, ?_⟩
      · simp only; rw [e1, hd1, List.append_assoc]
      · rw [hd3 rfl]; exact List.prefix_append_right_inj _ |>.mpr e2

theorem cmdsOf_take_prefix (G : List REntry) (j k : Nat) (h : j ≤ k) : cmdsOf (G.take j) <+: cmdsOf (G.take k) := by
  obtain ⟨t, ht⟩ : G.take j <+: G.take k := List.take_prefix_take_left h
  rw [← ht, cmdsOf_append]
  exact List.prefix_append _ _

/-- **C19, first sentence, given openraft's agreement (partial).**  `G` is the sequence of committed entries the
cluster agreed on (hypothesis: this is what openraft's core is trusted for - it is not modelled).  Node 1 has been fed
the first `k₁` of them and node 2 the first `k₂`, each cut into calls of `apply` in its own way (`b₁`, `b₂`), each from
an empty adapter (a fresh process; a restarted node is fed again from the start of its log).  Then the command
sequence one of them has applied is a prefix of the other's - also when the application rejects a command. -/
theorem C19_partial (G : List REntry) (k₁ k₂ : Nat) (b₁ b₂ : List (List REntry))
    (h₁ : b₁.flatten = G.take k₁) (h₂ : b₂.flatten = G.take k₂)
    (ok₁ : (applyBatches {} b₁).2 = true) (ok₂ : (applyBatches {} b₂).2 = true) :
    (applyBatches {} b₁).1.cmds <+: (applyBatches {} b₂).1.cmds ∨
    (applyBatches {} b₂).1.cmds <+: (applyBatches {} b₁).1.cmds := by
  rw [C19_adapter_hands_over_every_command_in_order b₁ ok₁, C19_adapter_hands_over_every_command_in_order b₂ ok₂, h₁, h₂]
  rcases Nat.le_total k₁ k₂ with h | h
  · exact .inl (cmdsOf_take_prefix G _ _ h)
  · exact .inr (cmdsOf_take_prefix G _ _ h)

/-- the application state is the replay of the commands seen -/
theorem applyAll_kv (es : List REntry) : ∀ s : SmSt, (applyAll s es).2.2 = true →
    kvReplay s.kv (cmdsOf es) = some (applyAll s es).1.kv := by
  induction es with
  | nil => intro s _; simp [applyAll, cmdsOf, kvReplay]
  | cons e r ih =>
    intro s hok
    have hc := cmdsOf_cons e r
    rcases h : applyOne s e with ⟨s', o, ok⟩
    cases ok with
    | false => rw [applyAll_cons_fail s s' e r o h] at hok; simp at hok
    | true =>
      rw [applyAll_cons_ok s s' e r o h] at hok ⊢
      simp only at hok ⊢
      rw [hc]
      unfold applyOne at h
      cases hp : e.payload with
      | blank =>
        simp only [hp, Prod.mk.injEq] at h
        rw [← ih s' hok, ← h.1]; simp [cmdsOf, hp]
      | membership m =>
        simp only [hp, Prod.mk.injEq] at h
        rw [← ih s' hok, ← h.1]; simp [cmdsOf, hp]
      | normal c =>
        simp only [hp] at h
        by_cases hf : s.failNext = true
        · simp [hf] at h
        · simp only [hf, Bool.false_eq_true, if_false] at h
          cases hk : kvApply s.kv c with
          | none => rw [hk] at h; simp at h
          | some x =>
            rw [hk] at h
            simp only [Prod.mk.injEq] at h
            rw [← ih s' hok, ← h.1]
            simp [cmdsOf, hp, kvReplay, hk]

/-- **Same commands, same state.**  The application state of a node is a function of the entries it has been fed:
two nodes fed the same prefix of the committed sequence - however cut into calls, whichever of them proposed which
entry - hold the same key-value state, the same membership and report the same applied id. -/
theorem C19_same_commands_same_state (es : List REntry) (b₁ b₂ : List (List REntry))
    (h₁ : b₁.flatten = es) (h₂ : b₂.flatten = es)
    (ok₁ : (applyBatches {} b₁).2 = true) (ok₂ : (applyBatches {} b₂).2 = true) :
    (applyBatches {} b₁).1 = (applyBatches {} b₂).1 := by
  rw [(applyBatches_eq b₁ {} ok₁).1, (applyBatches_eq b₂ {} ok₂).1, h₁, h₂]

/-- forget who proposed the entries -/
def stripResponders (es : List REntry) : List REntry := es.map fun e => { e with responder := false }

theorem applyOne_strip (s : SmSt) (e : REntry) :
    (applyOne s { e with responder := false }).1 = (applyOne s e).1 ∧
    (applyOne s { e with responder := false }).2.2 = (applyOne s e).2.2 := by
  unfold applyOne
  cases hp : e.payload with
  | blank => simp
  | membership m => simp
  | normal c =>
    simp only
    by_cases hf : s.failNext = true
    · simp [hf]
    · simp only [hf, Bool.false_eq_true, if_false]
      cases kvApply s.kv c <;> simp

/-- **Responders do not matter.**  The node that proposed an entry hands the application's answer back to the client;
the nodes that got the entry by replication do not.  The state they end in is the same. -/
theorem C19_responders_do_not_matter (es : List REntry) : ∀ s : SmSt,
    (applyAll s (stripResponders es)).1 = (applyAll s es).1 ∧
    (applyAll s (stripResponders es)).2.2 = (applyAll s es).2.2 := by
  induction es with
  | nil => intro s; simp [stripResponders, applyAll]
  | cons e r ih =>
    intro s
    have h := applyOne_strip s e
    simp only [stripResponders, List.map_cons]
    rcases h1 : applyOne s e with ⟨s', o, ok⟩
    rcases h2 : applyOne s { e with responder := false } with ⟨s2, o2, ok2⟩
    rw [h1, h2] at h
    simp only at h
    obtain ⟨rfl, rfl⟩ := h
    cases ok2 with
    | true =>
      rw [applyAll_cons_ok _ _ _ _ _ h1, applyAll_cons_ok _ _ _ _ _ h2]
      exact ih s2
    | false => rw [applyAll_cons_fail _ _ _ _ _ h1, applyAll_cons_fail _ _ _ _ _ h2]; simp

/-- **What is reported as applied.**  After a successful call on a non-empty stream the adapter reports the id of the
stream's last entry as applied. -/
theorem C19_last_applied_is_last_fed (es : List REntry) (e : REntry) : ∀ s : SmSt,
    (applyAll s (es ++ [e])).2.2 = true → (applyAll s (es ++ [e])).1.lastApplied = some (e.index, e.term) := by
  induction es with
  | nil =>
    intro s hok
    simp only [List.nil_append] at hok ⊢
    rcases h : applyOne s e with ⟨s', o, ok⟩
    cases ok with
    | false => rw [applyAll_cons_fail _ _ _ _ _ h] at hok; simp at hok
    | true =>
      rw [applyAll_cons_ok _ _ _ _ _ h]
      simp only [applyAll]
      unfold applyOne at h
      cases hp : e.payload with
      | blank => simp only [hp, Prod.mk.injEq] at h; rw [← h.1]
      | membership m => simp only [hp, Prod.mk.injEq] at h; rw [← h.1]
      | normal c =>
        simp only [hp] at h
        by_cases hf : s.failNext = true
        · simp [hf] at h
        · simp only [hf, Bool.false_eq_true, if_false] at h
          cases hk : kvApply s.kv c with
          | none => rw [hk] at h; simp at h
          | some x => rw [hk] at h; simp only [Prod.mk.injEq] at h; rw [← h.1]
  | cons a r ih =>
    intro s hok
    simp only [List.cons_append] at hok ⊢
    rcases h : applyOne s a with ⟨s', o, ok⟩
    cases ok with
    | false => rw [applyAll_cons_fail _ _ _ _ _ h] at hok; simp at hok
    | true => rw [applyAll_cons_ok _ _ _ _ _ h] at hok ⊢; simp only at hok ⊢; exact ih s' hok

/-- **A node-local failure stops the node, it does not make it skip.**  When the application fails on this node
while a command is handed to it (whatever the adapter's state, whatever the stream), the call returns the error and the
commands the application has taken are still a prefix of the commands fed: the node has applied less than the others,
not something different.  (openraft shuts the Raft instance down on the error; the restarted node is fed its log again
from the start, `C19_partial`.) -/
theorem C19_local_failure_stops_the_node (s : SmSt) (es : List REntry) (hf : s.failNext = true)
    (hc : cmdsOf es ≠ []) :
    (applyAll s es).2.2 = false ∧ ∃ d, (applyAll s es).1.cmds = s.cmds ++ d ∧ d <+: cmdsOf es := by
  refine ⟨?_, ?_⟩
  · induction es generalizing s with
    | nil => simp [cmdsOf] at hc
    | cons e r ih =>
      rcases h : applyOne s e with ⟨s', o, ok⟩
      cases ok with
      | false => rw [applyAll_cons_fail _ _ _ _ _ h]
      | true =>
        rw [applyAll_cons_ok _ _ _ _ _ h]
        simp only
        have hce := cmdsOf_cons e r
        unfold applyOne at h
        cases hp : e.payload with
        | normal c => simp [hp, hf] at h
        | blank =>
          simp only [hp, Prod.mk.injEq] at h
          refine ih s' (by rw [← h.1]; exact hf) ?_
          rw [hce] at hc; simpa [cmdsOf, hp] using hc
        | membership m =>
          simp only [hp, Prod.mk.injEq] at h
          refine ih s' (by rw [← h.1]; exact hf) ?_
          rw [hce] at hc; simpa [cmdsOf, hp] using hc
  · obtain ⟨d, h1, h2, _⟩ := applyAll_cmds es s
    exact ⟨d, h1, h2⟩

/-! ### the same statement inside the data-plane model of C22/C23

`Model/Plane.lean` (the model C22 and C23 are proved about, tied to bucket.rs / controller / monitor by the schedule-
for-schedule correspondence) takes what this property states as its Raft stand-in: one command log, each node applying
it entry by entry.  That the model really has the property - for every schedule of task steps, per-node applies, lease
syncs and spawns, with PUTs and the monitor proposing rollovers in between - is a theorem, not an assumption. -/

open WalrusVerif.Plane in
/-- **Every node of the data-plane model has applied a prefix of the one command log, and holds exactly the metadata
that prefix leads to** - after any schedule, from any set-up built by `initWorld` / `createTopic`.  Hence the command
sequences applied on two nodes are prefix-related, and two nodes that applied equally many commands hold the same
metadata. -/
theorem C19_plane_nodes_apply_prefixes_of_one_log (w0 : World) (h0 : MdInv w0) (sched : List Act) (a b : Nat)
    (hab : ((runActs w0 sched).node a).applied ≤ ((runActs w0 sched).node b).applied) :
    let w := runActs w0 sched
    (w.log.take (w.node a).applied) <+: (w.log.take (w.node b).applied) ∧
    (w.node a).md = foldCmds (w.log.take (w.node a).applied) ∧
    (w.node b).md = foldCmds (w.log.take (w.node b).applied) ∧
    ((w.node a).applied = (w.node b).applied → (w.node a).md = (w.node b).md) := by
  intro w
  have h := mdInv_runActs sched w0 h0
  refine ⟨List.take_prefix_take_left hab, (h a).2, (h b).2, ?_⟩
  intro e
  rw [(h a).2, (h b).2, e]

open WalrusVerif.Plane in
/-- the set-ups the correspondence runs start from satisfy the hypothesis -/
theorem C19_plane_setups (n thresh : Nat) (topics : List (Name × Nat)) :
    MdInv (topics.foldl (fun w p => createTopic w p.1 p.2) (initWorld n thresh)) := by
  suffices H : ∀ w, MdInv w → MdInv (topics.foldl (fun w p => createTopic w p.1 p.2) w) from H _ (mdInv_initWorld n thresh)
  induction topics with
  | nil => intro w h; exact h
  | cons p r ih => intro w h; exact ih _ (mdInv_createTopic w p.1 p.2 h)

/-- non-vacuity: two nodes, a PUT through node 2 that triggers a rollover proposal; node 1 has applied all four log
entries, node 2 only three -/
example : ((Plane.runActs (Plane.createTopic (Plane.initWorld 2 1) ['a'] 1)
      [.spawn 1 (.putStart 2 ['a'] 7), .step 1, .step 1, .step 1, .step 1, .step 1, .step 1, .step 1, .apply 1]).log.length,
    ((Plane.runActs (Plane.createTopic (Plane.initWorld 2 1) ['a'] 1)
      [.spawn 1 (.putStart 2 ['a'] 7), .step 1, .step 1, .step 1, .step 1, .step 1, .step 1, .step 1, .apply 1]).node 1).applied,
    ((Plane.runActs (Plane.createTopic (Plane.initWorld 2 1) ['a'] 1)
      [.spawn 1 (.putStart 2 ['a'] 7), .step 1, .step 1, .step 1, .step 1, .step 1, .step 1, .step 1, .apply 1]).node 2).applied) = (4, 4, 3) := by
  decide +kernel

/-! Non-vacuity: a committed sequence with a membership change, a blank entry and five commands; node 1 (which
proposed entries 3 and 6) has been fed all of it in two calls, node 2 the first five entries one by one. -/
def demoG : List REntry :=
  [⟨1, 1, .membership 5, false⟩, ⟨2, 1, .blank, false⟩, ⟨3, 1, .normal (.set 1 7), true⟩, ⟨4, 1, .normal (.get 1), false⟩,
   ⟨5, 2, .normal (.set 2 9), false⟩, ⟨6, 2, .normal (.del 1), true⟩, ⟨7, 2, .normal (.get 2), false⟩]

example : (applyBatches {} [demoG.take 3, demoG.drop 3]).2 = true ∧
    (applyBatches {} ((stripResponders (demoG.take 5)).map fun e => [e])).2 = true ∧
    (applyBatches {} [demoG.take 3, demoG.drop 3]).1.cmds = [.set 1 7, .get 1, .set 2 9, .del 1, .get 2] ∧
    (applyBatches {} ((stripResponders (demoG.take 5)).map fun e => [e])).1.cmds = [.set 1 7, .get 1, .set 2 9] ∧
    (applyAll {} demoG).2.1 = [(3, .ok), (6, .ok)] := by decide

/-- a rejected command ends the call: the id of the rejected entry is reported as applied, the entries behind it are
not looked at -/
example : applyAll {} [⟨1, 1, .normal (.set 1 1), true⟩, ⟨2, 1, .normal .bad, true⟩, ⟨3, 1, .normal (.set 2 2), true⟩] =
    ({ lastApplied := some (2, 1), cmds := [.set 1 1, .bad], kv := [(1, 1)] }, [(1, .ok)], false) := by decide

/-- the application fails on this node at the second command: the call returns the error, the first command is applied,
the second and third are not -/
example : applyAll { failNext := false } [⟨1, 1, .normal (.set 1 1), false⟩] = ({ lastApplied := some (1, 1), cmds := [.set 1 1], kv := [(1, 1)] }, [], true) ∧
    applyAll { lastApplied := some (1, 1), cmds := [.set 1 1], kv := [(1, 1)], failNext := true }
      [⟨2, 1, .blank, false⟩, ⟨3, 1, .normal (.set 2 2), true⟩, ⟨4, 1, .normal (.set 3 3), false⟩] =
    ({ lastApplied := some (3, 1), cmds := [.set 1 1], kv := [(1, 1)] }, [], false) := by decide

end WalrusVerif.Props.C19
