import WalrusVerif.Model.Engine
/-!
# C16 — FD/io_uring and mmap backends behave identically

Statement: for any operation sequence, including restarts and rejected operations, the FD backend
(io_uring batches and positional I/O) and the mmap backend return the same results, the same
errors and the same entries in the same order.

The engine model `Eng` has **one** write path and **one** read path: every decision the code takes
(validation order, planning, rotation, offsets, commit, rollback conditions) is shared by the two
backends in `writer.rs` / `walrus_read.rs`; the backends differ only in *how bytes reach the file*:
the mmap backend performs the writes of a batch one after the other in plan order, the FD backend
submits them to io_uring together, and the kernel may complete them in any order.  That is the one
degree of freedom the model has to justify, and it does:

* `C16_completion_order_irrelevant` — for the writes of a plan whose byte ranges are pairwise
  disjoint, applying them in **any** order (any permutation) leaves every file with the same set of
  valid entries: what any later read or any recovery scan can observe is the same.
* `C16_plan_ranges_disjoint_in_block` — the writes that `batch_write` plans into one block are
  pairwise disjoint (strictly increasing, back to back).

Everything else of the statement ("same results, same errors, same entries, same order, across
restarts and rejected operations") is decided by the double correspondence: every generated program
is executed once per backend in separate processes, the two output streams are compared with each
other and each with this (backend-independent) model.  Labelled **partial**: kernel behaviour
(pread/mmap coherence, io_uring ordering) is exercised, not modelled.
-/
namespace WalrusVerif.Props.C16
open WalrusVerif WalrusVerif.Eng

/-- one planned write of a batch: a cell (header + payload) at a file offset -/
structure WriteReq where
  file : Nat
  cell : Cell

def WriteReq.lo (w : WriteReq) : Nat := w.cell.off
def WriteReq.hi (c : Cfg) (w : WriteReq) : Nat := w.cell.stop c

/-- the effect of one completed write on the cells of its file (what `writeCell` does) -/
def applyCells (c : Cfg) (cs : List Cell) (x : Cell) : List Cell := clobber c cs x.off (x.stop c) ++ [x]

def applyWrite (c : Cfg) (files : List FileSt) (w : WriteReq) : List FileSt :=
  updFileCells files w.file fun cs => applyCells c cs w.cell

def applyAll (c : Cfg) (files : List FileSt) (ws : List WriteReq) : List FileSt := ws.foldl (applyWrite c) files

/-- `applyWrite` is exactly the model's `writeCell` -/
theorem applyWrite_eq_writeCell (c : Cfg) (files : List FileSt) (b : Blk) (o : Nat) (t : Topic) (pay : Pay) :
    writeCell c files b o t pay = applyWrite c files ⟨b.file, { off := b.off + o, topic := t, pay := pay }⟩ := rfl

/-- byte ranges of two writes do not overlap -/
def Disj (c : Cfg) (a b : WriteReq) : Prop := a.file ≠ b.file ∨ a.hi c ≤ b.lo ∨ b.hi c ≤ a.lo

/-- two states of a disk are equivalent when every file holds the same cells up to list order -/
def Equiv (f g : List FileSt) : Prop :=
  f.length = g.length ∧ ∀ k, (fileCells f k).Perm (fileCells g k) ∧
    ((f[k]?).map fun x => (x.dir, x.name, x.present)) = ((g[k]?).map fun x => (x.dir, x.name, x.present))

theorem Equiv.refl (f : List FileSt) : Equiv f f := ⟨rfl, fun _ => ⟨List.Perm.refl _, rfl⟩⟩

theorem Equiv.trans {f g h : List FileSt} (a : Equiv f g) (b : Equiv g h) : Equiv f h :=
  ⟨a.1.trans b.1, fun k => ⟨(a.2 k).1.trans (b.2 k).1, (a.2 k).2.trans (b.2 k).2⟩⟩

theorem fileCells_upd (files : List FileSt) (f k : Nat) (g : List Cell → List Cell) :
    fileCells (updFileCells files f g) k = if k = f ∧ k < files.length then g (fileCells files k) else fileCells files k := by
  unfold fileCells updFileCells
  simp only [List.getElem?_mapIdx]
  cases h : files[k]? with
  | none =>
    have : ¬ k < files.length := by
      intro hl; rw [List.getElem?_eq_getElem hl] at h; cases h
    simp [this]
  | some fs =>
    have hl : k < files.length := by
      rcases Nat.lt_or_ge k files.length with hl | hl
      · exact hl
      · rw [List.getElem?_eq_none hl] at h; cases h
    by_cases hk : k = f
    · subst hk; simp [hl]
    · simp [hk]

theorem meta_upd (files : List FileSt) (f k : Nat) (g : List Cell → List Cell) :
    ((updFileCells files f g)[k]?).map (fun x => (x.dir, x.name, x.present)) =
      (files[k]?).map fun x => (x.dir, x.name, x.present) := by
  unfold updFileCells
  simp only [List.getElem?_mapIdx]
  cases files[k]? with
  | none => rfl
  | some fs => by_cases hk : k = f <;> simp [hk]

theorem length_upd (files : List FileSt) (f : Nat) (g : List Cell → List Cell) :
    (updFileCells files f g).length = files.length := by unfold updFileCells; simp

theorem clobber_perm (c : Cfg) {a b : List Cell} (h : a.Perm b) (lo hi : Nat) :
    (clobber c a lo hi).Perm (clobber c b lo hi) := h.filter _

theorem applyCells_perm (c : Cfg) {a b : List Cell} (h : a.Perm b) (x : Cell) :
    (applyCells c a x).Perm (applyCells c b x) := (clobber_perm c h _ _).append_right _

/-- a write maps equivalent disks to equivalent disks -/
theorem applyWrite_equiv (c : Cfg) {f g : List FileSt} (h : Equiv f g) (w : WriteReq) :
    Equiv (applyWrite c f w) (applyWrite c g w) := by
  refine ⟨by unfold applyWrite; rw [length_upd, length_upd]; exact h.1, fun k => ⟨?_, ?_⟩⟩
  · unfold applyWrite
    rw [fileCells_upd, fileCells_upd, h.1]
    split
    · exact applyCells_perm c (h.2 k).1 _
    · exact (h.2 k).1
  · unfold applyWrite; rw [meta_upd, meta_upd]; exact (h.2 k).2

theorem clobber_comm (c : Cfg) (cs : List Cell) (a b d e : Nat) :
    clobber c (clobber c cs a b) d e = clobber c (clobber c cs d e) a b := by
  unfold clobber; simp only [List.filter_filter]; congr 1; funext x; exact Bool.and_comm _ _

theorem clobber_append (c : Cfg) (a b : List Cell) (lo hi : Nat) :
    clobber c (a ++ b) lo hi = clobber c a lo hi ++ clobber c b lo hi := by unfold clobber; simp

/-- a cell survives a write to a range it does not overlap -/
theorem clobber_keep (c : Cfg) (x : Cell) (lo hi : Nat) (h : x.stop c ≤ lo ∨ hi ≤ x.off) :
    clobber c [x] lo hi = [x] := by
  unfold clobber
  have : (!(decide (x.off < hi) && decide (lo < x.stop c))) = true := by
    rcases h with h | h
    · have : ¬ lo < x.stop c := by omega
      simp [this]
    · have : ¬ x.off < hi := by omega
      simp [this]
  simp only [List.filter_cons, this, if_true, List.filter_nil]

/-- two disjoint writes to the same file commute up to the order of the cell list -/
theorem applyCells_comm (c : Cfg) (cs : List Cell) (x y : Cell) (h : x.stop c ≤ y.off ∨ y.stop c ≤ x.off) :
    (applyCells c (applyCells c cs x) y).Perm (applyCells c (applyCells c cs y) x) := by
  unfold applyCells
  rw [clobber_append, clobber_append, clobber_keep c x _ _ h, clobber_keep c y _ _ h.symm, clobber_comm]
  simp only [List.append_assoc]
  apply List.Perm.append_left
  exact List.Perm.swap y x []

/-- two disjoint writes commute -/
theorem applyWrite_comm (c : Cfg) (f : List FileSt) (a b : WriteReq) (h : Disj c a b) :
    Equiv (applyWrite c (applyWrite c f a) b) (applyWrite c (applyWrite c f b) a) := by
  refine ⟨by unfold applyWrite; simp only [length_upd], fun k => ⟨?_, ?_⟩⟩
  · unfold applyWrite
    rw [fileCells_upd, fileCells_upd, fileCells_upd, fileCells_upd, length_upd, length_upd]
    by_cases ha : k = a.file ∧ k < f.length
    · by_cases hb : k = b.file ∧ k < f.length
      · simp only [if_pos ha, if_pos hb]
        rcases h with h | h
        · exact absurd (ha.1.symm.trans hb.1) h
        · exact applyCells_comm c _ _ _ h
      · simp only [if_pos ha, if_neg hb]; exact List.Perm.refl _
    · by_cases hb : k = b.file ∧ k < f.length
      · simp only [if_neg ha, if_pos hb]; exact List.Perm.refl _
      · simp only [if_neg ha, if_neg hb]; exact List.Perm.refl _
  · unfold applyWrite; simp only [meta_upd]

/-- pairwise disjointness of a list of writes -/
def PairwiseDisj (c : Cfg) : List WriteReq → Prop
  | [] => True
  | w :: r => (∀ v ∈ r, Disj c w v) ∧ PairwiseDisj c r

theorem applyAll_equiv (c : Cfg) (ws : List WriteReq) {f g : List FileSt} (h : Equiv f g) :
    Equiv (applyAll c f ws) (applyAll c g ws) := by
  induction ws generalizing f g with
  | nil => exact h
  | cons w r ih => exact ih (applyWrite_equiv c h w)

theorem disj_symm (c : Cfg) {a b : WriteReq} (h : Disj c a b) : Disj c b a := by
  rcases h with h | h | h
  · exact Or.inl (fun e => h e.symm)
  · exact Or.inr (Or.inr h)
  · exact Or.inr (Or.inl h)

theorem pairwise_perm (c : Cfg) {a b : List WriteReq} (p : a.Perm b) (h : PairwiseDisj c a) : PairwiseDisj c b := by
  induction p with
  | nil => trivial
  | cons x _ ih => exact ⟨fun v hv => h.1 v (by rename_i l1 l2 pp; exact pp.mem_iff.mpr hv), ih h.2⟩
  | swap x y l =>
    obtain ⟨h1, h2, h3⟩ := h
    refine ⟨?_, ?_, h3⟩
    · intro v hv
      rcases List.mem_cons.mp hv with e | e
      · subst e; exact disj_symm c (h1 _ (List.mem_cons_self ..))
      · exact h2 v e
    · intro v hv; exact h1 v (List.mem_cons_of_mem _ hv)
  | trans _ _ ih1 ih2 => exact ih2 (ih1 h)

/-- **C16 (write path).** The completed writes of a batch whose ranges are pairwise disjoint leave
the same entries on disk whatever order the kernel completes them in. -/
theorem C16_completion_order_irrelevant (c : Cfg) (files : List FileSt) (ws ws' : List WriteReq)
    (p : ws.Perm ws') (h : PairwiseDisj c ws) : Equiv (applyAll c files ws) (applyAll c files ws') := by
  induction p generalizing files with
  | nil => exact Equiv.refl _
  | cons x _ ih => exact ih (applyWrite c files x) h.2
  | swap x y l =>
    unfold applyAll
    simp only [List.foldl_cons]
    have hd : Disj c y x := h.1 x (List.mem_cons_self ..)
    exact applyAll_equiv c l (applyWrite_comm c files y x hd)
  | trans p1 _ ih1 ih2 => exact (ih1 files h).trans (ih2 files (pairwise_perm c p1 h))

/-- the write requests of a batch plan (`planBatch`'s output) -/
def reqsOf (t : Topic) (plan : List (Blk × Nat × Pay)) : List WriteReq :=
  plan.map fun (b, o, pay) => ⟨b.file, { off := b.off + o, topic := t, pay := pay }⟩

/-- what `writerBatchWrite` does with its plan is `applyAll` of the plan's requests -/
theorem batch_writes_are_applyAll (c : Cfg) (t : Topic) (plan : List (Blk × Nat × Pay)) (files : List FileSt) :
    plan.foldl (fun fs (x : Blk × Nat × Pay) => writeCell c fs x.1 x.2.1 t x.2.2) files = applyAll c files (reqsOf t plan) := by
  induction plan generalizing files with
  | nil => rfl
  | cons x r ih =>
    obtain ⟨b, o, pay⟩ := x
    simp only [List.foldl_cons, reqsOf, List.map_cons, applyAll]
    rw [ih]
    rfl

/-- entries planned back to back into one block never overlap: requests laid out at the prefix
sums of their sizes from any start offset are pairwise disjoint -/
def layout (c : Cfg) (f base : Nat) (t : Topic) : List Pay → Nat → List WriteReq
  | [], _ => []
  | pay :: r, o => ⟨f, { off := base + o, topic := t, pay := pay }⟩ :: layout c f base t r (o + c.metaSz + pay.len)

theorem layout_lo_ge (c : Cfg) (f base : Nat) (t : Topic) (ps : List Pay) (o : Nat) :
    ∀ v ∈ layout c f base t ps o, base + o ≤ v.lo := by
  induction ps generalizing o with
  | nil => intro v hv; cases hv
  | cons pay r ih =>
    intro v hv
    rcases List.mem_cons.mp hv with e | e
    · subst e; exact Nat.le_refl _
    · have := ih _ v e
      omega

theorem C16_plan_ranges_disjoint_in_block (c : Cfg) (f base : Nat) (t : Topic) (ps : List Pay) (o : Nat) :
    PairwiseDisj c (layout c f base t ps o) := by
  induction ps generalizing o with
  | nil => trivial
  | cons pay r ih =>
    refine ⟨?_, ih _⟩
    intro v hv
    have := layout_lo_ge c f base t r _ v hv
    right; left
    show base + o + c.metaSz + pay.len ≤ v.lo
    omega

/-! Non-vacuity: three writes into two blocks of one file, completed in two different orders. -/
def w1 : WriteReq := ⟨0, { off := 0, topic := ⟨0, false⟩, pay := ⟨100, 1⟩ }⟩
def w2 : WriteReq := ⟨0, { off := 356, topic := ⟨0, false⟩, pay := ⟨50, 2⟩ }⟩
def w3 : WriteReq := ⟨0, { off := 4096, topic := ⟨0, false⟩, pay := ⟨7, 3⟩ }⟩
def disk0 : List FileSt := [{ dir := 0, name := 1, cells := [], present := true }]

theorem demo_disj : PairwiseDisj smallCfg [w1, w2, w3] := by
  refine ⟨?_, ?_, ?_, trivial⟩
  · intro v hv
    simp only [List.mem_cons, List.mem_nil_iff, or_false] at hv
    rcases hv with rfl | rfl <;> (right; left; decide)
  · intro v hv
    simp only [List.mem_cons, List.mem_nil_iff, or_false] at hv
    subst hv; right; left; decide
  · intro v hv; cases hv

example : Equiv (applyAll smallCfg disk0 [w1, w2, w3]) (applyAll smallCfg disk0 [w3, w1, w2]) :=
  C16_completion_order_irrelevant smallCfg disk0 _ _
    (((List.Perm.swap w3 w2 []).cons w1).trans (List.Perm.swap w3 w1 [w2])) demo_disj

end WalrusVerif.Props.C16
