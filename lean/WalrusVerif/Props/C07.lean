import WalrusVerif.Lemmas.CrashLemmas
import WalrusVerif.Props.C06
/-!
# C07 — acknowledged appends survive a process crash at any point

Statement: if the process dies at any point, the reopened instance recovers without error.  Each
topic then yields every append that had returned success, in order and byte-identical, followed by
at most the entries of operations still in flight at the crash, and nothing else.

**Partial.**  The crash model (Model/Engine.lean): `kill` = the process dies between two operations;
`crashAt kind n fd op` = it dies inside `op`, immediately before its `n`-th I/O event of the given
kind (hook H1 performs `_exit` at exactly those points on the real engine).  Completed writes
persist (process-crash model of the statement), nothing in memory survives, the index file holds
what had been persisted.  Proved about it:

* `C07_crash_in_append_touches_no_entry` — a process death inside a single append (before its entry
  write, whether or not the append had rotated the block or rolled over to a new file) leaves every
  existing WAL file exactly as it was and adds at most new *empty* files: no acknowledged entry is
  lost, altered or reordered, and nothing of the append in flight is on disk;
* `C07_crash_in_read_touches_no_entry` — the same for a death inside `read_next` / a batch read;
* `C07_kill_touches_no_entry` — and for a death between two operations;
* (C08) what a death inside a *batch* append leaves on disk: a prefix of the batch, see Props/C08.

"The reopened instance then yields exactly those entries" — i.e. that `startup_chore` finds every
entry that is on disk — is decided by the correspondence and the oracle: ~400 histories per quick run
with the process killed inside appends and batches at every entry write (and, on the io_uring path,
before the submission and at the completions), both backends, followed by reopen, counts and a full
drain; oracle: every acknowledged append is delivered, in order, plus at most a prefix of the
operation in flight.  Open findings in whose regions the property is false (acknowledged entries
stored behind an allocated-but-empty block are not recovered): `emptyBlockAllocated`,
`scanStopsAtEmptyBlock`; plus the regions listed under C06.
-/
namespace WalrusVerif.Props.C07
open WalrusVerif WalrusVerif.Eng

/-- a crash inside a single append: old files untouched, at most new empty files -/
theorem C07_crash_in_append_touches_no_entry (c : Cfg) (p : Proc) (fd : Bool) (t : Topic) (pay : Pay)
    (hc : (step c p (.crashAt 0 0 fd (.append t pay))).2 = .crashed) :
    FilesExt p (step c p (.crashAt 0 0 fd (.append t pay))).1 := by
  cases hi : p.inst with
  | none => simp [step, hi, withInst] at hc
  | some i =>
    simp only [step, hi, withInst, (by decide : ¬ (0 : Nat) = 8), if_false] at hc ⊢
    have hf := filesExt_appendForTopic_fault c { p with inst := some { i with idxLog := [] } } { i with idxLog := [] } t pay
    have hn := appendForTopic_ne_crashed c { p with inst := some { i with idxLog := [] } } { i with idxLog := [] } t pay none
    generalize appendForTopic c { p with inst := some { i with idxLog := [] } } { i with idxLog := [] } t pay (some ⟨0, 0⟩) = r at hf hc ⊢
    obtain ⟨p1, i1, o⟩ := r
    simp only at hf
    by_cases ho : o = .err .other
    · subst ho
      simp only [and_self, if_true]
      obtain ⟨e, he, hg⟩ := hf
      exact ⟨e, by rw [files_dieWith]; exact he, hg⟩
    · exfalso
      have hnone : (match (p1, i1, o) with
          | (p1, _, Out.err ErrKind.other) => some p1
          | _ => (none : Option Proc)) = none := by
        cases o with
        | err k => cases k <;> first | rfl | exact absurd rfl ho
        | _ => rfl
      simp only [and_self, if_true, hnone] at hc
      split at hc
      · rename_i hh
        have := hh.symm.trans hnone
        cases this
      · split at hc
        · rename_i hh; rcases hh.1 with h | h <;> cases h
        · exact hn hc

/-- a crash inside a read leaves every WAL file untouched -/
theorem C07_crash_in_read_touches_no_entry (c : Cfg) (p : Proc) (kind n : Nat) (fd : Bool) (t : Topic)
    (cp : Bool) (m : Nat) (st : Option Nat) :
    (step c p (.crashAt kind n fd (.next t cp))).1.files = p.files ∧
    (step c p (.crashAt kind n fd (.bread t m cp st))).1.files = p.files := by
  constructor
  · cases hi : p.inst with
    | none => simp [step, hi, withInst]
    | some i =>
      simp only [step, hi, withInst]
      repeat' split
      all_goals first
        | (rw [files_dieWith]; simp [files_readNext])
        | simp [files_readNext]
  · cases hi : p.inst with
    | none => simp [step, hi, withInst]
    | some i =>
      simp only [step, hi, withInst]
      repeat' split
      all_goals first
        | (rw [files_dieWith]; simp [files_batchRead])
        | simp [files_batchRead]

/-- a process death between two operations leaves every WAL file untouched -/
theorem C07_kill_touches_no_entry (c : Cfg) (p : Proc) : (step c p .kill).1.files = p.files := by
  simp only [step, killProc, abandonInst]
  split <;> rfl

/-! Non-vacuity: an append that rotates the block is killed before its write; after the restart the
topic holds exactly the acknowledged entries, a later append is delivered after them. -/
example : Eng.run smallCfg
      [.clock 1700000000000, .open_ .strict, .append ⟨0, false⟩ ⟨3000, 1⟩, .append ⟨0, false⟩ ⟨500, 2⟩,
       .crashAt 0 0 true (.append ⟨0, false⟩ ⟨2000, 3⟩), .clock 1700000001000, .open_ .strict, .count ⟨0, false⟩,
       .append ⟨0, false⟩ ⟨7, 4⟩, .bread ⟨0, false⟩ 99999 true none] =
    [.ok, .ok, .ok, .ok, .crashed, .ok, .ok, .num 2, .ok,
     .entries [(⟨3000, 1⟩, 0), (⟨500, 2⟩, 0), (⟨7, 4⟩, 0)]] := by decide +kernel

/-! ### together with the recovery theorem of C06 -/

theorem fileCells_filesExt (p p' : Proc) (h : FilesExt p p') (f : Nat) (hf : f < p.files.length) :
    fileCells p'.files f = fileCells p.files f := by
  obtain ⟨extra, he, _⟩ := h
  unfold fileCells
  rw [he, List.getElem?_append_left hf]

open WalrusVerif.Props.C06 in
/-- **Acknowledged friendly appends survive a process death inside the next append** (storage-level model).  After
any sequence of successful single-entry appends as in `C06_friendly_appends_are_recovered`, let the process die
inside a further append, before its entry write: the recovery scan of the file still registers blocks that hold,
topic by topic and in order, exactly the acknowledged entries - none lost, none of the append in flight. -/
theorem C07_friendly_appends_survive_crash_in_append (c : Cfg) (hc : AEng.CfgOK c) (p : Proc) (i : Inst) (f : Nat)
    (hinit : DiskInv c p i f []) (ops : List (Topic × Pay)) (hf : Friendly c ops)
    (hroom : ops.length * c.blockSize ≤ c.fileSize) (fd : Bool) (t : Topic) (pay : Pay)
    (hcr : (step c { (appendAll c p i ops).1 with inst := some (appendAll c p i ops).2 }
        (.crashAt 0 0 fd (.append t pay))).2 = .crashed) (s : ScanSt) :
    ∃ L : List LBlock, (∀ t', entriesOf t' L = (ops.filter (fun x => x.1 = t')).map (·.2)) ∧
      ∀ fuel, L.length < fuel →
        scanFile c f (fileCells (step c { (appendAll c p i ops).1 with inst := some (appendAll c p i ops).2 }
          (.crashAt 0 0 fd (.append t pay))).1.files f) fuel 0 s = L.foldl (blockStep c f) s := by
  obtain ⟨L, hent, hscan⟩ := C06_friendly_appends_are_recovered c hc p i f hinit ops hf hroom s
  have hext := C07_crash_in_append_touches_no_entry c
    { (appendAll c p i ops).1 with inst := some (appendAll c p i ops).2 } fd t pay hcr
  obtain ⟨Ld, hD, _, _⟩ := diskInv_appendAll c hc f ops p i [] hinit hf (by simpa using hroom)
  have hcells := fileCells_filesExt _ _ hext f (by exact hD.inrange)
  refine ⟨L, hent, ?_⟩
  intro fuel hfuel
  rw [hcells]
  exact hscan fuel hfuel

open WalrusVerif.Props.C06 in
/-- the hypotheses are met: two appends on a fresh file, then a death inside a third -/
example : (step smallCfg
    { (appendAll smallCfg { files := [{ dir := 0, name := 1, cells := [], present := true }] } {}
        [(⟨0, false⟩, ⟨100, 1⟩), (⟨1, false⟩, ⟨200, 2⟩)]).1 with
      inst := some (appendAll smallCfg { files := [{ dir := 0, name := 1, cells := [], present := true }] } {}
        [(⟨0, false⟩, ⟨100, 1⟩), (⟨1, false⟩, ⟨200, 2⟩)]).2 }
    (.crashAt 0 0 true (.append ⟨0, false⟩ ⟨10, 9⟩))).2 = .crashed := by decide +kernel

end WalrusVerif.Props.C07
