import WalrusVerif.Lemmas.AEngStep
import WalrusVerif.Props.C01
import WalrusVerif.Model.Quirks
/-!
# C04 — rejected or failed appends leave no trace; batches are all-or-nothing

Statement: an append or batch append that returns an error never makes any of its entries readable,
now or after a restart.  It also does not change which entries of earlier or later successful
appends are readable, or their order.  A successful batch becomes visible as one contiguous run:
no reader, concurrent or later, ever observes only part of a batch.

**Partial.**  Proved:

* `C04_rejected_append_keeps_topic`, `C04_rejected_batch_keeps_topic` (entry-level model, every
  reachable state): an append / batch append that returns an error — over the entry cap, over the
  byte limit, topic name too long for the header, an entry the allocator refuses, and the batch
  that is already empty returns ok — leaves the topic's log, its consumed index and its count
  exactly as they were, and the state stays inside the invariant all later reads rely on.
* `C04_rejected_invisible_in_histories`: in every history (any topics, both read APIs, rejected
  operations interleaved anywhere) the reads and counts are those of the FIFO of the *successful*
  appends only — rejected operations contribute nothing and reorder nothing.
* `C04_batch_contiguous`: a successful batch extends the log by exactly its entries, in order, as
  one contiguous run (later reads are prefixes of the log: no sequential reader sees part of it).
* `C04_failed_batch_in_block` (storage-level model, injected I/O failure — a failed or short
  io_uring completion, a failed `Block::write`, a failed submission): when the planning of the
  batch did not leave the writer's block, the failed batch leaves writer, reader chains, index,
  counts and trackers of the instance exactly as they were.
* `C04_counterexample_rollbackKeepsNewBlock` (open finding): when the planning **did** rotate the
  block, the rollback restores the offset but neither the block switch nor the seal (whose `used`
  covers the zeroed entries): entries of later successful appends are never delivered.  The same
  program is corpus/rollbackKeepsNewBlock.prog and is replayed on the real engine on every run.

Not proved here: the clause "or after a restart" (decided by the restart histories of the
correspondence run; a rejected *first* operation on a topic allocates the topic's block — open
findings `emptyBlockAllocated` / `scanStopsAtEmptyBlock`); concurrent readers (C05); an append larger
than `MAX_ALLOC` (finding `sealThenAllocFail`, repaired since: such an entry is now rejected before any state changes).
-/
namespace WalrusVerif.Props.C04
open WalrusVerif WalrusVerif.Eng WalrusVerif.AEng

/-- a rejected single append leaves log, consumed index, count and invariant untouched -/
theorem C04_rejected_append_keeps_topic (c : Cfg) (hc : CfgOK c) (n : Nat) (a : ATopic) (k : Nat) (h : TInv c n a k)
    (w : ABlk) (hw : a.writer = some w) (long : Bool) (p : Pay) (hl : raw c p ≤ c.maxAlloc)
    (herr : (AEng.write c n a w long p).2.2 ≠ none) :
    log (AEng.write c n a w long p).2.1 = log a ∧ (AEng.write c n a w long p).2.1.count = a.count ∧
      TInv c (AEng.write c n a w long p).1 (AEng.write c n a w long p).2.1 k := by
  obtain ⟨hi, _, hcnt, _, he⟩ := write_spec c hc.meta_pos n a k h w hw long p hl
  exact ⟨he herr, hcnt, hi⟩

/-- a rejected batch append leaves log, consumed index, count and invariant untouched -/
theorem C04_rejected_batch_keeps_topic (c : Cfg) (hc : CfgOK c) (n : Nat) (a : ATopic) (k : Nat) (h : TInv c n a k)
    (w : ABlk) (hw : a.writer = some w) (long : Bool) (ps : List Pay) (hl : ∀ p ∈ ps, raw c p ≤ c.maxAlloc)
    (herr : (AEng.batchWrite c n a w long ps).2.2 ≠ none) :
    log (AEng.batchWrite c n a w long ps).2.1 = log a ∧ (AEng.batchWrite c n a w long ps).2.1.count = a.count ∧
      TInv c (AEng.batchWrite c n a w long ps).1 (AEng.batchWrite c n a w long ps).2.1 k := by
  obtain ⟨hi, _, hcnt, _, he⟩ := batchWrite_spec c hc.bs_le hc.bs_pos n a k h w hw long ps hl
  exact ⟨he herr, hcnt, hi⟩

/-- a successful batch extends the log by exactly its entries, as one contiguous run -/
theorem C04_batch_contiguous (c : Cfg) (hc : CfgOK c) (n : Nat) (a : ATopic) (k : Nat) (h : TInv c n a k)
    (w : ABlk) (hw : a.writer = some w) (long : Bool) (ps : List Pay) (hl : ∀ p ∈ ps, raw c p ≤ c.maxAlloc)
    (hok : (AEng.batchWrite c n a w long ps).2.2 = none) :
    log (AEng.batchWrite c n a w long ps).2.1 = log a ++ ps := by
  obtain ⟨_, _, _, ho, _⟩ := batchWrite_spec c hc.bs_le hc.bs_pos n a k h w hw long ps hl
  exact ho hok

/-- the same three statements for entries of ANY size (since the fix that rejects an entry larger than `MAX_ALLOC`
before any state changes): a rejected append or batch - whatever the reason, including "too large for any block" -
leaves log, consumed index, count and invariant untouched, and a successful batch is one contiguous run -/
theorem C04_rejected_append_keeps_topic_any_size (c : Cfg) (hc : CfgOK c) (n : Nat) (a : ATopic) (k : Nat) (h : TInv c n a k)
    (w : ABlk) (hw : a.writer = some w) (long : Bool) (p : Pay)
    (herr : (AEng.write c n a w long p).2.2 ≠ none) :
    log (AEng.write c n a w long p).2.1 = log a ∧ (AEng.write c n a w long p).2.1.count = a.count ∧
      TInv c (AEng.write c n a w long p).1 (AEng.write c n a w long p).2.1 k := by
  obtain ⟨hi, _, hcnt, _, he⟩ := write_spec' c hc.meta_pos n a k h w hw long p
  exact ⟨he herr, hcnt, hi⟩

theorem C04_rejected_batch_keeps_topic_any_size (c : Cfg) (hc : CfgOK c) (n : Nat) (a : ATopic) (k : Nat) (h : TInv c n a k)
    (w : ABlk) (hw : a.writer = some w) (long : Bool) (ps : List Pay)
    (herr : (AEng.batchWrite c n a w long ps).2.2 ≠ none) :
    log (AEng.batchWrite c n a w long ps).2.1 = log a ∧ (AEng.batchWrite c n a w long ps).2.1.count = a.count ∧
      TInv c (AEng.batchWrite c n a w long ps).1 (AEng.batchWrite c n a w long ps).2.1 k := by
  obtain ⟨hi, _, hcnt, _, he⟩ := batchWrite_spec' c hc.bs_le hc.bs_pos n a k h w hw long ps
  exact ⟨he herr, hcnt, hi⟩

theorem C04_batch_contiguous_any_size (c : Cfg) (hc : CfgOK c) (n : Nat) (a : ATopic) (k : Nat) (h : TInv c n a k)
    (w : ABlk) (hw : a.writer = some w) (long : Bool) (ps : List Pay)
    (hok : (AEng.batchWrite c n a w long ps).2.2 = none) :
    log (AEng.batchWrite c n a w long ps).2.1 = log a ++ ps := by
  obtain ⟨_, _, _, ho, _⟩ := batchWrite_spec' c hc.bs_le hc.bs_pos n a k h w hw long ps
  exact ho hok

/-- an oversized entry is rejected (the hypothesis `herr` above is met) and nothing at all changes -/
example (c : Cfg) (n : Nat) (a : ATopic) (w : ABlk) (long : Bool) (p : Pay) (hbig : raw c p > c.maxAlloc) :
    AEng.write c n a w long p = (n, a, some .invalidInput) := by
  unfold AEng.write; simp [hbig]

/-- the history with its rejected appends and batches removed -/
def successfulOnly : List (AOp × Out) → List (AOp × Out)
  | [] => []
  | (.append _ _, .err _) :: r => successfulOnly r
  | (.batch _ _, .err _) :: r => successfulOnly r
  | x :: r => x :: successfulOnly r

/-- the specification never looks at a rejected operation: a history is accepted iff the history
without its rejected appends is -/
theorem accepts_successfulOnly (σ : Spec) (h : List (AOp × Out)) : accepts σ h ↔ accepts σ (successfulOnly h) := by
  induction h generalizing σ with
  | nil => exact Iff.rfl
  | cons x r ih =>
    obtain ⟨op, out⟩ := x
    cases op with
    | append t p =>
      cases out <;> simp only [successfulOnly, accepts] <;> first | exact ih _ | exact Iff.rfl
    | batch t ps =>
      cases out <;> simp only [successfulOnly, accepts] <;> first | exact ih _ | exact Iff.rfl
    | next t cp =>
      cases out <;> simp only [successfulOnly, accepts] <;> first | exact Iff.rfl | (constructor <;> (intro ⟨a, b⟩; exact ⟨a, (ih _).1 b⟩)) | skip
      all_goals (constructor <;> intro ⟨a, b⟩)
      · exact ⟨a, (ih _).1 b⟩
      · exact ⟨a, (ih _).2 b⟩
    | bread t m cp st =>
      cases st with
      | none =>
        cases out <;> simp only [successfulOnly, accepts] <;> try exact Iff.rfl
        constructor <;> intro ⟨a, b⟩
        · exact ⟨a, (ih _).1 b⟩
        · exact ⟨a, (ih _).2 b⟩
      | some q =>
        cases out <;> simp only [successfulOnly, accepts] <;> first | exact ih _ | exact Iff.rfl
    | count t =>
      cases out <;> simp only [successfulOnly, accepts] <;> try exact Iff.rfl
      constructor <;> intro ⟨a, b⟩
      · exact ⟨a, (ih _).1 b⟩
      · exact ⟨a, (ih _).2 b⟩

/-- **C04 (histories).** Every history of the engine is a FIFO history of its *successful* appends
alone: what the rejected operations offered is never readable and changes nothing else. -/
theorem C04_rejected_invisible_in_histories (c : Cfg) (hc : CfgOK c) (ops : List AOp) (hl : ∀ op ∈ ops, op.WithinLimits c) :
    accepts Spec.init (successfulOnly (ops.zip (AEng.run c ops))) :=
  (accepts_successfulOnly _ _).1 (Props.C01.C01_refines c hc ops hl)

/-! ### injected I/O failures (storage-level model) -/

/-- planning a batch that fits the writer's current block touches nothing -/
theorem planBatch_fits (c : Cfg) (t : Topic) (ps : List Pay) (p : Proc) (i : Inst) (b : Blk) (off : Nat)
    (acc : List (Blk × Nat × Pay)) (hfit : off + (ps.map fun x => c.metaSz + x.len).sum ≤ b.limit) :
    ∃ plan, planBatch c t ps p i b off acc = (p, i, b, some (off + (ps.map fun x => c.metaSz + x.len).sum, plan)) ∧
      ∀ x ∈ plan, x ∈ acc ∨ (x.1 = b ∧ off ≤ x.2.1) := by
  induction ps generalizing off acc with
  | nil => exact ⟨acc.reverse, by simp [planBatch], fun x hx => Or.inl (by simpa using hx)⟩
  | cons pay rest ih =>
    simp only [List.map_cons, List.sum_cons] at hfit
    have h0 : (c.metaSz + pay.len) + off ≤ b.limit := by omega
    have h1 : b.limit - off ≥ c.metaSz + pay.len := Nat.le_sub_of_add_le h0
    have h2 : off + (c.metaSz + pay.len) + (List.map (fun x => c.metaSz + x.len) rest).sum ≤ b.limit := by omega
    unfold planBatch
    simp only [h1, if_true]
    obtain ⟨plan, hp, hmem⟩ := ih (off + (c.metaSz + pay.len)) ((b, off, pay) :: acc) h2
    refine ⟨plan, ?_, ?_⟩
    · rw [hp]; simp only [List.map_cons, List.sum_cons, Nat.add_assoc]
    · intro x hx
      rcases hmem x hx with h | h
      · rcases List.mem_cons.mp h with e | e
        · right; subst e; exact ⟨rfl, Nat.le_refl _⟩
        · left; exact e
      · right; exact ⟨h.1, by omega⟩
/-- **C04 (failed batch inside one block).** A batch that fits the writer's current block and fails
by an injected I/O fault leaves the instance's writer, reader chains, index, counts, markers and
the process-global trackers exactly as they were; on disk only headers at or beyond the committed
offset of that block are zeroed. -/
theorem C04_failed_batch_in_block (c : Cfg) (p : Proc) (i : Inst) (t : Topic) (w : Writer) (ps : List Pay) (flt : Fault)
    (hw : i.writers.get? t = some w)
    (hfit : w.off + (ps.map fun x => c.metaSz + x.len).sum ≤ w.blk.limit)
    (hfail : (writerBatchWrite c p i t w ps (some flt)).2.2 = some .other) :
    let r := writerBatchWrite c p i t w ps (some flt)
    (∀ t', r.2.1.writers.get? t' = i.writers.get? t') ∧ r.2.1.readers = i.readers ∧ r.2.1.index = i.index ∧
      r.2.1.counts = i.counts ∧ r.1.trk = p.trk ∧ r.1.dirs = p.dirs := by
  obtain ⟨plan, hp, hmem⟩ := planBatch_fits c t ps p i w.blk w.off [] hfit
  have hids : ∀ x ∈ plan, x.1.id = w.blk.id := by
    intro x hx
    rcases hmem x hx with h | h
    · cases h
    · rw [h.1]
  unfold writerBatchWrite at hfail ⊢
  by_cases h0 : (decide (ps.length ≤ c.cap) && decide ((ps.map fun x => c.metaSz + x.len).sum ≤ c.maxBatchBytes) &&
      ps.any (fun x => decide (c.metaSz + x.len > c.maxAlloc))) = true
  · rw [if_pos h0] at hfail; simp at hfail
  rw [if_neg h0] at hfail ⊢
  unfold writerBatchWriteCore at hfail ⊢
  by_cases h1 : ps.length > c.cap
  · simp [h1] at hfail
  · by_cases h2 : (ps.map fun x => c.metaSz + x.len).sum > c.maxBatchBytes
    · simp [h1, h2] at hfail
    · by_cases h3 : ps.isEmpty = true
      · simp [h1, h2, h3] at hfail
      · by_cases h4 : t.long = true
        · simp [h1, h2, h3, h4] at hfail
        · by_cases h5 : w.batching = true
          · simp [h1, h2, h3, h4, h5] at hfail
          · simp only [h1, h2, h3, h4, h5, if_false, hp, Bool.false_eq_true] at hfail ⊢
            by_cases h6 : batchFails (some flt) plan.length = true
            · simp only [h6, if_true]
              have hnew : ((plan.map fun (x : Blk × Nat × Pay) => x.1.id).eraseDups).filter (· ≠ w.blk.id) = [] := by
                apply List.filter_eq_nil_iff.mpr
                intro id hid
                have : id ∈ plan.map fun (x : Blk × Nat × Pay) => x.1.id := List.mem_eraseDups.mp hid
                obtain ⟨x, hx, e⟩ := List.mem_map.mp this
                simp [← e, hids x hx]
              refine ⟨?_, trivial, trivial, trivial, ?_, trivial⟩
              · intro t'
                by_cases e : t = t'
                · subst e
                  rw [AMap.get?_insert_self, hw]
                  cases w; simp_all
                · rw [AMap.get?_insert_ne _ _ _ _ e]
              · rw [hnew]; rfl
            · simp [h6] at hfail

/-- **Open finding `rollbackKeepsNewBlock`.** A batch that rotated the block while planning and then
fails: the consumer is stuck at the zeroed header inside the sealed block; the entry of the next
*successful* append (`10:4`) is never delivered, `count` stays at 1, a batch read returns nothing.
(small geometry; corpus/rollbackKeepsNewBlock.prog replays the same program on the real engine) -/
theorem C04_counterexample_rollbackKeepsNewBlock :
    Eng.run smallCfg
      [.open_ .strict, .append ⟨0, false⟩ ⟨3000, 1⟩, .batchF ⟨0, false⟩ [⟨500, 2⟩, ⟨2000, 3⟩] ⟨0, 1⟩,
       .append ⟨0, false⟩ ⟨10, 4⟩, .next ⟨0, false⟩ true, .next ⟨0, false⟩ true, .count ⟨0, false⟩,
       .bread ⟨0, false⟩ 99999 true none] =
    [.ok, .ok, .err .other, .ok, .entry (some ⟨3000, 1⟩), .entry none, .num 1, .entries []] := by
  decide +kernel

/-! Non-vacuity of `C04_failed_batch_in_block`: a faulted batch inside one block; afterwards the
log, the count and all later reads are those of the successful appends only. -/
example : Eng.run smallCfg
      [.open_ .strict, .append ⟨0, false⟩ ⟨100, 1⟩, .batchF ⟨0, false⟩ [⟨50, 2⟩, ⟨60, 3⟩] ⟨0, 1⟩,
       .append ⟨0, false⟩ ⟨10, 4⟩, .count ⟨0, false⟩, .bread ⟨0, false⟩ 99999 true none] =
    [.ok, .ok, .err .other, .ok, .num 2, .entries [(⟨100, 1⟩, 0), (⟨10, 4⟩, 0)]] := by decide +kernel

end WalrusVerif.Props.C04
