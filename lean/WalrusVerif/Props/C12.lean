import WalrusVerif.Model.Quirks
import WalrusVerif.Lemmas.PeekLemmas
/-!
# C12 — file reclamation never removes entries that are still unconsumed

Statement: the background reclaimer deletes a WAL file only when every entry stored in it has been
durably consumed by its topic's consumer.  Consequently reclamation never makes an unconsumed entry
unreadable or skipped, in the running process or after a restart, whatever mix of peeks, consuming
reads, empty polls and restarts happened.

**Partial.**  The reclamation decision is the bookkeeping of `allocator.rs`
(`BlockStateTracker` / `FileStateTracker` / `flush_check`), modelled in Model/Alloc.lean and carried
through every operation of the storage-level model `Eng`.  Proved about it:

* `C12_enqueue_only_when_counters_say_so` — `flush_check` queues a file for deletion only if the
  file is fully allocated, no block of it is locked by a writer, and its checkpoint counter has
  reached its block counter;
* `C12_checkpoint_counts_once` — marking a block consumed is idempotent: repeated polls at a block
  end (the defect repaired by fdf7990: every poll incremented the counter) change nothing after
  the first;
* `C12_peeks_do_not_mark` — a batch read with checkpoint=false, cursor-based or offset-addressed,
  leaves the trackers and the deletion queue untouched, in every state;
* `C12_reclaim_deletes_only_queued` — the reclaimer's pass removes exactly the queued files.

What ties "the counters say so" to "every entry of the file is consumed" — which calls mark which
block at which cursor position, over all histories — is decided by the correspondence: the tracker
tuples of every WAL file (`trks`), the reclaimer's victims (`reclaim`) and the directory listing
(`ls`) of the real engine are compared with the model's after ~14% of the operations of
reclamation-heavy histories (4-block files, three topics, peeks, offset reads, empty polls,
restarts), and the FIFO oracle checks that nothing unconsumed disappears.

False on this tree for the clause "or after a restart": `C12_counterexample_cursorsNotStableAcrossDeletion`
(open finding; corpus/cursorsNotStableAcrossDeletion.prog replays it on the real engine).
-/
namespace WalrusVerif.Props.C12
open WalrusVerif WalrusVerif.Eng

/-- `flush_check` queues `f` only under its four conditions -/
theorem C12_enqueue_only_when_counters_say_so (t : Trackers) (f : Nat)
    (h : (t.flushCheck f).pendingDelete ≠ t.pendingDelete) :
    ∃ st, t.files.get? f = some st ∧ st.fully = true ∧ st.locked = 0 ∧ 0 < st.total ∧ st.total ≤ st.ckpt := by
  unfold Trackers.flushCheck at h
  cases hg : t.files.get? f with
  | none => simp [hg] at h
  | some st =>
    simp only [hg] at h
    by_cases hc : (st.fully && st.locked == 0 && decide (st.total > 0) && decide (st.ckpt ≥ st.total)) = true
    · simp only [Bool.and_eq_true, beq_iff_eq, decide_eq_true_eq] at hc
      exact ⟨st, rfl, hc.1.1.1, hc.1.1.2, hc.1.2, hc.2⟩
    · simp [hc] at h

/-- a block counts as consumed once: marking it again changes nothing -/
theorem C12_checkpoint_counts_once (t : Trackers) (id : Nat) :
    (t.setCheckpointed id).setCheckpointed id = t.setCheckpointed id := by
  unfold Trackers.setCheckpointed
  cases h : t.blocks.get? id with
  | none => simp [h]
  | some v =>
    obtain ⟨f, ck⟩ := v
    cases ck with
    | true => simp [h]
    | false =>
      simp only [Bool.false_eq_true, if_false]
      have : (Trackers.flushCheck (Trackers.updFile { t with blocks := t.blocks.insert id (f, true) } f
          fun st => { st with ckpt := wrap16 (st.ckpt + 1) }) f).blocks.get? id = some (f, true) := by
        unfold Trackers.flushCheck Trackers.updFile
        repeat' split
        all_goals simp
      simp [this]

/-- non-consuming batch reads never touch the reclamation bookkeeping -/
theorem C12_peeks_do_not_mark (c : Cfg) (p : Proc) (i : Inst) (t : Topic) (m : Nat) (start : Option Nat) :
    (Eng.batchRead c p i t m false start).1.trk = p.trk := by
  unfold Eng.batchRead
  cases start with
  | some r => simp only; split <;> rfl
  | none =>
    simp only
    have : (Eng.statefulPlan c p i t m false).p.trk = p.trk := by
      unfold Eng.statefulPlan
      simp only [planLoop_trk_unmarked]
    split <;> exact this

/-- the reclaimer removes exactly the queued files and empties the queue -/
theorem C12_reclaim_deletes_only_queued (p : Proc) (k : Nat) (fs : FileSt) (h : p.files[k]? = some fs) :
    ((reclaim p).1.files[k]?).map (·.present) =
      some (if p.trk.pendingDelete.eraseDups.contains k then false else fs.present) ∧
    (reclaim p).1.trk.pendingDelete = [] := by
  unfold reclaim
  simp only [List.getElem?_mapIdx, h, Option.map_some]
  refine ⟨?_, trivial⟩
  split <;> rfl

/-- **Open finding `cursorsNotStableAcrossDeletion`.** Five entries fill five blocks (four in the
first file); the consumer reads all five; the first file is fully allocated, unlocked and fully
checkpointed, the reclaimer deletes it — correctly.  Two more entries are appended.  After a restart
the scan numbers the surviving block 1, the persisted tail cursor `(block 5, …)` is not found: the
count is 3 instead of 2 and entry 5 is delivered again. -/
theorem C12_counterexample_cursorsNotStableAcrossDeletion :
    (Eng.run smallCfg
      [.clock 1700000000000, .open_ .strict,
       .append ⟨0, false⟩ ⟨3800, 1⟩, .append ⟨0, false⟩ ⟨3800, 2⟩, .append ⟨0, false⟩ ⟨3800, 3⟩,
       .append ⟨0, false⟩ ⟨3800, 4⟩, .append ⟨0, false⟩ ⟨3800, 5⟩,
       .next ⟨0, false⟩ true, .next ⟨0, false⟩ true, .next ⟨0, false⟩ true, .next ⟨0, false⟩ true, .next ⟨0, false⟩ true,
       .reclaim, .append ⟨0, false⟩ ⟨100, 6⟩, .append ⟨0, false⟩ ⟨100, 7⟩, .count ⟨0, false⟩,
       .restart, .clock 1700000050000, .open_ .strict, .count ⟨0, false⟩, .next ⟨0, false⟩ true]).drop 12 =
    [.names [1700000000000], .ok, .ok, .num 2, .ok, .ok, .ok, .num 3, .entry (some ⟨3800, 5⟩)] := by
  decide +kernel

end WalrusVerif.Props.C12
