import WalrusVerif.Lemmas.WalKeyLemmas
/-!
# C25 — segment storage keys map one-to-one to (topic, segment)

Statement: every (topic name, segment number) pair maps to a distinct storage key, and decoding
that key yields exactly the same topic name and segment number.

Quantifier: **all** topic strings (`List Char`, including ones containing `_s_`, `t_`, digits,
empty) and all `u64` segment numbers.  Format pieces (`t_`, `_s_`) are regenerated from
`controller/types.rs` on every run; the proofs below re-check against them.
-/
namespace WalrusVerif.Props.C25
open WalrusVerif WalrusVerif.WalKey

/-- Round trip, for every topic string and every `u64` segment. -/
theorem C25_roundtrip (topic : List Char) (seg : Nat) (h : seg < 2 ^ 64) :
    parseWalKey (walKey topic seg) = some (topic, seg) := by
  have e1 : Consts.WAL_KEY_FMT_PREFIX = Consts.WAL_KEY_PARSE_PREFIX := by decide
  have e2 : Consts.WAL_KEY_FMT_SEP = sep := by decide
  have e3 : Consts.WAL_KEY_PARSE_SEP = sep := by decide
  unfold parseWalKey walKey
  rw [e1, e2, e3, rsplit_last _ _ (fun c hc => (render_digits seg c hc).2.1)]
  simp only [stripPrefix_append, parseU64_render seg h]

/-- Distinct pairs give distinct keys. -/
theorem C25_injective (t₁ t₂ : List Char) (n₁ n₂ : Nat) (h₁ : n₁ < 2 ^ 64) (h₂ : n₂ < 2 ^ 64)
    (h : walKey t₁ n₁ = walKey t₂ n₂) : t₁ = t₂ ∧ n₁ = n₂ := by
  have a := C25_roundtrip t₁ n₁ h₁
  have b := C25_roundtrip t₂ n₂ h₂
  rw [h, b] at a
  simpa [eq_comm] using a

/-! Non-vacuity: topics that contain the separators themselves (instances of the theorem; the
rendered key of the last one is evaluated). -/
example : parseWalKey (walKey ['a', '_', 's', '_', '7'] 3) = some (['a', '_', 's', '_', '7'], 3) :=
  C25_roundtrip _ _ (by decide)
example : parseWalKey (walKey ['t', '_'] 0) = some (['t', '_'], 0) := C25_roundtrip _ _ (by decide)
example : parseWalKey (walKey [] 18446744073709551615) = some ([], 18446744073709551615) :=
  C25_roundtrip [] _ (by decide)
example : walKey ['x'] 12 = ['t', '_', 'x', '_', 's', '_', '1', '2'] := by
  simp [walKey, render, decDigit]; decide
/-- The parser is not injective in the other direction (leading `+`/zeros are accepted), which the
property does not ask for. -/
example : parseU64 ['+', '0', '7'] = some 7 := by decide

end WalrusVerif.Props.C25
