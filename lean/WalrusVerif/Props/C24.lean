import WalrusVerif.Lemmas.FrameLemmas
import WalrusVerif.Lemmas.AMapLemmas
/-!
# C24 — client protocol stays frame-synchronised and round-trips payloads

Statement: for any byte stream sent by a client, every length-prefixed frame gets exactly one
response, in order, and a malformed frame never causes later bytes to be read as a different
frame.  The malformed frames covered are zero or oversized lengths, invalid UTF-8 and unknown or
incomplete commands.  A payload PUT and then returned by GET comes back byte-identical (the
command line's trailing whitespace is not part of the payload).

Model: `Frame.serve` (`client.rs::handle_connection` after the `fix:` commit that drains the body
of an oversized frame), `Frame.handleCommand`.  `dec` is the UTF-8 decoder and is arbitrary in
the synchronisation theorems; the backend is a per-topic FIFO.
-/
namespace WalrusVerif.Props.C24
open WalrusVerif WalrusVerif.Frame

/-- Synchronisation: on **any** concatenation of frames — whatever their announced lengths
(zero, oversized up to `u32::MAX`) and bodies (invalid UTF-8, unknown or incomplete commands) —
the server sends exactly one response per frame, in order, and response `k` is computed from frame
`k`'s own bytes (and the backend state left by the frames before it). -/
theorem C24_sync (dec : Bytes → Option Str) (frames : List Fr) (b : Backend)
    (hwf : ∀ f ∈ frames, f.WF) :
    serve dec ((frames.flatMap Fr.encode).length) (frames.flatMap Fr.encode) b = respondAll dec b frames := by
  have hlen : frames.length ≤ (frames.flatMap Fr.encode).length := by
    clear hwf
    induction frames with
    | nil => simp
    | cons f r ih => simp only [List.flatMap_cons, List.length_append, List.length_cons, Fr.encode, enc32]; omega
  have h := serve_frames dec frames [] b _ hwf hlen
  simp only [List.append_nil] at h
  rw [h]
  have : ∀ fuel bk, serve dec fuel [] bk = [] := by
    intro fuel bk; cases fuel <;> simp [serve]
  simp [this]

theorem C24_one_response_per_frame (dec : Bytes → Option Str) (frames : List Fr) (b : Backend) :
    (respondAll dec b frames).length = frames.length := by
  induction frames generalizing b with
  | nil => rfl
  | cons f r ih => simp [respondAll, ih]

/-- A frame with a zero or oversized length is answered with the length error and does not
change the backend; together with `C24_sync` its body is never interpreted. -/
theorem C24_bad_length (dec : Bytes → Option Str) (b : Backend) (n : Nat) (body : Bytes)
    (h : n = 0 ∨ n > 65536) : respond dec b n body = (b, lit "ERR invalid frame length") := by
  have : Consts.MAX_FRAME_LEN = 65536 := by decide
  unfold respond
  rw [this]
  simp [h]

theorem C24_bad_utf8 (dec : Bytes → Option Str) (b : Backend) (n : Nat) (body : Bytes)
    (hn : ¬ (n = 0 ∨ n > Consts.MAX_FRAME_LEN)) (h : dec body = none) :
    respond dec b n body = (b, lit "ERR invalid utf-8") := by
  simp [respond, hn, h]

/-- An unknown command is answered with an error and leaves the backend untouched. -/
theorem C24_unknown_command (b : Backend) (line : Str)
    (h : (splitSpace line).1 ≠ kREGISTER ∧ (splitSpace line).1 ≠ kPUT ∧ (splitSpace line).1 ≠ kGET ∧
         (splitSpace line).1 ≠ kSTATE ∧ (splitSpace line).1 ≠ kMETRICS) :
    handleCommand b line = (b, lit "ERR unknown command") := by
  unfold handleCommand
  obtain ⟨h1, h2, h3, h4, h5⟩ := h
  simp [h1, h2, h3, h4, h5]

/-- Round trip at the command level: `PUT t p` then `GET t` on a topic with nothing pending
returns `OK p` with `p` unchanged, for every topic without a space and every payload that is
non-empty and does not end in whitespace (inner and leading whitespace is preserved). -/
theorem C24_roundtrip (b : Backend) (t p : Str) (ht : ∀ c ∈ t, c ≠ ' ')
    (hq : (b.queues.get? t).getD [] = []) :
    let line1 := kPUT ++ ' ' :: (t ++ ' ' :: p)
    let line2 := kGET ++ ' ' :: t
    let (b1, r1) := handleCommand b line1
    r1 = lit "OK" ∧ (handleCommand b1 line2).2 = okPrefix ++ p := by
  intro line1 line2
  have hput : ∀ c ∈ kPUT, c ≠ ' ' := by decide
  have hget : ∀ c ∈ kGET, c ≠ ' ' := by decide
  have e1 : splitSpace line1 = (kPUT, some (t ++ ' ' :: p)) := splitSpace_at kPUT _ hput
  have e2 : splitSpace (t ++ ' ' :: p) = (t, some p) := splitSpace_at t p ht
  have e3 : splitSpace line2 = (kGET, some t) := splitSpace_at kGET _ hget
  have e4 : splitSpace t = (t, none) := splitSpace_nospace t ht
  have n1 : kPUT ≠ kREGISTER := by decide
  have n2 : kGET ≠ kREGISTER := by decide
  have n3 : kGET ≠ kPUT := by decide
  simp only [handleCommand, e1, e2, n1, if_false, if_true]
  refine ⟨trivial, ?_⟩
  simp only [e3, e4, n2, n3, if_false, if_true, Backend.get, Backend.put, hq, List.nil_append]
  rw [AMap.get?_insert_self]

/-- The command line's trailing whitespace is not part of the payload, and a payload that does
not end in whitespace survives `trim_end` unchanged. -/
theorem C24_trim_preserves (t p : Str) (hp : ∀ c, p.getLast? = some c → isWs c = false) (hne : p ≠ []) :
    trimEnd (kPUT ++ ' ' :: (t ++ ' ' :: p)) = kPUT ++ ' ' :: (t ++ ' ' :: p) := by
  apply trimEnd_id
  intro c hc
  apply hp
  have e : kPUT ++ ' ' :: (t ++ ' ' :: p) = (kPUT ++ ' ' :: (t ++ [' '])) ++ p := by simp
  have : (kPUT ++ ' ' :: (t ++ ' ' :: p)).getLast? = p.getLast? := by
    rw [e, List.getLast?_append]
    cases hl : p.getLast? with
    | none => exact absurd (List.getLast?_eq_none_iff.mp hl) hne
    | some x => simp
  rw [← this]; exact hc

/-! Non-vacuity -/
example : (handleCommand {} (kPUT ++ ' ' :: (['t'] ++ ' ' :: [' ', 'a', ' ', 'b']))).2 = lit "OK" :=
  (C24_roundtrip {} ['t'] [' ', 'a', ' ', 'b'] (by decide) rfl).1
example : le32 (enc32 70000) = 70000 := le32_enc32 _ (by decide)

end WalrusVerif.Props.C24
