import WalrusVerif.Lemmas.MetaLemmas
/-!
# C18 — cluster metadata keeps an immutable, contiguous segment history

Statement: for any sequence of metadata commands, including duplicates, stale rollovers, unknown
topics and undecodable bytes, applying them never panics.  Each topic's segments stay numbered
1..current with exactly one leader each, and the leader of the open segment is the topic leader.
A sealed segment's entry count and leader never change afterwards, and the cumulative sealed
offset equals the sum of the sealed counts.

Model: `Meta.applyCmd` / `Meta.applyBytes` (`distributed-walrus/src/metadata.rs`).  The model is a
total function whose `u64` additions are `checked_add`s that reject the command; "never panics"
is therefore carried by (a) totality here, (b) `C18_counters_in_range` (no `u64` operation of an
accepted command overflows) and (c) the correspondence run, in which a panic of the real
`apply` is a disagreement.  All theorems are for command sequences of any length over any number
of topics and nodes.
-/
namespace WalrusVerif.Props.C18
open WalrusVerif WalrusVerif.Meta

def runBytes (s : ClusterState) (bss : List (List UInt8)) : ClusterState :=
  bss.foldl (fun st bs => (applyBytes st bs).1) s

/-- The invariant, spelled out as in the statement, after **any** command sequence. -/
theorem C18_inv (cmds : List Cmd) (name : Name) (t : TopicState)
    (h : (run ClusterState.init cmds).topics.get? name = some t) :
    1 ≤ t.currentSegment ∧
    (∀ k, (t.segmentLeaders.get? k).isSome ↔ (1 ≤ k ∧ k ≤ t.currentSegment)) ∧
    (∀ k, (t.sealedSegments.get? k).isSome ↔ (1 ≤ k ∧ k < t.currentSegment)) ∧
    t.segmentLeaders.get? t.currentSegment = some t.leaderNode ∧
    t.lastSealedEntryOffset = sumSealed t.sealedSegments (t.currentSegment - 1) := by
  have i := inv_run ClusterState.init cmds inv_init name t h
  exact ⟨i.cur_pos, i.leaders_keys, i.sealed_keys, i.open_leader, i.offset_sum⟩

/-- Undecodable bytes are rejected and change nothing. -/
theorem C18_undecodable_rejected (s : ClusterState) (bs : List UInt8) (h : decodeCmd bs = none) :
    applyBytes s bs = (s, .errDecode) := by
  simp [applyBytes, h]

/-- The same invariant for arbitrary *byte strings* fed to `apply`, decodable or not. -/
theorem C18_inv_bytes (bss : List (List UInt8)) : Meta.Inv (runBytes ClusterState.init bss) := by
  suffices h : ∀ s, Meta.Inv s → Meta.Inv (runBytes s bss) from h _ inv_init
  induction bss with
  | nil => intro s h; exact h
  | cons bs r ih =>
    intro s h
    apply ih
    show Meta.Inv (applyBytes s bs).1
    unfold applyBytes
    cases decodeCmd bs with
    | none => exact h
    | some c => exact inv_step s c h

/-- Every command that is answered with an error or `EXISTS` leaves the state untouched. -/
theorem C18_rejected_unchanged (s : ClusterState) (c : Cmd)
    (h : (applyCmd s c).2 ≠ .created ∧ (applyCmd s c).2 ≠ .rolled ∧ (applyCmd s c).2 ≠ .node) :
    (applyCmd s c).1 = s := by
  cases c with
  | createTopic n l =>
    simp only [applyCmd] at h ⊢
    split <;> simp_all
  | rolloverTopic n l k =>
    simp only [applyCmd] at h ⊢
    split
    · rfl
    · split <;> simp_all
  | upsertNode i a => simp [applyCmd] at h

/-- No `u64` counter of an accepted command overflows (so neither the checked nor an unchecked
`+=` in the code can panic or wrap on a reachable state). -/
theorem C18_counters_in_range (cmds : List Cmd) (name : Name) (t : TopicState)
    (h : (run ClusterState.init cmds).topics.get? name = some t) :
    t.currentSegment < 2 ^ 64 ∧ t.lastSealedEntryOffset < 2 ^ 64 := by
  have i := inv_run ClusterState.init cmds inv_init name t h
  exact ⟨i.cur_lt, i.offset_lt⟩

/-- Sealed history is immutable: whatever commands follow, a sealed segment keeps its entry count
and its leader (and the topic never disappears or moves backwards). -/
theorem C18_sealed_immutable (before after : List Cmd) (name : Name) (t : TopicState)
    (h : (run ClusterState.init before).topics.get? name = some t) :
    ∃ t', (run ClusterState.init (before ++ after)).topics.get? name = some t' ∧
      t.currentSegment ≤ t'.currentSegment ∧
      ∀ k, 1 ≤ k → k < t.currentSegment →
        (∃ cnt, t.sealedSegments.get? k = some cnt ∧ t'.sealedSegments.get? k = some cnt) ∧
        (∃ ldr, t.segmentLeaders.get? k = some ldr ∧ t'.segmentLeaders.get? k = some ldr) := by
  have i := inv_run ClusterState.init before inv_init name t h
  obtain ⟨t', h', hle, hk⟩ := sealed_stable_run after (run ClusterState.init before) name t h
  refine ⟨t', ?_, hle, ?_⟩
  · simpa [run, List.foldl_append] using h'
  · intro k h1 h2
    obtain ⟨a, b⟩ := hk k h2
    have s1 := (i.sealed_keys k).mpr ⟨h1, h2⟩
    have s2 := (i.leaders_keys k).mpr ⟨h1, by omega⟩
    obtain ⟨cnt, hc⟩ := Option.isSome_iff_exists.mp s1
    obtain ⟨ldr, hl⟩ := Option.isSome_iff_exists.mp s2
    exact ⟨⟨cnt, hc, by rw [a, hc]⟩, ⟨ldr, hl, by rw [b, hl]⟩⟩

/-! Non-vacuity: a run with a duplicate create, a stale/duplicate rollover, an unknown topic and
an overflowing count; evaluated by the kernel. -/
def demo : List Cmd :=
  [.createTopic ['a'] 1, .createTopic ['a'] 2, .rolloverTopic ['a'] 2 5, .rolloverTopic ['a'] 2 7,
   .rolloverTopic ['z'] 1 1, .rolloverTopic ['a'] 3 (2 ^ 64 - 1), .upsertNode 1 ['x']]

example : ((run ClusterState.init demo).topics.get? ['a']).map
    (fun t => (t.currentSegment, t.leaderNode, t.lastSealedEntryOffset,
               t.sealedSegments.get? 1, t.sealedSegments.get? 2, t.segmentLeaders.get? 3)) =
    some (3, 2, 12, some 5, some 7, some 2) := by rfl
example : (applyCmd (run ClusterState.init demo) (.rolloverTopic ['a'] 3 (2 ^ 64 - 1))).2 = .errOverflow := by
  decide
example : (applyBytes ClusterState.init [9, 0, 0, 0]).2 = .errDecode := by decide

end WalrusVerif.Props.C18
