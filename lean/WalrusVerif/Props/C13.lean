import WalrusVerif.Props.C17
/-!
# C13 — instances with different namespaces are fully isolated

Statement: two instances in the same process whose namespace keys sanitize differently, or whose data
directories differ, never observe or affect each other.  Neither sees the other's entries, cursors,
entry counts or clean markers, and reclamation decisions made for one never remove or alter the
other's files.

Model: `Proc` holds two instances on directories 0 and 1 (`inst`, `inst2`), one list of files tagged
with their directory, and the process-global state the real code shares between instances: the block
and file trackers, the deletion queue, `LAST_MILLIS`.  `onB op` addresses `op` to the second instance.

**Partial.**  Proved:
* `C13_other_instance_untouched` — an operation addressed to one instance (append, batch, faulted
  append/batch, `read_next`, batch read, counts, markers, the persister's pass, open, close, reclaim,
  listing) leaves the other instance's in-memory state — chains, cursors, writers, index, counts,
  markers — exactly as it was, in both directions.
* `C13_second_instance_does_not_move_the_first` — the same, stated for `onB op` and the first instance.

**False on this tree** for the reclamation clause: `C13_counterexample_blockIdCollision` (open finding):
the block tracker is keyed by block id alone, every instance numbers its blocks from 1, the first
registration of an id wins: instance B's consumption of *its* blocks 1–4 makes instance A's file look
fully consumed; the reclaimer deletes it although A has read nothing; after the next restart A's
acknowledged entries are gone.  corpus/blockIdCollision.prog replays the same program on the real
engine on every run.

Entries, counts and directory contents seen by each instance while both are live are decided by the
correspondence: ~250 histories per quick run in which two instances on two directories, using the
*same* topic names, are driven in one process at random (appends, batches, both read APIs, counts,
tracker tuples and directory listings of both directories, the reclaimer's pass, clean reopen of both,
process restart), each instance with its own FIFO/count oracle.
-/
namespace WalrusVerif.Props.C13
open WalrusVerif WalrusVerif.Eng WalrusVerif.Props.C17

/-- operations that address one live instance (everything except process-level events and wrappers) -/
def Plain : Op → Prop
  | .restart => False
  | .kill => False
  | .onB _ => False
  | .crashAt _ _ _ _ => False
  | _ => True

theorem side_closeInst (p : Proc) : (closeInst p).inst2 = p.inst2 ∧ (closeInst p).curDir = p.curDir := by
  unfold closeInst; split <;> exact ⟨rfl, rfl⟩

/-- an operation addressed to the first instance never touches the second one -/
theorem C13_other_instance_untouched (c : Cfg) (p : Proc) (op : Op) (h : Plain op) :
    (step c p op).1.inst2 = p.inst2 ∧ (step c p op).1.curDir = p.curDir := by
  have key : ∀ (f : Inst → Proc × Inst × Out), (∀ i, p.inst = some i → (f i).1.side = p.side) →
      (withInst p f).1.inst2 = p.inst2 ∧ (withInst p f).1.curDir = p.curDir := by
    intro f hf
    have := withInst_side p f hf
    unfold Proc.side at this
    simp only [Prod.mk.injEq] at this
    exact ⟨this.2.1, this.2.2⟩
  cases op with
  | restart => exact absurd h id
  | kill => exact absurd h id
  | onB o => exact absurd h id
  | crashAt k n fd o => exact absurd h id
  | clock ms => simp [step]
  | open_ mode =>
    simp only [step]
    obtain ⟨i', _, _, hside⟩ := openInst_marks c (closeInst p) p.curDir mode
    unfold Proc.side at hside
    simp only [Prod.mk.injEq] at hside
    have hc := side_closeInst p
    exact ⟨by rw [hside.2.1, hc.1], by rw [hside.2.2, hc.2]⟩
  | close => simp only [step]; exact side_closeInst p
  | persist =>
    simp only [step]
    unfold persistMarkers; split
    · exact ⟨rfl, rfl⟩
    · split <;> exact ⟨rfl, rfl⟩
  | reclaim => simp only [step]; unfold reclaim; exact ⟨rfl, rfl⟩
  | ls => simp [step]
  | trk n => simp only [step]; split <;> exact ⟨rfl, rfl⟩
  | trks => simp [step]
  | count t => simp only [step]; exact key _ (fun i _ => rfl)
  | size t => simp only [step]; exact key _ (fun i _ => rfl)
  | mark t b => simp only [step]; exact key _ (fun i _ => rfl)
  | isClean t => simp only [step]; exact key _ (fun i _ => rfl)
  | next t cp => simp only [step]; exact key _ (fun i _ => (frame_readNext c p i t cp).1)
  | bread t m cp st => simp only [step]; exact key _ (fun i _ => (frame_batchRead c p i t m cp st).1)
  | append t pay => simp only [step]; exact key _ (fun i _ => (frame_appendForTopic c p i t pay none).1)
  | batch t ps => simp only [step]; exact key _ (fun i _ => (frame_batchAppendForTopic c p i t ps none).1)
  | appendF t pay flt => simp only [step]; exact key _ (fun i _ => (frame_appendForTopic c p i t pay (some flt)).1)
  | batchF t ps flt => simp only [step]; exact key _ (fun i _ => (frame_batchAppendForTopic c p i t ps (some flt)).1)

/-- an operation addressed to the second instance never touches the first one -/
theorem C13_second_instance_does_not_move_the_first (c : Cfg) (p : Proc) (op : Op) (h : Plain op) :
    (step c p (.onB op)).1.inst = p.inst := by
  simp only [step]
  exact (C13_other_instance_untouched c { p with inst := p.inst2, inst2 := p.inst, curDir := 1 } op h).1

/-- **Open finding `blockIdCollision`.** A fills five blocks (its first file becomes fully allocated) and
reads nothing; B fills five blocks of its own and reads them all; the reclaimer deletes A's first file;
after the restart A's count is 1 instead of 5 and only its fifth entry is left. (small geometry) -/
theorem C13_counterexample_blockIdCollision :
    (Eng.run smallCfg
      [.clock 1700000000000, .open_ .strict, .onB (.open_ .strict),
       .append ⟨0, false⟩ ⟨3800, 1⟩, .append ⟨0, false⟩ ⟨3800, 2⟩, .append ⟨0, false⟩ ⟨3800, 3⟩,
       .append ⟨0, false⟩ ⟨3800, 4⟩, .append ⟨0, false⟩ ⟨3800, 5⟩,
       .onB (.append ⟨0, false⟩ ⟨3800, 11⟩), .onB (.append ⟨0, false⟩ ⟨3800, 12⟩), .onB (.append ⟨0, false⟩ ⟨3800, 13⟩),
       .onB (.append ⟨0, false⟩ ⟨3800, 14⟩), .onB (.append ⟨0, false⟩ ⟨3800, 15⟩),
       .onB (.next ⟨0, false⟩ true), .onB (.next ⟨0, false⟩ true), .onB (.next ⟨0, false⟩ true),
       .onB (.next ⟨0, false⟩ true), .onB (.next ⟨0, false⟩ true),
       .reclaim, .count ⟨0, false⟩, .restart, .clock 1700000050000, .open_ .strict, .onB (.open_ .strict),
       .count ⟨0, false⟩, .bread ⟨0, false⟩ 99999 true none]).drop 18 =
    [.names [1700000000000], .num 5, .ok, .ok, .ok, .ok, .num 1, .entries [(⟨3800, 5⟩, 0)]] := by
  decide +kernel

end WalrusVerif.Props.C13
