import WalrusVerif.Lemmas.MarkLemmas
/-!
# C17 — topic clean/dirty markers reflect the latest change, across restarts

Statement: after an append to a topic returns, the topic reports dirty until `mark_topic_clean` is
called, and `mark_topic_clean`/`mark_topic_dirty` set the reported state.  Once any of these calls
has returned, a clean shutdown and reopen reports the same state for that topic.

Model: the storage-level engine model `Eng` (Model/Engine.lean): `TopicCleanTracker::update_state`
(`markClean`), the background persister (`persist`: it may run at any point of a history, or
never), the write-all-on-drop of a clean shutdown (`closeInst`), hydration from the marker file at
open (`openInst`), a process restart (`restart` = clean shutdown + new process), interleaved with
**every** other operation of the engine (appends, batches, both read APIs, counts, reclamation, clock
changes), rejected operations and operations with injected I/O failures included.

`C17_markers` is the full statement: along any history, every `topic_is_clean` query answers exactly
what the latest returned `append`/`batch_append`/`mark_topic_*` call on that topic prescribes
(clean for a topic never touched), no matter how many clean reopen events or process restarts lie in
between and no matter whether the background persister ran.  The only event after which nothing is
claimed is `kill` (an unclean process death is outside the property's "clean shutdown").
-/
namespace WalrusVerif.Props.C17
open WalrusVerif WalrusVerif.Eng

def upd (e : Topic → Bool) (t : Topic) (b : Bool) : Topic → Bool := fun t' => if t' = t then b else e t'

/-- `markersOK e history`: every `topic_is_clean` answer in the history equals the expected state,
where the expected state starts at `e` and is updated by each returned call -/
def markersOK : (Topic → Bool) → List (Op × Out) → Prop
  | _, [] => True
  | e, (op, out) :: rest =>
    match op, out with
    | .kill, _ => True
    | .crashAt _ _ _ _, _ => True
    | .onB _, _ => True
    | .isClean _, .err .closed => markersOK e rest
    | .isClean t, o => o = .flag (e t) ∧ markersOK e rest
    | .append _ _, .err .closed => markersOK e rest
    | .append t _, _ => markersOK (upd e t false) rest
    | .batch _ _, .err .closed => markersOK e rest
    | .batch t _, _ => markersOK (upd e t false) rest
    | .appendF _ _ _, .err .closed => markersOK e rest
    | .appendF t _ _, _ => markersOK (upd e t false) rest
    | .batchF _ _ _, .err .closed => markersOK e rest
    | .batchF t _ _, _ => markersOK (upd e t false) rest
    | .mark _ _, .err .closed => markersOK e rest
    | .mark t b, _ => markersOK (upd e t b) rest
    | _, _ => markersOK e rest

theorem markersOK_append_ne (e : Topic → Bool) (t : Topic) (pay : Pay) (o : Out) (l : List (Op × Out))
    (h : o ≠ .err .closed) : markersOK e ((.append t pay, o) :: l) = markersOK (upd e t false) l := by
  cases o with
  | err k => cases k <;> first | rfl | exact absurd rfl h
  | _ => rfl

theorem markersOK_batch_ne (e : Topic → Bool) (t : Topic) (ps : List Pay) (o : Out) (l : List (Op × Out))
    (h : o ≠ .err .closed) : markersOK e ((.batch t ps, o) :: l) = markersOK (upd e t false) l := by
  cases o with
  | err k => cases k <;> first | rfl | exact absurd rfl h
  | _ => rfl

theorem markersOK_appendF_ne (e : Topic → Bool) (t : Topic) (pay : Pay) (f : Fault) (o : Out) (l : List (Op × Out))
    (h : o ≠ .err .closed) : markersOK e ((.appendF t pay f, o) :: l) = markersOK (upd e t false) l := by
  cases o with
  | err k => cases k <;> first | rfl | exact absurd rfl h
  | _ => rfl

theorem markersOK_batchF_ne (e : Topic → Bool) (t : Topic) (ps : List Pay) (f : Fault) (o : Out) (l : List (Op × Out))
    (h : o ≠ .err .closed) : markersOK e ((.batchF t ps f, o) :: l) = markersOK (upd e t false) l := by
  cases o with
  | err k => cases k <;> first | rfl | exact absurd rfl h
  | _ => rfl

theorem withInst_none (p : Proc) (f : Inst → Proc × Inst × Out) (h : p.inst = none) :
    withInst p f = (p, .err .closed) := by unfold withInst; rw [h]

theorem withInst_some (p : Proc) (f : Inst → Proc × Inst × Out) (i : Inst) (h : p.inst = some i) :
    withInst p f = ({ (f i).1 with inst := some (f i).2.1 }, (f i).2.2) := by unfold withInst; rw [h]

/-- single-instance histories: the process has one instance, on directory 0 -/
def Single (p : Proc) : Prop := p.curDir = 0 ∧ p.inst2 = none

theorem single_of_side (p p' : Proc) (h : p'.side = p.side) (hs : Single p) : Single p' := by
  unfold Proc.side at h
  simp only [Prod.mk.injEq] at h
  exact ⟨by rw [h.2.2]; exact hs.1, by rw [h.2.1]; exact hs.2⟩

theorem withInst_side (p : Proc) (f : Inst → Proc × Inst × Out) (hf : ∀ i, p.inst = some i → (f i).1.side = p.side) :
    (withInst p f).1.side = p.side := by
  cases hi : p.inst with
  | none => rw [withInst_none p f hi]
  | some i => rw [withInst_some p f i hi]; exact hf i hi

/-- an operation that goes through the live instance and leaves markers and directories alone -/
theorem minv_withInst_frame (p : Proc) (e : Topic → Bool) (f : Inst → Proc × Inst × Out) (h : MInv p e)
    (hf : ∀ i, p.inst = some i → (f i).1.side = p.side ∧ (f i).2.1.marks = i.marks) :
    MInv (withInst p f).1 e := by
  cases hi : p.inst with
  | none => rw [withInst_none p f hi]; exact h
  | some i =>
    rw [withInst_some p f i hi]
    exact minv_frame p _ i (f i).2.1 e hi (congrArg (·.1) (hf i hi).1) rfl (hf i hi).2 h

theorem closeSecond_single (p : Proc) (hs : Single p) : closeSecond p = p := by
  obtain ⟨h1, h2⟩ := hs
  unfold closeSecond closeInst
  cases p
  simp_all

theorem runFrom_markersOK (c : Cfg) (ops : List Op) (p : Proc) (e : Topic → Bool) (h : MInv p e) (hs : Single p) :
    markersOK e (ops.zip (runFrom c p ops)) := by
  induction ops generalizing p e with
  | nil => trivial
  | cons op rest ih =>
    simp only [runFrom, List.zip_cons_cons]
    cases op with
    | kill => simp [markersOK]
    | crashAt k n fd o => simp [markersOK]
    | onB o => simp [markersOK]
    | clock ms => simp only [markersOK, step]; exact ih _ _ h hs
    | open_ mode =>
      simp only [markersOK, step, hs.1]
      have hc := minv_closeInst p e h
      obtain ⟨i', _, _, hside⟩ := openInst_marks c (closeInst p) 0 mode
      refine ih _ _ (minv_open c _ mode e hc.1 hc.2) (single_of_side _ _ hside ?_)
      unfold closeInst; split <;> exact hs
    | close =>
      simp only [markersOK, step]
      refine ih _ _ (minv_closeInst p e h).2 ?_
      unfold closeInst; split <;> exact hs
    | restart =>
      simp only [markersOK, step, closeSecond_single p hs]
      apply ih
      · have hc := minv_closeInst p e h
        unfold restartProc MInv
        simp only [hc.1]
        have := hc.2
        unfold MInv at this
        rw [hc.1] at this
        exact this
      · unfold restartProc closeInst; split <;> exact hs
    | persist =>
      simp only [markersOK, step]
      refine ih _ _ (minv_persist p e h) ?_
      unfold persistMarkers; split
      · exact hs
      · split <;> exact hs
    | reclaim =>
      simp only [markersOK, step]
      apply ih
      · unfold MInv reclaim at *
        exact h
      · unfold reclaim; exact hs
    | ls => simp only [markersOK, step]; exact ih _ _ h hs
    | trk n =>
      simp only [markersOK, step]
      split <;> exact ih _ _ h hs
    | trks => simp only [markersOK, step]; exact ih _ _ h hs
    | count t =>
      simp only [step]
      have := minv_withInst_frame p e (fun i => (p, i, .num ((i.counts.get? t).getD 0))) h (fun i _ => ⟨rfl, rfl⟩)
      have hside := withInst_side p (fun i => (p, i, .num ((i.counts.get? t).getD 0))) (fun i _ => rfl)
      simp only [markersOK]; exact ih _ _ this (single_of_side _ _ hside hs)
    | size t =>
      simp only [step]
      have := minv_withInst_frame p e (fun i => (p, i, .num (topicSize i t))) h (fun i _ => ⟨rfl, rfl⟩)
      have hside := withInst_side p (fun i => (p, i, .num (topicSize i t))) (fun i _ => rfl)
      simp only [markersOK]; exact ih _ _ this (single_of_side _ _ hside hs)
    | next t cp =>
      simp only [step]
      have := minv_withInst_frame p e (fun i => readNext c p i t cp) h (fun i _ => frame_readNext c p i t cp)
      have hside := withInst_side p (fun i => readNext c p i t cp) (fun i _ => (frame_readNext c p i t cp).1)
      simp only [markersOK]; exact ih _ _ this (single_of_side _ _ hside hs)
    | bread t m cp st =>
      simp only [step]
      have := minv_withInst_frame p e (fun i => batchRead c p i t m cp st) h (fun i _ => frame_batchRead c p i t m cp st)
      have hside := withInst_side p (fun i => batchRead c p i t m cp st) (fun i _ => (frame_batchRead c p i t m cp st).1)
      simp only [markersOK]; exact ih _ _ this (single_of_side _ _ hside hs)
    | isClean t =>
      simp only [step]
      cases hi : p.inst with
      | none => rw [withInst_none _ _ hi]; simp only [markersOK]; exact ih _ _ h hs
      | some i =>
        rw [withInst_some _ _ i hi]
        have hp : ({ p with inst := some i } : Proc) = p := by cases p; simp_all
        simp only [hp]
        have hr : ((i.cleanStates.get? t).map (·.2)).getD true = e t := by
          unfold MInv at h; rw [hi] at h; exact (h.2 t).1
        rw [hr]
        simp only [markersOK]
        exact ⟨trivial, ih _ _ h hs⟩
    | mark t b =>
      simp only [step]
      cases hi : p.inst with
      | none => rw [withInst_none _ _ hi]; simp only [markersOK]; exact ih _ _ h hs
      | some i =>
        rw [withInst_some _ _ i hi]
        simp only [markersOK]
        exact ih _ _ (minv_mark p _ i _ e t b hi rfl rfl rfl h) hs
    | append t pay =>
      simp only [step]
      cases hi : p.inst with
      | none => rw [withInst_none _ _ hi]; simp only [markersOK]; exact ih _ _ h hs
      | some i =>
        rw [withInst_some _ _ i hi]
        have hfr := frame_appendForTopic c p i t pay none
        have hm := minv_mark p { (appendForTopic c p i t pay).1 with inst := some (appendForTopic c p i t pay).2.1 }
          i _ e t false hi (congrArg (·.1) hfr.1) rfl hfr.2 h
        have hne := appendForTopic_ne_closed c p i t pay none
        rw [markersOK_append_ne _ _ _ _ _ hne]
        exact ih _ _ hm (single_of_side p _ hfr.1 hs)
    | batch t ps =>
      simp only [step]
      cases hi : p.inst with
      | none => rw [withInst_none _ _ hi]; simp only [markersOK]; exact ih _ _ h hs
      | some i =>
        rw [withInst_some _ _ i hi]
        have hfr := frame_batchAppendForTopic c p i t ps none
        have hm := minv_mark p { (batchAppendForTopic c p i t ps).1 with inst := some (batchAppendForTopic c p i t ps).2.1 }
          i _ e t false hi (congrArg (·.1) hfr.1) rfl hfr.2 h
        have hne := batchAppendForTopic_ne_closed c p i t ps none
        rw [markersOK_batch_ne _ _ _ _ _ hne]
        exact ih _ _ hm (single_of_side p _ hfr.1 hs)
    | appendF t pay flt =>
      simp only [step]
      cases hi : p.inst with
      | none => rw [withInst_none _ _ hi]; simp only [markersOK]; exact ih _ _ h hs
      | some i =>
        rw [withInst_some _ _ i hi]
        have hfr := frame_appendForTopic c p i t pay (some flt)
        have hm := minv_mark p { (appendForTopic c p i t pay (some flt)).1 with inst := some (appendForTopic c p i t pay (some flt)).2.1 }
          i _ e t false hi (congrArg (·.1) hfr.1) rfl hfr.2 h
        have hne := appendForTopic_ne_closed c p i t pay (some flt)
        rw [markersOK_appendF_ne _ _ _ _ _ _ hne]
        exact ih _ _ hm (single_of_side p _ hfr.1 hs)
    | batchF t ps flt =>
      simp only [step]
      cases hi : p.inst with
      | none => rw [withInst_none _ _ hi]; simp only [markersOK]; exact ih _ _ h hs
      | some i =>
        rw [withInst_some _ _ i hi]
        have hfr := frame_batchAppendForTopic c p i t ps (some flt)
        have hm := minv_mark p { (batchAppendForTopic c p i t ps (some flt)).1 with inst := some (batchAppendForTopic c p i t ps (some flt)).2.1 }
          i _ e t false hi (congrArg (·.1) hfr.1) rfl hfr.2 h
        have hne := batchAppendForTopic_ne_closed c p i t ps (some flt)
        rw [markersOK_batchF_ne _ _ _ _ _ _ hne]
        exact ih _ _ hm (single_of_side p _ hfr.1 hs)

/-- **C17.** Along any history of engine operations — appends, batch appends, `mark_topic_clean`,
`mark_topic_dirty`, reads, reclamation, clean reopen events and process restarts at any point, the
background persister running at any point or never — every `topic_is_clean` query answers what the
latest returned call on that topic prescribes. -/
theorem C17_markers (c : Cfg) (ops : List Op) : markersOK (fun _ => true) (ops.zip (run c ops)) := by
  apply runFrom_markersOK
  · unfold MInv
    intro t
    rfl
  · exact ⟨rfl, rfl⟩

/-! Non-vacuity: a history with an append, explicit marks, an immediate restart (no persister pass)
and a reopen; evaluated by the kernel on the model (small geometry). -/
def demo : List Op :=
  [.open_ .strict, .isClean ⟨0, false⟩, .append ⟨0, false⟩ ⟨10, 1⟩, .isClean ⟨0, false⟩, .mark ⟨1, false⟩ false,
   .restart, .open_ .strict, .isClean ⟨0, false⟩, .isClean ⟨1, false⟩, .mark ⟨0, false⟩ true, .persist, .close,
   .open_ .strict, .isClean ⟨0, false⟩, .isClean ⟨1, false⟩, .isClean ⟨2, false⟩]

example : ((run smallCfg demo).filter fun o => match o with | .flag _ => true | _ => false) =
    [.flag true, .flag false, .flag false, .flag false, .flag true, .flag false, .flag true] := by decide +kernel

end WalrusVerif.Props.C17
