import WalrusVerif.Lemmas.DurableLemmas
/-!
# C10 — with SyncEach, acknowledged appends and consumption survive power loss

Statement: with `FsyncSchedule::SyncEach`, an append that returned success, and in StrictlyAtOnce mode
a consuming read that returned, is still reflected after a power loss at any later point.  A power
loss keeps only data and directory entries that had been explicitly synced, and each unsynced write
may or may not be kept.

**Partial.**  The statement is about traces of I/O events and what a power loss keeps of them
(Model/Durable.lean).  Proved, for traces of any length and every power-loss point:

* `C10_acked_appends_durable` — if a trace follows the append discipline (`AckDisciplined`: before an
  append is acknowledged its entry write is synced — O_SYNC descriptor or a later sync of that file — and
  the file's creation, if it happened in this run, is followed by a directory sync), then at **every**
  later power-loss point the write of every acknowledged entry is durable, whatever else is lost;
* `C10_acked_consumption_durable` — likewise for consumption under `ReadDisciplined`;
* `C10_durable_monotone` — durability only grows with the power-loss point;
* `C10_counterexample_renameWithoutDirSync` — a trace in which the index is renamed into place and the
  read returns without a directory sync is *not* disciplined and the rename is not durable at the next
  point: this was the engine's index persist on the pinned tree (`tmp write, fsync(tmp), rename`, no directory
  fsync — finding `indexRenameNotDurable`, repaired by fix 5288e6e, which syncs the directory after the rename):
  on the repaired tree every recorded trace is read-disciplined and `C10_acked_consumption_durable` applies.

The tie to the code is a check of the recorded traces, not a model of the write path: hook H1 records
every entry write (with the O_SYNC status of its descriptor), file sync, file creation, directory sync,
index write/sync/rename of the real engine under SyncEach, the harness inserts the acknowledgements,
and the driver decides `AckDisciplined` / `ReadDisciplined` for each recorded trace with the executable checkers of
Model/Durable.lean (`C10_checker_sound`) (appends and batches
on both backends, block rotation, file roll-over, a non-SyncEach instance constructed first in the same
process).  What a real disk keeps is assumed (the power-loss model of the statement), not observed.
-/
namespace WalrusVerif.Props.C10
open WalrusVerif.Durable

theorem occursIn_mono {tr : Trace} {lo hi hi' : Nat} {q : Ev → Bool} (h : occursIn tr lo hi q) (hh : hi ≤ hi') :
    occursIn tr lo hi' q := by
  obtain ⟨m, h1, h2, e, he, hq⟩ := h
  exact ⟨m, h1, Nat.lt_of_lt_of_le h2 hh, e, he, hq⟩

theorem fileDurable_mono {tr : Trace} {k k' f : Nat} (h : fileDurable tr k f) (hk : k ≤ k') : fileDurable tr k' f := by
  rcases h with h | ⟨c, hc, he, ho⟩
  · exact Or.inl h
  · exact Or.inr ⟨c, Nat.lt_of_lt_of_le hc hk, he, occursIn_mono ho hk⟩

/-- durability only grows with the power-loss point -/
theorem C10_durable_monotone (tr : Trace) (k k' j : Nat) (hk : k ≤ k') (h : writeDurable tr k j) : writeDurable tr k' j := by
  obtain ⟨f, id, s, hj, he, hs, hf⟩ := h
  refine ⟨f, id, s, Nat.lt_of_lt_of_le hj hk, he, ?_, fileDurable_mono hf hk⟩
  rcases hs with hs | hs
  · exact Or.inl hs
  · exact Or.inr (occursIn_mono hs hk)

/-- **C10 (appends).** In a disciplined trace, every acknowledged entry's write is durable at every
power-loss point after the acknowledgement. -/
theorem C10_acked_appends_durable (tr : Trace) (hd : AckDisciplined tr) (a id k : Nat)
    (hack : tr[a]? = some (.ack id)) (hk : a ≤ k) :
    ∃ j, j < a ∧ writeDurable tr k j ∧ ∃ f s, tr[j]? = some (.write f id s) := by
  obtain ⟨j, f, s, hj, he, hs, hf⟩ := hd a id hack
  refine ⟨j, hj, ?_, f, s, he⟩
  refine ⟨f, id, s, Nat.lt_of_lt_of_le hj hk, he, ?_, fileDurable_mono hf hk⟩
  rcases hs with hs | hs
  · exact Or.inl hs
  · exact Or.inr (occursIn_mono hs hk)

/-- **C10 (consumption).** In a read-disciplined trace, the index version of every returned consuming read
is durably in place at every later power-loss point. -/
theorem C10_acked_consumption_durable (tr : Trace) (hd : ReadDisciplined tr) (a v k : Nat)
    (hack : tr[a]? = some (.ackRead v)) (hk : a ≤ k) : ∃ j, j < a ∧ renameDurable tr k j := by
  obtain ⟨j, hj, he, ho⟩ := hd a v hack
  exact ⟨j, hj, v, Nat.lt_of_lt_of_le hj hk, he, occursIn_mono ho hk⟩

/-- the executable checker the driver runs on every recorded trace is sound: a trace it accepts is
disciplined, hence (by the theorems above) everything it acknowledges is durable at every later point -/
theorem C10_checker_sound (tr : Trace) :
    (ackDisciplinedB tr = true → AckDisciplined tr) ∧ (readDisciplinedB tr = true → ReadDisciplined tr) :=
  ⟨ackDisciplinedB_sound tr, readDisciplinedB_sound tr⟩

/-- the engine's index persist before fix 5288e6e: rename without a directory sync; the read returns -/
def idxTrace : Trace := [.renameIdx 1, .ackRead 1]

/-- **Finding `indexRenameNotDurable` (the pinned tree; repaired by fix 5288e6e).** That trace is not read-disciplined, and at the point right
after the read returned the rename is not durable: the old cursor can come back after a power loss. -/
theorem C10_counterexample_renameWithoutDirSync :
    ¬ ReadDisciplined idxTrace ∧ ¬ renameDurable idxTrace 2 0 := by
  constructor
  · intro h
    obtain ⟨j, hj, he, m, h1, h2, e, hm, hq⟩ := h 1 1 rfl
    have : j = 0 := by omega
    subst this
    have : m = 0 ∨ m = 1 := by omega
    omega
  · intro ⟨v, _, he, m, h1, h2, e, hm, hq⟩
    have : m = 1 := by omega
    subst this
    simp [idxTrace] at hm
    subst hm
    simp [isSyncDir] at hq

/-! Non-vacuity: a disciplined trace with a file creation, a synced write and an O_SYNC write. -/
def goodTrace : Trace :=
  [.create 0, .syncFile 0, .syncDir, .write 0 1 false, .syncFile 0, .ack 1, .write 0 2 true, .ack 2]

example : AckDisciplined goodTrace := by
  intro a id h
  have ha : a = 5 ∨ a = 7 := by
    rcases Nat.lt_or_ge a 8 with h8 | h8
    · have : a = 0 ∨ a = 1 ∨ a = 2 ∨ a = 3 ∨ a = 4 ∨ a = 5 ∨ a = 6 ∨ a = 7 := by omega
      rcases this with rfl | rfl | rfl | rfl | rfl | rfl | rfl | rfl <;> simp [goodTrace] at h <;> simp
    · have hn : goodTrace[a]? = none := List.getElem?_eq_none (by simp [goodTrace]; omega)
      rw [hn] at h; cases h
  rcases ha with rfl | rfl
  · simp [goodTrace] at h; subst h
    refine ⟨3, 0, false, by omega, rfl, Or.inr ⟨4, by omega, by omega, _, rfl, rfl⟩, Or.inr ⟨0, by omega, rfl, 2, by omega, by omega, _, rfl, rfl⟩⟩
  · simp [goodTrace] at h; subst h
    refine ⟨6, 0, true, by omega, rfl, Or.inl rfl, Or.inr ⟨0, by omega, rfl, 2, by omega, by omega, _, rfl, rfl⟩⟩

/-- the index persist after fix 5288e6e (rename, directory sync, then the read returns) is read-disciplined -/
example : Durable.readDisciplinedB [.renameIdx 1, .syncDir, .ackRead 1] = true := by decide

end WalrusVerif.Props.C10
