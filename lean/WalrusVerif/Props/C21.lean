import WalrusVerif.Lemmas.LogStoreLemmas
import WalrusVerif.Model.LogStoreFault
/-!
# C21 — Raft log store and peer address book across restarts

*Statement.* For any history of log-store operations (append, truncate, purge, vote save, committed save) and
peer-address records interleaved with any number of restarts, each reopened store reports exactly the
acknowledged vote, committed id, purge point, log entries and peer addresses.

The property is **false of the code** (finding `readAllConsumes`): `WalLogStore::new` and the peer-map load read the
logs back with `WriteAheadLog::read_all`, which *consumes* what it returns and persists its cursor, so the next
process that opens the same store is handed only what was appended after the previous open.  What is proved here:

* `C21_logs_hold_ack` — for every history, with any number of restarts, replaying the **whole** of each log gives
  exactly the acknowledged state: nothing acknowledged is ever missing from the logs; it is the reader that loses it.
* `C21_reopen_reports_suffix` — what a reopened store reports is the replay of the not-yet-consumed suffix, exactly.
* `C21_partial` — the property, for histories in which no `open` finds an already-consumed log (in particular:
  every history with at most one reopen after data was written).
* `C21_counterexample` — a history with two reopens after which the store reports a state that is not the
  acknowledged one (replayed on the real store by `corpus/readAllConsumes.oprog`).
* `C21_nonconsuming_holds` — over a reader that starts from the beginning and moves no cursor, the property holds
  for every history: the defect is confined to the choice of reader.
-/
namespace WalrusVerif.LogStore
open WalrusVerif

theorem runG_inv (rl : Wal Rec → List Rec × Wal Rec) (rp : Wal (Nat × Nat) → List (Nat × Nat) × Wal (Nat × Nat))
    (hl : ReaderOk rl) (hp : ReaderOk rp) (ops : List Op) (n : Node) (a : Ack) (h : Inv n a) :
    Inv (runG (stepG rl rp) n a ops).1 (runG (stepG rl rp) n a ops).2 := by
  induction ops generalizing n a with
  | nil => exact h
  | cons op r ih => exact ih _ _ (inv_step rl rp hl hp n a op h)

/-- **C21, what always holds.** After any history from a fresh store — any operations, any number of clean or
killed restarts — replaying the whole log gives exactly the acknowledged log state, and the whole peer log gives
the acknowledged address of every peer. -/
theorem C21_logs_hold_ack (ops : List Op) :
    replay {} (run {} {} ops).1.wal.recs = (run {} {} ops).2.mem ∧
    ∀ k, (peersOf AMap.empty (run {} {} ops).1.pwal.recs).get? k = (run {} {} ops).2.peers.get? k :=
  let h := runG_inv _ _ readAll_ok readAll_ok ops {} {} inv_init
  ⟨h.log, h.peers⟩

/-- what `open` hands the new process: the replay of the records no earlier `read_all` consumed -/
theorem C21_reopen_reports_suffix (n : Node) :
    (step n .open_).1.live = some
      { mem := replay {} (n.wal.recs.drop n.wal.consumed),
        peers := peersOf AMap.empty (n.pwal.recs.drop n.pwal.consumed) } := rfl

/-- after an `open`, both cursors stand at the end: the next `open` sees only what is appended from here on -/
theorem open_consumes (n : Node) :
    (step n .open_).1.wal.consumed = n.wal.recs.length ∧ (step n .open_).1.pwal.consumed = n.pwal.recs.length :=
  ⟨rfl, rfl⟩

/-- an operation other than `open` moves neither read cursor -/
theorem consumed_step_of_ne_open (n : Node) (op : Op) (h : op ≠ .open_) :
    (step n op).1.wal.consumed = n.wal.consumed ∧ (step n op).1.pwal.consumed = n.pwal.consumed := by
  have hrecs : ∀ (w : Wal Rec) (rs : List Rec), (appendRecs w rs).consumed = w.consumed := by
    intro w rs
    induction rs generalizing w with
    | nil => rfl
    | cons r rs ih => simp only [appendRecs, List.foldl_cons] at ih ⊢; rw [ih]; rfl
  cases op with
  | open_ => exact absurd rfl h
  | restart => exact ⟨rfl, rfl⟩
  | kill => exact ⟨rfl, rfl⟩
  | append es =>
    simp only [step, stepG]
    cases n.live with
    | none => exact ⟨rfl, rfl⟩
    | some lv => exact ⟨hrecs _ _, rfl⟩
  | truncate l => simp only [step, stepG]; cases n.live <;> exact ⟨rfl, rfl⟩
  | purge l =>
    simp only [step, stepG]
    cases n.live with
    | none => exact ⟨rfl, rfl⟩
    | some lv => simp only; cases memPurge lv.mem l <;> exact ⟨rfl, rfl⟩
  | vote v => simp only [step, stepG]; cases n.live <;> exact ⟨rfl, rfl⟩
  | committed c => simp only [step, stepG]; cases n.live <;> exact ⟨rfl, rfl⟩
  | peer id port =>
    simp only [step, stepG]
    cases n.live with
    | none => exact ⟨rfl, rfl⟩
    | some lv => simp only; split <;> exact ⟨rfl, rfl⟩
  | state => simp only [step, stepG]; cases n.live <;> exact ⟨rfl, rfl⟩

theorem consumed_run_no_open (ops : List Op) (n : Node) (a : Ack) (hno : ∀ op ∈ ops, op ≠ .open_) :
    (run n a ops).1.wal.consumed = n.wal.consumed ∧ (run n a ops).1.pwal.consumed = n.pwal.consumed := by
  induction ops generalizing n a with
  | nil => exact ⟨rfl, rfl⟩
  | cons op r ih =>
    have h1 := consumed_step_of_ne_open n op (hno op List.mem_cons_self)
    have h2 := ih (step n op).1 (ackStep a op (step n op).2) (fun o ho => hno o (List.mem_cons_of_mem _ ho))
    exact ⟨h2.1.trans h1.1, h2.2.trans h1.2⟩

/-- **What the next process sees, exactly.**  Open a store (any state of the logs), run any operations (no further
`open`), restart, open again: the new process is handed the replay of the records appended *since the previous
open* and nothing older - whatever had been acknowledged before that open is gone from its view, although it is
still in the log (`C21_logs_hold_ack`). -/
theorem C21_next_open_reports_only_new (n : Node) (a : Ack) (ops : List Op) (hno : ∀ op ∈ ops, op ≠ .open_) :
    let n2 := (run (step n .open_).1 a ops).1
    (step n2 .open_).1.live = some
      { mem := replay {} (n2.wal.recs.drop n.wal.recs.length),
        peers := peersOf AMap.empty (n2.pwal.recs.drop n.pwal.recs.length) } := by
  intro n2
  have hc := consumed_run_no_open ops (step n .open_).1 a hno
  have ho := open_consumes n
  rw [C21_reopen_reports_suffix]
  show some _ = some _
  rw [show n2.wal.consumed = n.wal.recs.length from hc.1.trans ho.1,
      show n2.pwal.consumed = n.pwal.recs.length from hc.2.trans ho.2]

theorem run_liveOk (ops : List Op) (n : Node) (a : Ack) (hi : Inv n a) (hl : LiveOk n a) (hq : quirkFree n ops = true) :
    LiveOk (run n a ops).1 (run n a ops).2 := by
  induction ops generalizing n a with
  | nil => exact hl
  | cons op r ih =>
    simp only [quirkFree, Bool.and_eq_true, Bool.not_eq_true'] at hq
    refine ih _ _ (inv_step _ _ readAll_ok readAll_ok n a op hi) ?_ hq.2
    refine liveOk_step _ _ n a op hi hl ?_
    intro ho
    subst ho
    have := hq.1
    simp only [quirkReadAllConsumes, Bool.or_eq_false_iff, decide_eq_false_iff_not, Nat.not_lt, Nat.le_zero_eq] at this
    simp [Wal.readAll, this.1, this.2]

/-- **C21 (partial).** For every history in which no `open` finds a log that an earlier `read_all` already
consumed, the open store reports exactly the acknowledged state: vote, committed id, purge point, log entries
(`lv.mem`) and the address of every peer. -/
theorem C21_partial (ops : List Op) (hq : quirkFree {} ops = true) :
    ∀ lv, (run {} {} ops).1.live = some lv →
      lv.mem = (run {} {} ops).2.mem ∧ ∀ k, lv.peers.get? k = (run {} {} ops).2.peers.get? k :=
  run_liveOk ops {} {} inv_init (fun _ h => by simp at h) hq

/-! ### the hypothesis of `C21_partial` in plain terms: at most one `open` finds data -/

def hasData (n : Node) : Bool := !n.wal.recs.isEmpty || !n.pwal.recs.isEmpty

/-- how many `open`s of the history find a non-empty log -/
def opensOnData (n : Node) : List Op → Nat
  | [] => 0
  | .open_ :: r => (if hasData n then 1 else 0) + opensOnData (step n .open_).1 r
  | op :: r => opensOnData (step n op).1 r

theorem recs_mono_step (n : Node) (op : Op) :
    n.wal.recs.length ≤ (step n op).1.wal.recs.length ∧ n.pwal.recs.length ≤ (step n op).1.pwal.recs.length := by
  have happ : ∀ (w : Wal Rec) (rs : List Rec), w.recs.length ≤ (appendRecs w rs).recs.length := by
    intro w rs; rw [appendRecs_recs]; simp
  cases op with
  | open_ => exact ⟨Nat.le_refl _, Nat.le_refl _⟩
  | restart => exact ⟨Nat.le_refl _, Nat.le_refl _⟩
  | kill => exact ⟨Nat.le_refl _, Nat.le_refl _⟩
  | append es =>
    simp only [step, stepG]
    cases n.live with
    | none => exact ⟨Nat.le_refl _, Nat.le_refl _⟩
    | some lv => exact ⟨happ _ _, Nat.le_refl _⟩
  | truncate l => simp only [step, stepG]; cases n.live <;> simp [Wal.append]
  | purge l =>
    simp only [step, stepG]
    cases n.live with
    | none => exact ⟨Nat.le_refl _, Nat.le_refl _⟩
    | some lv => simp only; cases memPurge lv.mem l <;> simp [Wal.append]
  | vote v => simp only [step, stepG]; cases n.live <;> simp [Wal.append]
  | committed c => simp only [step, stepG]; cases n.live <;> simp [Wal.append]
  | peer id port =>
    simp only [step, stepG]
    cases n.live with
    | none => exact ⟨Nat.le_refl _, Nat.le_refl _⟩
    | some lv => simp only; split <;> simp [Wal.append]
  | state => simp only [step, stepG]; cases n.live <;> exact ⟨Nat.le_refl _, Nat.le_refl _⟩

/-- the cursors never pass the end of their logs -/
def CursorsOk (n : Node) : Prop := n.wal.consumed ≤ n.wal.recs.length ∧ n.pwal.consumed ≤ n.pwal.recs.length

theorem cursorsOk_step (n : Node) (op : Op) (h : CursorsOk n) : CursorsOk (step n op).1 := by
  by_cases ho : op = .open_
  · subst ho; exact ⟨Nat.le_refl _, Nat.le_refl _⟩
  · have h1 := consumed_step_of_ne_open n op ho
    have h2 := recs_mono_step n op
    unfold CursorsOk at *
    rw [h1.1, h1.2]; exact ⟨Nat.le_trans h.1 h2.1, Nat.le_trans h.2 h2.2⟩

theorem quirkFree_of_opensOnData (ops : List Op) :
    ∀ (n : Node), CursorsOk n →
      ((n.wal.consumed = 0 ∧ n.pwal.consumed = 0) → opensOnData n ops ≤ 1) →
      (¬ (n.wal.consumed = 0 ∧ n.pwal.consumed = 0) → opensOnData n ops = 0) →
      quirkFree n ops = true := by
  induction ops with
  | nil => intro n _ _ _; rfl
  | cons op r ih =>
    intro n hc h0 h1
    by_cases ho : op = .open_
    · subst ho
      simp only [quirkFree, Bool.and_eq_true, Bool.not_eq_true']
      by_cases hz : n.wal.consumed = 0 ∧ n.pwal.consumed = 0
      · refine ⟨by simp [quirkReadAllConsumes, hz.1, hz.2], ?_⟩
        have hle := h0 hz
        simp only [opensOnData] at hle
        apply ih _ (cursorsOk_step n .open_ hc)
        · intro _
          by_cases hd : hasData n = true
          · simp only [hd, if_true] at hle; omega
          · simp only [hd, if_false] at hle; omega
        · intro hnz
          -- the cursors moved: the logs were not empty, so this open was counted
          have hd : hasData n = true := by
            unfold hasData
            have hoc := open_consumes n
            rw [hoc.1, hoc.2] at hnz
            by_cases e1 : n.wal.recs = []
            · by_cases e2 : n.pwal.recs = []
              · exfalso; apply hnz; simp [e1, e2]
              · simp [e2]
            · simp [e1]
          simp only [hd, if_true] at hle; omega
      · -- a cursor has moved already: this open finds data and is a second one
        exfalso
        have hz1 := h1 hz
        simp only [opensOnData] at hz1
        have hd : hasData n = true := by
          unfold hasData
          by_cases e1 : n.wal.consumed = 0
          · have e2 : n.pwal.consumed ≠ 0 := fun e => hz ⟨e1, e⟩
            have : n.pwal.recs ≠ [] := by
              intro e; have := hc.2; rw [e] at this; simp at this; exact e2 this
            simp [this]
          · have : n.wal.recs ≠ [] := by
              intro e; have := hc.1; rw [e] at this; simp at this; exact e1 this
            simp [this]
        simp only [hd, if_true] at hz1; omega
    · have hq : quirkReadAllConsumes n op = false := by cases op <;> first | rfl | exact absurd rfl ho
      have hstep : opensOnData n (op :: r) = opensOnData (step n op).1 r := by
        cases op <;> first | rfl | exact absurd rfl ho
      have hcons := consumed_step_of_ne_open n op ho
      simp only [quirkFree, hq, Bool.not_false, Bool.true_and]
      apply ih _ (cursorsOk_step n op hc)
      · intro hz; rw [hcons.1, hcons.2] at hz; rw [← hstep]; exact h0 hz
      · intro hz; rw [hcons.1, hcons.2] at hz; rw [← hstep]; exact h1 hz

/-- **C21 (partial), readable hypothesis.** Every history in which at most one `open` finds a non-empty log -
in particular every history with at most one reopen after the first record was written - leaves the open store
reporting exactly the acknowledged state. -/
theorem C21_partial_at_most_one_open_on_data (ops : List Op) (h : opensOnData {} ops ≤ 1) :
    ∀ lv, (run {} {} ops).1.live = some lv →
      lv.mem = (run {} {} ops).2.mem ∧ ∀ k, lv.peers.get? k = (run {} {} ops).2.peers.get? k :=
  C21_partial ops (quirkFree_of_opensOnData ops {} ⟨Nat.le_refl _, Nat.le_refl _⟩ (fun _ => h)
    (fun hn => absurd ⟨rfl, rfl⟩ hn))

/-- the hypothesis of `C21_partial` is met by a history with real content and one reopen … -/
example : quirkFree {}
    [.open_, .append [⟨⟨1, 1⟩, 10⟩, ⟨⟨2, 1⟩, 0⟩], .vote ⟨1, 1, true⟩, .peer 2 5002, .kill, .open_, .state] = true := by
  decide +kernel

/-- … and is exactly what the second reopen violates -/
example : quirkFree {}
    [.open_, .append [⟨⟨1, 1⟩, 10⟩], .restart, .open_, .restart, .open_] = false := by decide +kernel

/-- the history of `corpus/readAllConsumes.oprog` -/
def witness : List Op :=
  [.open_, .append [⟨⟨1, 1⟩, 10⟩, ⟨⟨2, 1⟩, 0⟩, ⟨⟨3, 1⟩, 20⟩], .vote ⟨1, 1, true⟩, .committed (some ⟨2, 1⟩),
   .peer 2 5002, .restart, .open_, .append [⟨⟨4, 1⟩, 5⟩], .kill, .open_]

/-- **C21 is false of the code.** After the second reopen the store has forgotten the vote, the committed id,
three of the four acknowledged entries and the peer address. -/
theorem C21_counterexample :
    (run {} {} witness).1.live = some { mem := { log := [(4, ⟨⟨4, 1⟩, 5⟩)] }, peers := AMap.empty } ∧
    (run {} {} witness).2.mem.vote = some ⟨1, 1, true⟩ ∧
    (run {} {} witness).2.mem.committed = some ⟨2, 1⟩ ∧
    (run {} {} witness).2.mem.log.length = 4 ∧
    (run {} {} witness).2.peers.get? 2 = some 5002 := by
  decide +kernel

/-- the witness history has two opens on data -/
example : opensOnData {} witness = 2 := by decide +kernel

theorem runNC_liveOk (ops : List Op) (n : Node) (a : Ack) (hi : Inv n a) (hl : LiveOk n a) :
    LiveOk (runNC n a ops).1 (runNC n a ops).2 := by
  induction ops generalizing n a with
  | nil => exact hl
  | cons op r ih =>
    refine ih _ _ (inv_step _ _ readFromStart_ok readFromStart_ok n a op hi) ?_
    exact liveOk_step _ _ n a op hi hl (fun _ => ⟨rfl, rfl⟩)

/-- **C21 over a non-consuming reader.** With `open` reading each log from its beginning (and moving no cursor),
the property holds for every history and any number of restarts. -/
theorem C21_nonconsuming_holds (ops : List Op) :
    ∀ lv, (runNC {} {} ops).1.live = some lv →
      lv.mem = (runNC {} {} ops).2.mem ∧ ∀ k, lv.peers.get? k = (runNC {} {} ops).2.peers.get? k :=
  runNC_liveOk ops {} {} inv_init (fun _ h => by simp at h)

/-- on the witness history the non-consuming reader reports everything -/
example : ((runNC {} {} witness).1.live.map (·.mem.log.length)) = some 4 := by decide +kernel

/-! ### write failures below the store (`faulty` programs) -/

/-- **A failed operation acknowledges nothing and takes nothing away.**  Whatever operation a write failure hits:
the records already in the Raft log stay (the log only grows, by a prefix of what the operation would have written),
the peer log and both read cursors are untouched. -/
theorem C21_failed_operation_keeps_the_logs (n : Node) (op : Op) (k : Nat) (h : (stepFault n op k).2.1 = none) :
    (∃ extra, (stepFault n op k).1.wal.recs = n.wal.recs ++ extra ∧
      ∃ more, (step n op).1.wal.recs = n.wal.recs ++ extra ++ more) ∧
    (stepFault n op k).1.pwal = n.pwal ∧ (stepFault n op k).1.wal.consumed = n.wal.consumed := by
  have hcons : ∀ (w : Wal Rec) (rs : List Rec), (appendRecs w rs).consumed = w.consumed := by
    intro w rs
    induction rs generalizing w with
    | nil => rfl
    | cons r rs ih => simp only [appendRecs, List.foldl_cons] at ih ⊢; rw [ih]; rfl
  unfold stepFault at h ⊢
  cases hv : n.live with
  | none => simp [hv] at h
  | some lv =>
    simp only [hv] at h ⊢
    cases op with
    | append es =>
      by_cases hk : k < es.length
      · simp only [hk, if_true]
        refine ⟨⟨(es.take k).map Rec.entry, appendRecs_recs _ _, (es.drop k).map Rec.entry, ?_⟩, trivial, hcons _ _⟩
        simp only [step, stepG, hv, appendRecs_recs, List.append_assoc, ← List.map_append, List.take_append_drop]
      · simp [hk] at h
    | truncate l =>
      by_cases hk : k = 0
      · simp only [hk, if_true]
        exact ⟨⟨[], by simp, [.truncated l], by simp [step, stepG, hv, Wal.append]⟩, trivial, trivial⟩
      · simp [hk] at h
    | vote v =>
      by_cases hk : k = 0
      · simp only [hk, if_true]
        exact ⟨⟨[], by simp, [.vote v], by simp [step, stepG, hv, Wal.append]⟩, trivial, trivial⟩
      · simp [hk] at h
    | committed c =>
      by_cases hk : k = 0
      · simp only [hk, if_true]
        exact ⟨⟨[], by simp, [.committed c], by simp [step, stepG, hv, Wal.append]⟩, trivial, trivial⟩
      · simp [hk] at h
    | purge l =>
      cases hp : memPurge lv.mem l with
      | none => simp [hp] at h
      | some m =>
        by_cases hk : k = 0
        · simp only [hp, hk, if_true]
          exact ⟨⟨[], by simp, [.purged l], by simp [step, stepG, hv, hp, Wal.append]⟩, trivial, trivial⟩
        · simp [hp, hk] at h
    | open_ => simp at h
    | restart => simp at h
    | kill => simp at h
    | peer i p => simp at h
    | state => simp at h

/-- **What the restarted store reports after a failed append.**  The logs hold the acknowledged state (`Inv`), no
earlier `read_all` has consumed anything, and the write of the `(k+1)`-th entry of an append fails.  The process
is restarted.  Then the reopened store reports the acknowledged state with the first `k` entries of the failed append
inserted - entries that were never acknowledged may be there, everything acknowledged is. -/
theorem C21_failed_append_then_reopen (n : Node) (a : Ack) (lv : Live) (es : List Ent) (k : Nat)
    (hi : Inv n a) (hlive : n.live = some lv) (hc : n.wal.consumed = 0) (hk : k < es.length) :
    (stepFault n (.append es) k).2.1 = none ∧
    ((step (step (stepFault n (.append es) k).1 .kill).1 .open_).1.live.map (·.mem)) = some (memAppend a.mem (es.take k)) := by
  unfold stepFault
  simp only [hlive, hk, if_true]
  refine ⟨trivial, ?_⟩
  simp only [step, stepG, openWith, Wal.readAll, appendRecs_recs, Option.map_some]
  have hcons : ∀ (w : Wal Rec) (rs : List Rec), (appendRecs w rs).consumed = w.consumed := by
    intro w rs
    induction rs generalizing w with
    | nil => rfl
    | cons r rs ih => simp only [appendRecs, List.foldl_cons] at ih ⊢; rw [ih]; rfl
  rw [hcons, hc, List.drop_zero, replay_append, hi.log, replay_entries]

/-- **What the restarted store reports after a failed vote / committed / truncate write.**  These operations write
one record; when that write fails nothing reaches the log, and the restarted store reports exactly the acknowledged
state (the running process had already changed its memory - it is gone with the process). -/
theorem C21_failed_single_record_then_reopen (n : Node) (a : Ack) (lv : Live) (op : Op)
    (hi : Inv n a) (hlive : n.live = some lv) (hc : n.wal.consumed = 0)
    (hop : (∃ v, op = .vote v) ∨ (∃ c, op = .committed c) ∨ (∃ l, op = .truncate l)) :
    (stepFault n op 0).2.1 = none ∧
    ((step (step (stepFault n op 0).1 .kill).1 .open_).1.live.map (·.mem)) = some a.mem := by
  rcases hop with ⟨v, rfl⟩ | ⟨c, rfl⟩ | ⟨l, rfl⟩ <;>
  · unfold stepFault
    simp only [hlive, if_true]
    refine ⟨trivial, ?_⟩
    simp only [step, stepG, openWith, Wal.readAll, Option.map_some]
    rw [hc, List.drop_zero, hi.log]

/-- the first entry of a three-entry append is written, the second fails: the restarted store has the acknowledged
entry 1 and the unacknowledged entry 2, not 3 and 4 -/
example : (stepFault (run {} {} [.open_, .append [⟨⟨1, 1⟩, 5⟩]]).1 (.append [⟨⟨2, 1⟩, 7⟩, ⟨⟨3, 1⟩, 0⟩, ⟨⟨4, 1⟩, 64⟩]) 1).2.1 = none ∧
    ((step (step (stepFault (run {} {} [.open_, .append [⟨⟨1, 1⟩, 5⟩]]).1
        (.append [⟨⟨2, 1⟩, 7⟩, ⟨⟨3, 1⟩, 0⟩, ⟨⟨4, 1⟩, 64⟩]) 1).1 .kill).1 .open_).1.live.map (·.mem.log.map (·.1))) = some [2, 1] := by
  decide +kernel

end WalrusVerif.LogStore
