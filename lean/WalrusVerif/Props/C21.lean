import WalrusVerif.Lemmas.LogStoreLemmas
/-!
# C21 — Raft log store and peer address book across restarts

*Statement.* For any history of log-store operations (append, truncate, purge, vote save, committed save) and
peer-address records interleaved with any number of restarts, each reopened store reports exactly the
acknowledged vote, committed id, purge point, log entries and peer addresses.

The property is **false of the code** (finding `readAllConsumes`): `WalLogStore::new` and the peer-map load read the
logs back with `WriteAheadLog::read_all`, which *consumes* what it returns and persists its cursor, so the next
process that opens the same store is handed only what was appended after the previous open.  What is proved here:

* `C21_logs_hold_ack` — for every history, with any number of restarts, replaying the **whole** of each log gives
  exactly the acknowledged state: nothing acknowledged is ever missing from the logs; it is the reader that loses it.
* `C21_reopen_reports_suffix` — what a reopened store reports is the replay of the not-yet-consumed suffix, exactly.
* `C21_partial` — the property, for histories in which no `open` finds an already-consumed log (in particular:
  every history with at most one reopen after data was written).
* `C21_counterexample` — a history with two reopens after which the store reports a state that is not the
  acknowledged one (replayed on the real store by `corpus/readAllConsumes.oprog`).
* `C21_nonconsuming_holds` — over a reader that starts from the beginning and moves no cursor, the property holds
  for every history: the defect is confined to the choice of reader.
-/
namespace WalrusVerif.LogStore
open WalrusVerif

theorem runG_inv (rl : Wal Rec → List Rec × Wal Rec) (rp : Wal (Nat × Nat) → List (Nat × Nat) × Wal (Nat × Nat))
    (hl : ReaderOk rl) (hp : ReaderOk rp) (ops : List Op) (n : Node) (a : Ack) (h : Inv n a) :
    Inv (runG (stepG rl rp) n a ops).1 (runG (stepG rl rp) n a ops).2 := by
  induction ops generalizing n a with
  | nil => exact h
  | cons op r ih => exact ih _ _ (inv_step rl rp hl hp n a op h)

/-- **C21, what always holds.** After any history from a fresh store — any operations, any number of clean or
killed restarts — replaying the whole log gives exactly the acknowledged log state, and the whole peer log gives
the acknowledged address of every peer. -/
theorem C21_logs_hold_ack (ops : List Op) :
    replay {} (run {} {} ops).1.wal.recs = (run {} {} ops).2.mem ∧
    ∀ k, (peersOf AMap.empty (run {} {} ops).1.pwal.recs).get? k = (run {} {} ops).2.peers.get? k :=
  let h := runG_inv _ _ readAll_ok readAll_ok ops {} {} inv_init
  ⟨h.log, h.peers⟩

/-- what `open` hands the new process: the replay of the records no earlier `read_all` consumed -/
theorem C21_reopen_reports_suffix (n : Node) :
    (step n .open_).1.live = some
      { mem := replay {} (n.wal.recs.drop n.wal.consumed),
        peers := peersOf AMap.empty (n.pwal.recs.drop n.pwal.consumed) } := rfl

/-- after an `open`, both cursors stand at the end: the next `open` sees only what is appended from here on -/
theorem open_consumes (n : Node) :
    (step n .open_).1.wal.consumed = n.wal.recs.length ∧ (step n .open_).1.pwal.consumed = n.pwal.recs.length :=
  ⟨rfl, rfl⟩

theorem run_liveOk (ops : List Op) (n : Node) (a : Ack) (hi : Inv n a) (hl : LiveOk n a) (hq : quirkFree n ops = true) :
    LiveOk (run n a ops).1 (run n a ops).2 := by
  induction ops generalizing n a with
  | nil => exact hl
  | cons op r ih =>
    simp only [quirkFree, Bool.and_eq_true, Bool.not_eq_true'] at hq
    refine ih _ _ (inv_step _ _ readAll_ok readAll_ok n a op hi) ?_ hq.2
    refine liveOk_step _ _ n a op hi hl ?_
    intro ho
    subst ho
    have := hq.1
    simp only [quirkReadAllConsumes, Bool.or_eq_false_iff, decide_eq_false_iff_not, Nat.not_lt, Nat.le_zero_eq] at this
    simp [Wal.readAll, this.1, this.2]

/-- **C21 (partial).** For every history in which no `open` finds a log that an earlier `read_all` already
consumed, the open store reports exactly the acknowledged state: vote, committed id, purge point, log entries
(`lv.mem`) and the address of every peer. -/
theorem C21_partial (ops : List Op) (hq : quirkFree {} ops = true) :
    ∀ lv, (run {} {} ops).1.live = some lv →
      lv.mem = (run {} {} ops).2.mem ∧ ∀ k, lv.peers.get? k = (run {} {} ops).2.peers.get? k :=
  run_liveOk ops {} {} inv_init (fun _ h => by simp at h) hq

/-- the hypothesis of `C21_partial` is met by a history with real content and one reopen … -/
example : quirkFree {}
    [.open_, .append [⟨⟨1, 1⟩, 10⟩, ⟨⟨2, 1⟩, 0⟩], .vote ⟨1, 1, true⟩, .peer 2 5002, .kill, .open_, .state] = true := by
  decide +kernel

/-- … and is exactly what the second reopen violates -/
example : quirkFree {}
    [.open_, .append [⟨⟨1, 1⟩, 10⟩], .restart, .open_, .restart, .open_] = false := by decide +kernel

/-- the history of `corpus/readAllConsumes.oprog` -/
def witness : List Op :=
  [.open_, .append [⟨⟨1, 1⟩, 10⟩, ⟨⟨2, 1⟩, 0⟩, ⟨⟨3, 1⟩, 20⟩], .vote ⟨1, 1, true⟩, .committed (some ⟨2, 1⟩),
   .peer 2 5002, .restart, .open_, .append [⟨⟨4, 1⟩, 5⟩], .kill, .open_]

/-- **C21 is false of the code.** After the second reopen the store has forgotten the vote, the committed id,
three of the four acknowledged entries and the peer address. -/
theorem C21_counterexample :
    (run {} {} witness).1.live = some { mem := { log := [(4, ⟨⟨4, 1⟩, 5⟩)] }, peers := AMap.empty } ∧
    (run {} {} witness).2.mem.vote = some ⟨1, 1, true⟩ ∧
    (run {} {} witness).2.mem.committed = some ⟨2, 1⟩ ∧
    (run {} {} witness).2.mem.log.length = 4 ∧
    (run {} {} witness).2.peers.get? 2 = some 5002 := by
  decide +kernel

theorem runNC_liveOk (ops : List Op) (n : Node) (a : Ack) (hi : Inv n a) (hl : LiveOk n a) :
    LiveOk (runNC n a ops).1 (runNC n a ops).2 := by
  induction ops generalizing n a with
  | nil => exact hl
  | cons op r ih =>
    refine ih _ _ (inv_step _ _ readFromStart_ok readFromStart_ok n a op hi) ?_
    exact liveOk_step _ _ n a op hi hl (fun _ => ⟨rfl, rfl⟩)

/-- **C21 over a non-consuming reader.** With `open` reading each log from its beginning (and moving no cursor),
the property holds for every history and any number of restarts. -/
theorem C21_nonconsuming_holds (ops : List Op) :
    ∀ lv, (runNC {} {} ops).1.live = some lv →
      lv.mem = (runNC {} {} ops).2.mem ∧ ∀ k, lv.peers.get? k = (runNC {} {} ops).2.peers.get? k :=
  runNC_liveOk ops {} {} inv_init (fun _ h => by simp at h)

/-- on the witness history the non-consuming reader reports everything -/
example : ((runNC {} {} witness).1.live.map (·.mem.log.length)) = some 4 := by decide +kernel

end WalrusVerif.LogStore
