import WalrusVerif.Lemmas.PlaneLemmas
/-!
# C23 — a segment is never written after the node holding it applied its sealing

*Statement.* Once a node has applied the metadata rollover that seals a segment, that node never again writes an
entry into that segment.  A node never writes into a segment that its applied metadata assigns to another node.
Quantifier: all interleavings of appends with rollover application and lease refresh on the writing node.

The property is **false of the code** (open finding `staleLeaseWrite`): the lease is checked (`ensure_lease`) before
the per-key lock is taken and the entry written, and the lease set itself is only as recent as the last
`update_leases`; a rollover applied on the node in between is not noticed.  `C23_counterexample` is such an
interleaving of two PUTs on one node; `corpus/staleLeaseWrite.plprog` replays it on the real code.

What holds, for **every** schedule (any number of nodes, topics, tasks, any order of steps, applies and lease syncs):
`C23_partial` - a write made while the node's lease set is *current* (nothing applied on the node since the leases
were last refreshed, and the key still leased) goes to a segment that the node's applied metadata has open and
assigns to the node.  So every violating write is made under a lease set that an apply has outdated: exactly the
window between a lease refresh and the write.
-/
namespace WalrusVerif.Plane
open WalrusVerif

/-- set-up of a cluster: `n` nodes, a rollover threshold, topics with their first leaders -/
def setup (n thresh : Nat) (topics : List (Name × Nat)) : World :=
  topics.foldl (fun w t => createTopic w t.1 t.2) (initWorld n thresh)

theorem leaseInv_setup (n thresh : Nat) (topics : List (Name × Nat)) : LeaseInv (setup n thresh topics) := by
  unfold setup
  have : ∀ (l : List (Name × Nat)) (w : World), LeaseInv w → LeaseInv (l.foldl (fun w t => createTopic w t.1 t.2) w) := by
    intro l
    induction l with
    | nil => intro w h; exact h
    | cons a r ih => intro w h; exact ih _ (leaseInv_createTopic w a.1 a.2 h)
  exact this _ _ (leaseInv_initWorld n thresh)

theorem writes_applyAllOn (w : World) (n fuel : Nat) : (applyAllOn w n fuel).writes = w.writes := by
  induction fuel generalizing w with
  | zero => rfl
  | succ k ih =>
    unfold applyAllOn
    have := applyNext_writes w n
    split
    · rename_i w' _ heq; rw [heq] at this; rw [ih, this]
    · rename_i w' heq; rw [heq] at this; exact this

theorem writes_applyAll (w : World) : (applyAll w).writes = w.writes := by
  unfold applyAll
  have : ∀ (l : List Nat) (w : World), (l.foldl (fun w n => applyAllOn w n (w.log.length + 1)) w).writes = w.writes := by
    intro l
    induction l with
    | nil => intro w; rfl
    | cons a r ih => intro w; simp only [List.foldl_cons]; rw [ih, writes_applyAllOn]
  exact this _ w

theorem writes_setup (n thresh : Nat) (topics : List (Name × Nat)) : (setup n thresh topics).writes = [] := by
  unfold setup
  have : ∀ (l : List (Name × Nat)) (w : World), w.writes = [] → (l.foldl (fun w t => createTopic w t.1 t.2) w).writes = [] := by
    intro l
    induction l with
    | nil => intro w h; exact h
    | cons a r ih =>
      intro w h
      apply ih
      unfold createTopic
      rw [writes_applyAll]; exact h
  apply this
  unfold initWorld
  rw [writes_applyAll]

/-- **C23 (partial), every schedule.** In every execution - any cluster size, rollover threshold, topics, any
sequence of task spawns, task steps, per-node applies and lease syncs - every write that was made while the writing
node's lease set was current (nothing applied on that node since its last lease refresh, key still in the set) went
into a segment that the node's applied metadata had open and assigned to that node. -/
theorem C23_partial (n thresh : Nat) (topics : List (Name × Nat)) (acts : List Act) :
    ∀ ev ∈ (runActs (setup n thresh topics) acts).writes, ev.leasesCurrent = true → ev.ownedAtWrite = true :=
  writesOk_runActs _ acts (leaseInv_setup n thresh topics) (by
    unfold WritesOk; rw [writes_setup]; intro ev h; simp at h)

/-- restated as what a violation needs: a write into a sealed or foreign segment was made under a lease set that an
apply on that node had outdated (or that no longer held the key) -/
theorem C23_violation_needs_outdated_leases (n thresh : Nat) (topics : List (Name × Nat)) (acts : List Act)
    (ev : WriteEv) (h : ev ∈ (runActs (setup n thresh topics) acts).writes) (hv : ev.ownedAtWrite = false) :
    ev.leasesCurrent = false := by
  cases hc : ev.leasesCurrent with
  | false => rfl
  | true => rw [C23_partial n thresh topics acts ev h hc] at hv; cases hv

theorem tasks_setup (n thresh : Nat) (topics : List (Name × Nat)) : (setup n thresh topics).tasks = AMap.empty := by
  unfold setup
  have hnext : ∀ (w : World) (m : Nat), (applyNext w m).1.tasks = w.tasks := by
    intro w m; unfold applyNext; simp only; split <;> rfl
  have hon : ∀ (fuel : Nat) (w : World) (m : Nat), (applyAllOn w m fuel).tasks = w.tasks := by
    intro fuel
    induction fuel with
    | zero => intro w m; rfl
    | succ k ih =>
      intro w m
      unfold applyAllOn
      have := hnext w m
      split
      · rename_i w' _ heq; rw [heq] at this; rw [ih, this]
      · rename_i w' heq; rw [heq] at this; exact this
  have hall : ∀ (w : World), (applyAll w).tasks = w.tasks := by
    intro w
    unfold applyAll
    have : ∀ (l : List Nat) (w : World), (l.foldl (fun w n => applyAllOn w n (w.log.length + 1)) w).tasks = w.tasks := by
      intro l
      induction l with
      | nil => intro w; rfl
      | cons a r ih => intro w; simp only [List.foldl_cons]; rw [ih, hon]
    exact this _ w
  have : ∀ (l : List (Name × Nat)) (w : World), w.tasks = AMap.empty →
      (l.foldl (fun w t => createTopic w t.1 t.2) w).tasks = AMap.empty := by
    intro l
    induction l with
    | nil => intro w h; exact h
    | cons a r ih =>
      intro w h
      apply ih
      unfold createTopic
      rw [hall]; exact h
  apply this
  unfold initWorld
  rw [hall]

/-- **C23 on schedules whose applies are quiet.** If the schedule applies a log entry on a node only while no append
is in flight on that node (between its lease refresh and its write), then - whatever else happens: any number of
tasks, interleaved steps, lease syncs, applies on *other* nodes at any time - every write goes into a segment that
the writing node's applied metadata has open and assigns to it.  Together with `C23_counterexample` this pins the
defect down: the only way to violate C23 is an apply on the writing node inside that window. -/
theorem C23_holds_when_applies_are_quiet (n thresh : Nat) (topics : List (Name × Nat)) (acts : List Act)
    (hq : QuietSchedule (setup n thresh topics) acts) :
    ∀ ev ∈ (runActs (setup n thresh topics) acts).writes, ev.ownedAtWrite = true :=
  allOwned_quiet _ acts hq (leaseInv_setup n thresh topics)
    (by intro tid t hget; rw [tasks_setup] at hget; simp [AMap.empty, AMap.get?] at hget)
    (by unfold AllOwned; rw [writes_setup]; intro ev h; simp at h)

def ta : Name := ['a']

/-- a schedule with two overlapping PUTs on one node (task 1 waits for the key lock task 2 holds) and the rollover
applied after both wrote is quiet; both writes are owned -/
example : QuietSchedule (setup 2 2 [(ta, 1)])
    [.spawn 1 (.putStart 1 ta 1), .step 1, .step 1, .spawn 2 (.putStart 1 ta 2), .step 2, .step 2, .step 2, .step 1,
     .step 2, .step 2, .step 1, .step 1, .step 1, .step 1, .step 2, .step 2, .step 1, .apply 1, .apply 2, .step 1] :=
  quietScheduleB_sound _ _ (by decide +kernel)

/-- a PUT that runs alone: its write is made under a current lease set (the hypothesis of `C23_partial` is met) -/
example : (runActs (setup 2 2 [(ta, 1)])
    [.spawn 1 (.putStart 1 ta 7), .step 1, .step 1, .step 1, .step 1]).writes =
    [⟨1, (ta, 1), 7, true, true⟩] := by decide +kernel

/-- the schedule of `corpus/staleLeaseWrite.plprog`: two PUTs on node 1, threshold 1.  Task 1 passes the lease check;
task 2 appends, proposes the rollover, node 1 applies it; task 1 then writes into the segment node 1 has sealed. -/
def staleLeaseSchedule : List Act :=
  [.spawn 1 (.putStart 1 ta 1), .step 1, .step 1,
   .spawn 2 (.putStart 1 ta 2), .step 2, .step 2, .step 2, .step 2, .step 2, .step 2, .step 2,
   .apply 1, .step 2,
   .step 1, .step 1]

/-- **C23 is false of the code.** After node 1 applied the rollover that seals segment 1 of topic `a` (and hands
segment 2 to node 2), task 1 writes payload 1 into segment 1 on node 1. -/
theorem C23_counterexample :
    (runActs (setup 2 1 [(ta, 1)]) staleLeaseSchedule).writes =
      [⟨1, (ta, 1), 2, true, true⟩, ⟨1, (ta, 1), 1, false, false⟩] ∧
    (((runActs (setup 2 1 [(ta, 1)]) staleLeaseSchedule).node 1).md.topics.get? ta).map
      (fun ts => (ts.currentSegment, ts.leaderNode, ts.sealedSegments)) = some (2, 2, [(1, 1)]) := by
  decide +kernel

end WalrusVerif.Plane
