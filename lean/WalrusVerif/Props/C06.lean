import WalrusVerif.Model.Recover
import WalrusVerif.Lemmas.AEngStepR
import WalrusVerif.Props.C01
/-!
# C06 — restarting an instance is invisible to producers and consumers

Statement: if an instance is shut down cleanly (all appends flushed) and reopened on the same
directory any number of times, consumers observe exactly the entry stream, order, remaining entries
and counts they would have observed without the restarts.  For StrictlyAtOnce consumers this means
no entry is lost, redelivered or reordered.  This holds for any payload sizes and for any wall-clock
behaviour between runs.

**Partial.**  What is proved (entry-level model `AEngR` = `AEng` + clean restart, Model/AEngR.lean):

* `C06_restarts_invisible` — every history of appends, batch appends, consuming reads, peeks,
  offset reads and counts with **any number of restart events at any positions** is a history of the
  FIFO specification in which a restart is a no-op (`acceptsR`): nothing lost, nothing redelivered,
  nothing reordered, counts unchanged.  StrictlyAtOnce (the recovered cursor denotes the in-memory
  one), any payload sizes including empty and multi-block, any geometry.
* `C06_next_after_restart`, `C06_batch_after_restart` — in every reachable state, `read_next` after a
  restart returns the very entry it would have returned without it, and a batch read returns a
  non-empty prefix of the same pending entries (possibly a different prefix length than without the
  restart, because the former active block is now sealed: both are allowed by the statement).
* `C06_restart_keeps_topic` — one restart keeps each topic's log, consumed index and count.

What is **not** proved, and why the property is partial: `reopenTopic` (what a restart does at the
level of entries in blocks) is tied to `startup_chore` — the recovery scan over files, units and
headers, the synthetic block ids, the index hydration — by the correspondence run only (the
storage-level model `Eng.openInst` and the real engine are executed on the same restart histories
and must agree with `AEngR` operation by operation), and only on histories on which no trigger of an
open recovery finding has fired: `friendlyFrom` (no allocated-but-empty block at a restart:
`emptyBlockAllocated`, `scanStopsAtEmptyBlock`), a wall clock that does not step back across a
restart (`clockRegressionReordersFiles`), no entry larger than `MAX_ALLOC` (`sealThenAllocFail`, repaired since).
Those four regions are known findings with witnesses in corpus/; the third sentence of the
statement ("any wall-clock behaviour") is false on this tree.  AtLeastOnce restarts (the consumer
resumes at its last persisted position) are decided by the oracle on the implementation.
-/
namespace WalrusVerif.Props.C06
open WalrusVerif WalrusVerif.Eng WalrusVerif.AEng

/-- **C06 (StrictlyAtOnce, friendly histories).** Restart events anywhere in a history are
invisible: the history is accepted by the FIFO specification with `restart` as a no-op. -/
theorem C06_restarts_invisible (c : Cfg) (hc : CfgOK c) (ops : List ROp) (hl : ∀ op ∈ ops, op.WithinLimits c)
    (_friendly : friendlyFrom c {} ops = true) :
    acceptsR Spec.init (ops.zip (runR c ops)) := by
  have h := runFromR_accepts c hc ops {} (fun _ => 0) (sinv_init c) hl
  have e : specOf {} (fun _ => 0) = Spec.init := by
    unfold specOf Spec.init
    congr 1
  rw [e] at h
  exact h

/-- one restart keeps every topic's log, what has been consumed, and the count -/
theorem C06_restart_keeps_topic (c : Cfg) (n : Nat) (a : ATopic) (k : Nat) (h : TInv c n a k) :
    log (reopenTopic c a) = log a ∧ (reopenTopic c a).count = a.count ∧ TInv c n (reopenTopic c a) k :=
  let r := tinv_reopenTopic c n a k h
  ⟨r.2.1, r.2.2, r.1⟩

/-- after a restart `read_next` returns the very entry it would have returned without it -/
theorem C06_next_after_restart (c : Cfg) (hc : CfgOK c) (n : Nat) (a : ATopic) (k : Nat) (h : TInv c n a k) (cp : Bool) :
    (readNext c (reopenTopic c a) cp).2 = (readNext c a cp).2 := by
  have r := tinv_reopenTopic c n a k h
  rw [(readNext_spec c hc.meta_pos cp n _ k r.1).1, (readNext_spec c hc.meta_pos cp n a k h).1, r.2.1]

/-- … and a batch read still returns a non-empty prefix of the same pending entries -/
theorem C06_batch_after_restart (c : Cfg) (hc : CfgOK c) (n : Nat) (a : ATopic) (k : Nat) (h : TInv c n a k)
    (maxB : Nat) (cp : Bool) :
    (∃ m, (batchRead c (reopenTopic c a) maxB cp).2 = (((log a).drop k).take m).map (·, 0)) ∧
      ((batchRead c (reopenTopic c a) maxB cp).2 = [] → k = (log a).length) := by
  have r := tinv_reopenTopic c n a k h
  have := Props.C01.C01_batch_is_prefix c hc n _ k r.1 maxB cp
  rw [r.2.1] at this
  exact this

/-! ### the recovery walk of one block (storage-level model `Eng`) -/

/-- the entries `es` are found on disk as cells at consecutive positions starting at offset `o` -/
def Laid (c : Cfg) (cells : List Cell) : Nat → List Pay → Prop
  | _, [] => True
  | o, p :: r => (∃ x, cellAt cells o = some x ∧ x.pay = p) ∧ Laid c cells (o + c.metaSz + p.len) r

def totalRaw (c : Cfg) (es : List Pay) : Nat := (es.map fun p => c.metaSz + p.len).sum

/-- **The recovery walk recovers exactly what is laid out in a block.**  Whatever else the file holds: if the
entries `es` lie back to back from position `used` of the block, fit below the block's limit, and are followed by
an unwritten position (or by too little room for another header), then the walk of `startup_chore` over that block
counts exactly those entries and reports exactly their extent as `used` - nothing acknowledged inside a recovered
block is dropped, and nothing beyond the last written entry is picked up. -/
theorem C06_walk_recovers_laid_block (c : Cfg) (hm : 0 < c.metaSz) (cells : List Cell) (base lim : Nat) (es : List Pay) :
    ∀ (used n fuel : Nat), Laid c cells (base + used) es → used + totalRaw c es ≤ lim →
      (cellAt cells (base + used + totalRaw c es) = none ∨ used + totalRaw c es + c.metaSz > lim) →
      es.length < fuel →
      walkBlock c cells base lim fuel used n = (used + totalRaw c es, n + es.length) := by
  induction es with
  | nil =>
    intro used n fuel _ _ hend hf
    cases fuel with
    | zero => omega
    | succ k =>
      simp only [totalRaw, List.map_nil, List.sum_nil, Nat.add_zero, List.length_nil] at hend ⊢
      unfold walkBlock
      rcases hend with hend | hend
      · rw [hend]
      · cases hx : cellAt cells (base + used) with
        | none => rfl
        | some x =>
          simp only
          have : used + c.metaSz + x.pay.len > lim := by omega
          simp [this]
  | cons p r ih =>
    intro used n fuel hl hfit hend hf
    obtain ⟨⟨x, hx, hp⟩, hrest⟩ := hl
    have htot : totalRaw c (p :: r) = c.metaSz + p.len + totalRaw c r := by simp [totalRaw]
    rw [htot] at hfit hend ⊢
    cases fuel with
    | zero => simp at hf
    | succ k =>
      unfold walkBlock
      rw [hx]
      simp only [hp]
      have h1 : ¬ (used + c.metaSz + p.len > lim) := by omega
      simp only [h1, if_false]
      by_cases h2 : used + c.metaSz + p.len + c.metaSz > lim
      · -- no room for another header: nothing can follow
        have hr : r = [] := by
          cases r with
          | nil => rfl
          | cons q r' =>
            exfalso
            have : totalRaw c (q :: r') ≥ c.metaSz := by simp [totalRaw]; omega
            omega
        subst hr
        simp only [h2, if_true, totalRaw, List.map_nil, List.sum_nil, List.length_cons, List.length_nil]
        congr 1 <;> omega
      · simp only [h2, if_false]
        have := ih (used + c.metaSz + p.len) (n + 1) k
          (by rw [show base + (used + c.metaSz + p.len) = base + used + c.metaSz + p.len by omega]; exact hrest)
          (by omega)
          (by
            rcases hend with hend | hend
            · left; rw [show base + (used + c.metaSz + p.len) + totalRaw c r = base + used + (c.metaSz + p.len + totalRaw c r) by omega]
              exact hend
            · right; omega)
          (by simp only [List.length_cons] at hf; omega)
        rw [this]
        simp only [List.length_cons]
        congr 1 <;> omega

/-! ### the recovery scan of one file -/

/-- a block as it lies in a file: where it starts, whose it is, what was written into it (at least one entry) -/
structure LBlock where
  off : Nat
  topic : Topic
  first : Pay
  rest : List Pay

def LBlock.es (b : LBlock) : List Pay := b.first :: b.rest
/-- the limit recovery derives for the block: from its first entry -/
def LBlock.lim (c : Cfg) (b : LBlock) : Nat := blockLimitOf c ⟨b.off, b.topic, b.first⟩

/-- what recovering one block does to the scan state -/
def blockStep (c : Cfg) (f : Nat) (s : ScanSt) (b : LBlock) : ScanSt :=
  { nextId := s.nextId + 1,
    trk := (s.trk.registerBlock s.nextId f).addBlockToFileState f,
    inst := appendBlockToChain s.inst b.topic
      { id := s.nextId, file := f, off := b.off, limit := b.lim c, used := totalRaw c b.es },
    perTopic := s.perTopic.insert b.topic (((s.perTopic.get? b.topic).getD []) ++ [b.es.length]) }

/-- the blocks `bs` lie back to back in the file from offset `off` (each sized by its first entry, its entries back
to back from its start and followed by an unwritten position or too little room for a header), and what follows
them reads as unallocated space (or the file ends) -/
def FileLaid (c : Cfg) (cells : List Cell) : Nat → List LBlock → Prop
  | off, [] => off + c.blockSize ≤ c.fileSize → unitKind c cells off = .zero
  | off, b :: r =>
    b.off = off ∧ off + c.blockSize ≤ c.fileSize ∧ b.lim c ≤ c.fileSize - off ∧
    (∃ x, cellAt cells off = some x ∧ x.pay = b.first ∧ x.topic = b.topic) ∧
    Laid c cells off b.es ∧ totalRaw c b.es ≤ b.lim c ∧
    (cellAt cells (off + totalRaw c b.es) = none ∨ totalRaw c b.es + c.metaSz > b.lim c) ∧
    FileLaid c cells (off + b.lim c) r

theorem length_le_of_totalRaw (c : Cfg) (es : List Pay) : es.length * c.metaSz ≤ totalRaw c es := by
  induction es with
  | nil => simp [totalRaw]
  | cons p r ih =>
    have : totalRaw c (p :: r) = c.metaSz + p.len + totalRaw c r := by simp [totalRaw]
    rw [this, List.length_cons, Nat.succ_mul]; omega

/-- **The recovery scan recovers every block of a well-formed file.**  If blocks lie back to back in a file as
described by `FileLaid`, the scan of `startup_chore` over that file registers exactly those blocks, in file order,
with consecutive ids, each with the limit derived from its first entry, `used` = the extent of its entries, and its
entry count - and then stops.  (That friendly writer histories produce such files is tied by the correspondence
runs, not proved.) -/
theorem C06_scan_recovers_laid_file (c : Cfg) (hm : 0 < c.metaSz) (f : Nat) (cells : List Cell) (bs : List LBlock) :
    ∀ (off fuel : Nat) (s : ScanSt), FileLaid c cells off bs → bs.length < fuel →
      scanFile c f cells fuel off s = bs.foldl (blockStep c f) s := by
  induction bs with
  | nil =>
    intro off fuel s hl hf
    cases fuel with
    | zero => omega
    | succ k =>
      unfold scanFile
      by_cases h : off + c.blockSize ≤ c.fileSize
      · simp only [h, if_true]; rw [hl h]; rfl
      · simp only [h, if_false]; rfl
  | cons b r ih =>
    intro off fuel s hl hf
    obtain ⟨hoff, hroom, hlim, ⟨x, hx, hxp, hxt⟩, hlaid, hfit, hend, hrest⟩ := hl
    cases fuel with
    | zero => simp at hf
    | succ k =>
      unfold scanFile
      simp only [hroom, if_true]
      have hk : unitKind c cells off = .header x := by unfold unitKind; rw [hx]
      rw [hk]
      have hxlim : blockLimitOf c x = b.lim c := by
        unfold LBlock.lim blockLimitOf; rw [hxp]
      simp only [hxlim]
      have h1 : ¬ (b.lim c > c.fileSize - off) := by omega
      simp only [h1, if_false]
      have hlen : b.es.length < b.lim c / c.metaSz + 1 := by
        have h2 := length_le_of_totalRaw c b.es
        have h3 : b.es.length * c.metaSz ≤ b.lim c := Nat.le_trans h2 hfit
        have := (Nat.le_div_iff_mul_le hm).mpr h3
        omega
      have hw := C06_walk_recovers_laid_block c hm cells off (b.lim c) b.es 0 0 (b.lim c / c.metaSz + 1)
        (by simpa using hlaid) (by simpa using hfit)
        (by simpa using hend) hlen
      simp only [Nat.zero_add] at hw
      rw [hw]
      have hpos : totalRaw c b.es ≠ 0 := by
        have : totalRaw c b.es = c.metaSz + b.first.len + totalRaw c b.rest := by simp [totalRaw, LBlock.es]
        omega
      simp only [hpos, if_false]
      rw [ih (off + b.lim c) k _ hrest (by simp only [List.length_cons] at hf; omega)]
      simp only [List.foldl_cons, blockStep, hxt, hoff]

/-- a file with a one-unit block of three entries (topic 0) and a two-unit block opened by an oversized entry
(topic 1): the hypothesis of `C06_scan_recovers_laid_file` is met … -/
def cellsEx : List Cell :=
  [⟨0, ⟨0, false⟩, ⟨100, 1⟩⟩, ⟨356, ⟨0, false⟩, ⟨0, 0⟩⟩, ⟨612, ⟨0, false⟩, ⟨1000, 3⟩⟩,
   ⟨4096, ⟨1, false⟩, ⟨5000, 4⟩⟩, ⟨4096 + 5256, ⟨1, false⟩, ⟨10, 5⟩⟩]

example : FileLaid smallCfg cellsEx 0
    [⟨0, ⟨0, false⟩, ⟨100, 1⟩, [⟨0, 0⟩, ⟨1000, 3⟩]⟩, ⟨4096, ⟨1, false⟩, ⟨5000, 4⟩, [⟨10, 5⟩]⟩] := by
  refine ⟨rfl, by decide +kernel, by decide +kernel, ⟨⟨0, ⟨0, false⟩, ⟨100, 1⟩⟩, by decide +kernel, rfl, rfl⟩,
    ⟨⟨⟨0, ⟨0, false⟩, ⟨100, 1⟩⟩, by decide +kernel, rfl⟩, ⟨⟨356, ⟨0, false⟩, ⟨0, 0⟩⟩, by decide +kernel, rfl⟩,
      ⟨⟨612, ⟨0, false⟩, ⟨1000, 3⟩⟩, by decide +kernel, rfl⟩, trivial⟩,
    by decide +kernel, Or.inl (by decide +kernel), ?_⟩
  refine ⟨rfl, by decide +kernel, by decide +kernel, ⟨⟨4096, ⟨1, false⟩, ⟨5000, 4⟩⟩, by decide +kernel, rfl, rfl⟩,
    ⟨⟨⟨4096, ⟨1, false⟩, ⟨5000, 4⟩⟩, by decide +kernel, rfl⟩, ⟨⟨4096 + 5256, ⟨1, false⟩, ⟨10, 5⟩⟩, by decide +kernel, rfl⟩, trivial⟩,
    by decide +kernel, Or.inl (by decide +kernel), ?_⟩
  intro _
  decide +kernel

/-- … and the scan registers both blocks: three entries for topic 0, two for topic 1, next id 3 -/
example : (scanFile smallCfg 0 cellsEx 5 0 { trk := {}, inst := { dir := 0, mode := .strict } }).perTopic =
      [(⟨1, false⟩, [2]), (⟨0, false⟩, [3])] ∧
    (scanFile smallCfg 0 cellsEx 5 0 { trk := {}, inst := { dir := 0, mode := .strict } }).nextId = 3 := by
  decide +kernel

/-- three entries laid out from the start of a block, a stale cell further on: the walk returns the three -/
example : walkBlock smallCfg
    [⟨4096, ⟨0, false⟩, ⟨100, 1⟩⟩, ⟨4096 + 356, ⟨0, false⟩, ⟨0, 0⟩⟩, ⟨4096 + 612, ⟨0, false⟩, ⟨1000, 3⟩⟩,
     ⟨4096 + 3000, ⟨0, false⟩, ⟨5, 9⟩⟩] 4096 4096 17 0 0 = (100 + 0 + 1000 + 3 * 256, 3) := by decide +kernel

/-! Non-vacuity: a history that rotates a block, restarts with the cursor in the (former) active
block, restarts again, and drains; evaluated by the kernel (small geometry). -/
def demo : List ROp :=
  [.op (.append ⟨0, false⟩ ⟨3000, 1⟩), .op (.batch ⟨0, false⟩ [⟨100, 2⟩, ⟨0, 0⟩, ⟨1200, 3⟩]),
   .op (.next ⟨0, false⟩ true), .op (.next ⟨0, false⟩ true), .restart, .op (.count ⟨0, false⟩),
   .op (.next ⟨0, false⟩ true), .op (.append ⟨0, false⟩ ⟨5, 4⟩), .restart, .restart,
   .op (.bread ⟨0, false⟩ 99999 true none), .op (.next ⟨0, false⟩ true), .op (.count ⟨0, false⟩)]

example : runR smallCfg demo =
    [.ok, .ok, .entry (some ⟨3000, 1⟩), .entry (some ⟨100, 2⟩), .ok, .num 2, .entry (some ⟨0, 0⟩), .ok, .ok, .ok,
     .entries [(⟨1200, 3⟩, 0), (⟨5, 4⟩, 0)], .entry none, .num 0] := by decide +kernel
example : friendlyFrom smallCfg {} demo = true := by decide +kernel

end WalrusVerif.Props.C06
