import WalrusVerif.Model.Recover
import WalrusVerif.Lemmas.LayoutLemmas
import WalrusVerif.Lemmas.CrashLemmas
import WalrusVerif.Lemmas.AEngStepR
import WalrusVerif.Props.C01
/-!
# C06 — restarting an instance is invisible to producers and consumers

Statement: if an instance is shut down cleanly (all appends flushed) and reopened on the same
directory any number of times, consumers observe exactly the entry stream, order, remaining entries
and counts they would have observed without the restarts.  For StrictlyAtOnce consumers this means
no entry is lost, redelivered or reordered.  This holds for any payload sizes and for any wall-clock
behaviour between runs.

**Partial.**  What is proved (entry-level model `AEngR` = `AEng` + clean restart, Model/AEngR.lean):

* `C06_restarts_invisible` — every history of appends, batch appends, consuming reads, peeks,
  offset reads and counts with **any number of restart events at any positions** is a history of the
  FIFO specification in which a restart is a no-op (`acceptsR`): nothing lost, nothing redelivered,
  nothing reordered, counts unchanged.  StrictlyAtOnce (the recovered cursor denotes the in-memory
  one), any payload sizes including empty and multi-block, any geometry.
* `C06_next_after_restart`, `C06_batch_after_restart` — in every reachable state, `read_next` after a
  restart returns the very entry it would have returned without it, and a batch read returns a
  non-empty prefix of the same pending entries (possibly a different prefix length than without the
  restart, because the former active block is now sealed: both are allowed by the statement).
* `C06_restart_keeps_topic` — one restart keeps each topic's log, consumed index and count.

What is **not** proved, and why the property is partial: `reopenTopic` (what a restart does at the
level of entries in blocks) is tied to `startup_chore` — the recovery scan over files, units and
headers, the synthetic block ids, the index hydration — by the correspondence run only (the
storage-level model `Eng.openInst` and the real engine are executed on the same restart histories
and must agree with `AEngR` operation by operation), and only on histories on which no trigger of an
open recovery finding has fired: `friendlyFrom` (no allocated-but-empty block at a restart:
`emptyBlockAllocated`, `scanStopsAtEmptyBlock`), a wall clock that does not step back across a
restart (`clockRegressionReordersFiles`), no entry larger than `MAX_ALLOC` (`sealThenAllocFail`, repaired since).
Those four regions are known findings with witnesses in corpus/; the third sentence of the
statement ("any wall-clock behaviour") is false on this tree.  AtLeastOnce restarts (the consumer
resumes at its last persisted position) are decided by the oracle on the implementation.
-/
namespace WalrusVerif.Props.C06
open WalrusVerif WalrusVerif.Eng WalrusVerif.AEng

/-- **C06 (StrictlyAtOnce, friendly histories).** Restart events anywhere in a history are
invisible: the history is accepted by the FIFO specification with `restart` as a no-op. -/
theorem C06_restarts_invisible (c : Cfg) (hc : CfgOK c) (ops : List ROp) (hl : ∀ op ∈ ops, op.WithinLimits c)
    (_friendly : friendlyFrom c {} ops = true) :
    acceptsR Spec.init (ops.zip (runR c ops)) := by
  have h := runFromR_accepts c hc ops {} (fun _ => 0) (sinv_init c) hl
  have e : specOf {} (fun _ => 0) = Spec.init := by
    unfold specOf Spec.init
    congr 1
  rw [e] at h
  exact h

/-- one restart keeps every topic's log, what has been consumed, and the count -/
theorem C06_restart_keeps_topic (c : Cfg) (n : Nat) (a : ATopic) (k : Nat) (h : TInv c n a k) :
    log (reopenTopic c a) = log a ∧ (reopenTopic c a).count = a.count ∧ TInv c n (reopenTopic c a) k :=
  let r := tinv_reopenTopic c n a k h
  ⟨r.2.1, r.2.2, r.1⟩

/-- after a restart `read_next` returns the very entry it would have returned without it -/
theorem C06_next_after_restart (c : Cfg) (hc : CfgOK c) (n : Nat) (a : ATopic) (k : Nat) (h : TInv c n a k) (cp : Bool) :
    (readNext c (reopenTopic c a) cp).2 = (readNext c a cp).2 := by
  have r := tinv_reopenTopic c n a k h
  rw [(readNext_spec c hc.meta_pos cp n _ k r.1).1, (readNext_spec c hc.meta_pos cp n a k h).1, r.2.1]

/-- … and a batch read still returns a non-empty prefix of the same pending entries -/
theorem C06_batch_after_restart (c : Cfg) (hc : CfgOK c) (n : Nat) (a : ATopic) (k : Nat) (h : TInv c n a k)
    (maxB : Nat) (cp : Bool) :
    (∃ m, (batchRead c (reopenTopic c a) maxB cp).2 = (((log a).drop k).take m).map (·, 0)) ∧
      ((batchRead c (reopenTopic c a) maxB cp).2 = [] → k = (log a).length) := by
  have r := tinv_reopenTopic c n a k h
  have := Props.C01.C01_batch_is_prefix c hc n _ k r.1 maxB cp
  rw [r.2.1] at this
  exact this

/-! ### the recovery walk of one block (storage-level model `Eng`) -/

/-- the entries `es` are found on disk as cells at consecutive positions starting at offset `o` -/
def Laid (c : Cfg) (cells : List Cell) : Nat → List Pay → Prop
  | _, [] => True
  | o, p :: r => (∃ x, cellAt cells o = some x ∧ x.pay = p) ∧ Laid c cells (o + c.metaSz + p.len) r

def totalRaw (c : Cfg) (es : List Pay) : Nat := (es.map fun p => c.metaSz + p.len).sum

/-- **The recovery walk recovers exactly what is laid out in a block.**  Whatever else the file holds: if the
entries `es` lie back to back from position `used` of the block, fit below the block's limit, and are followed by
an unwritten position (or by too little room for another header), then the walk of `startup_chore` over that block
counts exactly those entries and reports exactly their extent as `used` - nothing acknowledged inside a recovered
block is dropped, and nothing beyond the last written entry is picked up. -/
theorem C06_walk_recovers_laid_block (c : Cfg) (hm : 0 < c.metaSz) (cells : List Cell) (base lim : Nat) (es : List Pay) :
    ∀ (used n fuel : Nat), Laid c cells (base + used) es → used + totalRaw c es ≤ lim →
      (cellAt cells (base + used + totalRaw c es) = none ∨ used + totalRaw c es + c.metaSz > lim) →
      es.length < fuel →
      walkBlock c cells base lim fuel used n = (used + totalRaw c es, n + es.length) := by
  induction es with
  | nil =>
    intro used n fuel _ _ hend hf
    cases fuel with
    | zero => omega
    | succ k =>
      simp only [totalRaw, List.map_nil, List.sum_nil, Nat.add_zero, List.length_nil] at hend ⊢
      unfold walkBlock
      rcases hend with hend | hend
      · rw [hend]
      · cases hx : cellAt cells (base + used) with
        | none => rfl
        | some x =>
          simp only
          have : used + c.metaSz + x.pay.len > lim := by omega
          simp [this]
  | cons p r ih =>
    intro used n fuel hl hfit hend hf
    obtain ⟨⟨x, hx, hp⟩, hrest⟩ := hl
    have htot : totalRaw c (p :: r) = c.metaSz + p.len + totalRaw c r := by simp [totalRaw]
    rw [htot] at hfit hend ⊢
    cases fuel with
    | zero => simp at hf
    | succ k =>
      unfold walkBlock
      rw [hx]
      simp only [hp]
      have h1 : ¬ (used + c.metaSz + p.len > lim) := by omega
      simp only [h1, if_false]
      by_cases h2 : used + c.metaSz + p.len + c.metaSz > lim
      · -- no room for another header: nothing can follow
        have hr : r = [] := by
          cases r with
          | nil => rfl
          | cons q r' =>
            exfalso
            have : totalRaw c (q :: r') ≥ c.metaSz := by simp [totalRaw]; omega
            omega
        subst hr
        simp only [h2, if_true, totalRaw, List.map_nil, List.sum_nil, List.length_cons, List.length_nil]
        congr 1 <;> omega
      · simp only [h2, if_false]
        have := ih (used + c.metaSz + p.len) (n + 1) k
          (by rw [show base + (used + c.metaSz + p.len) = base + used + c.metaSz + p.len by omega]; exact hrest)
          (by omega)
          (by
            rcases hend with hend | hend
            · left; rw [show base + (used + c.metaSz + p.len) + totalRaw c r = base + used + (c.metaSz + p.len + totalRaw c r) by omega]
              exact hend
            · right; omega)
          (by simp only [List.length_cons] at hf; omega)
        rw [this]
        simp only [List.length_cons]
        congr 1 <;> omega

/-! ### the recovery scan of one file -/

/-- a block as it lies in a file: where it starts, whose it is, what was written into it (at least one entry) -/
structure LBlock where
  off : Nat
  topic : Topic
  first : Pay
  rest : List Pay

def LBlock.es (b : LBlock) : List Pay := b.first :: b.rest
/-- the limit recovery derives for the block: from its first entry -/
def LBlock.lim (c : Cfg) (b : LBlock) : Nat := blockLimitOf c ⟨b.off, b.topic, b.first⟩

/-- what recovering one block does to the scan state -/
def blockStep (c : Cfg) (f : Nat) (s : ScanSt) (b : LBlock) : ScanSt :=
  { nextId := s.nextId + 1,
    trk := (s.trk.registerBlock s.nextId f).addBlockToFileState f,
    inst := appendBlockToChain s.inst b.topic
      { id := s.nextId, file := f, off := b.off, limit := b.lim c, used := totalRaw c b.es },
    perTopic := s.perTopic.insert b.topic (((s.perTopic.get? b.topic).getD []) ++ [b.es.length]) }

/-- the blocks `bs` lie back to back in the file from offset `off` (each sized by its first entry, its entries back
to back from its start and followed by an unwritten position or too little room for a header), and what follows
them reads as unallocated space (or the file ends) -/
def FileLaid (c : Cfg) (cells : List Cell) : Nat → List LBlock → Prop
  | off, [] => off + c.blockSize ≤ c.fileSize → unitKind c cells off = .zero
  | off, b :: r =>
    b.off = off ∧ off + c.blockSize ≤ c.fileSize ∧ b.lim c ≤ c.fileSize - off ∧
    (∃ x, cellAt cells off = some x ∧ x.pay = b.first ∧ x.topic = b.topic) ∧
    Laid c cells off b.es ∧ totalRaw c b.es ≤ b.lim c ∧
    (cellAt cells (off + totalRaw c b.es) = none ∨ totalRaw c b.es + c.metaSz > b.lim c) ∧
    FileLaid c cells (off + b.lim c) r

theorem length_le_of_totalRaw (c : Cfg) (es : List Pay) : es.length * c.metaSz ≤ totalRaw c es := by
  induction es with
  | nil => simp [totalRaw]
  | cons p r ih =>
    have : totalRaw c (p :: r) = c.metaSz + p.len + totalRaw c r := by simp [totalRaw]
    rw [this, List.length_cons, Nat.succ_mul]; omega

/-- **The recovery scan recovers every block of a well-formed file.**  If blocks lie back to back in a file as
described by `FileLaid`, the scan of `startup_chore` over that file registers exactly those blocks, in file order,
with consecutive ids, each with the limit derived from its first entry, `used` = the extent of its entries, and its
entry count - and then stops.  (That friendly writer histories produce such files is tied by the correspondence
runs, not proved.) -/
theorem C06_scan_recovers_laid_file (c : Cfg) (hm : 0 < c.metaSz) (f : Nat) (cells : List Cell) (bs : List LBlock) :
    ∀ (off fuel : Nat) (s : ScanSt), FileLaid c cells off bs → bs.length < fuel →
      scanFile c f cells fuel off s = bs.foldl (blockStep c f) s := by
  induction bs with
  | nil =>
    intro off fuel s hl hf
    cases fuel with
    | zero => omega
    | succ k =>
      unfold scanFile
      by_cases h : off + c.blockSize ≤ c.fileSize
      · simp only [h, if_true]; rw [hl h]; rfl
      · simp only [h, if_false]; rfl
  | cons b r ih =>
    intro off fuel s hl hf
    obtain ⟨hoff, hroom, hlim, ⟨x, hx, hxp, hxt⟩, hlaid, hfit, hend, hrest⟩ := hl
    cases fuel with
    | zero => simp at hf
    | succ k =>
      unfold scanFile
      simp only [hroom, if_true]
      have hk : unitKind c cells off = .header x := by unfold unitKind; rw [hx]
      rw [hk]
      have hxlim : blockLimitOf c x = b.lim c := by
        unfold LBlock.lim blockLimitOf; rw [hxp]
      simp only [hxlim]
      have h1 : ¬ (b.lim c > c.fileSize - off) := by omega
      simp only [h1, if_false]
      have hlen : b.es.length < b.lim c / c.metaSz + 1 := by
        have h2 := length_le_of_totalRaw c b.es
        have h3 : b.es.length * c.metaSz ≤ b.lim c := Nat.le_trans h2 hfit
        have := (Nat.le_div_iff_mul_le hm).mpr h3
        omega
      have hw := C06_walk_recovers_laid_block c hm cells off (b.lim c) b.es 0 0 (b.lim c / c.metaSz + 1)
        (by simpa using hlaid) (by simpa using hfit)
        (by simpa using hend) hlen
      simp only [Nat.zero_add] at hw
      rw [hw]
      have hpos : totalRaw c b.es ≠ 0 := by
        have : totalRaw c b.es = c.metaSz + b.first.len + totalRaw c b.rest := by simp [totalRaw, LBlock.es]
        omega
      simp only [hpos, if_false]
      rw [ih (off + b.lim c) k _ hrest (by simp only [List.length_cons] at hf; omega)]
      simp only [List.foldl_cons, blockStep, hxt, hoff]

/-- a file with a one-unit block of three entries (topic 0) and a two-unit block opened by an oversized entry
(topic 1): the hypothesis of `C06_scan_recovers_laid_file` is met … -/
def cellsEx : List Cell :=
  [⟨0, ⟨0, false⟩, ⟨100, 1⟩⟩, ⟨356, ⟨0, false⟩, ⟨0, 0⟩⟩, ⟨612, ⟨0, false⟩, ⟨1000, 3⟩⟩,
   ⟨4096, ⟨1, false⟩, ⟨5000, 4⟩⟩, ⟨4096 + 5256, ⟨1, false⟩, ⟨10, 5⟩⟩]

example : FileLaid smallCfg cellsEx 0
    [⟨0, ⟨0, false⟩, ⟨100, 1⟩, [⟨0, 0⟩, ⟨1000, 3⟩]⟩, ⟨4096, ⟨1, false⟩, ⟨5000, 4⟩, [⟨10, 5⟩]⟩] := by
  refine ⟨rfl, by decide +kernel, by decide +kernel, ⟨⟨0, ⟨0, false⟩, ⟨100, 1⟩⟩, by decide +kernel, rfl, rfl⟩,
    ⟨⟨⟨0, ⟨0, false⟩, ⟨100, 1⟩⟩, by decide +kernel, rfl⟩, ⟨⟨356, ⟨0, false⟩, ⟨0, 0⟩⟩, by decide +kernel, rfl⟩,
      ⟨⟨612, ⟨0, false⟩, ⟨1000, 3⟩⟩, by decide +kernel, rfl⟩, trivial⟩,
    by decide +kernel, Or.inl (by decide +kernel), ?_⟩
  refine ⟨rfl, by decide +kernel, by decide +kernel, ⟨⟨4096, ⟨1, false⟩, ⟨5000, 4⟩⟩, by decide +kernel, rfl, rfl⟩,
    ⟨⟨⟨4096, ⟨1, false⟩, ⟨5000, 4⟩⟩, by decide +kernel, rfl⟩, ⟨⟨4096 + 5256, ⟨1, false⟩, ⟨10, 5⟩⟩, by decide +kernel, rfl⟩, trivial⟩,
    by decide +kernel, Or.inl (by decide +kernel), ?_⟩
  intro _
  decide +kernel

/-- … and the scan registers both blocks: three entries for topic 0, two for topic 1, next id 3 -/
example : (scanFile smallCfg 0 cellsEx 5 0 { trk := {}, inst := { dir := 0, mode := .strict } }).perTopic =
      [(⟨1, false⟩, [2]), (⟨0, false⟩, [3])] ∧
    (scanFile smallCfg 0 cellsEx 5 0 { trk := {}, inst := { dir := 0, mode := .strict } }).nextId = 3 := by
  decide +kernel

/-! ### the write side: friendly appends produce a well-formed file -/

/-- the entries `es` of topic `t` lie back to back from offset `o` -/
def LaidT (c : Cfg) (cells : List Cell) (t : Topic) : Nat → List Pay → Prop
  | _, [] => True
  | o, p :: r => cellAt cells o = some ⟨o, t, p⟩ ∧ LaidT c cells t (o + c.metaSz + p.len) r

theorem laidT_laid (c : Cfg) (cells : List Cell) (t : Topic) (es : List Pay) :
    ∀ o, LaidT c cells t o es → Laid c cells o es := by
  induction es with
  | nil => intro o _; trivial
  | cons p r ih => intro o h; exact ⟨⟨_, h.1, rfl⟩, ih _ h.2⟩

theorem laidT_mono (c : Cfg) (cells : List Cell) (x : Cell) (t : Topic) (es : List Pay) :
    ∀ o, LaidT c cells t o es → LaidT c (cells ++ [x]) t o es := by
  induction es with
  | nil => intro o _; trivial
  | cons p r ih => intro o h; exact ⟨cellAt_append_some _ _ _ _ h.1, ih _ h.2⟩

theorem totalRaw_append (c : Cfg) (a b : List Pay) : totalRaw c (a ++ b) = totalRaw c a + totalRaw c b := by
  simp [totalRaw]

theorem laidT_snoc (c : Cfg) (cells : List Cell) (t : Topic) (es : List Pay) (p : Pay) :
    ∀ o, LaidT c cells t o es → cellAt cells (o + totalRaw c es) = some ⟨o + totalRaw c es, t, p⟩ →
      LaidT c cells t o (es ++ [p]) := by
  induction es with
  | nil => intro o _ h; simp only [totalRaw, List.map_nil, List.sum_nil, Nat.add_zero] at h; exact ⟨h, trivial⟩
  | cons q r ih =>
    intro o h hc
    refine ⟨h.1, ih _ h.2 ?_⟩
    have : totalRaw c (q :: r) = c.metaSz + q.len + totalRaw c r := by simp [totalRaw]
    rw [this] at hc
    rw [show o + c.metaSz + q.len + totalRaw c r = o + (c.metaSz + q.len + totalRaw c r) by omega]
    exact hc

/-- blocks of one unit each, back to back from offset `o` -/
def LayBlocks (c : Cfg) (cells : List Cell) : Nat → List LBlock → Prop
  | _, [] => True
  | o, b :: r => b.off = o ∧ LaidT c cells b.topic o b.es ∧ totalRaw c b.es ≤ c.blockSize ∧
      LayBlocks c cells (o + c.blockSize) r

/-- every cell of the file is an entry of one of the blocks -/
def NoStray (c : Cfg) (cells : List Cell) (L : List LBlock) : Prop :=
  ∀ x ∈ cells, ∃ b ∈ L, b.off ≤ x.off ∧ x.off + c.metaSz + x.pay.len ≤ b.off + totalRaw c b.es

theorem layBlocks_mono (c : Cfg) (cells : List Cell) (x : Cell) (L : List LBlock) :
    ∀ o, LayBlocks c cells o L → LayBlocks c (cells ++ [x]) o L := by
  induction L with
  | nil => intro o _; trivial
  | cons b r ih => intro o h; exact ⟨h.1, laidT_mono c cells x _ _ _ h.2.1, h.2.2.1, ih _ h.2.2.2⟩

theorem layBlocks_off (c : Cfg) (cells : List Cell) (L : List LBlock) :
    ∀ o, LayBlocks c cells o L → ∀ b ∈ L, o ≤ b.off ∧ b.off + c.blockSize ≤ o + L.length * c.blockSize ∧
      totalRaw c b.es ≤ c.blockSize := by
  induction L with
  | nil => intro o _ b hb; simp at hb
  | cons a r ih =>
    intro o h b hb
    rw [List.mem_cons] at hb
    rcases hb with e | hb
    · subst e
      refine ⟨by rw [h.1]; exact Nat.le_refl _, ?_, h.2.2.1⟩
      rw [h.1, List.length_cons, Nat.succ_mul]; omega
    · have := ih _ h.2.2.2 b hb
      refine ⟨by omega, ?_, this.2.2⟩
      rw [List.length_cons, Nat.succ_mul]; omega

theorem layBlocks_append (c : Cfg) (cells : List Cell) (A B : List LBlock) :
    ∀ o, LayBlocks c cells o (A ++ B) ↔ LayBlocks c cells o A ∧ LayBlocks c cells (o + A.length * c.blockSize) B := by
  induction A with
  | nil => intro o; simp [LayBlocks]
  | cons a r ih =>
    intro o
    simp only [List.cons_append, LayBlocks, List.length_cons]
    rw [ih]
    rw [show o + c.blockSize + r.length * c.blockSize = o + (r.length + 1) * c.blockSize by rw [Nat.succ_mul]; omega]
    constructor
    · intro ⟨h1, h2, h3, h4, h5⟩; exact ⟨⟨h1, h2, h3, h4⟩, h5⟩
    · intro ⟨⟨h1, h2, h3, h4⟩, h5⟩; exact ⟨h1, h2, h3, h4, h5⟩

theorem mem_of_cellAt (cells : List Cell) (o : Nat) (y : Cell) (h : cellAt cells o = some y) : y ∈ cells ∧ y.off = o := by
  unfold cellAt at h
  exact ⟨List.mem_of_find?_eq_some h, by simpa using List.find?_some h⟩

/-- a new block at the end of the allocated region: nothing is overwritten, the layout grows by one block -/
theorem layout_new_block (c : Cfg) (hm : 0 < c.metaSz) (cells : List Cell) (L : List LBlock) (t : Topic) (p : Pay)
    (hl : LayBlocks c cells 0 L) (hs : NoStray c cells L) (hfit : c.metaSz + p.len ≤ c.blockSize) :
    let o := L.length * c.blockSize
    clobber c cells o (o + c.metaSz + p.len) = cells ∧
    LayBlocks c (cells ++ [⟨o, t, p⟩]) 0 (L ++ [⟨o, t, p, []⟩]) ∧
    NoStray c (cells ++ [⟨o, t, p⟩]) (L ++ [⟨o, t, p, []⟩]) := by
  intro o
  have hbelow : ∀ y ∈ cells, y.off + c.metaSz + y.pay.len ≤ o := by
    intro y hy
    obtain ⟨b, hb, _, h2⟩ := hs y hy
    have := layBlocks_off c cells L 0 hl b hb
    omega
  have hnone : cellAt cells o = none := by
    cases hc : cellAt cells o with
    | none => rfl
    | some y =>
      obtain ⟨hy, ho⟩ := mem_of_cellAt _ _ _ hc
      have := hbelow y hy
      omega
  refine ⟨?_, ?_, ?_⟩
  · apply clobber_eq_self
    intro y hy ⟨_, h2⟩
    have := hbelow y hy
    unfold Cell.stop at h2
    omega
  · rw [layBlocks_append]
    refine ⟨layBlocks_mono c cells _ L 0 hl, ?_⟩
    simp only [Nat.zero_add, LayBlocks, LBlock.es, LaidT, and_true]
    refine ⟨rfl, ?_, ?_⟩
    · rw [cellAt_append_none _ _ _ hnone]; simp [o]
    · simp [totalRaw]; omega
  · intro y hy
    rw [List.mem_append] at hy
    rcases hy with hy | hy
    · obtain ⟨b, hb, h1, h2⟩ := hs y hy
      exact ⟨b, List.mem_append_left _ hb, h1, h2⟩
    · simp only [List.mem_singleton] at hy
      subst hy
      refine ⟨⟨o, t, p, []⟩, List.mem_append_right _ (List.mem_singleton.mpr rfl), Nat.le_refl _, ?_⟩
      simp [totalRaw, LBlock.es]; omega

/-- one more entry behind the entries of a block: nothing is overwritten, that block grows by the entry -/
theorem layout_extend_block (c : Cfg) (hm : 0 < c.metaSz) (cells : List Cell) (pre post : List LBlock) (b : LBlock) (p : Pay)
    (hl : LayBlocks c cells 0 (pre ++ b :: post)) (hs : NoStray c cells (pre ++ b :: post))
    (hfit : totalRaw c b.es + (c.metaSz + p.len) ≤ c.blockSize) :
    let o := b.off + totalRaw c b.es
    let b' : LBlock := { b with rest := b.rest ++ [p] }
    clobber c cells o (o + c.metaSz + p.len) = cells ∧
    LayBlocks c (cells ++ [⟨o, b.topic, p⟩]) 0 (pre ++ b' :: post) ∧
    NoStray c (cells ++ [⟨o, b.topic, p⟩]) (pre ++ b' :: post) := by
  intro o b'
  rw [layBlocks_append] at hl
  obtain ⟨hpre, hrest⟩ := hl
  simp only [Nat.zero_add, LayBlocks] at hrest
  obtain ⟨hboff, hblaid, hbtot, hpost⟩ := hrest
  have hpreoff := layBlocks_off c cells pre 0 hpre
  have hpostoff := layBlocks_off c cells post _ hpost
  -- where the cells are, relative to the new entry
  have hwhere : ∀ y ∈ cells, y.off + c.metaSz + y.pay.len ≤ o ∨ o + c.metaSz + p.len ≤ y.off := by
    intro y hy
    obtain ⟨b2, hb2, h1, h2⟩ := hs y hy
    rw [List.mem_append, List.mem_cons] at hb2
    rcases hb2 with hb2 | hb2 | hb2
    · have := hpreoff b2 hb2; left; omega
    · subst hb2; left; exact h2
    · have := hpostoff b2 hb2; right; omega
  have hnone : cellAt cells o = none := by
    cases hc : cellAt cells o with
    | none => rfl
    | some y =>
      obtain ⟨hy, ho⟩ := mem_of_cellAt _ _ _ hc
      rcases hwhere y hy with h | h <;> omega
  have hes : b'.es = b.es ++ [p] := rfl
  refine ⟨?_, ?_, ?_⟩
  · apply clobber_eq_self
    intro y hy ⟨h1, h2⟩
    unfold Cell.stop at h2
    rcases hwhere y hy with h | h <;> omega
  · rw [layBlocks_append]
    refine ⟨layBlocks_mono c cells _ pre 0 hpre, ?_⟩
    simp only [Nat.zero_add, LayBlocks]
    refine ⟨hboff, ?_, ?_, layBlocks_mono c cells _ post _ hpost⟩
    · rw [hes]
      have ho : o = pre.length * c.blockSize + totalRaw c b.es := by simp only [o, hboff]
      apply laidT_snoc
      · exact laidT_mono c cells _ _ _ _ hblaid
      · rw [← ho, cellAt_append_none _ _ _ hnone]; simp [b']
    · have h1 : totalRaw c [p] = c.metaSz + p.len := by simp [totalRaw]
      rw [hes, totalRaw_append, h1]; omega
  · intro y hy
    rw [List.mem_append] at hy
    rcases hy with hy | hy
    · obtain ⟨b2, hb2, h1, h2⟩ := hs y hy
      rw [List.mem_append, List.mem_cons] at hb2
      rcases hb2 with hb2 | hb2 | hb2
      · exact ⟨b2, List.mem_append_left _ hb2, h1, h2⟩
      · subst hb2
        refine ⟨b', List.mem_append_right _ List.mem_cons_self, h1, ?_⟩
        rw [hes, totalRaw_append]; show _ ≤ b2.off + _; omega
      · exact ⟨b2, List.mem_append_right _ (List.mem_cons_of_mem _ hb2), h1, h2⟩
    · simp only [List.mem_singleton] at hy
      subst hy
      refine ⟨b', List.mem_append_right _ List.mem_cons_self, by show b.off ≤ o; omega, ?_⟩
      have h1 : totalRaw c [p] = c.metaSz + p.len := by simp [totalRaw]
      rw [hes, totalRaw_append, h1]
      show o + c.metaSz + p.len ≤ b.off + (totalRaw c b.es + (c.metaSz + p.len))
      omega

theorem layBlocks_disjoint (c : Cfg) (cells : List Cell) (L : List LBlock) :
    ∀ o, LayBlocks c cells o L → ∀ b ∈ L, ∀ b2 ∈ L,
      (b.off = b2.off ∧ totalRaw c b.es = totalRaw c b2.es ∧ b.topic = b2.topic) ∨
        b.off + c.blockSize ≤ b2.off ∨ b2.off + c.blockSize ≤ b.off := by
  induction L with
  | nil => intro o _ b hb; simp at hb
  | cons a r ih =>
    intro o h b hb b2 hb2
    have hr := layBlocks_off c cells r _ h.2.2.2
    rw [List.mem_cons] at hb hb2
    rcases hb with e | hb <;> rcases hb2 with e2 | hb2
    · subst e; subst e2; exact Or.inl ⟨rfl, rfl, rfl⟩
    · subst e; have := hr b2 hb2; right; left; rw [h.1]; omega
    · subst e2; have := hr b hb; right; right; rw [h.1]; omega
    · exact ih _ h.2.2.2 b hb b2 hb2

/-- the writer of every topic sits on the last block of that topic, at the end of its entries -/
def WritersOk (c : Cfg) (i : Inst) (f : Nat) (L : List LBlock) : Prop :=
  ∀ t, match i.writers.get? t with
    | none => ∀ b ∈ L, b.topic ≠ t
    | some w => w.batching = false ∧ w.blk.limit = c.blockSize ∧ w.blk.file = f ∧
        ∃ b ∈ L, b.topic = t ∧ w.blk.off = b.off ∧ w.off = totalRaw c b.es ∧ ∀ x ∈ L, x.topic = t → x.off ≤ b.off

/-- the state of the current WAL file and of the writers, described by the layout `L` -/
structure DiskInv (c : Cfg) (p : Proc) (i : Inst) (f : Nat) (L : List LBlock) : Prop where
  file : i.allocFile = f
  inrange : f < p.files.length
  alloc : i.allocOff = L.length * c.blockSize
  lay : LayBlocks c (fileCells p.files f) 0 L
  stray : NoStray c (fileCells p.files f) L
  writers : WritersOk c i f L

/-- the entries of topic `t` in layout order -/
def entriesOf (t : Topic) (L : List LBlock) : List Pay := (L.filter (fun b => b.topic = t)).flatMap LBlock.es

theorem entriesOf_append (t : Topic) (A B : List LBlock) : entriesOf t (A ++ B) = entriesOf t A ++ entriesOf t B := by
  simp [entriesOf, List.filter_append, List.flatMap_append]

theorem entriesOf_none (t : Topic) (A : List LBlock) (h : ∀ x ∈ A, x.topic ≠ t) : entriesOf t A = [] := by
  unfold entriesOf
  rw [List.filter_eq_nil_iff.mpr (by intro x hx; simpa using h x hx)]
  rfl

theorem writeCell_length (c : Cfg) (files : List FileSt) (b : Blk) (inOff : Nat) (t : Topic) (pay : Pay) :
    (writeCell c files b inOff t pay).length = files.length := by
  unfold writeCell updFileCells; simp

theorem entriesOf_single (t' : Topic) (b : LBlock) :
    entriesOf t' [b] = if b.topic = t' then b.es else [] := by
  unfold entriesOf
  by_cases h : b.topic = t' <;> simp [h]

/-- an operation with the layout effect of a friendly append keeps the disk well-formed and adds exactly its entry to
its topic's entries -/
theorem diskInv_effect (c : Cfg) (hc : CfgOK c) (p : Proc) (i : Inst) (f : Nat) (L : List LBlock) (t : Topic) (pay : Pay)
    (p' : Proc) (i' : Inst) (h : DiskInv c p i f L) (hfit : c.metaSz + pay.len ≤ c.blockSize)
    (eff : AppendEffect c p i t pay p' i') :
    ∃ L', DiskInv c p' i' f L' ∧ L'.length ≤ L.length + 1 ∧
      entriesOf t L' = entriesOf t L ++ [pay] ∧ ∀ t', t' ≠ t → entriesOf t' L' = entriesOf t' L := by
  have hwt := h.writers t
  obtain ⟨hfile, hcases⟩ := eff
  rcases hcases with ⟨hwhy, hfiles, halloc, hwr⟩ | ⟨w, hw, hwfit, hfiles, halloc, hwr⟩
  · -- a new block
    have hnb : nextBlk c i = { id := i.allocId, file := f, off := L.length * c.blockSize, limit := c.blockSize, used := 0 } := by
      unfold nextBlk; rw [h.file, h.alloc]
    obtain ⟨hclob, hlay, hstray⟩ := layout_new_block c hc.meta_pos (fileCells p.files f) L t pay h.lay h.stray hfit
    have hcells : fileCells p'.files f = fileCells p.files f ++ [⟨L.length * c.blockSize, t, pay⟩] := by
      rw [hfiles, fileCells_writeCell, hnb]
      simp only [true_and, h.inrange, if_true, Nat.add_zero]
      rw [hclob]
    refine ⟨L ++ [⟨L.length * c.blockSize, t, pay, []⟩], ⟨hfile.trans h.file, ?_, ?_, ?_, ?_, ?_⟩, by simp, ?_, ?_⟩
    · rw [hfiles, writeCell_length]; exact h.inrange
    · rw [halloc, h.alloc, List.length_append, List.length_singleton, Nat.succ_mul]
    · rw [hcells]; exact hlay
    · rw [hcells]; exact hstray
    · intro t'
      rw [hwr t']
      by_cases ht : t = t'
      · subst ht
        simp only [if_true]
        refine ⟨trivial, by rw [hnb], by rw [hnb], ⟨_, List.mem_append_right _ (List.mem_singleton.mpr rfl), rfl, by rw [hnb], by simp [totalRaw, LBlock.es], ?_⟩⟩
        intro x hx _
        rw [List.mem_append] at hx
        rcases hx with hx | hx
        · have := layBlocks_off c _ L 0 h.lay x hx
          show x.off ≤ L.length * c.blockSize
          omega
        · simp only [List.mem_singleton] at hx; subst hx; exact Nat.le_refl _
      · simp only [ht, if_false]
        have := h.writers t'
        cases hg : i.writers.get? t' with
        | none =>
          rw [hg] at this
          simp only
          intro b hb
          rw [List.mem_append] at hb
          rcases hb with hb | hb
          · exact this b hb
          · simp only [List.mem_singleton] at hb; subst hb; exact ht
        | some w2 =>
          rw [hg] at this
          simp only at this ⊢
          obtain ⟨h1, h2, h3, b2, hb2, h4, h5, h6, h7⟩ := this
          refine ⟨h1, h2, h3, b2, List.mem_append_left _ hb2, h4, h5, h6, ?_⟩
          intro x hx hxt
          rw [List.mem_append] at hx
          rcases hx with hx | hx
          · exact h7 x hx hxt
          · simp only [List.mem_singleton] at hx; subst hx; exact absurd hxt ht
    · rw [entriesOf_append, entriesOf_single]; simp [LBlock.es]
    · intro t' ht
      rw [entriesOf_append, entriesOf_single]
      have : ¬ (t = t') := fun e => ht e.symm
      simp [this]
  · -- the entry goes behind the entries of the writer's block
    rw [hw] at hwt
    obtain ⟨hwb, hwl, hwf, b, hb, hbt, hboff, hbtot, hblast⟩ := hwt
    obtain ⟨pre, post, hL⟩ := List.append_of_mem hb
    subst hL
    have hfit' : totalRaw c b.es + (c.metaSz + pay.len) ≤ c.blockSize := by rw [← hbtot, ← hwl]; exact hwfit
    obtain ⟨hclob, hlay, hstray⟩ := layout_extend_block c hc.meta_pos (fileCells p.files f) pre post b pay h.lay h.stray hfit'
    have hcells : fileCells p'.files f = fileCells p.files f ++ [⟨b.off + totalRaw c b.es, b.topic, pay⟩] := by
      rw [hfiles, fileCells_writeCell, hwf, hboff, hbtot, hbt]
      simp only [true_and, h.inrange, if_true]
      rw [hclob]
    -- blocks behind `b` belong to other topics
    have hpostoff : ∀ x ∈ post, b.off + c.blockSize ≤ x.off := by
      have hl := h.lay
      rw [layBlocks_append] at hl
      simp only [Nat.zero_add, LayBlocks] at hl
      intro x hx
      have := layBlocks_off c _ post _ hl.2.2.2.2 x hx
      rw [hl.2.1]; exact this.1
    have hpostt : ∀ x ∈ post, x.topic ≠ t := by
      intro x hx hxt
      have h1 := hblast x (List.mem_append_right _ (List.mem_cons_of_mem _ hx)) hxt
      have h2 := hpostoff x hx
      have := hc.bs_pos
      omega
    refine ⟨pre ++ { b with rest := b.rest ++ [pay] } :: post, ⟨hfile.trans h.file, ?_, ?_, ?_, ?_, ?_⟩, by simp, ?_, ?_⟩
    · rw [hfiles, writeCell_length]; exact h.inrange
    · rw [halloc, h.alloc]; simp
    · rw [hcells]; exact hlay
    · rw [hcells]; exact hstray
    · intro t'
      rw [hwr t']
      by_cases ht : t = t'
      · subst ht
        simp only [if_true]
        refine ⟨hwb, hwl, hwf, ⟨{ b with rest := b.rest ++ [pay] }, List.mem_append_right _ List.mem_cons_self, hbt, hboff, ?_, ?_⟩⟩
        · show w.off + (c.metaSz + pay.len) = totalRaw c (b.es ++ [pay])
          rw [totalRaw_append, hbtot]; simp [totalRaw]
        · intro x hx hxt
          rw [List.mem_append, List.mem_cons] at hx
          rcases hx with hx | hx | hx
          · exact hblast x (List.mem_append_left _ hx) hxt
          · subst hx; exact Nat.le_refl _
          · exact hblast x (List.mem_append_right _ (List.mem_cons_of_mem _ hx)) hxt
      · simp only [ht, if_false]
        have := h.writers t'
        cases hg : i.writers.get? t' with
        | none =>
          rw [hg] at this
          simp only at this ⊢
          intro x hx
          rw [List.mem_append, List.mem_cons] at hx
          rcases hx with hx | hx | hx
          · exact this x (List.mem_append_left _ hx)
          · subst hx; show b.topic ≠ t'; rw [hbt]; exact ht
          · exact this x (List.mem_append_right _ (List.mem_cons_of_mem _ hx))
        | some w2 =>
          rw [hg] at this
          simp only at this ⊢
          obtain ⟨h1, h2, h3, b2, hb2, h4, h5, h6, h7⟩ := this
          have hb2' : b2 ∈ pre ++ { b with rest := b.rest ++ [pay] } :: post := by
            rw [List.mem_append, List.mem_cons] at hb2 ⊢
            rcases hb2 with hb2 | hb2 | hb2
            · exact Or.inl hb2
            · exfalso; subst hb2; rw [hbt] at h4; exact ht h4
            · exact Or.inr (Or.inr hb2)
          refine ⟨h1, h2, h3, b2, hb2', h4, h5, h6, ?_⟩
          intro x hx hxt
          rw [List.mem_append, List.mem_cons] at hx
          rcases hx with hx | hx | hx
          · exact h7 x (List.mem_append_left _ hx) hxt
          · subst hx; exfalso; have : b.topic = t' := hxt; rw [hbt] at this; exact ht this
          · exact h7 x (List.mem_append_right _ (List.mem_cons_of_mem _ hx)) hxt
    · rw [entriesOf_append, entriesOf_append]
      rw [show ({ b with rest := b.rest ++ [pay] } :: post : List LBlock) = [{ b with rest := b.rest ++ [pay] }] ++ post from rfl,
        show (b :: post : List LBlock) = [b] ++ post from rfl, entriesOf_append, entriesOf_append,
        entriesOf_none t post hpostt, entriesOf_single, entriesOf_single]
      simp only [hbt, if_true, List.append_nil]
      show entriesOf t pre ++ (b.es ++ [pay]) = entriesOf t pre ++ b.es ++ [pay]
      rw [List.append_assoc]
    · intro t' ht
      have hne : ¬ (b.topic = t') := by rw [hbt]; exact fun e => ht e.symm
      rw [entriesOf_append, entriesOf_append]
      rw [show ({ b with rest := b.rest ++ [pay] } :: post : List LBlock) = [{ b with rest := b.rest ++ [pay] }] ++ post from rfl,
        show (b :: post : List LBlock) = [b] ++ post from rfl, entriesOf_append, entriesOf_append,
        entriesOf_single, entriesOf_single]
      simp only [hne, if_false]

/-- **One friendly append keeps the disk well-formed** and adds exactly its entry to its topic's entries. -/
theorem diskInv_append (c : Cfg) (hc : CfgOK c) (p : Proc) (i : Inst) (f : Nat) (L : List LBlock) (t : Topic) (pay : Pay)
    (h : DiskInv c p i f L) (hlong : t.long = false) (hfit : c.metaSz + pay.len ≤ c.blockSize)
    (hroom : (L.length + 1) * c.blockSize ≤ c.fileSize) :
    (appendForTopic c p i t pay).2.2 = .ok ∧
    ∃ L', DiskInv c (appendForTopic c p i t pay).1 (appendForTopic c p i t pay).2.1 f L' ∧ L'.length ≤ L.length + 1 ∧
      entriesOf t L' = entriesOf t L ++ [pay] ∧ ∀ t', t' ≠ t → entriesOf t' L' = entriesOf t' L := by
  have hroom' : i.allocOff + c.blockSize ≤ c.fileSize := by rw [h.alloc]; rw [Nat.succ_mul] at hroom; exact hroom
  have hwt := h.writers t
  obtain ⟨hok, eff⟩ := append_friendly c p i t pay hc.meta_pos hc.bs_pos hc.bs_le hlong hfit hroom'
    (by intro w hw; rw [hw] at hwt; exact ⟨hwt.1, hwt.2.1⟩)
  exact ⟨hok, diskInv_effect c hc p i f L t pay _ _ h hfit eff⟩

/-- the same for a batch of one entry (`batch_append_for_topic(key, &[data])`, the call the data plane makes) -/
theorem diskInv_batch1 (c : Cfg) (hc : CfgOK c) (hmb : c.blockSize ≤ c.maxBatchBytes) (p : Proc) (i : Inst) (f : Nat)
    (L : List LBlock) (t : Topic) (pay : Pay)
    (h : DiskInv c p i f L) (hlong : t.long = false) (hfit : c.metaSz + pay.len ≤ c.blockSize)
    (hroom : (L.length + 1) * c.blockSize ≤ c.fileSize) :
    (batchAppendForTopic c p i t [pay]).2.2 = .ok ∧
    ∃ L', DiskInv c (batchAppendForTopic c p i t [pay]).1 (batchAppendForTopic c p i t [pay]).2.1 f L' ∧
      L'.length ≤ L.length + 1 ∧
      entriesOf t L' = entriesOf t L ++ [pay] ∧ ∀ t', t' ≠ t → entriesOf t' L' = entriesOf t' L := by
  have hroom' : i.allocOff + c.blockSize ≤ c.fileSize := by rw [h.alloc]; rw [Nat.succ_mul] at hroom; exact hroom
  have hwt := h.writers t
  obtain ⟨hok, eff⟩ := batch1_friendly c p i t pay hc.meta_pos hc.bs_pos hc.bs_le hc.cap_pos hmb hlong hfit hroom'
    (by intro w hw; rw [hw] at hwt; exact ⟨hwt.1, hwt.2.1⟩)
  exact ⟨hok, diskInv_effect c hc p i f L t pay _ _ h hfit eff⟩

theorem blockLimitOf_unit (c : Cfg) (x : Cell) (h0 : 0 < c.metaSz) (hb0 : 0 < c.blockSize) (h : c.metaSz + x.pay.len ≤ c.blockSize) :
    blockLimitOf c x = c.blockSize := by
  unfold blockLimitOf
  have hu : (c.metaSz + x.pay.len + c.blockSize - 1) / c.blockSize = 1 := by
    apply Nat.div_eq_of_lt_le <;> omega
  rw [hu]; simp

theorem first_le_total (c : Cfg) (b : LBlock) : c.metaSz + b.first.len ≤ totalRaw c b.es := by
  simp [totalRaw, LBlock.es]

/-- a layout as friendly appends produce it is a well-formed file for the recovery scan -/
theorem fileLaid_of_layout (c : Cfg) (h0 : 0 < c.metaSz) (hb0 : 0 < c.blockSize) (cells : List Cell) (rest : List LBlock) :
    ∀ pre, LayBlocks c cells 0 (pre ++ rest) → NoStray c cells (pre ++ rest) →
      (pre.length + rest.length) * c.blockSize ≤ c.fileSize →
      FileLaid c cells (pre.length * c.blockSize) rest := by
  induction rest with
  | nil =>
    intro pre hl hs _ _
    simp only [List.append_nil] at hl hs
    have hbelow : ∀ y ∈ cells, y.off + c.metaSz + y.pay.len ≤ pre.length * c.blockSize := by
      intro y hy
      obtain ⟨b, hb, _, h2⟩ := hs y hy
      have := layBlocks_off c cells pre 0 hl b hb
      omega
    unfold unitKind
    have hnone : cellAt cells (pre.length * c.blockSize) = none := by
      cases hc : cellAt cells (pre.length * c.blockSize) with
      | none => rfl
      | some y =>
        obtain ⟨hy, ho⟩ := mem_of_cellAt _ _ _ hc
        have := hbelow y hy
        omega
    rw [hnone]
    simp only
    have : cells.find? (fun x => decide (x.off < pre.length * c.blockSize) && decide (pre.length * c.blockSize < x.stop c)) = none := by
      rw [List.find?_eq_none]
      intro y hy
      have := hbelow y hy
      unfold Cell.stop
      simp only [Bool.and_eq_true, decide_eq_true_eq, not_and, Nat.not_lt]
      intro _; omega
    rw [this]
  | cons b r ih =>
    intro pre hl hs hroom
    have hl' := hl
    rw [layBlocks_append] at hl'
    simp only [Nat.zero_add, LayBlocks] at hl'
    obtain ⟨_, hboff, hblaid, hbtot, _⟩ := hl'
    have hfirst := first_le_total c b
    have hlim : b.lim c = c.blockSize := blockLimitOf_unit c _ h0 hb0 (by show c.metaSz + b.first.len ≤ _; omega)
    have hcount : (pre.length + (r.length + 1)) * c.blockSize ≤ c.fileSize := by simpa using hroom
    have hpos : pre.length * c.blockSize + c.blockSize ≤ c.fileSize := by
      have : (pre.length + 1) * c.blockSize ≤ (pre.length + (r.length + 1)) * c.blockSize :=
        Nat.mul_le_mul_right _ (by omega)
      rw [Nat.succ_mul] at this; omega
    refine ⟨hboff, hpos, by rw [hlim]; omega, ⟨_, hblaid.1, rfl, rfl⟩, laidT_laid c cells _ _ _ hblaid,
      by rw [hlim]; exact hbtot, ?_, ?_⟩
    · by_cases hfull : totalRaw c b.es + c.metaSz > c.blockSize
      · right; rw [hlim]; exact hfull
      · left
        cases hc : cellAt cells (pre.length * c.blockSize + totalRaw c b.es) with
        | none => rfl
        | some y =>
          exfalso
          obtain ⟨hy, ho⟩ := mem_of_cellAt _ _ _ hc
          obtain ⟨b2, hb2, h1, h2⟩ := hs y hy
          have hb : b ∈ pre ++ b :: r := List.mem_append_right _ List.mem_cons_self
          have ht2 := (layBlocks_off c cells _ 0 hl b2 hb2).2.2
          have hyoff : y.off = b.off + totalRaw c b.es := by rw [ho, hboff]
          have hlt : totalRaw c b.es + c.metaSz ≤ c.blockSize := Nat.le_of_not_gt hfull
          rcases layBlocks_disjoint c cells _ 0 hl b hb b2 hb2 with ⟨e1, e2, _⟩ | hd | hd
          · rw [← e1, ← e2] at h2; omega
          · omega
          · omega
    · rw [hlim]
      have := ih (pre ++ [b]) (by simpa using hl) (by simpa using hs)
        (by rw [List.length_append, List.length_singleton,
              show pre.length + 1 + r.length = pre.length + (r.length + 1) by omega]; exact hcount)
      simpa [Nat.succ_mul] using this

/-! ### batches of several one-unit entries: where the entries land, and what that does to the layout -/

/-- the layout facts about topic `t`'s current block that placing needs -/
structure CurBlock (c : Cfg) (L : List LBlock) (t : Topic) (bo off : Nat) : Prop where
  ex : ∃ pre b post, L = pre ++ b :: post ∧ b.topic = t ∧ b.off = bo ∧ totalRaw c b.es = off ∧ ∀ x ∈ post, x.topic ≠ t

theorem layout_placeAll (c : Cfg) (hc : CfgOK c) (t : Topic) (ps : List Pay) :
    ∀ (cells : List Cell) (L : List LBlock) (bo off : Nat),
      LayBlocks c cells 0 L → NoStray c cells L → CurBlock c L t bo off →
      (∀ p ∈ ps, c.metaSz + p.len ≤ c.blockSize) →
      ∃ L', LayBlocks c (cellsAfter c t cells (placeAll c ps bo off (L.length * c.blockSize)).1) 0 L' ∧
        NoStray c (cellsAfter c t cells (placeAll c ps bo off (L.length * c.blockSize)).1) L' ∧
        CurBlock c L' t (placeAll c ps bo off (L.length * c.blockSize)).2.1 (placeAll c ps bo off (L.length * c.blockSize)).2.2.1 ∧
        L'.length * c.blockSize = (placeAll c ps bo off (L.length * c.blockSize)).2.2.2 ∧
        L'.length ≤ L.length + ps.length ∧
        entriesOf t L' = entriesOf t L ++ ps ∧
        (∀ t', t' ≠ t → entriesOf t' L' = entriesOf t' L) ∧
        (∀ x ∈ L, x.topic ≠ t → x ∈ L') ∧ (∀ x ∈ L', x.topic ≠ t → x ∈ L) ∧
        (∀ x ∈ L', x.topic = t → x.off ≤ (placeAll c ps bo off (L.length * c.blockSize)).2.1) := by
  induction ps with
  | nil =>
    intro cells L bo off hl hs hcur _
    refine ⟨L, hl, hs, hcur, rfl, by simp, by simp, fun _ _ => rfl, fun x hx _ => hx, fun x hx _ => hx, ?_⟩
    -- the current block is the last block of the topic
    obtain ⟨pre, b, post, hL, hbt, hbo, _, hpost⟩ := hcur.ex
    intro x hx hxt
    subst hL
    rw [layBlocks_append] at hl
    simp only [Nat.zero_add, LayBlocks] at hl
    rw [List.mem_append, List.mem_cons] at hx
    rcases hx with hx | hx | hx
    · have := layBlocks_off c cells pre 0 hl.1 x hx
      show x.off ≤ bo
      rw [← hbo, hl.2.1]; omega
    · subst hx; show x.off ≤ bo; rw [hbo]; exact Nat.le_refl _
    · exact absurd hxt (hpost x hx)
  | cons p r ih =>
    intro cells L bo off hl hs hcur hfit
    have hp := hfit p List.mem_cons_self
    have hr : ∀ q ∈ r, c.metaSz + q.len ≤ c.blockSize := fun q hq => hfit q (List.mem_cons_of_mem _ hq)
    obtain ⟨pre, b, post, hL, hbt, hbo, hbtot, hpost⟩ := hcur.ex
    unfold placeAll
    by_cases hroom : off + (c.metaSz + p.len) ≤ c.blockSize
    · -- the entry goes behind the entries of the current block
      simp only [hroom, if_true]
      subst hL
      obtain ⟨hclob, hlay, hstray⟩ := layout_extend_block c hc.meta_pos cells pre post b p hl hs (by rw [hbtot]; exact hroom)
      have hcell : cellsAfter c t cells ((bo, off, p) :: (placeAll c r bo (off + (c.metaSz + p.len)) ((pre ++ b :: post).length * c.blockSize)).1) =
          cellsAfter c t (cells ++ [⟨b.off + totalRaw c b.es, b.topic, p⟩])
            (placeAll c r bo (off + (c.metaSz + p.len)) ((pre ++ b :: post).length * c.blockSize)).1 := by
        unfold cellsAfter
        simp only [List.foldl_cons]
        rw [← hbo, ← hbtot, hbt] at *
        rw [hclob]
      have hlen : (pre ++ { b with rest := b.rest ++ [p] } :: post).length = (pre ++ b :: post).length := by simp
      obtain ⟨L', h1, h2, h3, h4, h5, h6, h7, h8, h9, h10⟩ := ih (cells ++ [⟨b.off + totalRaw c b.es, b.topic, p⟩])
        (pre ++ { b with rest := b.rest ++ [p] } :: post) bo (off + (c.metaSz + p.len)) hlay hstray
        ⟨⟨pre, _, post, rfl, hbt, hbo, by
          show totalRaw c (b.es ++ [p]) = _
          rw [totalRaw_append, hbtot]; simp [totalRaw], hpost⟩⟩ hr
      rw [hlen] at h1 h2 h3 h4 h5 h10
      rw [hcell]
      refine ⟨L', h1, h2, h3, h4, by simp only [List.length_cons]; omega, ?_, ?_, ?_, ?_, h10⟩
      · rw [h6]
        rw [entriesOf_append, entriesOf_append]
        rw [show ({ b with rest := b.rest ++ [p] } :: post : List LBlock) = [{ b with rest := b.rest ++ [p] }] ++ post from rfl,
          show (b :: post : List LBlock) = [b] ++ post from rfl, entriesOf_append, entriesOf_append,
          entriesOf_none t post hpost, entriesOf_single, entriesOf_single]
        simp only [hbt, if_true, List.append_nil]
        show entriesOf t pre ++ (b.es ++ [p]) ++ r = entriesOf t pre ++ b.es ++ p :: r
        simp
      · intro t' ht'
        rw [h7 t' ht']
        have hne : ¬ (b.topic = t') := by rw [hbt]; exact fun e => ht' e.symm
        rw [entriesOf_append, entriesOf_append]
        rw [show ({ b with rest := b.rest ++ [p] } :: post : List LBlock) = [{ b with rest := b.rest ++ [p] }] ++ post from rfl,
          show (b :: post : List LBlock) = [b] ++ post from rfl, entriesOf_append, entriesOf_append,
          entriesOf_single, entriesOf_single]
        simp only [hne, if_false]
      · intro x hx hxt
        apply h8 x _ hxt
        rw [List.mem_append, List.mem_cons] at hx ⊢
        rcases hx with hx | hx | hx
        · exact Or.inl hx
        · subst hx; exact absurd hbt hxt
        · exact Or.inr (Or.inr hx)
      · intro x hx hxt
        have := h9 x hx hxt
        rw [List.mem_append, List.mem_cons] at this ⊢
        rcases this with hx' | hx' | hx'
        · exact Or.inl hx'
        · subst hx'; exact absurd hbt hxt
        · exact Or.inr (Or.inr hx')
    · -- a new block at the end of the allocated region
      simp only [hroom, if_false]
      obtain ⟨hclob, hlay, hstray⟩ := layout_new_block c hc.meta_pos cells L t p hl hs hp
      have hcell : cellsAfter c t cells ((L.length * c.blockSize, 0, p) ::
            (placeAll c r (L.length * c.blockSize) (c.metaSz + p.len) (L.length * c.blockSize + c.blockSize)).1) =
          cellsAfter c t (cells ++ [⟨L.length * c.blockSize, t, p⟩])
            (placeAll c r (L.length * c.blockSize) (c.metaSz + p.len) (L.length * c.blockSize + c.blockSize)).1 := by
        unfold cellsAfter
        simp only [List.foldl_cons, Nat.add_zero]
        rw [hclob]
      have hlen : (L ++ [(⟨L.length * c.blockSize, t, p, []⟩ : LBlock)]).length * c.blockSize = L.length * c.blockSize + c.blockSize := by
        rw [List.length_append, List.length_singleton, Nat.succ_mul]
      obtain ⟨L', h1, h2, h3, h4, h5, h6, h7, h8, h9, h10⟩ := ih (cells ++ [⟨L.length * c.blockSize, t, p⟩])
        (L ++ [⟨L.length * c.blockSize, t, p, []⟩]) (L.length * c.blockSize) (c.metaSz + p.len) hlay hstray
        ⟨⟨L, _, [], rfl, rfl, rfl, by simp [totalRaw, LBlock.es], by simp⟩⟩ hr
      rw [hlen] at h1 h2 h3 h4 h10
      rw [hcell]
      have hlen1 : (L ++ [(⟨L.length * c.blockSize, t, p, []⟩ : LBlock)]).length = L.length + 1 := by simp
      rw [hlen1] at h5
      refine ⟨L', h1, h2, h3, h4, by simp only [List.length_cons]; omega, ?_, ?_, ?_, ?_, h10⟩
      · rw [h6, entriesOf_append, entriesOf_single]; simp [LBlock.es]
      · intro t' ht'
        rw [h7 t' ht', entriesOf_append, entriesOf_single]
        have : ¬ (t = t') := fun e => ht' e.symm
        simp [this]
      · intro x hx hxt
        exact h8 x (List.mem_append_left _ hx) hxt
      · intro x hx hxt
        have := h9 x hx hxt
        rw [List.mem_append] at this
        rcases this with hx' | hx'
        · exact hx'
        · simp only [List.mem_singleton] at hx'; subst hx'; exact absurd rfl hxt

/-- the same when the topic has no block yet: the first entry opens a block at the end of the allocated region -/
theorem layout_placeAll_fresh (c : Cfg) (hc : CfgOK c) (t : Topic) (p0 : Pay) (r : List Pay)
    (cells : List Cell) (L : List LBlock)
    (hl : LayBlocks c cells 0 L) (hs : NoStray c cells L) (hnone : ∀ x ∈ L, x.topic ≠ t)
    (hfit : ∀ p ∈ p0 :: r, c.metaSz + p.len ≤ c.blockSize) :
    ∃ L', LayBlocks c (cellsAfter c t cells (placeAll c (p0 :: r) (L.length * c.blockSize) 0 (L.length * c.blockSize + c.blockSize)).1) 0 L' ∧
      NoStray c (cellsAfter c t cells (placeAll c (p0 :: r) (L.length * c.blockSize) 0 (L.length * c.blockSize + c.blockSize)).1) L' ∧
      CurBlock c L' t (placeAll c (p0 :: r) (L.length * c.blockSize) 0 (L.length * c.blockSize + c.blockSize)).2.1
        (placeAll c (p0 :: r) (L.length * c.blockSize) 0 (L.length * c.blockSize + c.blockSize)).2.2.1 ∧
      L'.length * c.blockSize = (placeAll c (p0 :: r) (L.length * c.blockSize) 0 (L.length * c.blockSize + c.blockSize)).2.2.2 ∧
      L'.length ≤ L.length + (p0 :: r).length ∧
      entriesOf t L' = entriesOf t L ++ (p0 :: r) ∧
      (∀ t', t' ≠ t → entriesOf t' L' = entriesOf t' L) ∧
      (∀ x ∈ L, x.topic ≠ t → x ∈ L') ∧ (∀ x ∈ L', x.topic ≠ t → x ∈ L) ∧
      (∀ x ∈ L', x.topic = t → x.off ≤ (placeAll c (p0 :: r) (L.length * c.blockSize) 0 (L.length * c.blockSize + c.blockSize)).2.1) := by
  have hp := hfit p0 List.mem_cons_self
  have hr : ∀ q ∈ r, c.metaSz + q.len ≤ c.blockSize := fun q hq => hfit q (List.mem_cons_of_mem _ hq)
  have hplace : placeAll c (p0 :: r) (L.length * c.blockSize) 0 (L.length * c.blockSize + c.blockSize) =
      ((L.length * c.blockSize, 0, p0) :: (placeAll c r (L.length * c.blockSize) (c.metaSz + p0.len) (L.length * c.blockSize + c.blockSize)).1,
        (placeAll c r (L.length * c.blockSize) (c.metaSz + p0.len) (L.length * c.blockSize + c.blockSize)).2) := by
    simp only [placeAll, Nat.zero_add, hp, if_true]
  rw [hplace]
  obtain ⟨hclob, hlay, hstray⟩ := layout_new_block c hc.meta_pos cells L t p0 hl hs hp
  have hcell : cellsAfter c t cells ((L.length * c.blockSize, 0, p0) ::
        (placeAll c r (L.length * c.blockSize) (c.metaSz + p0.len) (L.length * c.blockSize + c.blockSize)).1) =
      cellsAfter c t (cells ++ [⟨L.length * c.blockSize, t, p0⟩])
        (placeAll c r (L.length * c.blockSize) (c.metaSz + p0.len) (L.length * c.blockSize + c.blockSize)).1 := by
    unfold cellsAfter
    simp only [List.foldl_cons, Nat.add_zero]
    rw [hclob]
  have hlen : (L ++ [(⟨L.length * c.blockSize, t, p0, []⟩ : LBlock)]).length * c.blockSize = L.length * c.blockSize + c.blockSize := by
    rw [List.length_append, List.length_singleton, Nat.succ_mul]
  obtain ⟨L', h1, h2, h3, h4, h5, h6, h7, h8, h9, h10⟩ := layout_placeAll c hc t r (cells ++ [⟨L.length * c.blockSize, t, p0⟩])
    (L ++ [⟨L.length * c.blockSize, t, p0, []⟩]) (L.length * c.blockSize) (c.metaSz + p0.len) hlay hstray
    ⟨⟨L, _, [], rfl, rfl, rfl, by simp [totalRaw, LBlock.es], by simp⟩⟩ hr
  rw [hlen] at h1 h2 h3 h4 h10
  have hlen1 : (L ++ [(⟨L.length * c.blockSize, t, p0, []⟩ : LBlock)]).length = L.length + 1 := by simp
  rw [hlen1] at h5
  simp only
  rw [hcell]
  refine ⟨L', h1, h2, h3, h4, by simp only [List.length_cons]; omega, ?_, ?_, ?_, ?_, h10⟩
  · rw [h6, entriesOf_append, entriesOf_single]; simp [LBlock.es]
  · intro t' ht'
    rw [h7 t' ht', entriesOf_append, entriesOf_single]
    have : ¬ (t = t') := fun e => ht' e.symm
    simp [this]
  · intro x hx hxt
    exact h8 x (List.mem_append_left _ hx) hxt
  · intro x hx hxt
    have := h9 x hx hxt
    rw [List.mem_append] at this
    rcases this with hx' | hx'
    · exact hx'
    · simp only [List.mem_singleton] at hx'; subst hx'; exact absurd rfl hxt

theorem wproj_get (m : AMap Topic Writer) (t : Topic) (x : Nat × Nat × Nat × Nat × Bool)
    (h : (m.get? t).map wproj = some x) : ∃ w, m.get? t = some w ∧ wproj w = x := by
  cases hg : m.get? t with
  | none => rw [hg] at h; simp at h
  | some w => rw [hg] at h; exact ⟨w, rfl, by simpa using h⟩

/-- **A friendly batch keeps the disk well-formed** and adds exactly its entries, in order, to its topic's entries. -/
theorem diskInv_batch (c : Cfg) (hc : CfgOK c) (p : Proc) (i : Inst) (f : Nat) (L : List LBlock) (t : Topic) (ps : List Pay)
    (h : DiskInv c p i f L) (hlong : t.long = false) (hne : ps ≠ [])
    (hfit : ∀ q ∈ ps, c.metaSz + q.len ≤ c.blockSize) (hcap : ps.length ≤ c.cap)
    (hbytes : (ps.map fun x => c.metaSz + x.len).sum ≤ c.maxBatchBytes)
    (hroom : (L.length + (ps.length + 1)) * c.blockSize ≤ c.fileSize) :
    (batchAppendForTopic c p i t ps).2.2 = .ok ∧
    ∃ L', DiskInv c (batchAppendForTopic c p i t ps).1 (batchAppendForTopic c p i t ps).2.1 f L' ∧
      L'.length ≤ L.length + ps.length ∧
      entriesOf t L' = entriesOf t L ++ ps ∧ ∀ t', t' ≠ t → entriesOf t' L' = entriesOf t' L := by
  have hwt := h.writers t
  have hroom' : i.allocOff + (ps.length + 1) * c.blockSize ≤ c.fileSize := by
    rw [h.alloc, ← Nat.add_mul]; exact hroom
  obtain ⟨hok, hfile, hlen, bo, off, aoff0, hstart, hcells, halloc, hwr⟩ :=
    batch_friendly c p i t ps hc.meta_pos hc.bs_pos hc.bs_le hlong hne hfit hcap hbytes hroom'
      (by rw [h.file]; exact h.inrange)
      (by
        intro w hw
        rw [hw] at hwt
        obtain ⟨h1, h2, h3, b, hb, _, _, h6, _⟩ := hwt
        have := (layBlocks_off c _ L 0 h.lay b hb).2.2
        exact ⟨h1, h2, by rw [h3, h.file], by rw [h6]; exact this⟩)
  refine ⟨hok, ?_⟩
  generalize batchAppendForTopic c p i t ps = r at hfile hlen hcells halloc hwr ⊢
  obtain ⟨p', i', out⟩ := r
  simp only at hfile hlen hcells halloc hwr ⊢
  rw [h.file] at hcells hwr
  -- the layout after the batch
  have hlay : ∃ L', LayBlocks c (fileCells p'.files f) 0 L' ∧ NoStray c (fileCells p'.files f) L' ∧
      CurBlock c L' t (placeAll c ps bo off aoff0).2.1 (placeAll c ps bo off aoff0).2.2.1 ∧
      L'.length * c.blockSize = (placeAll c ps bo off aoff0).2.2.2 ∧ L'.length ≤ L.length + ps.length ∧
      entriesOf t L' = entriesOf t L ++ ps ∧ (∀ t', t' ≠ t → entriesOf t' L' = entriesOf t' L) ∧
      (∀ x ∈ L, x.topic ≠ t → x ∈ L') ∧ (∀ x ∈ L', x.topic ≠ t → x ∈ L) ∧
      (∀ x ∈ L', x.topic = t → x.off ≤ (placeAll c ps bo off aoff0).2.1) := by
    rw [hcells]
    rcases hstart with ⟨hnone, hbo, hoff, haoff⟩ | ⟨w, hw, hbo, hoff, haoff⟩
    · -- no writer yet
      rw [hnone] at hwt
      obtain ⟨p0, r, hps⟩ : ∃ p0 r, ps = p0 :: r := by
        cases ps with
        | nil => exact absurd rfl hne
        | cons a b => exact ⟨a, b, rfl⟩
      subst hps
      rw [hbo, hoff, haoff, h.alloc]
      exact layout_placeAll_fresh c hc t p0 r _ L h.lay h.stray hwt hfit
    · rw [hw] at hwt
      obtain ⟨_, _, _, b, hb, hbt, hboff, hbtot, hblast⟩ := hwt
      obtain ⟨pre, post, hL⟩ := List.append_of_mem hb
      have hpostt : ∀ x ∈ post, x.topic ≠ t := by
        intro x hx hxt
        have hl := h.lay
        rw [hL, layBlocks_append] at hl
        simp only [Nat.zero_add, LayBlocks] at hl
        have h2 := (layBlocks_off c _ post _ hl.2.2.2.2 x hx).1
        have h1 := hblast x (by rw [hL]; exact List.mem_append_right _ (List.mem_cons_of_mem _ hx)) hxt
        have := hc.bs_pos
        rw [hl.2.1] at h1; omega
      rw [hbo, hoff, haoff, h.alloc, hboff, hbtot]
      exact layout_placeAll c hc t ps _ L b.off (totalRaw c b.es) h.lay h.stray
        ⟨⟨pre, b, post, hL, hbt, rfl, rfl, hpostt⟩⟩ hfit
  obtain ⟨L', h1, h2, h3, h4, h5, h6, h7, h8, h9, h10⟩ := hlay
  refine ⟨L', ⟨hfile.trans h.file, by rw [hlen]; exact h.inrange, by rw [halloc, h4], h1, h2, ?_⟩, h5, h6, h7⟩
  intro t'
  have hw' := hwr t'
  by_cases ht : t = t'
  · subst ht
    simp only [if_true] at hw'
    obtain ⟨w', hg, hp⟩ := wproj_get _ _ _ hw'
    rw [hg]
    simp only [wproj, Prod.mk.injEq] at hp
    obtain ⟨e1, e2, e3, e4, e5⟩ := hp
    obtain ⟨pre, b, post, hL', hbt, hbo', hbtot', _⟩ := h3.ex
    refine ⟨e5, e3, e1, b, by rw [hL']; exact List.mem_append_right _ List.mem_cons_self, hbt, by rw [e2, hbo'], by rw [e4, hbtot'], by rw [hbo']; exact h10⟩
  · simp only [ht, if_false] at hw'
    have hold := h.writers t'
    cases hg : i.writers.get? t' with
    | none =>
      rw [hg] at hw' hold
      have : i'.writers.get? t' = none := by
        cases hg' : i'.writers.get? t' with
        | none => rfl
        | some w2 => rw [hg'] at hw'; simp at hw'
      rw [this]
      intro x hx hxt
      exact hold x (h9 x hx (by rw [hxt]; exact fun e => ht e.symm)) hxt
    | some w2 =>
      rw [hg] at hw' hold
      obtain ⟨w2', hg', hp⟩ := wproj_get _ _ _ hw'
      rw [hg']
      simp only [wproj, Prod.mk.injEq] at hp
      obtain ⟨e1, e2, e3, e4, e5⟩ := hp
      obtain ⟨a1, a2, a3, b2, hb2, a4, a5, a6, a7⟩ := hold
      refine ⟨by rw [e5]; exact a1, by rw [e3]; exact a2, by rw [e1]; exact a3, b2,
        h8 b2 hb2 (by rw [a4]; exact fun e => ht e.symm), a4, by rw [e2]; exact a5, by rw [e4]; exact a6, ?_⟩
      intro x hx hxt
      exact a7 x (h9 x hx (by rw [hxt]; exact fun e => ht e.symm)) hxt

/-- a sequence of single-entry appends -/
def appendAll (c : Cfg) : Proc → Inst → List (Topic × Pay) → Proc × Inst
  | p, i, [] => (p, i)
  | p, i, (t, pay) :: r => appendAll c (appendForTopic c p i t pay).1 (appendForTopic c p i t pay).2.1 r

/-- ordinary topic names, entries that fit one unit -/
def Friendly (c : Cfg) (ops : List (Topic × Pay)) : Prop :=
  ∀ x ∈ ops, x.1.long = false ∧ c.metaSz + x.2.len ≤ c.blockSize

theorem diskInv_appendAll (c : Cfg) (hc : CfgOK c) (f : Nat) (ops : List (Topic × Pay)) :
    ∀ (p : Proc) (i : Inst) (L : List LBlock), DiskInv c p i f L → Friendly c ops →
      (L.length + ops.length) * c.blockSize ≤ c.fileSize →
      ∃ L', DiskInv c (appendAll c p i ops).1 (appendAll c p i ops).2 f L' ∧ L'.length ≤ L.length + ops.length ∧
        ∀ t, entriesOf t L' = entriesOf t L ++ (ops.filter (fun x => x.1 = t)).map (·.2) := by
  induction ops with
  | nil => intro p i L h _ _; exact ⟨L, h, by simp, by simp⟩
  | cons op r ih =>
    intro p i L h hf hroom
    obtain ⟨t, pay⟩ := op
    have hfo := hf (t, pay) List.mem_cons_self
    have hroom1 : (L.length + 1) * c.blockSize ≤ c.fileSize :=
      Nat.le_trans (Nat.mul_le_mul_right _ (by simp)) hroom
    obtain ⟨_, L1, h1, hlen1, hent, hoth⟩ := diskInv_append c hc p i f L t pay h hfo.1 hfo.2 hroom1
    have hroom2 : (L1.length + r.length) * c.blockSize ≤ c.fileSize :=
      Nat.le_trans (Nat.mul_le_mul_right _ (by simp only [List.length_cons] at *; omega)) hroom
    obtain ⟨L2, h2, hlen2, hent2⟩ := ih _ _ L1 h1 (fun x hx => hf x (List.mem_cons_of_mem _ hx)) hroom2
    refine ⟨L2, h2, by simp only [List.length_cons]; omega, ?_⟩
    intro t0
    rw [hent2 t0]
    by_cases e : t = t0
    · subst e
      rw [hent]
      simp [List.filter_cons]
    · rw [hoth t0 (fun x => e x.symm)]
      simp [List.filter_cons, e]

/-- **Friendly appends are recovered (storage-level model, one file).**  Start from an instance on a fresh WAL file,
perform any sequence of single-entry appends to any topics (ordinary names, entries of at most one unit, as many as
the file has units for), and let `startup_chore` scan the file: there is a layout `L` whose blocks hold, topic by
topic and in order, exactly the appended entries, and the scan registers exactly the blocks of `L` - in file order,
with consecutive ids, `used` = the extent of their entries, their entry counts - and nothing else.  No acknowledged
entry of such a history is missing from what recovery rebuilds, and nothing is recovered that was not appended. -/
theorem C06_friendly_appends_are_recovered (c : Cfg) (hc : CfgOK c) (p : Proc) (i : Inst) (f : Nat)
    (hinit : DiskInv c p i f []) (ops : List (Topic × Pay)) (hf : Friendly c ops)
    (hroom : ops.length * c.blockSize ≤ c.fileSize) (s : ScanSt) :
    ∃ L : List LBlock, (∀ t, entriesOf t L = (ops.filter (fun x => x.1 = t)).map (·.2)) ∧
      ∀ fuel, L.length < fuel →
        scanFile c f (fileCells (appendAll c p i ops).1.files f) fuel 0 s = L.foldl (blockStep c f) s := by
  obtain ⟨L, hL, hlen, hent⟩ := diskInv_appendAll c hc f ops p i [] hinit hf (by simpa using hroom)
  refine ⟨L, by intro t; rw [hent t]; simp [entriesOf], ?_⟩
  intro fuel hfuel
  have hlaid := fileLaid_of_layout c hc.meta_pos hc.bs_pos _ L [] (by simpa using hL.lay) (by simpa using hL.stray)
    (by
      simp only [List.length_nil, Nat.zero_add]
      exact Nat.le_trans (Nat.mul_le_mul_right _ (by simp at hlen; omega)) hroom)
  exact C06_scan_recovers_laid_file c hc.meta_pos f _ L 0 fuel s (by simpa using hlaid) hfuel

/-! the same, stated on programs of the engine model (`Eng.step`), the vocabulary of the correspondence runs -/

/-- run a list of `append` operations through `Eng.step` -/
def execAppends (c : Cfg) : Proc → List (Topic × Pay) → Proc
  | p, [] => p
  | p, (t, pay) :: r => execAppends c (Eng.step c p (.append t pay)).1 r

theorem diskInv_inst_irrelevant (c : Cfg) (p : Proc) (i : Inst) (x : Option Inst) (f : Nat) (L : List LBlock)
    (h : DiskInv c p i f L) : DiskInv c { p with inst := x } i f L :=
  ⟨h.file, h.inrange, h.alloc, h.lay, h.stray, h.writers⟩

theorem diskInv_execAppends (c : Cfg) (hc : CfgOK c) (f : Nat) (ops : List (Topic × Pay)) :
    ∀ (p : Proc) (i : Inst) (L : List LBlock), p.inst = some i → DiskInv c p i f L → Friendly c ops →
      (L.length + ops.length) * c.blockSize ≤ c.fileSize →
      ∃ i' L', (execAppends c p ops).inst = some i' ∧ DiskInv c (execAppends c p ops) i' f L' ∧
        L'.length ≤ L.length + ops.length ∧
        ∀ t, entriesOf t L' = entriesOf t L ++ (ops.filter (fun x => x.1 = t)).map (·.2) := by
  induction ops with
  | nil => intro p i L hi h _ _; exact ⟨i, L, hi, h, by simp, by simp⟩
  | cons op r ih =>
    intro p i L hi h hf hroom
    obtain ⟨t, pay⟩ := op
    have hfo := hf (t, pay) List.mem_cons_self
    have hroom1 : (L.length + 1) * c.blockSize ≤ c.fileSize :=
      Nat.le_trans (Nat.mul_le_mul_right _ (by simp)) hroom
    obtain ⟨_, L1, h1, hlen1, hent, hoth⟩ := diskInv_append c hc p i f L t pay h hfo.1 hfo.2 hroom1
    have hstep : (Eng.step c p (.append t pay)).1 =
        { (appendForTopic c p i t pay).1 with inst := some (appendForTopic c p i t pay).2.1 } := by
      simp only [Eng.step, withInst, hi]
    have hroom2 : (L1.length + r.length) * c.blockSize ≤ c.fileSize :=
      Nat.le_trans (Nat.mul_le_mul_right _ (by simp only [List.length_cons] at *; omega)) hroom
    obtain ⟨i2, L2, hi2, h2, hlen2, hent2⟩ := ih (Eng.step c p (.append t pay)).1 (appendForTopic c p i t pay).2.1 L1
      (by rw [hstep]) (by rw [hstep]; exact diskInv_inst_irrelevant c _ _ _ f L1 h1)
      (fun x hx => hf x (List.mem_cons_of_mem _ hx)) hroom2
    refine ⟨i2, L2, hi2, h2, by simp only [List.length_cons]; omega, ?_⟩
    intro t0
    rw [hent2 t0]
    by_cases e : t = t0
    · subst e; rw [hent]; simp [List.filter_cons]
    · rw [hoth t0 (fun x => e x.symm)]; simp [List.filter_cons, e]

/-- **Friendly append programs are recovered** (`C06_friendly_appends_are_recovered` on `Eng.step`): a process with an
open instance on a fresh WAL file runs any program of successful single-entry appends (ordinary topic names, entries
of at most one unit, within one file); the recovery scan of the file then registers blocks that hold, topic by
topic and in order, exactly the appended entries. -/
theorem C06_friendly_append_programs_are_recovered (c : Cfg) (hc : CfgOK c) (p : Proc) (i : Inst) (f : Nat)
    (hi : p.inst = some i) (hinit : DiskInv c p i f []) (ops : List (Topic × Pay)) (hf : Friendly c ops)
    (hroom : ops.length * c.blockSize ≤ c.fileSize) (s : ScanSt) :
    ∃ L : List LBlock, (∀ t, entriesOf t L = (ops.filter (fun x => x.1 = t)).map (·.2)) ∧
      ∀ fuel, L.length < fuel →
        scanFile c f (fileCells (execAppends c p ops).files f) fuel 0 s = L.foldl (blockStep c f) s := by
  obtain ⟨i', L, _, hL, hlen, hent⟩ := diskInv_execAppends c hc f ops p i [] hi hinit hf (by simpa using hroom)
  refine ⟨L, by intro t; rw [hent t]; simp [entriesOf], ?_⟩
  intro fuel hfuel
  have hlaid := fileLaid_of_layout c hc.meta_pos hc.bs_pos _ L [] (by simpa using hL.lay) (by simpa using hL.stray)
    (by
      simp only [List.length_nil, Nat.zero_add]
      exact Nat.le_trans (Nat.mul_le_mul_right _ (by simp at hlen; omega)) hroom)
  exact C06_scan_recovers_laid_file c hc.meta_pos f _ L 0 fuel s (by simpa using hlaid) hfuel

/-! programs with reads in between: reads of either API, consuming or not, and counts leave the layout alone -/

inductive FOp where
  | append (t : Topic) (p : Pay)
  /-- `batch_append_for_topic` with one entry -/
  | batch1 (t : Topic) (p : Pay)
  /-- `batch_append_for_topic` with any number of entries -/
  | batch (t : Topic) (ps : List Pay)
  | next (t : Topic) (cp : Bool)
  | bread (t : Topic) (maxBytes : Nat) (cp : Bool) (start : Option Nat)
  | count (t : Topic)

def FOp.toOp : FOp → Op
  | .append t p => .append t p
  | .batch1 t p => .batch t [p]
  | .batch t ps => .batch t ps
  | .next t cp => .next t cp
  | .bread t m cp st => .bread t m cp st
  | .count t => .count t

def appendsOf : List FOp → List (Topic × Pay)
  | [] => []
  | .append t p :: r => (t, p) :: appendsOf r
  | .batch1 t p :: r => (t, p) :: appendsOf r
  | .batch t ps :: r => ps.map (fun x => (t, x)) ++ appendsOf r
  | _ :: r => appendsOf r

/-- what the batches of a program have to satisfy: non-empty, within the entry-count and byte limits -/
def BatchesOK (c : Cfg) (ops : List FOp) : Prop :=
  ∀ t ps, FOp.batch t ps ∈ ops →
    ps ≠ [] ∧ ps.length ≤ c.cap ∧ (ps.map fun x => c.metaSz + x.len).sum ≤ c.maxBatchBytes

/-- room, in blocks, the planner of a general batch wants beyond what the batch ends up using -/
def slack : List FOp → Nat
  | [] => 0
  | .batch _ _ :: _ => 1
  | _ :: r => slack r

theorem filter_map_same (t : Topic) (ps : List Pay) :
    (((ps.map fun x => (t, x)).filter (fun x => decide (x.1 = t))).map (·.2)) = ps := by
  induction ps with
  | nil => rfl
  | cons a b ih => simp only [List.map_cons, List.filter_cons, decide_true, if_true]; rw [ih]

theorem slack_le (op : FOp) (r : List FOp) : slack r ≤ slack (op :: r) := by
  have h1 : ∀ l, slack l ≤ 1 := by
    intro l
    induction l with
    | nil => simp [slack]
    | cons a b ih => cases a <;> simp [slack, ih]
  cases op <;> simp [slack, h1]

def execF (c : Cfg) : Proc → List FOp → Proc
  | p, [] => p
  | p, op :: r => execF c (Eng.step c p op.toOp).1 r

theorem diskInv_of_same (c : Cfg) (p p' : Proc) (i i' : Inst) (f : Nat) (L : List LBlock)
    (hfiles : p'.files = p.files) (hw : i'.wside = i.wside) (h : DiskInv c p i f L) : DiskInv c p' i' f L := by
  simp only [Inst.wside, Prod.mk.injEq] at hw
  obtain ⟨h1, h2, _, h4⟩ := hw
  exact ⟨h1.trans h.file, by rw [hfiles]; exact h.inrange, h2.trans h.alloc, by rw [hfiles]; exact h.lay,
    by rw [hfiles]; exact h.stray, by unfold WritersOk; rw [h4]; exact h.writers⟩

theorem diskInv_execF (c : Cfg) (hc : CfgOK c) (hmb : c.blockSize ≤ c.maxBatchBytes) (f : Nat) (ops : List FOp) :
    ∀ (p : Proc) (i : Inst) (L : List LBlock), p.inst = some i → DiskInv c p i f L → Friendly c (appendsOf ops) →
      BatchesOK c ops →
      (L.length + (appendsOf ops).length + slack ops) * c.blockSize ≤ c.fileSize →
      ∃ i' L', (execF c p ops).inst = some i' ∧ DiskInv c (execF c p ops) i' f L' ∧
        L'.length ≤ L.length + (appendsOf ops).length ∧
        ∀ t, entriesOf t L' = entriesOf t L ++ ((appendsOf ops).filter (fun x => x.1 = t)).map (·.2) := by
  induction ops with
  | nil => intro p i L hi h _ _ _; exact ⟨i, L, hi, h, by simp [appendsOf], by simp [appendsOf]⟩
  | cons op r ih =>
    intro p i L hi h hf hbok hroom
    have hbok' : BatchesOK c r := fun t ps hm => hbok t ps (List.mem_cons_of_mem _ hm)
    have hsl := slack_le op r
    cases op with
    | append t pay =>
      simp only [appendsOf] at hf hroom ⊢
      have hfo := hf (t, pay) List.mem_cons_self
      have hroom1 : (L.length + 1) * c.blockSize ≤ c.fileSize :=
        Nat.le_trans (Nat.mul_le_mul_right _ (by simp only [List.length_cons]; omega)) hroom
      obtain ⟨_, L1, h1, hlen1, hent, hoth⟩ := diskInv_append c hc p i f L t pay h hfo.1 hfo.2 hroom1
      have hstep : (Eng.step c p (FOp.append t pay).toOp).1 =
          { (appendForTopic c p i t pay).1 with inst := some (appendForTopic c p i t pay).2.1 } := by
        simp only [FOp.toOp, Eng.step, withInst, hi]
      have hroom2 : (L1.length + (appendsOf r).length + slack r) * c.blockSize ≤ c.fileSize :=
        Nat.le_trans (Nat.mul_le_mul_right _ (by simp only [List.length_cons] at *; omega)) hroom
      obtain ⟨i2, L2, hi2, h2, hlen2, hent2⟩ := ih (Eng.step c p (FOp.append t pay).toOp).1 (appendForTopic c p i t pay).2.1 L1
        (by rw [hstep]) (by rw [hstep]; exact diskInv_inst_irrelevant c _ _ _ f L1 h1)
        (fun x hx => hf x (List.mem_cons_of_mem _ hx)) hbok' hroom2
      refine ⟨i2, L2, hi2, h2, by simp only [List.length_cons]; omega, ?_⟩
      intro t0
      rw [hent2 t0]
      by_cases e : t = t0
      · subst e; rw [hent]; simp [List.filter_cons]
      · rw [hoth t0 (fun x => e x.symm)]; simp [List.filter_cons, e]
    | batch1 t pay =>
      simp only [appendsOf] at hf hroom ⊢
      have hfo := hf (t, pay) List.mem_cons_self
      have hroom1 : (L.length + 1) * c.blockSize ≤ c.fileSize :=
        Nat.le_trans (Nat.mul_le_mul_right _ (by simp only [List.length_cons]; omega)) hroom
      obtain ⟨_, L1, h1, hlen1, hent, hoth⟩ := diskInv_batch1 c hc hmb p i f L t pay h hfo.1 hfo.2 hroom1
      have hstep : (Eng.step c p (FOp.batch1 t pay).toOp).1 =
          { (batchAppendForTopic c p i t [pay]).1 with inst := some (batchAppendForTopic c p i t [pay]).2.1 } := by
        simp only [FOp.toOp, Eng.step, withInst, hi]
      have hroom2 : (L1.length + (appendsOf r).length + slack r) * c.blockSize ≤ c.fileSize :=
        Nat.le_trans (Nat.mul_le_mul_right _ (by simp only [List.length_cons] at *; omega)) hroom
      obtain ⟨i2, L2, hi2, h2, hlen2, hent2⟩ := ih (Eng.step c p (FOp.batch1 t pay).toOp).1 (batchAppendForTopic c p i t [pay]).2.1 L1
        (by rw [hstep]) (by rw [hstep]; exact diskInv_inst_irrelevant c _ _ _ f L1 h1)
        (fun x hx => hf x (List.mem_cons_of_mem _ hx)) hbok' hroom2
      refine ⟨i2, L2, hi2, h2, by simp only [List.length_cons]; omega, ?_⟩
      intro t0
      rw [hent2 t0]
      by_cases e : t = t0
      · subst e; rw [hent]; simp [List.filter_cons]
      · rw [hoth t0 (fun x => e x.symm)]; simp [List.filter_cons, e]
    | batch t ps =>
      simp only [appendsOf, List.length_append, List.length_map, slack] at hf hroom ⊢
      obtain ⟨hne, hcap, hbytes⟩ := hbok t ps List.mem_cons_self
      have hlongt : t.long = false := by
        cases ps with
        | nil => exact absurd rfl hne
        | cons a b => exact (hf (t, a) (by simp)).1
      have hfit : ∀ q ∈ ps, c.metaSz + q.len ≤ c.blockSize := fun q hq =>
        (hf (t, q) (List.mem_append_left _ (List.mem_map.mpr ⟨q, hq, rfl⟩))).2
      have hroom1 : (L.length + (ps.length + 1)) * c.blockSize ≤ c.fileSize :=
        Nat.le_trans (Nat.mul_le_mul_right _ (by omega)) hroom
      obtain ⟨_, L1, h1, hlen1, hent, hoth⟩ := diskInv_batch c hc p i f L t ps h hlongt hne hfit hcap hbytes hroom1
      have hstep : (Eng.step c p (FOp.batch t ps).toOp).1 =
          { (batchAppendForTopic c p i t ps).1 with inst := some (batchAppendForTopic c p i t ps).2.1 } := by
        simp only [FOp.toOp, Eng.step, withInst, hi]
      have hsr : slack r ≤ 1 := by
        have := slack_le (FOp.batch t []) r; simpa [slack] using this
      have hroom2 : (L1.length + (appendsOf r).length + slack r) * c.blockSize ≤ c.fileSize :=
        Nat.le_trans (Nat.mul_le_mul_right _ (by omega)) hroom
      obtain ⟨i2, L2, hi2, h2, hlen2, hent2⟩ := ih (Eng.step c p (FOp.batch t ps).toOp).1 (batchAppendForTopic c p i t ps).2.1 L1
        (by rw [hstep]) (by rw [hstep]; exact diskInv_inst_irrelevant c _ _ _ f L1 h1)
        (fun x hx => hf x (List.mem_append_right _ hx)) hbok' hroom2
      refine ⟨i2, L2, hi2, h2, by omega, ?_⟩
      intro t0
      rw [hent2 t0]
      by_cases e : t = t0
      · subst e
        rw [hent, List.filter_append, List.map_append, List.append_assoc]
        congr 1
        congr 1
        exact (filter_map_same t ps).symm
      · rw [hoth t0 (fun x => e x.symm), List.filter_append, List.map_append]
        have : (ps.map fun x => (t, x)).filter (fun x => decide (x.1 = t0)) = [] := by
          simp [List.filter_eq_nil_iff, e]
        rw [this]; rfl
    | next t cp =>
      simp only [appendsOf] at hf hroom ⊢
      have hstep : (Eng.step c p (FOp.next t cp).toOp).1 =
          { (readNext c p i t cp).1 with inst := some (readNext c p i t cp).2.1 } := by
        simp only [FOp.toOp, Eng.step, withInst, hi]
      exact ih _ (readNext c p i t cp).2.1 L (by rw [hstep])
        (by rw [hstep]; exact diskInv_inst_irrelevant c _ _ _ f L
              (diskInv_of_same c p _ i _ f L (files_readNext c p i t cp) (wside_readNext c p i t cp) h)) hf hbok'
        (Nat.le_trans (Nat.mul_le_mul_right _ (by simp only [slack] at *; omega)) hroom)
    | bread t m cp st =>
      simp only [appendsOf] at hf hroom ⊢
      have hstep : (Eng.step c p (FOp.bread t m cp st).toOp).1 =
          { (batchRead c p i t m cp st).1 with inst := some (batchRead c p i t m cp st).2.1 } := by
        simp only [FOp.toOp, Eng.step, withInst, hi]
      exact ih _ (batchRead c p i t m cp st).2.1 L (by rw [hstep])
        (by rw [hstep]; exact diskInv_inst_irrelevant c _ _ _ f L
              (diskInv_of_same c p _ i _ f L (files_batchRead c p i t m cp st) (wside_batchRead c p i t m cp st) h)) hf hbok'
        (Nat.le_trans (Nat.mul_le_mul_right _ (by simp only [slack] at *; omega)) hroom)
    | count t =>
      simp only [appendsOf] at hf hroom ⊢
      have hstep : (Eng.step c p (FOp.count t).toOp).1 = { p with inst := some i } := by
        simp only [FOp.toOp, Eng.step, withInst, hi]
      exact ih _ i L (by rw [hstep]) (by rw [hstep]; exact diskInv_inst_irrelevant c _ _ _ f L h) hf hbok'
        (Nat.le_trans (Nat.mul_le_mul_right _ (by simp only [slack] at *; omega)) hroom)

/-- **Friendly programs are recovered.**  As `C06_friendly_append_programs_are_recovered`, with reads of both APIs
(consuming or not, cursor-based or offset-addressed), count queries, single-entry batch appends (the call the
data plane of distributed-walrus makes) and general batch appends of one-unit entries (non-empty, within the
entry-count and byte limits; the planner of a general batch wants one block of room beyond what it uses - `slack`)
anywhere in the program: they neither move
nor damage what the appends laid out, so the recovery scan still registers exactly the appended entries, topic by
topic, in order. -/
theorem C06_friendly_programs_are_recovered (c : Cfg) (hc : CfgOK c) (hmb : c.blockSize ≤ c.maxBatchBytes)
    (p : Proc) (i : Inst) (f : Nat)
    (hi : p.inst = some i) (hinit : DiskInv c p i f []) (ops : List FOp) (hf : Friendly c (appendsOf ops))
    (hbok : BatchesOK c ops)
    (hroom : ((appendsOf ops).length + slack ops) * c.blockSize ≤ c.fileSize) (s : ScanSt) :
    ∃ L : List LBlock, (∀ t, entriesOf t L = ((appendsOf ops).filter (fun x => x.1 = t)).map (·.2)) ∧
      ∀ fuel, L.length < fuel →
        scanFile c f (fileCells (execF c p ops).files f) fuel 0 s = L.foldl (blockStep c f) s := by
  obtain ⟨i', L, _, hL, hlen, hent⟩ := diskInv_execF c hc hmb f ops p i [] hi hinit hf hbok (by simpa using hroom)
  refine ⟨L, by intro t; rw [hent t]; simp [entriesOf], ?_⟩
  intro fuel hfuel
  have hlaid := fileLaid_of_layout c hc.meta_pos hc.bs_pos _ L [] (by simpa using hL.lay) (by simpa using hL.stray)
    (by
      simp only [List.length_nil, Nat.zero_add]
      exact Nat.le_trans (Nat.mul_le_mul_right _ (by simp at hlen; omega)) hroom)
  exact C06_scan_recovers_laid_file c hc.meta_pos f _ L 0 fuel s (by simpa using hlaid) hfuel

/-! what the registered blocks mean for the reader chains -/

/-- the blocks of topic `t` among `L`, as the scan registers them when it starts numbering at `base` -/
def chainOf (c : Cfg) (f : Nat) (t : Topic) : Nat → List LBlock → List Blk
  | _, [] => []
  | base, b :: r =>
    if b.topic = t then
      { id := base, file := f, off := b.off, limit := b.lim c, used := totalRaw c b.es } :: chainOf c f t (base + 1) r
    else chainOf c f t (base + 1) r

theorem reader_chain_appendBlockToChain (i : Inst) (t t' : Topic) (b : Blk) :
    ((appendBlockToChain i t b).reader t').chain = if t = t' then (i.reader t').chain ++ [b] else (i.reader t').chain := by
  unfold appendBlockToChain Inst.reader
  simp only
  rw [AMap.get?_insert]
  by_cases e : t = t'
  · subst e
    simp only [if_true, Option.getD_some]
    split <;> rfl
  · simp only [e, if_false]

/-- **The recovered reader chains.**  After the scan has registered the blocks `L`, the reader chain of every topic is
what it was before, followed by exactly that topic's blocks of `L` - in file order, numbered as the scan numbers
them, each with `used` = the extent of the entries written into it. -/
theorem C06_recovered_chains (c : Cfg) (f : Nat) (t : Topic) (L : List LBlock) :
    ∀ (s : ScanSt), ((L.foldl (blockStep c f) s).inst.reader t).chain =
      (s.inst.reader t).chain ++ chainOf c f t s.nextId L ∧ (L.foldl (blockStep c f) s).nextId = s.nextId + L.length := by
  induction L with
  | nil => intro s; simp [chainOf]
  | cons b r ih =>
    intro s
    simp only [List.foldl_cons]
    obtain ⟨h1, h2⟩ := ih (blockStep c f s b)
    rw [h1, h2]
    simp only [blockStep, chainOf, reader_chain_appendBlockToChain, List.length_cons]
    refine ⟨?_, by omega⟩
    by_cases e : b.topic = t
    · simp [e]
    · simp [e]

/-- the starting point is what `open` on an empty directory produces -/
example : ∃ i, (Eng.step smallCfg {} (.open_ .strict)).1.inst = some i ∧
    DiskInv smallCfg (Eng.step smallCfg {} (.open_ .strict)).1 i 0 [] := by
  have hcells : fileCells (Eng.step smallCfg {} (.open_ .strict)).1.files 0 = [] := by decide +kernel
  cases hi : (Eng.step smallCfg {} (.open_ .strict)).1.inst with
  | none => exact absurd hi (by decide +kernel)
  | some i =>
    have h1 : ((Eng.step smallCfg {} (.open_ .strict)).1.inst.map fun i => (i.allocFile, i.allocOff, i.writers.length)) =
        some (0, 0, 0) := by decide +kernel
    rw [hi] at h1
    simp only [Option.map_some, Option.some.injEq, Prod.mk.injEq] at h1
    obtain ⟨hf, ho, hw⟩ := h1
    refine ⟨i, rfl, hf, by decide +kernel, by rw [ho]; rfl, trivial, ?_, ?_⟩
    · intro x hx; rw [hcells] at hx; simp at hx
    · intro t
      have : i.writers = [] := List.eq_nil_of_length_eq_zero hw
      rw [this]; simp [AMap.get?]

/-- the starting point exists: an instance whose allocator stands at the beginning of an empty file -/
example : DiskInv smallCfg { files := [{ dir := 0, name := 1, cells := [], present := true }] } {} 0 [] :=
  ⟨rfl, by decide, rfl, trivial, by intro x hx; simp [fileCells] at hx, by intro t; simp [AMap.get?, AMap.empty]⟩

/-- four appends to two topics on the fresh file (the third and fourth do not fit the topic's current block): the scan
finds three one-entry blocks of topic 0 and one of topic 1 -/
example : (scanFile smallCfg 0
      (fileCells (appendAll smallCfg { files := [{ dir := 0, name := 1, cells := [], present := true }] } {}
        [(⟨0, false⟩, ⟨100, 1⟩), (⟨1, false⟩, ⟨200, 2⟩), (⟨0, false⟩, ⟨3700, 3⟩), (⟨0, false⟩, ⟨50, 4⟩)]).1.files 0)
      5 0 { trk := {}, inst := { dir := 0, mode := .strict } }).perTopic =
    [(⟨0, false⟩, [1, 1, 1]), (⟨1, false⟩, [1])] := by decide +kernel

/-- a program with a three-entry batch that spills into a second block meets the hypotheses of
`C06_friendly_programs_are_recovered`, and (evaluated) the scan finds the four entries of topic 0 in two blocks and
the entry of topic 1 in its own -/
def demoF : List FOp :=
  [.batch ⟨0, false⟩ [⟨2000, 2⟩, ⟨2500, 3⟩], .next ⟨0, false⟩ true, .batch1 ⟨1, false⟩ ⟨7, 5⟩, .count ⟨0, false⟩]

example : Friendly smallCfg (appendsOf demoF) ∧ BatchesOK smallCfg demoF ∧
    ((appendsOf demoF).length + slack demoF) * smallCfg.blockSize ≤ smallCfg.fileSize := by
  refine ⟨?_, ?_, by decide⟩
  · intro x hx
    simp only [demoF, appendsOf, List.map_cons, List.map_nil, List.cons_append, List.nil_append, List.mem_cons,
      List.not_mem_nil, or_false] at hx
    rcases hx with rfl | rfl | rfl <;> decide
  · intro t ps h
    simp only [demoF, List.mem_cons, FOp.batch.injEq, List.not_mem_nil, or_false, reduceCtorEq, false_or] at h
    obtain ⟨rfl, rfl⟩ := h
    decide

example : (scanFile smallCfg 0
      (fileCells (execF smallCfg { files := [{ dir := 0, name := 1, cells := [], present := true }], inst := some {} }
        demoF).files 0)
      5 0 { trk := {}, inst := { dir := 0, mode := .strict } }).perTopic =
    [(⟨1, false⟩, [1]), (⟨0, false⟩, [1, 1])] := by decide +kernel

/-- three entries laid out from the start of a block, a stale cell further on: the walk returns the three -/
example : walkBlock smallCfg
    [⟨4096, ⟨0, false⟩, ⟨100, 1⟩⟩, ⟨4096 + 356, ⟨0, false⟩, ⟨0, 0⟩⟩, ⟨4096 + 612, ⟨0, false⟩, ⟨1000, 3⟩⟩,
     ⟨4096 + 3000, ⟨0, false⟩, ⟨5, 9⟩⟩] 4096 4096 17 0 0 = (100 + 0 + 1000 + 3 * 256, 3) := by decide +kernel

/-! Non-vacuity: a history that rotates a block, restarts with the cursor in the (former) active
block, restarts again, and drains; evaluated by the kernel (small geometry). -/
def demo : List ROp :=
  [.op (.append ⟨0, false⟩ ⟨3000, 1⟩), .op (.batch ⟨0, false⟩ [⟨100, 2⟩, ⟨0, 0⟩, ⟨1200, 3⟩]),
   .op (.next ⟨0, false⟩ true), .op (.next ⟨0, false⟩ true), .restart, .op (.count ⟨0, false⟩),
   .op (.next ⟨0, false⟩ true), .op (.append ⟨0, false⟩ ⟨5, 4⟩), .restart, .restart,
   .op (.bread ⟨0, false⟩ 99999 true none), .op (.next ⟨0, false⟩ true), .op (.count ⟨0, false⟩)]

example : runR smallCfg demo =
    [.ok, .ok, .entry (some ⟨3000, 1⟩), .entry (some ⟨100, 2⟩), .ok, .num 2, .entry (some ⟨0, 0⟩), .ok, .ok, .ok,
     .entries [(⟨1200, 3⟩, 0), (⟨5, 4⟩, 0)], .entry none, .num 0] := by decide +kernel
example : friendlyFrom smallCfg {} demo = true := by decide +kernel

end WalrusVerif.Props.C06
