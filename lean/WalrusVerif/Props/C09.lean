import WalrusVerif.Lemmas.CrashLemmas
/-!
# C09 — consumer positions survive crashes with the promised delivery guarantee

Statement: in StrictlyAtOnce mode, after a crash at any point and a restart, a consumer resumes
immediately after the last entry whose consuming read had returned.  No such entry is delivered
again and no later entry is skipped; only the read in flight at the crash may go either way.  In
AtLeastOnce mode no unconsumed entry is ever skipped after a restart, and read_next redelivers at
most persist_every entries.

**Partial.**  The crash model (Model/Engine.lean, `Op.crashAt`): the process is killed immediately
before the `n`-th index persist (tmp write or rename) of a consuming read; whatever the read had
persisted before that point is in the index file, nothing in memory survives.  Proved about it:

* `C09_crash_in_read_keeps_every_wal_file` — a process death inside `read_next` or a batch read, at
  any of its I/O boundaries, leaves every WAL file exactly as it was: a crash on the read path can
  move the consumer's position but can never lose, alter or add an entry;
* `C09_read_next_persists_only_its_own_position`, `C09_other_topics_untouched` — the index file after the
  crash is the index before the read with a *prefix* of that read's own persists applied (at most two,
  all for the topic being read): positions of other topics are untouched and no position from a
  later state can appear (only the read in flight may go either way).

What these say about *entries delivered after the restart* (which entry the recovered position
denotes once `startup_chore` has rebuilt the chains and re-numbered the blocks) is decided by the
correspondence and the oracle: ~400 histories per quick run with the process killed inside consuming
reads at every index-persist boundary (hook H1), StrictlyAtOnce and AtLeastOnce{1..8}, sealed and tail
positions; oracle: after the restart the position is the one before or after the read in flight
(StrictlyAtOnce), never beyond it (AtLeastOnce: nothing skipped).  Open findings in whose regions the
property is false: `emptyBlockAllocated`, `scanStopsAtEmptyBlock`, `cursorsNotStableAcrossDeletion`,
`clockRegressionReordersFiles` (see C06).  Not decided: the AtLeastOnce redelivery bound
(`persist_every`) — the oracle only checks that nothing is skipped.
-/
namespace WalrusVerif.Props.C09
open WalrusVerif WalrusVerif.Eng

/-- a crash inside a read leaves every WAL file untouched -/
theorem C09_crash_in_read_keeps_every_wal_file (c : Cfg) (p : Proc) (kind n : Nat) (fd : Bool) (t : Topic)
    (cp : Bool) (m : Nat) (st : Option Nat) :
    (step c p (.crashAt kind n fd (.next t cp))).1.files = p.files ∧
    (step c p (.crashAt kind n fd (.bread t m cp st))).1.files = p.files := by
  constructor
  · cases hi : p.inst with
    | none => simp [step, hi, withInst]
    | some i =>
      simp only [step, hi, withInst]
      repeat' split
      all_goals first
        | (rw [files_dieWith]; simp [files_readNext])
        | simp [files_readNext]
  · cases hi : p.inst with
    | none => simp [step, hi, withInst]
    | some i =>
      simp only [step, hi, withInst]
      repeat' split
      all_goals first
        | (rw [files_dieWith]; simp [files_batchRead])
        | simp [files_batchRead]

/-- the index persists of one `read_next` (the events between which hook H1 can kill the process):
at most two, and only positions of the topic being read — so the index file after a crash inside a
`read_next`, which is the old index with a prefix of these persists applied (`step`, case
`crashAt`), differs from the old one at most in that topic's position -/
theorem C09_read_next_persists_only_its_own_position (c : Cfg) (p : Proc) (i : Inst) (t : Topic) (cp : Bool) :
    ∃ l, (readNext c p i t cp).2.1.idxLog = i.idxLog ++ l ∧ l.length ≤ 2 ∧ ∀ x ∈ l, x.1 = t :=
  idxLog_readNext c p i t cp

/-- applying persists of topic `t` leaves the position of every other topic as it was -/
theorem C09_other_topics_untouched (idx : AMap Topic Pos) (t t' : Topic) (l : List (Topic × Pos))
    (hl : ∀ x ∈ l, x.1 = t) (hne : t ≠ t') : (applyIdx idx l).get? t' = idx.get? t' := by
  induction l generalizing idx with
  | nil => rfl
  | cons x r ih =>
    unfold applyIdx
    simp only [List.foldl_cons]
    have hx : x.1 = t := hl x (List.mem_cons_self ..)
    have := ih (idx.insert x.1 x.2) (fun y hy => hl y (List.mem_cons_of_mem _ hy))
    unfold applyIdx at this
    rw [this, hx, AMap.get?_insert_ne _ _ _ _ hne]

/-! ### AtLeastOnce: the persist counter (`should_persist`) -/

/-- the counter stays below `persist_every` -/
theorem C09_alo_counter_bounded (n : Nat) (info : ColInfo) (force : Bool) (h : info.readsSince < max n 1) :
    (shouldPersist (.alo n) info force).1.readsSince < max n 1 := by
  unfold shouldPersist
  simp only
  split
  · simp only; omega
  · split
    · simp only; omega
    · simp only; omega

/-- `k` consecutive consuming `read_next` calls, seen by the counter: the flags say which of them persisted -/
def persistFlags (n : Nat) : Nat → ColInfo → List Bool
  | 0, _ => []
  | k + 1, info => (shouldPersist (.alo n) info false).2 :: persistFlags n k (shouldPersist (.alo n) info false).1

/-- **AtLeastOnce, redelivery bound (counter level).**  Among any `persist_every` consecutive consuming `read_next`
calls at least one persists the position: so at most `persist_every - 1` delivered entries are ever ahead of the
durable position, and a restart redelivers at most that many entries of `read_next`. -/
theorem C09_alo_persists_every_n_reads (n : Nat) (info : ColInfo) (h : info.readsSince < max n 1) :
    true ∈ persistFlags n (max n 1 - info.readsSince) info := by
  generalize hk : max n 1 - info.readsSince = k
  induction k generalizing info with
  | zero => omega
  | succ k ih =>
    unfold persistFlags
    by_cases hp : info.readsSince + 1 ≥ max n 1
    · have : (shouldPersist (.alo n) info false).2 = true := by
        unfold shouldPersist; simp [hp]
      rw [this]; exact List.mem_cons_self
    · have hs : (shouldPersist (.alo n) info false).1.readsSince = info.readsSince + 1 := by
        unfold shouldPersist; simp [hp]
      apply List.mem_cons_of_mem
      apply ih
      · rw [hs]; omega
      · rw [hs]; omega

/-- with `persist_every = 3`: the third read persists -/
example : persistFlags 3 3 {} = [false, false, true] := by decide

/-! Non-vacuity: a consuming `read_next` killed before the rename of its (only) persist; after the
restart the entry is delivered again — the read in flight went "not happened" (small geometry). -/
example : Eng.run smallCfg
      [.open_ .strict, .append ⟨0, false⟩ ⟨10, 1⟩, .append ⟨0, false⟩ ⟨20, 2⟩, .next ⟨0, false⟩ true,
       .crashAt 3 0 true (.next ⟨0, false⟩ true), .clock 5, .open_ .strict, .count ⟨0, false⟩, .next ⟨0, false⟩ true] =
    [.ok, .ok, .ok, .entry (some ⟨10, 1⟩), .crashed, .ok, .ok, .num 1, .entry (some ⟨20, 2⟩)] := by decide +kernel

end WalrusVerif.Props.C09
