import WalrusVerif.Lemmas.PeekLemmas
import WalrusVerif.Props.C01
/-!
# C02 — non-consuming reads never change what later reads or counts see

Statement: a peek (checkpoint=false) or an offset-addressed batch read (explicit start offset)
never changes what any later read returns, the reported per-topic entry counts, or which stored
data the engine may reclaim.  A peek returns exactly the entries that an immediately following
consuming read with the same arguments returns.  Offset-addressed reads return only bytes of
entries that were appended to that topic, in append order.

Proved (entry-level model `AEng`, every state / every history unless said otherwise):
* `C02_batch_peek_equals_consume`, `C02_next_peek_equals_consume` — second sentence;
* `C02_batch_peek_later_outputs`, `C02_offset_read_later_outputs` — inserting a batch peek or an
  offset-addressed read (with checkpoint true or false) anywhere in a history leaves **every** later
  output unchanged (reads, counts, errors);
* `C02_next_peek_neutral` — a `read_next` peek leaves the log, the consumed index and the count
  unchanged (it may re-encode the cursor `(i, used_i)` as `(i+1, 0)`);
* `C02_batch_peek_reclaim_neutral` (storage-level model `Eng`) — a batch peek or offset read leaves
  files and reclamation trackers untouched.
Not proved / known: the third sentence (offset reads return suffixes of appended entries in order) is
decided by the oracle on the implementation only — `C02_offset_sound_partial` records the part that
is immediate; a `read_next` peek that steps over an exhausted block marks that block as consumed
in the reclamation bookkeeping (open finding `peekMarksBlock`).
-/
namespace WalrusVerif.Props.C02
open WalrusVerif WalrusVerif.Eng WalrusVerif.AEng

/-- a batch peek returns exactly what the consuming read with the same arguments returns, and
does not touch the topic — in **every** state -/
theorem C02_batch_peek_equals_consume (c : Cfg) (a : ATopic) (m : Nat) :
    (AEng.batchRead c a m false).2 = (AEng.batchRead c a m true).2 ∧ (AEng.batchRead c a m false).1 = a :=
  batchRead_peek c a m

/-- a `read_next` peek returns what the consuming `read_next` returns (every reachable state) -/
theorem C02_next_peek_equals_consume (c : Cfg) (hc : CfgOK c) (n : Nat) (a : ATopic) (k : Nat) (h : TInv c n a k) :
    (AEng.readNext c a false).2 = (AEng.readNext c a true).2 := by
  rw [(readNext_spec c hc.meta_pos false n a k h).1, (readNext_spec c hc.meta_pos true n a k h).1]

/-- … and leaves log, consumed index and count as they were -/
theorem C02_next_peek_neutral (c : Cfg) (hc : CfgOK c) (n : Nat) (a : ATopic) (k : Nat) (h : TInv c n a k) :
    log (AEng.readNext c a false).1 = log a ∧ (AEng.readNext c a false).1.count = a.count ∧
      TInv c n (AEng.readNext c a false).1 k := by
  have := readNext_spec c hc.meta_pos false n a k h
  simpa using this.2

theorem drop_append_len {α : Type} (a b : List α) (n : Nat) : (a ++ b).drop (a.length + n) = b.drop n := by
  induction a with
  | nil => simp
  | cons x r ih => simpa [Nat.succ_add] using ih

/-- a batch peek anywhere in a history changes no later output -/
theorem C02_batch_peek_later_outputs (c : Cfg) (before after : List AOp) (t : Topic) (m : Nat) :
    (AEng.run c (before ++ .bread t m false none :: after)).drop (before.length + 1) =
      (AEng.run c (before ++ after)).drop before.length := by
  unfold AEng.run
  rw [runFrom_append, runFrom_append]
  have hl : (AEng.runFrom c {} before).length = before.length := runFrom_length c {} before
  have e1 := drop_append_len (AEng.runFrom c {} before) (AEng.runFrom c (exec c {} before) (.bread t m false none :: after)) 1
  have e2 := drop_append_len (AEng.runFrom c {} before) (AEng.runFrom c (exec c {} before) after) 0
  rw [hl] at e1 e2
  rw [Nat.add_zero] at e2
  rw [e1, e2]
  simp only [AEng.runFrom, List.drop_succ_cons, List.drop_zero]
  apply runFrom_equiv
  simp only [AEng.step]
  rw [(batchRead_peek c _ m).2]
  exact put_same_equiv _ t

/-- an offset-addressed read (checkpoint true or false) anywhere in a history changes no later output -/
theorem C02_offset_read_later_outputs (c : Cfg) (before after : List AOp) (t : Topic) (m req : Nat) (cp : Bool) :
    (AEng.run c (before ++ .bread t m cp (some req) :: after)).drop (before.length + 1) =
      (AEng.run c (before ++ after)).drop before.length := by
  unfold AEng.run
  rw [runFrom_append, runFrom_append]
  have hl : (AEng.runFrom c {} before).length = before.length := runFrom_length c {} before
  have e1 := drop_append_len (AEng.runFrom c {} before) (AEng.runFrom c (exec c {} before) (.bread t m cp (some req) :: after)) 1
  have e2 := drop_append_len (AEng.runFrom c {} before) (AEng.runFrom c (exec c {} before) after) 0
  rw [hl] at e1 e2
  rw [Nat.add_zero] at e2
  rw [e1, e2]
  simp only [AEng.runFrom, List.drop_succ_cons, List.drop_zero, AEng.step]

/-- storage level: a batch read with checkpoint=false (cursor-based or offset-addressed) leaves the
files and the reclamation trackers exactly as they were -/
theorem C02_batch_peek_reclaim_neutral (c : Cfg) (p : Proc) (i : Inst) (t : Topic) (m : Nat) (start : Option Nat) :
    (Eng.batchRead c p i t m false start).1 = p := by
  unfold Eng.batchRead
  cases start with
  | some r => simp only; split <;> rfl
  | none =>
    simp only
    have : (Eng.statefulPlan c p i t m false).p = p := by
      unfold Eng.statefulPlan
      simp only [planLoop_trk_unmarked]
    split <;> exact this

/-- the immediate part of the third sentence: an offset-addressed read never changes the state,
whatever it returns (so it cannot make later cursor reads return trimmed or foreign entries) -/
theorem C02_offset_sound_partial (c : Cfg) (s : AState) (t : Topic) (m req : Nat) (cp : Bool) :
    (AEng.step c s (.bread t m cp (some req))).1 = s := rfl

/-! Non-vacuity: peeks and offset reads interleaved with consuming reads (small geometry). -/
example : AEng.run smallCfg [.batch ⟨0, false⟩ [⟨3000, 1⟩, ⟨200, 2⟩, ⟨2000, 3⟩], .bread ⟨0, false⟩ 250 false none,
    .bread ⟨0, false⟩ 250 true (some 3300), .next ⟨0, false⟩ false, .bread ⟨0, false⟩ 250 true none,
    .next ⟨0, false⟩ true] =
    [.ok, .entries [(⟨3000, 1⟩, 0)], .entries [(⟨200, 2⟩, 0)], .entry (some ⟨3000, 1⟩),
     .entries [(⟨3000, 1⟩, 0)], .entry (some ⟨200, 2⟩)] := by decide +kernel

end WalrusVerif.Props.C02
