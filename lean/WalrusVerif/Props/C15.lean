import WalrusVerif.Lemmas.SpecLemmas
import WalrusVerif.Props.C01
import WalrusVerif.Props.C06
/-!
# C15 — topic entry counts equal appended minus consumed entries

Statement: at any quiescent point, the reported entry count of every topic equals the number of its
successfully appended entries not yet returned by a consuming read.  In StrictlyAtOnce mode this
still holds after a restart, counting only durable consumption; peeks and offset-addressed reads
never change the count.

`C15_inprocess` is the first and third sentence at full strength for one process lifetime: after
**any** operation sequence (any topics, rejected operations interleaved, both read APIs, peeks,
offset reads), `count` reports exactly (entries of successful appends) − (entries returned by
consuming reads), where both numbers are read off the history of operations and their outputs —
no model-internal quantity appears in the statement.  The restart clause is decided by the
correspondence/oracle run on restart histories (model `Eng`, recovery and count rebuild), under the
recovery guards of C06; see DESIGN.md.
-/
namespace WalrusVerif.Props.C15
open WalrusVerif WalrusVerif.Eng WalrusVerif.AEng

/-- **C15 (in-process).** Query the count of `t` after any operation sequence: the answer is
appended − consumed, computed from the history itself. -/
theorem C15_inprocess (c : Cfg) (hc : CfgOK c) (ops : List AOp) (hl : ∀ op ∈ ops, op.WithinLimits c) (t : Topic) :
    ∃ n, (AEng.run c (ops ++ [.count t])).getLast? = some (.num n) ∧
      n = appendedCount t (ops.zip (AEng.run c ops)) - consumedCount t (ops.zip (AEng.run c ops)) := by
  have hl' : ∀ op ∈ ops ++ [AOp.count t], op.WithinLimits c := by
    intro op h
    rcases List.mem_append.mp h with h | h
    · exact hl op h
    · simp at h; subst h; trivial
  have hacc := Props.C01.C01_refines c hc (ops ++ [.count t]) hl'
  have hrun : AEng.run c (ops ++ [.count t]) = AEng.run c ops ++ [.num ((exec c {} ops).topic t).count] := by
    unfold AEng.run
    rw [runFrom_append]
    rfl
  rw [hrun] at hacc ⊢
  have hzip : (ops ++ [AOp.count t]).zip (AEng.run c ops ++ [Out.num ((exec c {} ops).topic t).count]) =
      ops.zip (AEng.run c ops) ++ [(AOp.count t, Out.num ((exec c {} ops).topic t).count)] := by
    rw [List.zip_append (by unfold AEng.run; rw [runFrom_length])]
    rfl
  rw [hzip] at hacc
  refine ⟨((exec c {} ops).topic t).count, by simp, ?_⟩
  have := accepts_count t _ (ops.zip (AEng.run c ops)) Spec.init (by simp [Spec.init]) hacc
  simpa [Spec.init] using this

/-- peeks and offset-addressed reads never change the count: they are not counted by
`consumedCount`, and `C15_inprocess` holds with them anywhere in the history. -/
theorem C15_peeks_not_counted (t t' : Topic) (m : Nat) (out : Out) (rest : List (AOp × Out)) (req : Nat) (cp : Bool) :
    consumedCount t ((.next t' false, out) :: rest) = consumedCount t rest ∧
    consumedCount t ((.bread t' m false none, out) :: rest) = consumedCount t rest ∧
    consumedCount t ((.bread t' m cp (some req), out) :: rest) = consumedCount t rest := by
  refine ⟨?_, ?_, ?_⟩ <;> cases out <;> (try cases cp) <;> simp [consumedCount]

/-! ### the restart clause (StrictlyAtOnce, clean restarts, friendly histories) -/

/-- the state reached after a list of operations and restarts -/
def execR (c : Cfg) : AState → List ROp → AState
  | s, [] => s
  | s, op :: rest => execR c (stepR c s op).1 rest

theorem runFromR_append (c : Cfg) (s : AState) (a b : List ROp) :
    runFromR c s (a ++ b) = runFromR c s a ++ runFromR c (execR c s a) b := by
  induction a generalizing s with
  | nil => rfl
  | cons x r ih => simp [runFromR, execR, ih]

theorem runFromR_length (c : Cfg) (s : AState) (a : List ROp) : (runFromR c s a).length = a.length := by
  induction a generalizing s with
  | nil => rfl
  | cons x r ih => simp [runFromR, ih]

/-- a history with its restart events removed -/
def stripR : List (ROp × Out) → List (AOp × Out)
  | [] => []
  | (.restart, _) :: r => stripR r
  | (.op o, out) :: r => (o, out) :: stripR r

theorem stripR_append (a b : List (ROp × Out)) : stripR (a ++ b) = stripR a ++ stripR b := by
  induction a with
  | nil => rfl
  | cons x r ih =>
    obtain ⟨op, out⟩ := x
    cases op <;> simp [stripR, ih]

/-- a history accepted with restarts is accepted without them: a restart changes nothing the specification sees -/
theorem acceptsR_strip (h : List (ROp × Out)) (σ : Spec) (ha : acceptsR σ h) : accepts σ (stripR h) := by
  induction h generalizing σ with
  | nil => trivial
  | cons x rest ih =>
    obtain ⟨rop, out⟩ := x
    cases rop with
    | restart =>
      cases out <;> simp only [acceptsR] at ha
      exact ih σ ha
    | op o =>
      cases o with
      | append t p =>
        cases out <;> simp only [acceptsR] at ha <;> simp only [stripR, accepts]
        · exact ih _ ha
        · exact ih _ ha
      | batch t ps =>
        cases out <;> simp only [acceptsR] at ha <;> simp only [stripR, accepts]
        · exact ih _ ha
        · exact ih _ ha
      | next t cp =>
        cases out <;> simp only [acceptsR] at ha <;> simp only [stripR, accepts]
        exact ⟨ha.1, ih _ ha.2⟩
      | bread t m cp off =>
        cases off with
        | none =>
          cases out <;> simp only [acceptsR] at ha <;> simp only [stripR, accepts]
          exact ⟨ha.1, ih _ ha.2⟩
        | some r =>
          cases out <;> simp only [acceptsR] at ha <;> simp only [stripR, accepts]
          exact ih _ ha
      | count t =>
        cases out <;> simp only [acceptsR] at ha <;> simp only [stripR, accepts]
        exact ⟨ha.1, ih _ ha.2⟩

theorem friendlyFrom_snoc_op (c : Cfg) (ops : List ROp) (s : AState) (o : AOp) :
    friendlyFrom c s (ops ++ [.op o]) = friendlyFrom c s ops := by
  induction ops generalizing s with
  | nil => simp [friendlyFrom]
  | cons x r ih =>
    cases x with
    | op o' => simp only [List.cons_append, friendlyFrom]; exact ih _
    | restart => simp only [List.cons_append, friendlyFrom]; rw [ih]

/-- **C15 with restarts (StrictlyAtOnce, clean restarts).** After any history of operations with restart events
anywhere in it (any number, in the region where the restart model describes the code: `friendlyFrom`), `count`
reports exactly (entries of successful appends) - (entries returned by consuming reads), both read off the history
with the restarts taken out: a restart neither forgets appended entries nor brings consumed ones back. -/
theorem C15_with_restarts (c : Cfg) (hc : CfgOK c) (ops : List ROp) (hl : ∀ op ∈ ops, op.WithinLimits c)
    (friendly : friendlyFrom c {} ops = true) (t : Topic) :
    ∃ n, (runR c (ops ++ [.op (.count t)])).getLast? = some (.num n) ∧
      n = appendedCount t (stripR (ops.zip (runR c ops))) - consumedCount t (stripR (ops.zip (runR c ops))) := by
  have hl' : ∀ op ∈ ops ++ [ROp.op (.count t)], op.WithinLimits c := by
    intro op h
    rcases List.mem_append.mp h with h | h
    · exact hl op h
    · simp at h; subst h; trivial
  have hacc := Props.C06.C06_restarts_invisible c hc (ops ++ [.op (.count t)]) hl'
    (by rw [friendlyFrom_snoc_op]; exact friendly)
  have hrun : runR c (ops ++ [.op (.count t)]) = runR c ops ++ [.num ((execR c {} ops).topic t).count] := by
    unfold runR
    rw [runFromR_append]
    rfl
  rw [hrun] at hacc ⊢
  have hzip : (ops ++ [ROp.op (.count t)]).zip (runR c ops ++ [Out.num ((execR c {} ops).topic t).count]) =
      ops.zip (runR c ops) ++ [(ROp.op (.count t), Out.num ((execR c {} ops).topic t).count)] := by
    rw [List.zip_append (by unfold runR; rw [runFromR_length])]
    rfl
  rw [hzip] at hacc
  refine ⟨((execR c {} ops).topic t).count, by simp, ?_⟩
  have hs := acceptsR_strip _ _ hacc
  rw [stripR_append] at hs
  have := accepts_count t _ (stripR (ops.zip (runR c ops))) Spec.init (by simp [Spec.init]) hs
  simpa [Spec.init] using this

/-- the restart clause on a concrete history (small geometry): append 3, consume 1, restart, count = 2; consume 2
across a second restart, count = 0 -/
example : runR smallCfg [.op (.batch ⟨0, false⟩ [⟨3000, 1⟩, ⟨2000, 2⟩, ⟨0, 0⟩]), .op (.next ⟨0, false⟩ true), .restart,
    .op (.count ⟨0, false⟩), .op (.next ⟨0, false⟩ true), .restart, .op (.next ⟨0, false⟩ true), .op (.count ⟨0, false⟩)] =
    [.ok, .entry (some ⟨3000, 1⟩), .ok, .num 2, .entry (some ⟨2000, 2⟩), .ok, .entry (some ⟨0, 0⟩), .num 0] := by decide +kernel

/-! Non-vacuity: counts along a concrete history (small geometry), evaluated by the kernel. -/
example : AEng.run smallCfg [.batch ⟨0, false⟩ [⟨3000, 1⟩, ⟨2000, 2⟩, ⟨0, 0⟩], .next ⟨0, false⟩ false, .count ⟨0, false⟩,
    .bread ⟨0, false⟩ 9999 true none, .count ⟨0, false⟩, .bread ⟨0, false⟩ 9999 true (some 0), .count ⟨0, false⟩] =
    [.ok, .entry (some ⟨3000, 1⟩), .num 3, .entries [(⟨3000, 1⟩, 0), (⟨2000, 2⟩, 0), (⟨0, 0⟩, 0)], .num 0,
     .entries [(⟨3000, 1⟩, 0), (⟨2000, 2⟩, 0), (⟨0, 0⟩, 0)], .num 0] := by decide

end WalrusVerif.Props.C15
