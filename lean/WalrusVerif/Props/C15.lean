import WalrusVerif.Lemmas.SpecLemmas
import WalrusVerif.Props.C01
/-!
# C15 — topic entry counts equal appended minus consumed entries

Statement: at any quiescent point, the reported entry count of every topic equals the number of its
successfully appended entries not yet returned by a consuming read.  In StrictlyAtOnce mode this
still holds after a restart, counting only durable consumption; peeks and offset-addressed reads
never change the count.

`C15_inprocess` is the first and third sentence at full strength for one process lifetime: after
**any** operation sequence (any topics, rejected operations interleaved, both read APIs, peeks,
offset reads), `count` reports exactly (entries of successful appends) − (entries returned by
consuming reads), where both numbers are read off the history of operations and their outputs —
no model-internal quantity appears in the statement.  The restart clause is decided by the
correspondence/oracle run on restart histories (model `Eng`, recovery and count rebuild), under the
recovery guards of C06; see DESIGN.md.
-/
namespace WalrusVerif.Props.C15
open WalrusVerif WalrusVerif.Eng WalrusVerif.AEng

/-- **C15 (in-process).** Query the count of `t` after any operation sequence: the answer is
appended − consumed, computed from the history itself. -/
theorem C15_inprocess (c : Cfg) (hc : CfgOK c) (ops : List AOp) (hl : ∀ op ∈ ops, op.WithinLimits c) (t : Topic) :
    ∃ n, (run c (ops ++ [.count t])).getLast? = some (.num n) ∧
      n = appendedCount t (ops.zip (run c ops)) - consumedCount t (ops.zip (run c ops)) := by
  have hl' : ∀ op ∈ ops ++ [AOp.count t], op.WithinLimits c := by
    intro op h
    rcases List.mem_append.mp h with h | h
    · exact hl op h
    · simp at h; subst h; trivial
  have hacc := Props.C01.C01_refines c hc (ops ++ [.count t]) hl'
  have hrun : run c (ops ++ [.count t]) = run c ops ++ [.num ((exec c {} ops).topic t).count] := by
    unfold run
    rw [runFrom_append]
    rfl
  rw [hrun] at hacc ⊢
  have hzip : (ops ++ [AOp.count t]).zip (run c ops ++ [Out.num ((exec c {} ops).topic t).count]) =
      ops.zip (run c ops) ++ [(AOp.count t, Out.num ((exec c {} ops).topic t).count)] := by
    rw [List.zip_append (by unfold run; rw [runFrom_length])]
    rfl
  rw [hzip] at hacc
  refine ⟨((exec c {} ops).topic t).count, by simp, ?_⟩
  have := accepts_count t _ (ops.zip (run c ops)) Spec.init (by simp [Spec.init]) hacc
  simpa [Spec.init] using this

/-- peeks and offset-addressed reads never change the count: they are not counted by
`consumedCount`, and `C15_inprocess` holds with them anywhere in the history. -/
theorem C15_peeks_not_counted (t t' : Topic) (m : Nat) (out : Out) (rest : List (AOp × Out)) (req : Nat) (cp : Bool) :
    consumedCount t ((.next t' false, out) :: rest) = consumedCount t rest ∧
    consumedCount t ((.bread t' m false none, out) :: rest) = consumedCount t rest ∧
    consumedCount t ((.bread t' m cp (some req), out) :: rest) = consumedCount t rest := by
  refine ⟨?_, ?_, ?_⟩ <;> cases out <;> (try cases cp) <;> simp [consumedCount]

/-! Non-vacuity: counts along a concrete history (small geometry), evaluated by the kernel. -/
example : run smallCfg [.batch ⟨0, false⟩ [⟨3000, 1⟩, ⟨2000, 2⟩, ⟨0, 0⟩], .next ⟨0, false⟩ false, .count ⟨0, false⟩,
    .bread ⟨0, false⟩ 9999 true none, .count ⟨0, false⟩, .bread ⟨0, false⟩ 9999 true (some 0), .count ⟨0, false⟩] =
    [.ok, .entry (some ⟨3000, 1⟩), .num 3, .entries [(⟨3000, 1⟩, 0), (⟨2000, 2⟩, 0), (⟨0, 0⟩, 0)], .num 0,
     .entries [(⟨3000, 1⟩, 0), (⟨2000, 2⟩, 0), (⟨0, 0⟩, 0)], .num 0] := by decide

end WalrusVerif.Props.C15
