import WalrusVerif.Model.Meta
/-!
Metadata snapshots: `Metadata::{snapshot, restore}` (`distributed-walrus/src/metadata.rs`) with
the bincode 1.x encoding of `ClusterState`, and the snapshot path of the Raft state-machine
adapter (`octopii/src/openraft/storage.rs::{build_snapshot, install_snapshot}`).

Names travel as their UTF-8 bytes; `encName`/`decName` are parameters (`String::as_bytes` /
`str::from_utf8`) — the driver instantiates them with Lean's UTF-8 functions and the theorems
assume only `decName (encName s) = some s`.
-/
namespace WalrusVerif.Snap
open WalrusVerif WalrusVerif.Meta

abbrev Bytes := List UInt8

structure Codec where
  encName : Name → Bytes
  decName : Bytes → Option Name

/-- 8 bytes, little endian -/
def encU64 (n : Nat) : Bytes :=
  (List.range 8).map fun k => UInt8.ofNat (n / 256 ^ k % 256)

def encStr (cd : Codec) (s : Name) : Bytes :=
  let b := cd.encName s
  encU64 b.length ++ b

def encMapNN (m : AMap Nat Nat) : Bytes :=
  encU64 m.length ++ m.flatMap fun (k, v) => encU64 k ++ encU64 v

def encTopic (t : TopicState) : Bytes :=
  encU64 t.currentSegment ++ encU64 t.leaderNode ++ encU64 t.lastSealedEntryOffset ++
    encMapNN t.sealedSegments ++ encMapNN t.segmentLeaders

/-- `bincode::serialize(&ClusterState)`; maps are written in the order the map iterates
(here: list order — see `C20_order_irrelevant` for why the order does not matter to `restore`) -/
def encState (cd : Codec) (s : ClusterState) : Bytes :=
  (encU64 s.topics.length ++ s.topics.flatMap fun (n, t) => encStr cd n ++ encTopic t) ++
  (encU64 s.nodes.length ++ s.nodes.flatMap fun (id, a) => encU64 id ++ encStr cd a)

def decStr (cd : Codec) (bs : Bytes) : Option (Name × Bytes) :=
  match getU64 bs with
  | none => none
  | some (len, r) =>
    match takeN len r with
    | none => none
    | some (h, r') =>
      match cd.decName h with
      | some s => some (s, r')
      | none => none

/-- decode `n` key/value pairs -/
def decPairsNN : Nat → Bytes → Option (List (Nat × Nat) × Bytes)
  | 0, bs => some ([], bs)
  | n + 1, bs =>
    match getU64 bs with
    | none => none
    | some (k, r1) =>
      match getU64 r1 with
      | none => none
      | some (v, r2) =>
        match decPairsNN n r2 with
        | none => none
        | some (l, r3) => some ((k, v) :: l, r3)

def decMapNN (bs : Bytes) : Option (AMap Nat Nat × Bytes) :=
  match getU64 bs with
  | none => none
  | some (n, r) => decPairsNN n r

def decTopic (bs : Bytes) : Option (TopicState × Bytes) :=
  match getU64 bs with
  | none => none
  | some (cur, r1) =>
    match getU64 r1 with
    | none => none
    | some (ldr, r2) =>
      match getU64 r2 with
      | none => none
      | some (off, r3) =>
        match decMapNN r3 with
        | none => none
        | some (sealed, r4) =>
          match decMapNN r4 with
          | none => none
          | some (leaders, r5) =>
            some ({ currentSegment := cur, leaderNode := ldr, lastSealedEntryOffset := off,
                    sealedSegments := sealed, segmentLeaders := leaders }, r5)

def decTopics (cd : Codec) : Nat → Bytes → Option (List (Name × TopicState) × Bytes)
  | 0, bs => some ([], bs)
  | n + 1, bs =>
    match decStr cd bs with
    | none => none
    | some (name, r1) =>
      match decTopic r1 with
      | none => none
      | some (t, r2) =>
        match decTopics cd n r2 with
        | none => none
        | some (l, r3) => some ((name, t) :: l, r3)

def decNodes (cd : Codec) : Nat → Bytes → Option (List (Nat × Name) × Bytes)
  | 0, bs => some ([], bs)
  | n + 1, bs =>
    match getU64 bs with
    | none => none
    | some (id, r1) =>
      match decStr cd r1 with
      | none => none
      | some (a, r2) =>
        match decNodes cd n r2 with
        | none => none
        | some (l, r3) => some ((id, a) :: l, r3)

/-- `bincode::deserialize::<ClusterState>` (trailing bytes allowed) -/
def decState (cd : Codec) (bs : Bytes) : Option ClusterState :=
  match getU64 bs with
  | none => none
  | some (nt, r1) =>
    match decTopics cd nt r1 with
    | none => none
    | some (topics, r2) =>
      match getU64 r2 with
      | none => none
      | some (nn, r3) =>
        match decNodes cd nn r3 with
        | none => none
        | some (nodes, _) => some { topics := topics, nodes := nodes }

/-- `Metadata::snapshot` -/
def snapshot (cd : Codec) (s : ClusterState) : Bytes := encState cd s

/-- `Metadata::restore`: on success the state is replaced, on a decode error it is kept -/
def restore (cd : Codec) (s : ClusterState) (bs : Bytes) : ClusterState × Bool :=
  match decState cd bs with
  | some s' => (s', true)
  | none => (s, false)

/-! ### the Raft adapter (`MemStateMachine`)

`build_snapshot` serialises the adapter's own `state_machine.data : BTreeMap<String,String>`,
which nothing ever writes (the translator checks both facts), so the snapshot payload is the
encoding of an empty map; `install_snapshot` decodes that map, re-encodes it and hands the result
to the application's `restore`. -/

/-- `bincode::serialize(&BTreeMap::<String,String>::new())` -/
def emptyMapBytes : Bytes := encU64 0

def adapterBuild (_sender : ClusterState) : Bytes := emptyMapBytes

/-- decoding of a `BTreeMap<String,String>`: only the empty map matters here -/
def adapterInstall (cd : Codec) (receiver : ClusterState) (payload : Bytes) : ClusterState × Bool :=
  match getU64 payload with
  | some (0, _) => restore cd receiver emptyMapBytes
  | _ => (receiver, false)

end WalrusVerif.Snap
