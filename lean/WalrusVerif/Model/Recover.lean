import WalrusVerif.Model.Reader
/-!
`walrus.rs`: `Walrus::with_paths` (open), `startup_chore` (recovery scan),
`rebuild_topic_entry_counts_after_recovery`, index hydration, `fast_forward`; drop (close).
-/
namespace WalrusVerif.Eng
open WalrusVerif

/-- What the 8-byte probe / 2-byte `meta_len` see at a unit start. -/
inductive UnitKind where
  | zero      -- all-zero: "no more blocks in this file"
  | header (x : Cell)
  | garbage   -- inside some entry's payload: non-zero bytes, invalid `meta_len` (payload bytes are ≥ 0x80)
  deriving DecidableEq

def unitKind (c : Cfg) (cells : List Cell) (off : Nat) : UnitKind :=
  match cellAt cells off with
  | some x => .header x
  | none =>
    -- inside an entry: payload bytes are garbage; the zero padding of a 256-byte header (after its
    -- 2 + 32 used bytes for short topic names) reads as zero
    match cells.find? (fun x => decide (x.off < off) && decide (off < x.stop c)) with
    | some x => if off - x.off ≥ 34 ∧ off - x.off < c.metaSz then .zero else .garbage
    | none => .zero

/-- the entry walk of one recovered block with limit `lim`: `(used, entries)` -/
def walkBlock (c : Cfg) (cells : List Cell) (base lim : Nat) : Nat → Nat → Nat → Nat × Nat
  | 0, used, n => (used, n)
  | fuel + 1, used, n =>
    match cellAt cells (base + used) with
    | none => (used, n)
    | some x =>
      let used' := used + c.metaSz + x.pay.len
      -- `Block::read` refuses an entry that extends past its block (fix e6ef503): possible only when the limit
      -- derived from the first entry is smaller than the block the writer had allocated
      if used' > lim then (used, n)
      else if used' + c.metaSz > lim then (used', n + 1)
      else walkBlock c cells base lim fuel used' (n + 1)

structure ScanSt where
  nextId : Nat := 1
  trk : Trackers
  inst : Inst
  perTopic : AMap Topic (List Nat) := AMap.empty   -- entries per recovered block, in chain order

/-- the limit of a recovered block, derived from its first entry (a block allocated for an
oversized entry spans several units) -/
def blockLimitOf (c : Cfg) (x : Cell) : Nat :=
  max 1 ((c.metaSz + x.pay.len + c.blockSize - 1) / c.blockSize) * c.blockSize

/-- scan the units of one file -/
def scanFile (c : Cfg) (f : Nat) (cells : List Cell) : Nat → Nat → ScanSt → ScanSt
  | 0, _, s => s
  | fuel + 1, off, s =>
    if off + c.blockSize ≤ c.fileSize then
      match unitKind c cells off with
      | .zero => s
      | .garbage => scanFile c f cells fuel (off + c.blockSize) { s with nextId := s.nextId + 1 }
      | .header x =>
        let lim := blockLimitOf c x
        if lim > c.fileSize - off then s
        else
          let (used, n) := walkBlock c cells off lim (lim / c.metaSz + 1) 0 0
          if used = 0 then s
          else
            let b : Blk := { id := s.nextId, file := f, off := off, limit := lim, used := used }
            let trk := (s.trk.registerBlock s.nextId f).addBlockToFileState f
            let inst := appendBlockToChain s.inst x.topic b
            let per := s.perTopic.insert x.topic (((s.perTopic.get? x.topic).getD []) ++ [n])
            scanFile c f cells fuel (off + lim)
              { nextId := s.nextId + 1, trk := trk, inst := inst, perTopic := per }
    else s

/-- decimal rendering of a file name, for the *string* sort of `files.sort()` -/
def natStr (n : Nat) : String := toString n

def insertSorted (x : Nat × FileSt) : List (Nat × FileSt) → List (Nat × FileSt)
  | [] => [x]
  | y :: r => if natStr x.2.name < natStr y.2.name then x :: y :: r else y :: insertSorted x r

def sortFiles (l : List (Nat × FileSt)) : List (Nat × FileSt) := l.foldr insertSorted []

/-- `count_entries_in_block_up_to` -/
def countUpTo (c : Cfg) (files : List FileSt) (b : Blk) (limit : Nat) : Nat → Nat → Nat → Nat
  | 0, _, n => n
  | fuel + 1, off, n =>
    if off < min limit b.used then
      match readEntry c files b off with
      | some (_, consumed) => if off + consumed > min limit b.used then n else countUpTo c files b limit fuel (off + consumed) (n + 1)
      | none => n
    else n

/-- `rebuild_topic_entry_counts_after_recovery` for one topic -/
def rebuildCount (c : Cfg) (files : List FileSt) (info : ColInfo) (per : List Nat) (pos : Option Pos) : Nat :=
  let total := per.sum
  let consumed :=
    match pos with
    | none => 0
    | some pos =>
      let idx? : Option Nat :=
        if pos.tail then findBlockIdx info.chain pos.idx else some (min pos.idx info.chain.length)
      match idx? with
      | none => 0
      | some k =>
        let before := (per.take k).sum
        match info.chain[k]? with
        | none => before
        | some b =>
          if pos.off ≥ b.used then before + (per[k]?).getD 0
          else before + countUpTo c files b pos.off (b.used / c.metaSz + 1) 0 0
  total - consumed

/-- index hydration of `startup_chore` for one topic (note: a tail position is read as a huge
chain index, so every recovered block of the topic is marked checkpointed) -/
def hydrateAtOpen (trk : Trackers) (info : ColInfo) (pos : Pos) : Trackers × ColInfo :=
  let ib := if pos.tail then info.chain.length else min pos.idx info.chain.length
  let off := match info.chain[ib]? with
    | some b => min pos.off b.used
    | none => 0
  let trk := (info.chain.take ib).foldl (fun t b => t.setCheckpointed b.id) trk
  let trk := match info.chain[ib]? with
    | some b => if off ≥ b.used then trk.setCheckpointed b.id else trk
    | none => trk
  (trk, { info with curIdx := ib, curOff := off })

/-- `Walrus::with_paths` on directory `dir` -/
def openInst (c : Cfg) (p : Proc) (dir : Nat) (mode : Mode) : Proc :=
  -- BlockAllocator::new creates a fresh file first
  let (p, f0) := p.createFile dir
  let d := (p.dirs.get? dir).getD {}
  let inst : Inst :=
    { dir := dir, mode := mode, allocId := 1, allocFile := f0, allocOff := 0, index := d.index,
      cleanStates := d.markers }
  -- startup_chore
  let listed := sortFiles (((List.range p.files.length).zip p.files).filter fun (_, fs) => fs.present && fs.dir == dir)
  let s0 : ScanSt := { trk := p.trk, inst := inst }
  let s := listed.foldl (fun s (f, fs) =>
      scanFile c f fs.cells (c.blocksPerFile + 1) 0 { s with trk := s.trk.registerFileIfAbsent f }) s0
  let inst := s.inst
  -- rebuild counts
  let counts : AMap Topic Nat := inst.readers.foldl (fun m (t, info) =>
      m.insert t (rebuildCount c p.files info ((s.perTopic.get? t).getD []) (inst.index.get? t))) AMap.empty
  let inst := { inst with counts := counts }
  -- hydrate cursors, mark checkpointed blocks
  let (trk, readers) := inst.readers.foldl (fun (acc : Trackers × AMap Topic ColInfo) (t, info) =>
      match inst.index.get? t with
      | none => acc
      | some pos =>
        let (trk, info) := hydrateAtOpen acc.1 info pos
        (trk, acc.2.insert t info)) (s.trk, inst.readers)
  let inst := { inst with readers := readers }
  -- flush_check on every seen file
  let trk := listed.foldl (fun t (f, _) => t.flushCheck f) trk
  -- fast_forward
  let inst := { inst with allocId := max inst.allocId s.nextId }
  { p with trk := trk, inst := some inst }

/-- write the current state of each listed topic into the marker map -/
def mergeMarkers (states : AMap Topic (Nat × Bool)) : List Topic → AMap Topic (Nat × Bool) → AMap Topic (Nat × Bool)
  | [], m => m
  | t :: r, m =>
    match states.get? t with
    | some st => mergeMarkers states r (m.insert t st)
    | none => mergeMarkers states r m

/-- the marker persister thread's pass: write pending topics' states -/
def persistMarkers (p : Proc) : Proc :=
  match p.inst with
  | none => p
  | some i =>
    if i.cleanPending.isEmpty then p
    else
      let d := (p.dirs.get? i.dir).getD {}
      let markers := mergeMarkers i.cleanStates i.cleanPending d.markers
      { p with dirs := p.dirs.insert i.dir { d with markers := markers },
               inst := some { i with cleanPending := [] } }

/-- the process dies without dropping the instance: the index is already on disk (every `set`
persists); marker updates the persister has not written are lost -/
def abandonInst (p : Proc) : Proc :=
  match p.inst with
  | none => p
  | some i =>
    let d := (p.dirs.get? i.dir).getD {}
    { p with dirs := p.dirs.insert i.dir { d with index := i.index }, inst := none }

/-- drop of the instance (clean shutdown): `TopicCleanTracker::drop` writes every topic's marker -/
def closeInst (p : Proc) : Proc :=
  match p.inst with
  | none => p
  | some i =>
    let d := (p.dirs.get? i.dir).getD {}
    let markers := mergeMarkers i.cleanStates i.cleanStates.keys d.markers
    { p with dirs := p.dirs.insert i.dir { d with index := i.index, markers := markers }, inst := none }

/-- clean shutdown + new process: global trackers, `LAST_MILLIS` and the instance vanish -/
def restartProc (p : Proc) : Proc :=
  let p := closeInst p
  { p with trk := {}, lastMillis := 0 }

/-- process kill + new process -/
def killProc (p : Proc) : Proc :=
  let p := abandonInst p
  { p with trk := {}, lastMillis := 0 }

/-- the reclaimer's deletion pass -/
def reclaim (p : Proc) : Proc × List Nat :=
  let victims := p.trk.pendingDelete.eraseDups
  let files := p.files.mapIdx fun k fs => if victims.contains k then { fs with present := false } else fs
  ({ p with files := files, trk := { p.trk with pendingDelete := [] } }, victims.filter fun k =>
      match p.files[k]? with
      | some fs => fs.present
      | none => false)

end WalrusVerif.Eng
