import WalrusVerif.Model.LogStore
/-!
Write failures below the log store (C21, `faulty` programs): `WriteAheadLog::append` returns an error for one record.

`WalLogStore` updates the in-memory state first and persists afterwards (storage.rs:506-588): a failed operation has
changed the memory of the process, has written the records in front of the failing one, and returns the error - which
openraft treats as fatal (the process is restarted).  `stepFault n op k`: operation `op` while the `(k+1)`-th record
write to the Raft log from now is set to fail; the third component is what is left of the countdown (`none` = the
failure happened in this operation, and then the second component - the outcome - is `none` = error).
-/
namespace WalrusVerif.LogStore
open WalrusVerif

def stepFault (n : Node) (op : Op) (k : Nat) : Node × Option Out × Option Nat :=
  match n.live with
  | none => ((step n op).1, some (step n op).2, some k)
  | some lv =>
    match op with
    | .append es =>
      if k < es.length then
        ({ n with live := some { lv with mem := memAppend lv.mem es },
                  wal := appendRecs n.wal ((es.take k).map Rec.entry) }, none, none)
      else ((step n op).1, some (step n op).2, some (k - es.length))
    | .truncate l =>
      if k = 0 then ({ n with live := some { lv with mem := memTruncate lv.mem l } }, none, none)
      else ((step n op).1, some (step n op).2, some (k - 1))
    | .purge l =>
      match memPurge lv.mem l with
      | none => ((step n op).1, some (step n op).2, some k)
      | some m =>
        if k = 0 then ({ n with live := some { lv with mem := m } }, none, none)
        else ((step n op).1, some (step n op).2, some (k - 1))
    | .vote v =>
      if k = 0 then ({ n with live := some { lv with mem := memVote lv.mem v } }, none, none)
      else ((step n op).1, some (step n op).2, some (k - 1))
    | .committed c =>
      if k = 0 then ({ n with live := some { lv with mem := memCommitted lv.mem c } }, none, none)
      else ((step n op).1, some (step n op).2, some (k - 1))
    | _ => ((step n op).1, some (step n op).2, some k)

end WalrusVerif.LogStore
