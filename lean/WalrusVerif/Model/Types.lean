import WalrusVerif.Gen.Consts
import WalrusVerif.Model.AMap
/-!
Engine model, data types.  Mirrors `src/wal` of /repo (walrus-rust):
`config.rs` (geometry), `block.rs` (`Block`, entry = 256-byte header + payload),
`allocator.rs` (allocator + process-global trackers), `reader.rs` (`ColReaderInfo`),
`writer.rs` (`Writer`), `index.rs` (`WalIndex`), `walrus.rs` (`Walrus`).

Payload bytes are never inspected by the engine except to checksum them, so a payload is a
descriptor `Pay` (length + identity); the harness expands descriptors to bytes and maps bytes read
back to descriptors.  Disk content is a set of *cells*: a valid entry header at a file offset
together with its intact payload.
-/
namespace WalrusVerif.Eng
open WalrusVerif

structure Cfg where
  blockSize : Nat
  blocksPerFile : Nat
  metaSz : Nat
  cap : Nat
  maxBatchBytes : Nat
  maxAlloc : Nat
  peekSmall : Nat
  skipSmall : Nat
  deriving Repr

def Cfg.fileSize (c : Cfg) : Nat := c.blockSize * c.blocksPerFile

def realCfg : Cfg :=
  { blockSize := Consts.DEFAULT_BLOCK_SIZE, blocksPerFile := Consts.BLOCKS_PER_FILE,
    metaSz := Consts.PREFIX_META_SIZE, cap := Consts.MAX_BATCH_ENTRIES,
    maxBatchBytes := Consts.MAX_BATCH_BYTES, maxAlloc := Consts.MAX_ALLOC,
    peekSmall := Consts.PEEK_SMALL, skipSmall := Consts.SKIP_SMALL }

def smallCfg : Cfg :=
  { blockSize := Consts.DEFAULT_BLOCK_SIZE_SMALL, blocksPerFile := Consts.BLOCKS_PER_FILE_SMALL,
    metaSz := Consts.PREFIX_META_SIZE, cap := Consts.MAX_BATCH_ENTRIES_SMALL,
    maxBatchBytes := Consts.MAX_BATCH_BYTES_SMALL, maxAlloc := Consts.MAX_ALLOC_SMALL,
    peekSmall := Consts.PEEK_SMALL, skipSmall := Consts.SKIP_SMALL }

/-- A topic: identity plus whether its name is too long for the 254-byte header (> 216 bytes). -/
structure Topic where
  id : Nat
  long : Bool
  deriving DecidableEq, Repr

/-- Payload descriptor: length and identity. -/
structure Pay where
  len : Nat
  seed : Nat
  deriving DecidableEq, Repr

/-- A valid entry on disk: header at file offset `off` (owner `topic`, `read_size = pay.len`,
checksum of `pay`) followed by the intact payload. -/
structure Cell where
  off : Nat
  topic : Topic
  pay : Pay
  deriving Repr, DecidableEq

structure FileSt where
  /-- directory (instance root) the file lives in -/
  dir : Nat
  /-- the millisecond clock value the file is named after -/
  name : Nat
  cells : List Cell
  present : Bool
  deriving Repr

/-- `Block` minus the mmap handle. `file` indexes `Proc.files`. -/
structure Blk where
  id : Nat
  file : Nat
  off : Nat
  limit : Nat
  used : Nat
  deriving Repr, DecidableEq

inductive Mode where
  | strict
  | alo (persistEvery : Nat)
  deriving Repr, DecidableEq

/-- `ColReaderInfo` -/
structure ColInfo where
  chain : List Blk := []
  curIdx : Nat := 0
  curOff : Nat := 0
  tailId : Nat := 0
  tailOff : Nat := 0
  readsSince : Nat := 0
  hydrated : Bool := false
  deriving Repr

/-- persisted `BlockPos`; `tail = true` stands for `cur_block_idx = id | TAIL_FLAG` -/
structure Pos where
  tail : Bool
  idx : Nat
  off : Nat
  deriving Repr, DecidableEq

structure Writer where
  blk : Blk
  off : Nat
  batching : Bool := false
  deriving Repr

/-- `FileState` counters are `AtomicU16`: arithmetic wraps at 65536. -/
structure FileTrk where
  locked : Nat := 0
  ckpt : Nat := 0
  total : Nat := 0
  fully : Bool := false
  deriving Repr, DecidableEq

/-- Process-global `BlockStateTracker` / `FileStateTracker` / deletion channel. -/
structure Trackers where
  blocks : AMap Nat (Nat × Bool) := AMap.empty   -- block id ↦ (file, is_checkpointed)
  files : AMap Nat FileTrk := AMap.empty
  pendingDelete : List Nat := []
  deriving Repr

structure Inst where
  dir : Nat := 0
  mode : Mode := .strict
  allocId : Nat := 1
  allocFile : Nat := 0
  allocOff : Nat := 0
  writers : AMap Topic Writer := AMap.empty
  readers : AMap Topic ColInfo := AMap.empty
  /-- in-memory `WalIndex.store` (always equal to the persisted file: every `set` persists) -/
  index : AMap Topic Pos := AMap.empty
  counts : AMap Topic Nat := AMap.empty
  /-- `TopicCleanTracker.states`: topic ↦ (generation, is_clean) -/
  cleanStates : AMap Topic (Nat × Bool) := AMap.empty
  /-- topics whose marker change has been sent to the persister but not yet written -/
  cleanPending : List Topic := []
  /-- the index persists of the current operation, in order (every `WalIndex::set` rewrites the index
  file: tmp write, fsync, rename); cleared by `step` before each operation; used by the crash model -/
  idxLog : List (Topic × Pos) := []
  deriving Repr

/-- What a directory keeps on disk besides WAL files. -/
structure DirSt where
  index : AMap Topic Pos := AMap.empty
  markers : AMap Topic (Nat × Bool) := AMap.empty
  deriving Repr

/-- an injected I/O fault (hook H1) for one operation: event kind and 0-based position.
kind 0 = entry write (`Block::write` call / io_uring completion of entry `n`), 7 = io_uring submission -/
structure Fault where
  kind : Nat
  n : Nat
  deriving Repr, DecidableEq

structure Proc where
  files : List FileSt := []
  trk : Trackers := {}
  /-- `LAST_MILLIS` -/
  lastMillis : Nat := 0
  /-- wall clock (hook H2) -/
  sysClock : Nat := 1
  dirs : AMap Nat DirSt := AMap.empty
  inst : Option Inst := none
  /-- a second live instance of the same process, on another directory (C13); `inst` is the instance the
  current operation addresses, `curDir` its directory -/
  inst2 : Option Inst := none
  curDir : Nat := 0
  deriving Repr

inductive ErrKind where
  | invalidInput | wouldBlock | invalidData | other | closed
  deriving Repr, DecidableEq

inductive Out where
  | ok
  | err (k : ErrKind)
  | entry (p : Option Pay)
  | entries (ps : List (Pay × Nat))   -- payload, bytes trimmed from its front
  | num (n : Nat)
  | flag (b : Bool)
  | names (l : List Nat)
  | trk (s : Option FileTrk)
  | trks (l : List (Nat × Option FileTrk))   -- per WAL file of the directory: name, tracker tuple
  | crashed                                  -- the process died inside the operation
  deriving Repr, DecidableEq

def wrap16 (n : Nat) : Nat := n % 65536
def dec16 (n : Nat) : Nat := (n + 65535) % 65536

end WalrusVerif.Eng
