import WalrusVerif.Gen.Consts
import WalrusVerif.Model.Fnv
/-!
`sanitize_namespace` (src/wal/config.rs) and the path construction of `WalPathManager`
(src/wal/paths.rs): every constructor does `root.push(sanitize_namespace(key))` (the translator
checks that no other `push` exists).  Strings are `List Char`.
-/
namespace WalrusVerif.Sanitize
open WalrusVerif

/-- `c.is_ascii_alphanumeric() || matches!(c, '-' | '_' | '.')` -/
def keep (c : Char) : Bool := c.isAlphanum || Consts.SANITIZE_EXTRA.contains c

def mapChar (c : Char) : Char := if keep c then c else Consts.SANITIZE_REPLACEMENT

/-- `s.trim_matches('_').is_empty()`: true iff every char is the trim char. -/
def trimsToEmpty (s : List Char) : Bool := s.all (· == Consts.SANITIZE_TRIM_CHAR)

def hexDigit (n : Nat) : Char :=
  if n < 10 then Char.ofNat (48 + n) else Char.ofNat (87 + n)

/-- `format!("{:x}", n)` with fuel (64-bit values need at most 16 digits). -/
def hexAux : Nat → Nat → List Char → List Char
  | 0, _, acc => acc
  | fuel + 1, n, acc =>
    if n < 16 then hexDigit n :: acc else hexAux fuel (n / 16) (hexDigit (n % 16) :: acc)

def hex (n : Nat) : List Char := hexAux 64 n []

def utf8 (s : List Char) : List UInt8 := (String.ofList s).toUTF8.toList

def fallback (key : List Char) : List Char :=
  Consts.SANITIZE_FALLBACK_PREFIX ++ hex (Fnv.checksum64 (utf8 key)).toNat

def sanitize (key : List Char) : List Char :=
  let s := key.map mapChar
  if trimsToEmpty s || Consts.SANITIZE_EXCLUDED.contains s then fallback key else s

/-! ### Paths, lexically.  A path is its list of components. -/

/-- Split a string at `/`. -/
def splitSlash : List Char → List (List Char)
  | [] => [[]]
  | c :: cs =>
    if c = '/' then [] :: splitSlash cs
    else match splitSlash cs with
      | [] => [[c]]
      | w :: ws => (c :: w) :: ws

/-- One step of lexical resolution: empty and `.` components vanish, `..` pops. -/
def resolveStep (acc : List (List Char)) (comp : List Char) : List (List Char) :=
  if comp = [] ∨ comp = ['.'] then acc
  else if comp = ['.', '.'] then acc.dropLast
  else acc ++ [comp]

def resolve (comps : List (List Char)) : List (List Char) := comps.foldl resolveStep []

/-- `PathBuf::push`: an absolute argument replaces the path, otherwise its components are appended. -/
def push (root : List (List Char)) (arg : List Char) : List (List Char) :=
  match arg with
  | '/' :: _ => splitSlash arg
  | _ => root ++ splitSlash arg

/-- The instance directory for `key` under data dir `root` (given as raw components). -/
def instanceDir (root : List (List Char)) (key : List Char) : List (List Char) :=
  resolve (push root (sanitize key))

end WalrusVerif.Sanitize
