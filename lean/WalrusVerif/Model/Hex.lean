/-! Hex transport for strings on the line protocol (driver side only). -/
namespace WalrusVerif.Hex

def nib (c : Char) : Option Nat :=
  if '0' ≤ c ∧ c ≤ '9' then some (c.toNat - 48)
  else if 'a' ≤ c ∧ c ≤ 'f' then some (c.toNat - 87) else none

def decodeBytes : List Char → Option (List UInt8)
  | [] => some []
  | [_] => none
  | a :: b :: r =>
    match nib a, nib b, decodeBytes r with
    | some x, some y, some t => some (UInt8.ofNat (x * 16 + y) :: t)
    | _, _, _ => none

def hexChar (n : Nat) : Char := if n < 10 then Char.ofNat (48 + n) else Char.ofNat (87 + n)

def encodeBytes (bs : List UInt8) : String :=
  String.ofList (bs.flatMap fun b => [hexChar (b.toNat / 16), hexChar (b.toNat % 16)])

/-- "-" stands for the empty string. -/
def decodeStr (s : String) : Option (List Char) :=
  if s = "-" then some [] else
  match decodeBytes s.toList with
  | none => none
  | some bs =>
    match String.fromUTF8? (ByteArray.mk bs.toArray) with
    | some str => some str.toList
    | none => none

def encodeStr (cs : List Char) : String :=
  if cs.isEmpty then "-" else encodeBytes (String.ofList cs).toUTF8.toList

end WalrusVerif.Hex
