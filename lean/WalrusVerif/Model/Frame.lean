import WalrusVerif.Gen.Consts
import WalrusVerif.Model.AMap
/-!
Client protocol: `distributed-walrus/src/client.rs::{handle_connection, handle_command}`.
A connection is a byte stream of frames `[u32 LE length][body]`; every frame is answered by one
response frame.  The node controller is abstracted as a per-topic FIFO of payload strings.
`dec` is the UTF-8 decoder (`String::from_utf8`); theorems hold for any decoder.
-/
namespace WalrusVerif.Frame
open WalrusVerif

abbrev Bytes := List UInt8
abbrev Str := List Char

/-- Unicode `White_Space` (what `char::is_whitespace` / `str::trim_end` use) -/
def isWs (c : Char) : Bool :=
  let n := c.toNat
  (9 ≤ n && n ≤ 13) || n == 32 || n == 0x85 || n == 0xA0 || n == 0x1680 ||
  (0x2000 ≤ n && n ≤ 0x200A) || n == 0x2028 || n == 0x2029 || n == 0x202F || n == 0x205F || n == 0x3000

def trimEnd (s : Str) : Str := (s.reverse.dropWhile isWs).reverse

/-- split at the first space: `(before, some after)` or `(s, none)` -/
def splitSpace : Str → Str × Option Str
  | [] => ([], none)
  | c :: r =>
    if c = ' ' then ([], some r)
    else
      let (a, b) := splitSpace r
      (c :: a, b)

structure Backend where
  queues : AMap Str (List Str) := AMap.empty

def Backend.put (b : Backend) (t p : Str) : Backend :=
  { b with queues := b.queues.insert t (((b.queues.get? t).getD []) ++ [p]) }

def Backend.get (b : Backend) (t : Str) : Backend × Option Str :=
  match b.queues.get? t with
  | some (p :: r) => ({ b with queues := b.queues.insert t r }, some p)
  | _ => (b, none)

def Backend.register (b : Backend) (t : Str) : Backend :=
  match b.queues.get? t with
  | some _ => b
  | none => { b with queues := b.queues.insert t [] }

def lit (s : String) : Str := s.toList

def kREGISTER : Str := ['R', 'E', 'G', 'I', 'S', 'T', 'E', 'R']
def kPUT : Str := ['P', 'U', 'T']
def kGET : Str := ['G', 'E', 'T']
def kSTATE : Str := ['S', 'T', 'A', 'T', 'E']
def kMETRICS : Str := ['M', 'E', 'T', 'R', 'I', 'C', 'S']
def okPrefix : Str := ['O', 'K', ' ']

/-- `handle_command(line)` (already `trim_end`ed): the response text -/
def handleCommand (b : Backend) (line : Str) : Backend × Str :=
  let (op, r1) := splitSpace line
  if op = kREGISTER then
    match r1 with
    | none => (b, lit "ERR REGISTER requires a topic")
    | some r => let (t, _) := splitSpace r; (b.register t, lit "OK")
  else if op = kPUT then
    match r1 with
    | none => (b, lit "ERR PUT requires a topic")
    | some r =>
      match splitSpace r with
      | (_, none) => (b, lit "ERR PUT requires a payload")
      | (t, some payload) => (b.put t payload, lit "OK")
  else if op = kGET then
    match r1 with
    | none => (b, lit "ERR GET requires a topic")
    | some r =>
      let (t, _) := splitSpace r
      match b.get t with
      | (b', some p) => (b', okPrefix ++ p)
      | (b', none) => (b', lit "EMPTY")
  else if op = kSTATE then
    match r1 with
    | none => (b, lit "ERR STATE requires a topic")
    | some _ => (b, lit "STATE")
  else if op = kMETRICS then (b, lit "METRICS")
  else (b, lit "ERR unknown command")

def le32 (bs : Bytes) : Nat :=
  match bs with
  | [a, b, c, d] => a.toNat + 256 * (b.toNat + 256 * (c.toNat + 256 * d.toNat))
  | _ => 0

/-- response to one frame whose announced length is `n` and whose body is `body` -/
def respond (dec : Bytes → Option Str) (b : Backend) (n : Nat) (body : Bytes) : Backend × Str :=
  if n = 0 ∨ n > Consts.MAX_FRAME_LEN then (b, lit "ERR invalid frame length")
  else
    match dec body with
    | none => (b, lit "ERR invalid utf-8")
    | some text => handleCommand b (trimEnd text)

/-- `handle_connection`: the responses sent for an input byte stream (the connection ends at
EOF; a frame cut short by EOF gets no response). -/
def serve (dec : Bytes → Option Str) : Nat → Bytes → Backend → List Str
  | 0, _, _ => []
  | fuel + 1, inp, b =>
    if inp.length < 4 then []
    else
      let n := le32 (inp.take 4)
      let rest := inp.drop 4
      if rest.length < n then []
      else
        let (b', r) := respond dec b n (rest.take n)
        r :: serve dec fuel (rest.drop n) b'

end WalrusVerif.Frame
