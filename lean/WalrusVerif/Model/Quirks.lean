import WalrusVerif.Model.Engine
/-!
Trigger conditions of the *open* findings (KNOWN_FINDINGS.txt), as decidable predicates on
(state, operation).  The model reproduces the defective behaviour itself (it models the code that
exists); these predicates only say *when* a run has left the region on which the property theorems
are proved, so that an oracle violation on such a run is attributed to a listed finding.
-/
namespace WalrusVerif.Eng
open WalrusVerif

/-- unit start offsets of a file -/
def unitOffsets (c : Cfg) : List Nat := (List.range c.blocksPerFile).map (· * c.blockSize)

/-- an all-zero unit precedes a unit holding an entry header (recovery stops at the first) -/
def fileHasHole (c : Cfg) (fs : FileSt) : Bool :=
  let kinds := (unitOffsets c).map fun o => unitKind c fs.cells o
  let rec go : List UnitKind → Bool → Bool
    | [], _ => false
    | .zero :: r, _ => go r true
    | .header _ :: r, seenZero => seenZero || go r seenZero
    | .garbage :: r, seenZero => go r seenZero
  go kinds false

/-- an entry crosses a unit boundary (it lives in a block of more than one unit) -/
def fileHasMultiUnit (c : Cfg) (fs : FileSt) : Bool :=
  fs.cells.any fun x => decide (x.off % c.blockSize + c.metaSz + x.pay.len > c.blockSize)

def dirFiles (p : Proc) (dir : Nat) : List (Nat × FileSt) :=
  ((List.range p.files.length).zip p.files).filter fun (_, fs) => fs.present && fs.dir == dir

/-- string order of the file names differs from creation order -/
def dirMisordered (p : Proc) (dir : Nat) : Bool :=
  let l := dirFiles p dir
  (sortFiles l).map (·.1) != l.map (·.1)

/-- a WAL file of the directory has been deleted by the reclaimer: the recovery scan numbers the
remaining blocks differently and the chains are shorter, so persisted cursors (positional chain index,
or tail block id) no longer denote the same position -/
def dirHasDeletion (p : Proc) (dir : Nat) : Bool :=
  p.files.any fun fs => fs.dir == dir && !fs.present

def firesOpen (c : Cfg) (p : Proc) (dir : Nat) : List String :=
  let l := dirFiles p dir
  (if dirHasDeletion p dir then ["cursorsNotStableAcrossDeletion"] else []) ++
  (if l.any (fun (_, fs) => fileHasHole c fs) then ["scanStopsAtEmptyBlock"] else []) ++
  (if dirMisordered p dir then ["clockRegressionReordersFiles"] else [])

/-- number of allocated-but-empty blocks of a topic: sealed with `used = 0`, or an active block
nothing was written into -/
def emptyBlocks (i : Inst) (t : Topic) : Nat :=
  ((i.reader t).chain.filter fun b => b.used == 0).length +
    (match i.writers.get? t with
     | some w => if w.off == 0 then 1 else 0
     | none => 0)

/-- the operation leaves an allocated block empty: a rejected or empty first operation on a topic,
or a first entry that does not fit the topic's freshly allocated standard block (the block is
sealed empty and a larger one is allocated).  The recovery scan cannot tell such a block from
unallocated space: it stops scanning the file there and numbers later blocks differently. -/
def leavesEmptyBlock (c : Cfg) (p : Proc) (op : Op) (t : Topic) : Bool :=
  match p.inst, (step c p op).1.inst with
  | some i, some i' => decide (emptyBlocks i' t > emptyBlocks i t)
  | _, _ => false

/-- a batch whose planning rotated the writer's block fails while writing: the rollback restores
the offset but neither the block switch nor the seals of the planning phase -/
def rotatedThenFailed (c : Cfg) (p : Proc) (op : Op) (t : Topic) : Bool :=
  match p.inst, (step c p op) with
  | some i, (p', .err .other) =>
    match i.writers.get? t, p'.inst with
    | some w, some i' =>
      (match i'.writers.get? t with
       | some w' => w'.blk.id != w.blk.id
       | none => false)
    | none, some i' =>
      -- the topic's first block was created by this very operation
      (match i'.writers.get? t with
       | some w' => decide ((i'.reader t).chain.length > (i.reader t).chain.length) && w'.off == 0
       | none => false)
    | _, _ => false
  | _, _ => false

/-- blocks of an instance that still hold entries its consumer has not read: the block under the cursor
(if not exhausted), every later sealed block with data, the active block behind the tail cursor -/
def unreadBlocks (i : Inst) : List Blk :=
  i.readers.foldl (fun acc (x : Topic × ColInfo) =>
    let info := x.2
    let cur := match info.chain[info.curIdx]? with
      | some b => if info.curOff < b.used then [b] else []
      | none => []
    let later := (info.chain.drop (info.curIdx + 1)).filter fun b => decide (b.used > 0)
    let tail := match i.writers.get? x.1 with
      | some w => if decide ((if info.tailId = w.blk.id then info.tailOff else 0) < w.off) then [w.blk] else []
      | none => []
    acc ++ cur ++ later ++ tail) []

/-- the reclaimer's pass is about to delete a file in which a live instance still has unread entries -/
def reclaimDeletesUnread (p : Proc) : Bool :=
  let victims := p.trk.pendingDelete
  let unread := (match p.inst with | some i => unreadBlocks i | none => []) ++
    (match p.inst2 with | some i => unreadBlocks i | none => [])
  unread.any fun b => victims.contains b.file

def fires (c : Cfg) (p : Proc) (op : Op) : List String :=
  match op with
  | .reclaim => if reclaimDeletesUnread p then ["reclaimDeletesUnread"] else []
  | .open_ _ => firesOpen c p 0
  | .append t pay =>
    (if leavesEmptyBlock c p op t then ["emptyBlockAllocated"] else [])
  | .batch t ps =>
    (if leavesEmptyBlock c p op t then ["emptyBlockAllocated"] else [])
  | .appendF t pay _ =>
    (if leavesEmptyBlock c p op t then ["emptyBlockAllocated"] else [])
  | .batchF t ps _ =>
    (if rotatedThenFailed c p op t then ["rollbackKeepsNewBlock"] else []) ++
    (if leavesEmptyBlock c p op t then ["emptyBlockAllocated"] else [])
  | .onB o =>
    (match o with
     | .open_ _ => firesOpen c p 1
     | _ => []) ++
    -- both instances of the process have allocated blocks: their block ids (each instance numbers from 1)
    -- collide in the process-global block tracker
    (match p.inst, p.inst2 with
     | some a, some b =>
       let writes : Bool := match o with | .append _ _ => true | .batch _ _ => true | _ => false
       if decide (a.allocId > 1) && (decide (b.allocId > 1) || writes) then ["blockIdCollision"] else []
     | _, _ => [])
  | .crashAt kind n fd (.batch _ ps) =>
    -- a strict, non-empty prefix of the batch reaches the disk (sequential path only)
    (if (kind = 0 ∨ kind = 8) ∧ !fd ∧ 0 < n ∧ (step c p op).2 = .crashed then ["batchNotCrashAtomic"] else [])
  | _ => []

end WalrusVerif.Eng
