import WalrusVerif.Model.Recover
/-!
The engine as a step function over operations: one process, one live instance on directory 0.
`run` is what the property theorems quantify over and what the driver executes.
-/
namespace WalrusVerif.Eng
open WalrusVerif

inductive Op where
  | clock (ms : Nat)
  | open_ (mode : Mode)
  | close
  | restart
  | kill
  | append (t : Topic) (p : Pay)
  | batch (t : Topic) (ps : List Pay)
  /-- `append` / `batch` with an injected I/O fault armed for this one operation (hook H1) -/
  | appendF (t : Topic) (p : Pay) (flt : Fault)
  | batchF (t : Topic) (ps : List Pay) (flt : Fault)
  | next (t : Topic) (cp : Bool)
  | bread (t : Topic) (maxB : Nat) (cp : Bool) (start : Option Nat)
  | count (t : Topic)
  | size (t : Topic)
  | mark (t : Topic) (clean : Bool)
  | isClean (t : Topic)
  | persist
  | reclaim
  | ls
  | trk (name : Nat)
  | trks
  /-- the process is killed inside `op`, immediately before its `n`-th (0-based) I/O event of kind `kind`
  (hook H1: 0 = entry write, 2 = index tmp write, 3 = index rename, 7 = io_uring submission, 8 = write through
  the storage layer); `fd` = FD backend.  If `op` performs no such event it completes normally. -/
  | crashAt (kind n : Nat) (fd : Bool) (op : Op)
  /-- `op` addressed to the second instance of the process (directory 1) -/
  | onB (op : Op)
  deriving Repr

def withInst (p : Proc) (f : Inst → Proc × Inst × Out) : Proc × Out :=
  match p.inst with
  | none => (p, .err .closed)
  | some i =>
    let (p, i, o) := f i
    ({ p with inst := some i }, o)

def topicSize (i : Inst) (t : Topic) : Nat :=
  ((i.reader t).chain.map (·.used)).sum + ((i.writers.get? t).map (·.off)).getD 0

/-- the process dies: nothing in memory survives; the index file holds `idx` -/
def dieWith (p : Proc) (idx : AMap Topic Pos) : Proc :=
  match p.inst with
  | none => { p with trk := {}, lastMillis := 0 }
  | some i =>
    let d := (p.dirs.get? i.dir).getD {}
    { p with dirs := p.dirs.insert i.dir { d with index := idx }, inst := none, trk := {}, lastMillis := 0 }

/-- disk after a batch append killed at its `n`-th entry write: sequential path (mmap backend): the first
`n` entries are written; io_uring path (`fd`): the process looks at the completions only after every write
was performed, so all entries are written.  `none`: the batch performs no such event. -/
def crashBatchDisk (c : Cfg) (p : Proc) (i : Inst) (t : Topic) (batch : List Pay) (kind n : Nat) (fd : Bool) : Option Proc :=
  let i := markClean i t false
  let (p, i, w) := getOrCreateWriter c p i t
  if batch.length > c.cap then none
  else if (batch.map fun x => c.metaSz + x.len).sum > c.maxBatchBytes then none
  else if batch.isEmpty then none
  else if t.long then none
  else if w.batching then none
  else
    match planBatch c t batch p i w.blk w.off [] with
    | (_, _, _, none) => none
    | (p, _, _, some (_, plan)) =>
      if kind = 7 then (if fd ∧ n = 0 then some p else none)
      else if kind = 0 ∧ n < plan.length then
        let done := if fd then plan else plan.take n
        some { p with files := done.foldl (fun fs (x : Blk × Nat × Pay) => writeCell c fs x.1 x.2.1 t x.2.2) p.files }
      else none

def applyIdx (m : AMap Topic Pos) (l : List (Topic × Pos)) : AMap Topic Pos := l.foldl (fun m x => m.insert x.1 x.2) m

/-- clean shutdown of the second instance as well -/
def closeSecond (p : Proc) : Proc :=
  let q := closeInst { p with inst := p.inst2, inst2 := none }
  { q with inst := p.inst, inst2 := none }

def step (c : Cfg) (p : Proc) : Op → Proc × Out
  | .onB op =>
    -- the second instance becomes the addressed one for the duration of the operation
    let sw : Proc := { p with inst := p.inst2, inst2 := p.inst, curDir := 1 }
    let r := step c sw op
    ({ r.1 with inst := r.1.inst2, inst2 := r.1.inst, curDir := 0 }, r.2)
  | .crashAt kind0 n fd op =>
    -- kind 8 = a write through the storage layer: the one entry write of an append, the entry writes of the
    -- sequential batch path (the io_uring path does not go through the storage layer)
    let kind : Nat := if kind0 = 8 then
        (match op with
         | .append _ _ => 0
         | .batch _ _ => if fd then 8 else 0
         | _ => 8)
      else kind0
    let p0 : Proc := match p.inst with
      | some i => { p with inst := some { i with idxLog := [] } }
      | none => p
    let normal := step c p0 op
    match p0.inst with
    | none => normal
    | some i =>
      let idx0 := i.index
      -- entry writes / submission
      let diskW : Option Proc :=
        match op with
        | .append t pay =>
          if kind = 0 ∧ n = 0 then
            (match appendForTopic c p0 i t pay (some ⟨0, 0⟩) with
             | (p1, _, .err .other) => some p1
             | _ => none)
          else none
        | .batch t ps => crashBatchDisk c p0 i t ps kind n fd
        | _ => none
      match diskW with
      | some p1 => (dieWith { p1 with inst := some i } idx0, .crashed)
      | none =>
        -- index persists: the first `n` persists of the operation reached the index file
        let log := match normal.1.inst with
          | some i' => i'.idxLog
          | none => []
        if (kind = 2 ∨ kind = 3) ∧ n < log.length then
          (dieWith normal.1 (applyIdx idx0 (log.take n)), .crashed)
        else normal
  | .clock ms => ({ p with sysClock := ms }, .ok)
  | .open_ mode => (openInst c (closeInst p) p.curDir mode, .ok)
  | .close => (closeInst p, .ok)
  | .restart => (restartProc (closeSecond p), .ok)
  | .kill => (killProc { p with inst2 := none }, .ok)
  | .append t pay => withInst p fun i => appendForTopic c p i t pay
  | .batch t ps => withInst p fun i => batchAppendForTopic c p i t ps
  | .appendF t pay flt => withInst p fun i => appendForTopic c p i t pay (some flt)
  | .batchF t ps flt => withInst p fun i => batchAppendForTopic c p i t ps (some flt)
  | .next t cp => withInst p fun i => readNext c p i t cp
  | .bread t m cp st => withInst p fun i => batchRead c p i t m cp st
  | .count t => withInst p fun i => (p, i, .num ((i.counts.get? t).getD 0))
  | .size t => withInst p fun i => (p, i, .num (topicSize i t))
  | .mark t cl => withInst p fun i => (p, markClean i t cl, .ok)
  | .isClean t => withInst p fun i => (p, i, .flag (((i.cleanStates.get? t).map (·.2)).getD true))
  | .persist => (persistMarkers p, .ok)
  | .reclaim =>
    let (p', victims) := reclaim p
    (p', .names (victims.filterMap fun k => (p.files[k]?).map (·.name)))
  | .ls => (p, .names ((p.files.filter fun fs => fs.present && fs.dir == p.curDir).map (·.name)))
  | .trks =>
    (p, .trks ((((List.range p.files.length).zip p.files).filter fun (_, fs) => fs.present && fs.dir == p.curDir).map
      fun (k, fs) => (fs.name, p.trk.files.get? k)))
  | .trk name =>
    match (List.range p.files.length).find? (fun k => match p.files[k]? with
        | some fs => fs.present && fs.dir == p.curDir && fs.name == name
        | none => false) with
    | none => (p, .trk none)
    | some k => (p, .trk (p.trk.files.get? k))

def runFrom (c : Cfg) : Proc → List Op → List Out
  | _, [] => []
  | p, op :: rest => let (p', o) := step c p op; o :: runFrom c p' rest

def run (c : Cfg) (ops : List Op) : List Out := runFrom c {} ops

end WalrusVerif.Eng
