import WalrusVerif.Model.Recover
/-!
The engine as a step function over operations: one process, one live instance on directory 0.
`run` is what the property theorems quantify over and what the driver executes.
-/
namespace WalrusVerif.Eng
open WalrusVerif

inductive Op where
  | clock (ms : Nat)
  | open_ (mode : Mode)
  | close
  | restart
  | kill
  | append (t : Topic) (p : Pay)
  | batch (t : Topic) (ps : List Pay)
  /-- `append` / `batch` with an injected I/O fault armed for this one operation (hook H1) -/
  | appendF (t : Topic) (p : Pay) (flt : Fault)
  | batchF (t : Topic) (ps : List Pay) (flt : Fault)
  | next (t : Topic) (cp : Bool)
  | bread (t : Topic) (maxB : Nat) (cp : Bool) (start : Option Nat)
  | count (t : Topic)
  | size (t : Topic)
  | mark (t : Topic) (clean : Bool)
  | isClean (t : Topic)
  | persist
  | reclaim
  | ls
  | trk (name : Nat)
  | trks
  deriving Repr

def withInst (p : Proc) (f : Inst → Proc × Inst × Out) : Proc × Out :=
  match p.inst with
  | none => (p, .err .closed)
  | some i =>
    let (p, i, o) := f i
    ({ p with inst := some i }, o)

def topicSize (i : Inst) (t : Topic) : Nat :=
  ((i.reader t).chain.map (·.used)).sum + ((i.writers.get? t).map (·.off)).getD 0

def step (c : Cfg) (p : Proc) : Op → Proc × Out
  | .clock ms => ({ p with sysClock := ms }, .ok)
  | .open_ mode => (openInst c (closeInst p) 0 mode, .ok)
  | .close => (closeInst p, .ok)
  | .restart => (restartProc p, .ok)
  | .kill => (killProc p, .ok)
  | .append t pay => withInst p fun i => appendForTopic c p i t pay
  | .batch t ps => withInst p fun i => batchAppendForTopic c p i t ps
  | .appendF t pay flt => withInst p fun i => appendForTopic c p i t pay (some flt)
  | .batchF t ps flt => withInst p fun i => batchAppendForTopic c p i t ps (some flt)
  | .next t cp => withInst p fun i => readNext c p i t cp
  | .bread t m cp st => withInst p fun i => batchRead c p i t m cp st
  | .count t => withInst p fun i => (p, i, .num ((i.counts.get? t).getD 0))
  | .size t => withInst p fun i => (p, i, .num (topicSize i t))
  | .mark t cl => withInst p fun i => (p, markClean i t cl, .ok)
  | .isClean t => withInst p fun i => (p, i, .flag (((i.cleanStates.get? t).map (·.2)).getD true))
  | .persist => (persistMarkers p, .ok)
  | .reclaim =>
    let (p', victims) := reclaim p
    (p', .names (victims.filterMap fun k => (p.files[k]?).map (·.name)))
  | .ls => (p, .names ((p.files.filter fun fs => fs.present && fs.dir == 0).map (·.name)))
  | .trks =>
    (p, .trks ((((List.range p.files.length).zip p.files).filter fun (_, fs) => fs.present && fs.dir == 0).map
      fun (k, fs) => (fs.name, p.trk.files.get? k)))
  | .trk name =>
    match (List.range p.files.length).find? (fun k => match p.files[k]? with
        | some fs => fs.present && fs.dir == 0 && fs.name == name
        | none => false) with
    | none => (p, .trk none)
    | some k => (p, .trk (p.trk.files.get? k))

def runFrom (c : Cfg) : Proc → List Op → List Out
  | _, [] => []
  | p, op :: rest => let (p', o) := step c p op; o :: runFrom c p' rest

def run (c : Cfg) (ops : List Op) : List Out := runFrom c {} ops

end WalrusVerif.Eng
