import WalrusVerif.Model.AEng
/-!
`AEngR`: the entry-level model `AEng` extended with a **clean restart** of the instance in
StrictlyAtOnce mode.

What the code does at a clean shutdown + reopen, seen at the level of entries in blocks
(`Walrus::with_paths` → `startup_chore`): every block that holds at least one entry is found again
by the recovery scan, in allocation order, and is appended to its topic's *sealed* chain — including
the block that was the writer's active block; no writer exists until the next append, which
allocates a fresh block.  The consumer's position comes back from the persisted index; in
StrictlyAtOnce every consuming read persists its position, so the recovered position denotes the
same number of consumed entries as the in-memory one (a position inside the former active block is
folded into the chain by `append_block_to_chain`, exactly as at a rotation).  `reopenTopic` is that
transformation.  It is tied to the code by the same correspondence run as `AEng` (the driver keeps
comparing `AEngR` with the storage-level model and the implementation across restarts, as long as
no trigger of an open recovery finding has fired in the program).
-/
namespace WalrusVerif.AEng
open WalrusVerif WalrusVerif.Eng

def reopenTopic (c : Cfg) (a : ATopic) : ATopic :=
  match a.writer with
  | some w => { sealInto c a w with writer := none }
  | none => a

def mapVals {κ ν : Type} (f : ν → ν) (m : AMap κ ν) : AMap κ ν := m.map fun (k, v) => (k, f v)

def reopen (c : Cfg) (s : AState) : AState := { s with topics := mapVals (reopenTopic c) s.topics }

inductive ROp where
  | op (o : AOp)
  | restart
  deriving Repr

def stepR (c : Cfg) (s : AState) : ROp → AState × Out
  | .op o => step c s o
  | .restart => (reopen c s, .ok)

def runFromR (c : Cfg) : AState → List ROp → List Out
  | _, [] => []
  | s, op :: rest => let (s', o) := stepR c s op; o :: runFromR c s' rest

def runR (c : Cfg) (ops : List ROp) : List Out := runFromR c {} ops

/-- the region in which `reopenTopic` describes the code: no allocated-but-empty block exists at a
restart (open findings `emptyBlockAllocated` / `scanStopsAtEmptyBlock`) -/
def friendlyTopic (a : ATopic) : Bool :=
  a.chain.all (fun b => !b.es.isEmpty) &&
    (match a.writer with
     | some w => !w.es.isEmpty
     | none => true)

def friendlyFrom (c : Cfg) : AState → List ROp → Bool
  | _, [] => true
  | s, .restart :: rest => s.topics.all (fun (_, a) => friendlyTopic a) && friendlyFrom c (reopen c s) rest
  | s, .op o :: rest => friendlyFrom c (step c s o).1 rest

end WalrusVerif.AEng
