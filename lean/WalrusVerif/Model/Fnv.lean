import WalrusVerif.Gen.Consts
/-!
FNV-1a 64 as in `src/wal/config.rs::checksum64`: `hash ^= b; hash = hash.wrapping_mul(PRIME)`.
Model file: no imports beyond the generated constants, so the driver links as a `lean_exe`.
-/
namespace WalrusVerif.Fnv
open WalrusVerif

def offset : BitVec 64 := BitVec.ofNat 64 Consts.FNV_OFFSET
def prime : BitVec 64 := BitVec.ofNat 64 Consts.FNV_PRIME

/-- One step of the checksum loop on state `h` with input byte `b`. -/
def step (h : BitVec 64) (b : UInt8) : BitVec 64 :=
  (h ^^^ BitVec.ofNat 64 b.toNat) * prime

/-- `checksum64` from an arbitrary start state (the code starts at `offset`). -/
def foldFrom (h : BitVec 64) (data : List UInt8) : BitVec 64 := data.foldl step h

def checksum64 (data : List UInt8) : BitVec 64 := foldFrom offset data

end WalrusVerif.Fnv
