import WalrusVerif.Model.AMap
/-!
Model of octopii's Raft state-machine adapter (C19): `MemStateMachine` (octopii/src/openraft/storage.rs:232-406),
the piece of octopii that stands between openraft's apply driver and the application state machine, and the
application it is started with by default, `KvStateMachine` (octopii/src/state_machine.rs:19-86).

* `applyOne`, `applyAll` — `RaftStateMachine::apply` (storage.rs:315-347): for every entry of the stream, in stream
  order: record its id as `last_applied_log`; a blank entry answers with nothing, a normal entry hands its bytes to the
  application and answers with what the application returned, a membership entry is stored; the answer goes to the
  entry's responder when it has one (entries proposed on this node do, replicated ones do not).  An application
  error ends the call at that entry (`?`): the entry's id has already been recorded, later entries of the stream are
  not looked at.
* `SmSt.cmds` is a ghost: every command handed to the application, in order (what the "recording state machine
  wrapper" of the property observes).
* a process restart is `{}`: the adapter and `KvStateMachine` live in memory only.
* `failNext` models a node-local failure of the application (not a property of the command): the next command handed
  to it fails, nothing is applied, the call returns the error.

openraft's core (which entries are fed, and when) is not modelled: the theorems of Props/C19.lean take the entries
fed to a node as a parameter.
-/
namespace WalrusVerif.Adapter
open WalrusVerif

/-- the commands of `KvStateMachine`'s protocol; `bad` is anything it rejects -/
inductive Cmd where
  | set (k v : Nat)
  | get (k : Nat)
  | del (k : Nat)
  | bad
  deriving DecidableEq, Repr, Inhabited

inductive Payload where
  | blank
  | normal (c : Cmd)
  | membership (m : Nat)
  deriving DecidableEq, Repr, Inhabited

structure REntry where
  index : Nat
  term : Nat
  payload : Payload
  /-- proposed on this node: the entry carries a responder -/
  responder : Bool := false
  deriving DecidableEq, Repr, Inhabited

/-- the application's answer -/
inductive Resp where
  | empty
  | ok
  | val (v : Nat)
  | notFound
  deriving DecidableEq, Repr, Inhabited

/-- `KvStateMachine::apply`; `none` = `Err` -/
def kvApply (kv : AMap Nat Nat) : Cmd → Option (AMap Nat Nat × Resp)
  | .set k v => some (kv.insert k v, .ok)
  | .get k => some (kv, match kv.get? k with | some v => .val v | none => .notFound)
  | .del k => some (kv.erase k, .ok)
  | .bad => none

structure SmSt where
  lastApplied : Option (Nat × Nat) := none
  lastMembership : Option (Nat × Nat) × Nat := (none, 0)
  /-- ghost: every command handed to the application, in order -/
  cmds : List Cmd := []
  kv : AMap Nat Nat := AMap.empty
  /-- armed by the environment: the application's next `apply` fails on THIS node only (disk full, I/O error of a
  WAL-backed application state machine, a poisoned lock), without touching its state -/
  failNext : Bool := false
  deriving DecidableEq, Repr, Inhabited

/-- one iteration of the loop of `apply`: new state, the answer sent (if the entry has a responder), `false` = the
application rejected the command and the call returns its error -/
def applyOne (s : SmSt) (e : REntry) : SmSt × Option (Nat × Resp) × Bool :=
  let s := { s with lastApplied := some (e.index, e.term) }
  match e.payload with
  | .blank => (s, if e.responder then some (e.index, .empty) else none, true)
  | .membership m => ({ s with lastMembership := (some (e.index, e.term), m) }, if e.responder then some (e.index, .empty) else none, true)
  | .normal c =>
    if s.failNext then ({ s with failNext := false }, none, false) else
    let s := { s with cmds := s.cmds ++ [c] }
    match kvApply s.kv c with
    | some (kv, r) => ({ s with kv := kv }, if e.responder then some (e.index, r) else none, true)
    | none => (s, none, false)

/-- `apply` on a stream of entries: final state, the answers in the order they were sent, success -/
def applyAll : SmSt → List REntry → SmSt × List (Nat × Resp) × Bool
  | s, [] => (s, [], true)
  | s, e :: r =>
    match applyOne s e with
    | (s', o, true) =>
      let (s'', os, ok) := applyAll s' r
      (s'', o.toList ++ os, ok)
    | (s', o, false) => (s', o.toList, false)

/-- several calls of `apply`, as the apply driver makes them (it stops at the first error: a storage error is fatal to
the Raft instance) -/
def applyBatches : SmSt → List (List REntry) → SmSt × Bool
  | s, [] => (s, true)
  | s, b :: r =>
    match applyAll s b with
    | (s', _, true) => applyBatches s' r
    | (s', _, false) => (s', false)

/-- the commands among a list of entries, in order -/
def cmdsOf (es : List REntry) : List Cmd :=
  es.filterMap fun e => match e.payload with | .normal c => some c | _ => none

/-- the application state a command sequence leads to (`none`: some command is rejected) -/
def kvReplay : AMap Nat Nat → List Cmd → Option (AMap Nat Nat)
  | kv, [] => some kv
  | kv, c :: r => match kvApply kv c with | some (kv', _) => kvReplay kv' r | none => none

end WalrusVerif.Adapter
