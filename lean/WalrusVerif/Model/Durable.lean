/-!
Durability of an I/O event trace under power loss (C10).

The engine's I/O, as recorded by hook H1 on the real code, is a sequence of events.  A power loss at
point `k` keeps what had been explicitly synced among the first `k` events and an arbitrary subset of
the rest.  This file defines which events are *durable* at `k` and the discipline an acknowledging
code path has to follow; the theorem that the discipline implies durability of everything
acknowledged is in Props/C10.lean.  The correspondence run checks that the traces recorded from the
real engine under `FsyncSchedule::SyncEach` follow the discipline.
-/
namespace WalrusVerif.Durable

inductive Ev where
  /-- a WAL file is created (its directory entry is not durable yet) -/
  | create (f : Nat)
  /-- fsync / sync_all / msync of file `f`: every earlier write to `f` becomes durable -/
  | syncFile (f : Nat)
  /-- fsync of the data directory: every earlier creation and rename in it becomes durable -/
  | syncDir
  /-- the write of entry `id` into file `f`; `osync`: through a descriptor opened with O_SYNC -/
  | write (f : Nat) (id : Nat) (osync : Bool)
  /-- the append that wrote entry `id` returned success to the caller -/
  | ack (id : Nat)
  /-- the cursor index, version `v`, is renamed into place (its content was fsynced before) -/
  | renameIdx (v : Nat)
  /-- the consuming read that persisted index version `v` returned -/
  | ackRead (v : Nat)
  deriving Repr, DecidableEq

abbrev Trace := List Ev

/-- some event satisfying `q` occurs at a position in `[lo, hi)` -/
def occursIn (tr : Trace) (lo hi : Nat) (q : Ev → Bool) : Prop :=
  ∃ m, lo ≤ m ∧ m < hi ∧ ∃ e, tr[m]? = some e ∧ q e = true

def isSyncFile (f : Nat) : Ev → Bool
  | .syncFile g => g == f
  | _ => false

def isSyncDir : Ev → Bool
  | .syncDir => true
  | _ => false

/-- the file existed before the trace started, or its creation at `c` is followed by a directory sync before `k` -/
def fileDurable (tr : Trace) (k f : Nat) : Prop :=
  (∀ c : Nat, tr[c]? ≠ some (Ev.create f)) ∨ ∃ c, c < k ∧ tr[c]? = some (Ev.create f) ∧ occursIn tr (c + 1) k isSyncDir

/-- the write at position `j` survives a power loss at `k` in every admissible disk state -/
def writeDurable (tr : Trace) (k j : Nat) : Prop :=
  ∃ f id s, j < k ∧ tr[j]? = some (.write f id s) ∧ (s = true ∨ occursIn tr (j + 1) k (isSyncFile f)) ∧ fileDurable tr k f

/-- the index rename at position `j` survives a power loss at `k` -/
def renameDurable (tr : Trace) (k j : Nat) : Prop :=
  ∃ v, j < k ∧ tr[j]? = some (.renameIdx v) ∧ occursIn tr (j + 1) k isSyncDir

/-- the discipline for acknowledged appends: before the acknowledgement at `a`, the entry was written,
the write was synced (or went through O_SYNC), and the file it went into is durable -/
def AckDisciplined (tr : Trace) : Prop :=
  ∀ a id, tr[a]? = some (.ack id) →
    ∃ j f s, j < a ∧ tr[j]? = some (.write f id s) ∧ (s = true ∨ occursIn tr (j + 1) a (isSyncFile f)) ∧ fileDurable tr a f

/-- the discipline for acknowledged consumption (StrictlyAtOnce): the index version the read persisted is
renamed into place and the directory is synced before the read returns -/
def ReadDisciplined (tr : Trace) : Prop :=
  ∀ a v, tr[a]? = some (.ackRead v) → ∃ j, j < a ∧ tr[j]? = some (.renameIdx v) ∧ occursIn tr (j + 1) a isSyncDir

end WalrusVerif.Durable

namespace WalrusVerif.Durable

/-! ### executable checkers (run by the driver on the traces recorded from the real engine) -/

def occursInB (tr : Trace) (lo hi : Nat) (q : Ev → Bool) : Bool :=
  (List.range hi).any fun m => decide (lo ≤ m) && (match tr[m]? with | some e => q e | none => false)

def fileDurableB (tr : Trace) (k f : Nat) : Bool :=
  !(tr.any fun e => e == Ev.create f) ||
    (List.range k).any fun c => (tr[c]? == some (Ev.create f)) && occursInB tr (c + 1) k isSyncDir

def ackOK (tr : Trace) (a id : Nat) : Bool :=
  (List.range a).any fun j =>
    match tr[j]? with
    | some (.write f id' s) => (id' == id) && (s || occursInB tr (j + 1) a (isSyncFile f)) && fileDurableB tr a f
    | _ => false

def readOK (tr : Trace) (a v : Nat) : Bool :=
  (List.range a).any fun j => (tr[j]? == some (Ev.renameIdx v)) && occursInB tr (j + 1) a isSyncDir

/-- first acknowledgement that is not covered, if any -/
def firstBadAck (tr : Trace) : Option Nat :=
  (List.range tr.length).find? fun a => match tr[a]? with | some (.ack id) => !ackOK tr a id | _ => false

def firstBadRead (tr : Trace) : Option Nat :=
  (List.range tr.length).find? fun a => match tr[a]? with | some (.ackRead v) => !readOK tr a v | _ => false

def ackDisciplinedB (tr : Trace) : Bool :=
  (List.range tr.length).all fun a => match tr[a]? with | some (.ack id) => ackOK tr a id | _ => true

def readDisciplinedB (tr : Trace) : Bool :=
  (List.range tr.length).all fun a => match tr[a]? with | some (.ackRead v) => readOK tr a v | _ => true

end WalrusVerif.Durable
