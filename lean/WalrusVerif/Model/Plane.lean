import WalrusVerif.Model.Meta
/-!
Small-step model of the data plane of distributed-walrus (C22, C23): `bucket.rs` (leases, per-key write locks),
`controller/mod.rs` + `controller/internal.rs` (append path, rollover proposal, read path with per-node cursors),
`monitor.rs` (rollover check), on top of

* the cluster metadata state machine `Meta.applyCmd` (the model of `metadata.rs` that C18 is proved about), applied
  per node from one totally ordered command log (what Raft provides - C19 - is assumed);
* one FIFO queue with a consumed count per (node, wal key): the storage engine as C01 specifies it.

A task (one client PUT or GET, or a node's monitor loop) runs from one *named point* to the next; the points are the
`cfg(walrus_verif)` hooks in the sources (`leases-refreshed`, `lease-checked`, `locked`, `written`, `recorded`,
`rollover-count`, `read-planned`) and the two waits of the stand-ins (`await-apply`, `tick`).  Which task takes the
next step, and when a node applies the next log entry, is the scheduler's choice: the harness makes the same
choices on the real code.
-/
namespace WalrusVerif.Plane
open WalrusVerif

abbrev Name := Meta.Name
/-- (topic, segment): the wal key `t_<topic>_s_<segment>` -/
abbrev Key := Name × Nat
abbrev Payload := Nat

instance : DecidableEq Key := inferInstance

structure Queue where
  entries : List Payload := []
  consumed : Nat := 0
  deriving Repr, DecidableEq

structure NodeSt where
  md : Meta.ClusterState := Meta.ClusterState.init
  applied : Nat := 0
  /-- `Storage::active_leases` -/
  leases : List Key := []
  /-- ghost: the applied index at the moment the leases were last refreshed -/
  leaseApplied : Nat := 0
  /-- `NodeController::offsets` -/
  offsets : AMap Key Nat := AMap.empty
  /-- the engine, per wal key -/
  queues : AMap Key Queue := AMap.empty
  /-- `NodeController::read_cursors`: topic -> (segment, delivered_in_segment) -/
  cursors : AMap Name (Nat × Nat) := AMap.empty
  cursorLocked : Bool := false
  /-- per-key write locks currently held (`Storage::write_locks`) -/
  locks : List Key := []

/-- where a PUT executes and how its error is reported back -/
structure PutCtx where
  /-- executing node (the segment leader as the origin saw it) -/
  e : Nat
  key : Key
  payload : Payload
  remote : Bool
  deriving Repr, DecidableEq

inductive Task where
  | putStart (n : Nat) (topic : Name) (x : Payload)
  | putRefreshed (c : PutCtx)
  | putChecked (c : PutCtx)
  | putLocked (c : PutCtx)
  | putWritten (c : PutCtx)
  | putRecorded (c : PutCtx)
  | putCounted (c : PutCtx) (count : Nat)
  | putAwait (idx : Nat) (x : Payload)
  | getStart (n : Nat) (topic : Name)
  | getPlanned (n : Nat) (topic : Name) (seg del cur leader : Nat)
  | monStart (n : Nat)
  | monTick (n : Nat)
  | monAwait (n : Nat) (idx : Nat) (rest : List (Name × Nat))
  | finished
  deriving Repr, DecidableEq

inductive Res where
  | ok
  | val (x : Payload)
  | empty
  | errUnknownTopic (t : Name)
  | errNotLeader (k : Key) (remote : Bool)
  | errNoAddr (n : Nat)
  deriving Repr, DecidableEq

inductive StepOut where
  | yield_ (label : String) (key : Option Key) (num : Option Nat)
  /-- the `written` point, with what the executing node's applied metadata says about the topic at that moment
  (current segment, leader): ghost information for C23 -/
  | written (key : Key) (e : Nat) (view : Option (Nat × Nat))
  | blocked
  | done (r : Res)
  | finished
  | noTask
  deriving Repr, DecidableEq

/-- what the ghost log records about a write, for the properties -/
structure WriteEv where
  node : Nat
  key : Key
  payload : Payload
  /-- did the writing node's applied metadata, at the moment of the write, have this segment open and led by it? -/
  ownedAtWrite : Bool
  /-- was the node's lease set, at the moment of the write, computed from the metadata it had applied by then
  (nothing applied since the last refresh), and did it contain the key? -/
  leasesCurrent : Bool
  deriving Repr, DecidableEq

structure World where
  nodeIds : List Nat := []
  nodes : AMap Nat NodeSt := AMap.empty
  log : List Meta.Cmd := []
  thresh : Nat := 1000000
  tasks : AMap Nat Task := AMap.empty
  topicOrder : List Name := []
  /-- ghost: every engine write, in order -/
  writes : List WriteEv := []
  /-- ghost: every delivery (GET result), in order: the node and wal key it was read from, and the payload -/
  delivered : List (Nat × Key × Payload) := []
  /-- ghost: acknowledged PUT payloads, in order of acknowledgement -/
  acked : List Payload := []

def World.node (w : World) (n : Nat) : NodeSt := (w.nodes.get? n).getD {}
def World.setNode (w : World) (n : Nat) (s : NodeSt) : World := { w with nodes := w.nodes.insert n s }

/-- `Metadata::owned_topics` mapped to wal keys -/
def ownedKeys (m : Meta.ClusterState) (n : Nat) : List Key :=
  (List.filter (fun (p : Name × Meta.TopicState) => p.2.leaderNode == n) m.topics).map fun p => (p.1, p.2.currentSegment)

/-- `NodeController::update_leases` -/
def updateLeases (s : NodeSt) (n : Nat) : NodeSt := { s with leases := ownedKeys s.md n, leaseApplied := s.applied }

/-- does `n`'s applied metadata have this segment open and led by `n`? -/
def ownsOpen (m : Meta.ClusterState) (n : Nat) (k : Key) : Bool :=
  match m.topics.get? k.1 with
  | some ts => ts.currentSegment == k.2 && ts.leaderNode == n
  | none => false

def addrOf (n : Nat) : Name := ("127.0.0.1:" ++ toString (6000 + n)).toList

def leaderId : Nat := 1

/-- `nodes[(idx + 1) % len]` over the sorted voter ids -/
def nextLeader (ids : List Nat) (e : Nat) : Nat :=
  match ids with
  | [] => e
  | _ =>
    let idx := (ids.findIdx? (· == e)).getD 0
    ids.getD ((idx + 1) % ids.length) e

/-- apply the next log entry on node `n` (scheduler action) -/
def applyNext (w : World) (n : Nat) : World × Option Nat :=
  let s := w.node n
  match w.log[s.applied]? with
  | none => (w, none)
  | some c => (w.setNode n { s with md := (Meta.applyCmd s.md c).1, applied := s.applied + 1 }, some s.applied)

def applyAllOn (w : World) (n : Nat) : Nat → World
  | 0 => w
  | fuel + 1 =>
    match applyNext w n with
    | (w', some _) => applyAllOn w' n fuel
    | (w', none) => w'

def applyAll (w : World) : World :=
  w.nodeIds.foldl (fun w n => applyAllOn w n (w.log.length + 1)) w

/-- the `loop` of `read_one_for_topic` up to the point before the read: returns the new cursor and either the
plan (segment, stale current segment, leader) or the error -/
def planRead (m : Meta.ClusterState) (topic : Name) : Nat → Nat → Nat → (Nat × Nat) × Option (Nat × Nat)
  | 0, seg, del => ((seg, del), none)
  | fuel + 1, seg, del =>
    match m.topics.get? topic with
    | none => ((seg, del), none)
    | some ts =>
      let seg := if seg = 0 then 1 else seg
      let cur := ts.currentSegment
      if seg < cur ∧ del ≥ (ts.sealedSegments.get? seg).getD 0 then
        planRead m topic fuel (seg + 1) 0
      else
        let leader := if seg = cur then ts.leaderNode else (ts.segmentLeaders.get? seg).getD ts.leaderNode
        ((seg, del), some (cur, leader))

def Queue.pop (q : Queue) : Option Payload × Queue :=
  match q.entries[q.consumed]? with
  | some x => (some x, { q with consumed := q.consumed + 1 })
  | none => (none, q)

/-- the part of a GET from (re-)reading the metadata to the next point or the result -/
def getLoop (w : World) (tid n : Nat) (topic : Name) (seg del : Nat) : World × StepOut :=
  let s := w.node n
  match s.md.topics.get? topic with
  | none =>
    let s' := { s with cursors := s.cursors.insert topic (seg, del), cursorLocked := false }
    ({ (w.setNode n s') with tasks := w.tasks.insert tid .finished }, .done (.errUnknownTopic topic))
  | some ts =>
    let ((seg', del'), plan) := planRead s.md topic (ts.currentSegment + 2) seg del
    match plan with
    | none =>      -- not reachable with enough fuel; treated as EMPTY
      let s' := { s with cursors := s.cursors.insert topic (seg', del'), cursorLocked := false }
      ({ (w.setNode n s') with tasks := w.tasks.insert tid .finished }, .done .empty)
    | some (cur, leader) =>
      ({ w with tasks := w.tasks.insert tid (.getPlanned n topic seg' del' cur leader) },
        .yield_ "read-planned" (some (topic, seg')) (some del'))

/-- `propose_metadata` from node `e` (node 1 is the Raft leader; others forward to it): the command is appended
to the log and the caller waits until node 1 has applied it -/
def propose (w : World) (c : Meta.Cmd) : World × Nat :=
  ({ w with log := w.log ++ [c] }, w.log.length)

def rolloverCmd (w : World) (e : Nat) (topic : Name) (count : Nat) : Meta.Cmd :=
  .rolloverTopic topic (nextLeader w.nodeIds e) count

/-- the monitor's `for (topic, segment) in owned` loop -/
def monLoop (w : World) (tid n : Nat) : List (Name × Nat) → World × StepOut
  | [] => ({ w with tasks := w.tasks.insert tid (.monTick n) }, .yield_ "tick" none none)
  | (topic, seg) :: rest =>
    let count := ((w.node n).offsets.get? (topic, seg)).getD 0
    if count < w.thresh then monLoop w tid n rest
    else
      let (w', idx) := propose w (rolloverCmd w n topic count)
      ({ w' with tasks := w'.tasks.insert tid (.monAwait n idx rest) }, .yield_ "await-apply" none (some idx))

def finish (w : World) (tid : Nat) (r : Res) : World × StepOut :=
  ({ w with tasks := w.tasks.insert tid .finished }, .done r)

/-- one scheduler step of task `tid`: run it to its next point -/
def stepTask (w : World) (tid : Nat) : World × StepOut :=
  match w.tasks.get? tid with
  | none => (w, .noTask)
  | some .finished => (w, .finished)
  | some (.putStart n topic x) =>
    match (w.node n).md.topics.get? topic with
    | none => finish w tid (.errUnknownTopic topic)
    | some ts =>
      let key : Key := (topic, ts.currentSegment)
      let e := ts.leaderNode
      if e ≠ n ∧ ((w.node n).md.nodes.get? e).isNone then finish w tid (.errNoAddr e)
      else
        let w1 := w.setNode e (updateLeases (w.node e) e)
        ({ w1 with tasks := w1.tasks.insert tid (.putRefreshed ⟨e, key, x, e != n⟩) }, .yield_ "leases-refreshed" (some key) (some e))
  | some (.putRefreshed c) =>
    let s := w.node c.e
    if s.leases.contains c.key then
      ({ w with tasks := w.tasks.insert tid (.putChecked c) }, .yield_ "lease-checked" (some c.key) none)
    else
      -- second attempt of `append_with_retry`: refresh the leases and check again
      let s' := updateLeases s c.e
      let w1 := w.setNode c.e s'
      if s'.leases.contains c.key then
        ({ w1 with tasks := w1.tasks.insert tid (.putChecked c) }, .yield_ "lease-checked" (some c.key) none)
      else finish w1 tid (.errNotLeader c.key c.remote)
  | some (.putChecked c) =>
    let s := w.node c.e
    if s.locks.contains c.key then (w, .blocked)
    else
      let w1 := w.setNode c.e { s with locks := c.key :: s.locks }
      ({ w1 with tasks := w1.tasks.insert tid (.putLocked c) }, .yield_ "locked" (some c.key) none)
  | some (.putLocked c) =>
    let s := w.node c.e
    let q := (s.queues.get? c.key).getD {}
    let w1 := w.setNode c.e { s with queues := s.queues.insert c.key { q with entries := q.entries ++ [c.payload] } }
    ({ w1 with tasks := w1.tasks.insert tid (.putWritten c),
               writes := w1.writes ++ [⟨c.e, c.key, c.payload, ownsOpen s.md c.e c.key,
                 decide (s.leaseApplied = s.applied) && s.leases.contains c.key⟩] },
      .written c.key c.e ((s.md.topics.get? c.key.1).map fun ts => (ts.currentSegment, ts.leaderNode)))
  | some (.putWritten c) =>
    let s := w.node c.e
    let cnt := (s.offsets.get? c.key).getD 0 + 1
    let w1 := w.setNode c.e { s with locks := s.locks.erase c.key, offsets := s.offsets.insert c.key cnt }
    ({ w1 with tasks := w1.tasks.insert tid (.putRecorded c) }, .yield_ "recorded" (some c.key) (some cnt))
  | some (.putRecorded c) =>
    let cnt := ((w.node c.e).offsets.get? c.key).getD 0
    ({ w with tasks := w.tasks.insert tid (.putCounted c cnt) }, .yield_ "rollover-count" (some c.key) (some cnt))
  | some (.putCounted c cnt) =>
    if cnt < w.thresh then
      let (w1, o) := finish w tid .ok
      ({ w1 with acked := w1.acked ++ [c.payload] }, o)
    else
      let (w1, idx) := propose w (rolloverCmd w c.e c.key.1 cnt)
      ({ w1 with tasks := w1.tasks.insert tid (.putAwait idx c.payload) }, .yield_ "await-apply" none (some idx))
  | some (.putAwait idx x) =>
    if (w.node leaderId).applied > idx then
      let (w1, o) := finish w tid .ok
      ({ w1 with acked := w1.acked ++ [x] }, o)
    else (w, .yield_ "await-apply" none (some idx))
  | some (.getStart n topic) =>
    let s := w.node n
    if s.cursorLocked then (w, .blocked)
    else
      let (seg, del) := (s.cursors.get? topic).getD (0, 0)
      getLoop (w.setNode n { s with cursorLocked := true }) tid n topic seg del
  | some (.getPlanned n topic seg del cur leader) =>
    let s := w.node n
    if leader ≠ n ∧ (s.md.nodes.get? leader).isNone then
      let s' := { s with cursors := s.cursors.insert topic (seg, del), cursorLocked := false }
      finish (w.setNode n s') tid (.errNoAddr leader)
    else
      let sl := w.node leader
      let (r, q') := ((sl.queues.get? (topic, seg)).getD {}).pop
      match r with
      | some x =>
        let w1 := w.setNode leader { sl with queues := sl.queues.insert (topic, seg) q' }
        let s1 := w1.node n
        let w2 := w1.setNode n { s1 with cursors := s1.cursors.insert topic (seg, del + 1), cursorLocked := false }
        let (w3, o) := finish w2 tid (.val x)
        ({ w3 with delivered := w3.delivered ++ [(leader, (topic, seg), x)] }, o)
      | none =>
        if seg < cur then
          -- sealed (as seen before the read): skip to the next segment, whatever the sealed count says now
          getLoop w tid n topic (seg + 1) 0
        else
          let s' := { s with cursors := s.cursors.insert topic (seg, del), cursorLocked := false }
          finish (w.setNode n s') tid .empty
  | some (.monStart n) => ({ w with tasks := w.tasks.insert tid (.monTick n) }, .yield_ "tick" none none)
  | some (.monTick n) =>
    let owned := (List.filter (fun (p : Name × Meta.TopicState) => p.2.leaderNode == n) (w.node n).md.topics).map
      fun p => (p.1, p.2.currentSegment)
    monLoop w tid n owned
  | some (.monAwait n idx rest) =>
    if (w.node leaderId).applied > idx then monLoop w tid n rest
    else (w, .yield_ "await-apply" none (some idx))

/-! ### scheduler actions -/

inductive Act where
  | step (tid : Nat)
  | apply (n : Nat)
  | sync (n : Nat)
  | spawn (tid : Nat) (t : Task)
  deriving Repr

def act (w : World) : Act → World
  | .step tid => (stepTask w tid).1
  | .apply n => (applyNext w n).1
  | .sync n => w.setNode n (updateLeases (w.node n) n)
  | .spawn tid t => { w with tasks := w.tasks.insert tid t }

def runActs (w : World) (as : List Act) : World := as.foldl act w

/-- set-up: `n` nodes whose addresses are registered and applied everywhere -/
def initWorld (n thresh : Nat) : World :=
  let ids := (List.range n).map (· + 1)
  let w : World := { nodeIds := ids, thresh := thresh,
                     nodes := ids.foldl (fun m i => m.insert i {}) AMap.empty,
                     log := ids.map fun i => Meta.Cmd.upsertNode i (addrOf i) }
  applyAll w

/-- set-up: create a topic (appended to the log and applied everywhere) -/
def createTopic (w : World) (name : Name) (leader : Nat) : World :=
  applyAll { w with log := w.log ++ [.createTopic name leader], topicOrder := w.topicOrder ++ [name] }

def isForeground : Task → Bool
  | .monStart _ => false
  | .monTick _ => false
  | .monAwait _ _ _ => false
  | .finished => false
  | _ => true

/-- `drain`: rounds of (every node applies everything; every unfinished client task takes one step, in task-id
order) until nothing is left or nothing moves -/
def drainRounds (w : World) : Nat → World × List (Nat × StepOut)
  | 0 => (applyAll w, [])
  | fuel + 1 =>
    let w := applyAll w
    let tids := ((List.filter (fun (p : Nat × Task) => isForeground p.2) w.tasks).map (·.1)).toArray.qsort (· < ·) |>.toList
    if tids.isEmpty then (applyAll w, [])
    else
      let (w', outs) := tids.foldl (fun (acc : World × List (Nat × StepOut)) tid =>
        let (w1, o) := stepTask acc.1 tid
        (w1, acc.2 ++ [(tid, o)])) (w, [])
      if outs.all (fun p => p.2 == .blocked) then (applyAll w', outs)
      else
        let (w'', more) := drainRounds w' fuel
        (w'', outs ++ more)

def drain (w : World) : World × List (Nat × StepOut) := drainRounds w 400

end WalrusVerif.Plane
