import WalrusVerif.Model.Writer
/-!
`walrus_read.rs`: `read_next`, `should_persist`, `batch_read_for_topic` (stateful and
offset-addressed), sequential execution (no other thread between lock releases).
-/
namespace WalrusVerif.Eng
open WalrusVerif

/-- `should_persist(info, force)` -/
def shouldPersist (m : Mode) (info : ColInfo) (force : Bool) : ColInfo × Bool :=
  match m with
  | .strict => (info, true)
  | .alo n =>
    let every := max n 1
    if force then ({ info with readsSince := 0 }, true)
    else
      let next := info.readsSince + 1
      if next ≥ every then ({ info with readsSince := 0 }, true)
      else ({ info with readsSince := next }, false)

def findBlockIdx (chain : List Blk) (id : Nat) : Option Nat :=
  chain.findIdx? (·.id == id)

/-- Hydration of the in-memory cursor from the persisted index, `read_next` flavour: returns the
info and the persisted tail `(block id, offset)` if the index holds a tail position. -/
def hydrateNext (i : Inst) (t : Topic) (info : ColInfo) : ColInfo × Option (Nat × Nat) :=
  if info.hydrated then (info, none)
  else
    match i.index.get? t with
    | none => ({ info with hydrated := true }, none)
    | some pos =>
      if pos.tail then
        ({ info with curIdx := info.chain.length, curOff := 0, hydrated := true }, some (pos.idx, pos.off))
      else
        let ib := min pos.idx info.chain.length
        let off := match info.chain[ib]? with
          | some b => min pos.off b.used
          | none => 0
        ({ info with curIdx := ib, curOff := off, hydrated := true }, none)

/-- fold a persisted tail position into the recovered sealed chain (`read_next`) -/
def foldTailNext (info : ColInfo) : Option (Nat × Nat) → ColInfo
  | none => info
  | some (tid, toff) =>
    if info.chain.isEmpty then info
    else
      match findBlockIdx info.chain tid with
      | some k =>
        let used := match info.chain[k]? with
          | some b => b.used
          | none => 0
        { info with curIdx := k, curOff := min toff used }
      | none => { info with curIdx := 0, curOff := 0 }

def setIndex (i : Inst) (t : Topic) (pos : Pos) : Inst :=
  { i with index := i.index.insert t pos, idxLog := i.idxLog ++ [(t, pos)] }

def putReader (i : Inst) (t : Topic) (info : ColInfo) : Inst := { i with readers := i.readers.insert t info }

/-- The `loop` of `read_next`; `fuel` bounds the block advances (chain length + 1 suffices). -/
def readNextLoop (c : Cfg) (t : Topic) (cp : Bool) :
    Nat → Proc → Inst → ColInfo → Proc × Inst × Out
  | 0, p, i, info => (p, putReader i t info, .entry none)
  | fuel + 1, p, i, info =>
    match info.chain[info.curIdx]? with
    | some blk =>
      if info.curOff ≥ blk.used then
        let p := { p with trk := p.trk.setCheckpointed blk.id }
        readNextLoop c t cp fuel p i { info with curIdx := info.curIdx + 1, curOff := 0 }
      else
        match readEntry c p.files blk info.curOff with
        | some (pay, consumed) =>
          if cp then
            let newOff := info.curOff + consumed
            let info := { info with curOff := newOff }
            let (info, persist) := shouldPersist i.mode info false
            let i := putReader i t info
            let i := if persist then setIndex i t { tail := false, idx := info.curIdx, off := newOff } else i
            (p, decCount i t 1, .entry (some pay))
          else (p, putReader i t info, .entry (some pay))
        | none => (p, putReader i t info, .entry none)
    | none =>
      -- tail path
      match i.writers.get? t with
      | none => (p, putReader i t info, .entry none)
      | some w =>
        let active := w.blk
        let written := w.off
        -- in-memory cursor already inside the active block: resume there, nothing persisted;
        -- otherwise init at the block start with a forced provisional persist
        let inBlock := info.tailId = active.id
        let knownOff := if inBlock then info.tailOff else 0
        let (info, i) :=
          if cp ∧ !inBlock then
            let (info, _) := shouldPersist i.mode info true
            (info, setIndex i t { tail := true, idx := active.id, off := 0 })
          else (info, i)
        let tailOff := knownOff
        if tailOff < written then
          match readEntry c p.files active tailOff with
          | some (pay, consumed) =>
            if cp then
              let newOff := tailOff + consumed
              let info := { info with tailId := active.id, tailOff := newOff }
              let (info, persist) := shouldPersist i.mode info false
              let i := putReader i t info
              let i := if persist then setIndex i t { tail := true, idx := active.id, off := newOff } else i
              (p, decCount i t 1, .entry (some pay))
            else (p, putReader i t info, .entry (some pay))
          | none => (p, putReader i t info, .entry none)
        else (p, putReader i t info, .entry none)

/-- `Walrus::read_next` -/
def readNext (c : Cfg) (p : Proc) (i : Inst) (t : Topic) (cp : Bool) : Proc × Inst × Out :=
  let info := i.reader t
  let (info, ptail) := hydrateNext i t info
  let info := foldTailNext info ptail
  readNextLoop c t cp (info.chain.length + 2) p i info

/-! ### batch read -/

structure RPlan where
  blk : Blk
  start : Nat
  stop : Nat
  isTail : Bool
  chainIdx : Nat
  deriving Repr

/-- size of the entry whose header sits at in-block offset `o` (header only, no checksum) -/
def headerSize (files : List FileSt) (b : Blk) (o : Nat) : Option Nat :=
  match cellAt (fileCells files b.file) (b.off + o) with
  | some x => some x.pay.len
  | none => none

/-- single / double peek: the raw bytes the first range must cover at least -/
def peekWant (c : Cfg) (files : List FileSt) (b : Blk) (curOff want : Nat) : Nat :=
  if curOff + c.metaSz ≤ b.used then
    match headerSize files b curOff with
    | none => want
    | some size1 =>
      let req1 := c.metaSz + size1
      let final :=
        if size1 < c.peekSmall then
          let off2 := curOff + req1
          if off2 + c.metaSz ≤ b.used then
            match headerSize files b off2 with
            | some size2 => req1 + (c.metaSz + size2)
            | none => req1
          else req1
        else req1
      if final > want then final else want
  else want

structure PlanSt where
  curIdx : Nat
  curOff : Nat
  planned : Nat
  hint : Nat
  plan : List RPlan
  trk : Trackers

/-- raw bytes the planner wants from block `blk` at its current position -/
def planWant (c : Cfg) (files : List FileSt) (blk : Blk) (s : PlanSt) (maxB : Nat) (stateless : Bool) : Nat :=
  let want0 := maxB - s.planned
  if s.planned = 0 then
    if stateless ∧ s.hint > s.curOff then max want0 (s.hint - s.curOff)
    else peekWant c files blk s.curOff want0
  else want0

def planStop (c : Cfg) (files : List FileSt) (blk : Blk) (s : PlanSt) (maxB : Nat) (stateless : Bool) : Nat :=
  min blk.used (s.curOff + planWant c files blk s maxB stateless)

def planAdd (blk : Blk) (s : PlanSt) (stop : Nat) : PlanSt :=
  if stop > s.curOff then
    { s with plan := s.plan ++ [{ blk := blk, start := s.curOff, stop := stop, isTail := false, chainIdx := s.curIdx }],
             planned := s.planned + (stop - s.curOff) }
  else s

/-- the sealed-chain planning loop; `mark` = stateful ∧ checkpoint; `stateless` = offset given -/
def planLoop (c : Cfg) (files : List FileSt) (chain : List Blk) (maxB : Nat) (mark stateless : Bool) :
    Nat → PlanSt → PlanSt
  | 0, s => s
  | fuel + 1, s =>
    match chain[s.curIdx]? with
    | none => s
    | some blk =>
      if s.planned < maxB ∨ s.plan.isEmpty then
        if s.curOff ≥ blk.used then
          let trk := if mark then s.trk.setCheckpointed blk.id else s.trk
          planLoop c files chain maxB mark stateless fuel
            { s with curIdx := s.curIdx + 1, curOff := 0, hint := 0, trk := trk }
        else
          let stop := planStop c files blk s maxB stateless
          let s1 := planAdd blk s stop
          if stop < blk.used then s1
          else planLoop c files chain maxB mark stateless fuel { s1 with curIdx := s.curIdx + 1, curOff := 0 }
      else s

structure PState where
  entries : List (Pay × Nat) := []   -- reversed
  total : Nat := 0
  parsed : Nat := 0
  sawTail : Bool := false
  finalIdx : Nat := 0
  finalOff : Nat := 0
  finalTailId : Nat := 0
  finalTailOff : Nat := 0
  trim : Nat := 0
  stop : Bool := false

/-- parse one planned range; `fuel` bounds the number of entries (each takes ≥ `metaSz` bytes) -/
def parseRange (c : Cfg) (files : List FileSt) (maxB : Nat) (r : RPlan) : Nat → Nat → PState → PState
  | 0, _, s => s
  | fuel + 1, bo, s =>
    let len := r.stop - r.start
    if bo < len then
      if s.entries.length ≥ c.cap then s
      else if bo + c.metaSz > len then { s with stop := true }
      else
        match cellAt (fileCells files r.blk.file) (r.blk.off + r.start + bo) with
        | none => s
        | some x =>
          let consumed := c.metaSz + x.pay.len
          if bo + consumed > len then { s with stop := true }
          else
            let nextTotal := s.total + x.pay.len
            if nextTotal > maxB ∧ !s.entries.isEmpty then { s with stop := true }
            else
              let keep := s.trim = 0 ∨ s.trim < x.pay.len
              let entries := if keep then (x.pay, s.trim) :: s.entries else s.entries
              let inBlock := r.start + bo + consumed
              let s := { s with entries := entries, total := nextTotal, parsed := s.parsed + 1, trim := 0 }
              let s :=
                if r.isTail then { s with sawTail := true, finalTailId := r.blk.id, finalTailOff := inBlock }
                else { s with finalIdx := r.chainIdx, finalOff := inBlock }
              parseRange c files maxB r fuel (bo + consumed) s
    else s

def parsePlan (c : Cfg) (files : List FileSt) (maxB : Nat) : List RPlan → PState → PState
  | [], s => s
  | r :: rest, s =>
    if s.stop ∨ s.entries.length ≥ c.cap then s
    else parsePlan c files maxB rest (parseRange c files maxB r ((r.stop - r.start) / c.metaSz + 1) 0 s)

/-- Hydration, `batch_read` flavour (also seeds the in-memory tail from a persisted tail). -/
def hydrateBatch (i : Inst) (t : Topic) (info : ColInfo) : ColInfo :=
  if info.hydrated then info
  else
    match i.index.get? t with
    | none => { info with hydrated := true }
    | some pos =>
      if pos.tail then
        let info := { info with tailId := pos.idx, tailOff := pos.off, curIdx := info.chain.length, curOff := 0,
                                hydrated := true }
        match findBlockIdx info.chain pos.idx with
        | some k =>
          let used := match info.chain[k]? with
            | some b => b.used
            | none => 0
          { info with curIdx := k, curOff := min pos.off used }
        | none => info
      else
        let ib := min pos.idx info.chain.length
        let off := match info.chain[ib]? with
          | some b => min pos.off b.used
          | none => 0
        { info with curIdx := ib, curOff := off, hydrated := true }

/-- commit of a batch read (`update_state` + index write) -/
def commitBatch (m : Mode) (info : ColInfo) (ps : PState) (chainLen : Nat) : ColInfo × Option Pos :=
  let (info, persistDisk) :=
    match m with
    | .strict => (info, true)
    | .alo n =>
      let every := max n 1
      let total := info.readsSince + ps.parsed
      if total ≥ every then ({ info with readsSince := 0 }, false)
      else ({ info with readsSince := total }, false)
  if ps.sawTail then
    ({ info with curIdx := chainLen, curOff := 0, tailId := ps.finalTailId, tailOff := ps.finalTailOff },
     if persistDisk then some { tail := true, idx := ps.finalTailId, off := ps.finalTailOff } else none)
  else
    ({ info with curIdx := ps.finalIdx, curOff := ps.finalOff },
     if persistDisk then some { tail := false, idx := ps.finalIdx, off := ps.finalOff } else none)

/-- stateless scan of one block for the entry containing byte `rem`:
returns `(scanPos at exit, found?)` where found = `(entry start, entry end, trim)` -/
def scanFor (c : Cfg) (files : List FileSt) (b : Blk) (limit rem : Nat) :
    Nat → Nat → Nat × Option (Nat × Nat × Nat) × Bool
  | 0, sp => (sp, none, false)
  | fuel + 1, sp =>
    if sp < limit then
      if sp + c.metaSz > limit then (sp, none, true)
      else
        match headerSize files b sp with
        | none => (sp, none, true)
        | some dataSize =>
          let entryEnd := sp + c.metaSz + dataSize
          if rem = 0 ∧ dataSize < c.skipSmall then scanFor c files b limit rem fuel entryEnd
          else if entryEnd > rem then
            let payloadStart := sp + c.metaSz
            (sp, some (sp, entryEnd, if rem > payloadStart then rem - payloadStart else 0), true)
          else scanFor c files b limit rem fuel entryEnd
    else (sp, none, false)

/-- locate the sealed block containing logical offset `req` -/
def locate : List Blk → Nat → Nat → Option Nat × Nat
  | [], _, rem => (none, rem)
  | b :: rest, k, rem => if rem < b.used then (some k, rem) else locate rest (k + 1) (rem - b.used)

/-- outcome of the planning phase of a cursor-based batch read -/
structure SPlan where
  p : Proc
  i : Inst
  info : ColInfo
  plan : List RPlan

/-- hydration + sealed-chain planning + tail planning of a cursor-based batch read -/
def statefulPlan (c : Cfg) (p : Proc) (i : Inst) (t : Topic) (maxB : Nat) (cp : Bool) : SPlan :=
  let wsnap := (i.writers.get? t).map fun w => (w.blk, w.off)
  let info := hydrateBatch i t (i.reader t)
  let i := putReader i t info
  let chain := info.chain
  let s0 : PlanSt := { curIdx := info.curIdx, curOff := info.curOff, planned := 0, hint := 0, plan := [], trk := p.trk }
  let s := planLoop c p.files chain maxB cp false (chain.length + 1) s0
  let p := { p with trk := s.trk }
  let plan :=
    if s.curIdx ≥ chain.length then
      match wsnap with
      | some (active, written) =>
        let tailStart := if info.tailId = active.id then info.tailOff else 0
        if tailStart < written then
          s.plan ++ [{ blk := active, start := tailStart, stop := written, isTail := true, chainIdx := 0 }]
        else s.plan
      | none => s.plan
    else s.plan
  { p := p, i := i, info := info, plan := plan }

/-- commit phase of a cursor-based batch read -/
def statefulCommit (i : Inst) (t : Topic) (info : ColInfo) (ps : PState) (cp : Bool) : Inst :=
  let i :=
    if ps.parsed > 0 ∧ cp then
      let (info, pos) := commitBatch i.mode info ps info.chain.length
      let i := putReader i t info
      match pos with
      | some pos => setIndex i t pos
      | none => i
    else i
  if cp then decCount i t ps.parsed else i

/-- planning of an offset-addressed batch read: the plan and the trim of its first entry -/
def statelessPlan (c : Cfg) (p : Proc) (i : Inst) (t : Topic) (maxB req : Nat) : List RPlan × Nat :=
  let wsnap := (i.writers.get? t).map fun w => (w.blk, w.off)
  let chain := match i.readers.get? t with
    | some info => info.chain
    | none => []
  let (found, rem) := locate chain 0 req
  let (cIdx, cOff, trim, hint) :=
    match found with
    | some k =>
      match chain[k]? with
      | some b =>
        let (sp, hit, _) := scanFor c p.files b b.used rem (b.used / c.metaSz + 1) 0
        match hit with
        | some (st, en, tr) => (k, st, tr, en)
        | none => (k, if sp ≥ b.used then b.used else 0, 0, 0)
      | none => (k, 0, 0, 0)
    | none => (chain.length, 0, 0, 0)
  let s0 : PlanSt := { curIdx := cIdx, curOff := cOff, planned := 0, hint := hint, plan := [], trk := p.trk }
  let s := planLoop c p.files chain maxB false true (chain.length + 1) s0
  if s.curIdx ≥ chain.length then
    match wsnap with
    | some (active, written) =>
      let (_, hit, _) := scanFor c p.files active written rem (written / c.metaSz + 1) 0
      let (tailStart, trim) :=
        match hit with
        | some (st, _, tr) => (st, if tr > 0 then tr else trim)
        | none => (0, trim)
      if tailStart < written then
        (s.plan ++ [{ blk := active, start := tailStart, stop := written, isTail := true, chainIdx := 0 }], trim)
      else (s.plan, trim)
    | none => (s.plan, trim)
  else (s.plan, trim)

/-- `Walrus::batch_read_for_topic` -/
def batchRead (c : Cfg) (p : Proc) (i : Inst) (t : Topic) (maxB : Nat) (cp : Bool) (start : Option Nat) :
    Proc × Inst × Out :=
  match start with
  | none =>
    let sp := statefulPlan c p i t maxB cp
    if sp.plan.isEmpty then (sp.p, sp.i, .entries [])
    else
      let ps := parsePlan c sp.p.files maxB sp.plan {}
      (sp.p, statefulCommit sp.i t sp.info ps cp, .entries ps.entries.reverse)
  | some req =>
    -- offset-addressed ("stateless"): never touches the shared cursor, the index or the counts
    let pl := statelessPlan c p i t maxB req
    if pl.1.isEmpty then (p, i, .entries [])
    else (p, i, .entries (parsePlan c p.files maxB pl.1 { trim := pl.2 }).entries.reverse)

end WalrusVerif.Eng
