/-! Association maps without duplicate keys (`insert` replaces).  Shared by all models. -/
namespace WalrusVerif

abbrev AMap (κ ν : Type) := List (κ × ν)

instance {κ ν : Type} [Repr κ] [Repr ν] : Repr (AMap κ ν) := inferInstanceAs (Repr (List (κ × ν)))

namespace AMap
variable {κ ν : Type} [DecidableEq κ]
def empty : AMap κ ν := []
def get? (m : AMap κ ν) (k : κ) : Option ν :=
  match m with
  | [] => none
  | (k', v) :: r => if k' = k then some v else get? r k
def erase (m : AMap κ ν) (k : κ) : AMap κ ν :=
  match m with
  | [] => []
  | (k', v) :: r => if k' = k then erase r k else (k', v) :: erase r k
def insert (m : AMap κ ν) (k : κ) (v : ν) : AMap κ ν := (k, v) :: erase m k
def contains (m : AMap κ ν) (k : κ) : Bool := (get? m k).isSome
/-- `entry(k).or_insert(v)` -/
def insertIfAbsent (m : AMap κ ν) (k : κ) (v : ν) : AMap κ ν :=
  if m.contains k then m else (k, v) :: m
def keys (m : AMap κ ν) : List κ := m.map (·.1)
end AMap

end WalrusVerif
