import WalrusVerif.Model.AMap
/-!
Model of octopii's Raft log store on top of its write-ahead log (C21).

* `Mem`, `memAppend/memTruncate/memPurge…` — `MemLogStoreInner` (octopii/src/openraft/storage.rs:33-148): the
  in-memory log (`BTreeMap<u64, Entry>`), vote, committed id and purge point.
* `Rec`, `replayStep`, `replay` — `WalLogRecord` and `WalLogStore::recover_from_wal` (storage.rs:420-478).
* `Wal`, `Wal.readAll` — `WriteAheadLog::append/read_all` (octopii/src/wal/mod.rs:104-175): `read_all` drains the
  topic with *consuming* batch reads; the engine persists the read cursor (StrictlyAtOnce), so what one `read_all`
  returned is never returned again, by this process or a later one.
* peer-address records — `load_peer_addr_records/append_peer_addr_record` (octopii/src/openraft/node.rs:66-95) and
  the "append only when the address differs" rule of the node constructor (node.rs:150-157).

A process restart (clean or killed) drops the in-memory part and keeps both logs: every append reaches the file
mapping before it is acknowledged, which survives the process.  Machine crashes are outside this model.
-/
namespace WalrusVerif.LogStore
open WalrusVerif

structure LogId where
  index : Nat
  term : Nat
  deriving DecidableEq, Repr, Inhabited

/-- openraft's derived order on `LogId` (leader id first, then index); the harness fixes the node id -/
def LogId.le (a b : LogId) : Bool := a.term < b.term || (a.term == b.term && a.index ≤ b.index)

/-- `ld.as_ref() <= Some(&log_id)` on `Option<LogId>`: `None` is below everything -/
def optLe : Option LogId → LogId → Bool
  | none, _ => true
  | some a, b => a.le b

structure Ent where
  id : LogId
  len : Nat
  deriving DecidableEq, Repr, Inhabited

structure Vote where
  term : Nat
  node : Nat
  committed : Bool
  deriving DecidableEq, Repr, Inhabited

/-- `WalLogRecord` -/
inductive Rec where
  | entry (e : Ent)
  | vote (v : Vote)
  | committed (c : Option LogId)
  | purged (l : LogId)
  | truncated (l : LogId)
  deriving DecidableEq, Repr, Inhabited

instance {κ ν : Type} [DecidableEq κ] [DecidableEq ν] : DecidableEq (AMap κ ν) :=
  inferInstanceAs (DecidableEq (List (κ × ν)))

/-- `MemLogStoreInner` -/
structure Mem where
  purged : Option LogId := none
  log : AMap Nat Ent := AMap.empty
  committed : Option LogId := none
  vote : Option Vote := none
  deriving DecidableEq, Repr, Inhabited

/-- remove `range(i..)` -/
def removeFrom (log : AMap Nat Ent) (i : Nat) : AMap Nat Ent := List.filter (fun p => p.1 < i) log
/-- remove `range(..=i)` -/
def removeUpTo (log : AMap Nat Ent) (i : Nat) : AMap Nat Ent := List.filter (fun p => i < p.1) log

/-! ### the in-memory operations (`MemLogStoreInner`) -/

def memInsert (m : Mem) (e : Ent) : Mem := { m with log := m.log.insert e.id.index e }
def memAppend (m : Mem) (es : List Ent) : Mem := es.foldl memInsert m
def memTruncate (m : Mem) (l : LogId) : Mem := { m with log := removeFrom m.log l.index }
/-- `purge` asserts that the purge point does not move backwards (`none` = the assertion panics) -/
def memPurge (m : Mem) (l : LogId) : Option Mem :=
  if optLe m.purged l then some { m with purged := some l, log := removeUpTo m.log l.index } else none
def memVote (m : Mem) (v : Vote) : Mem := { m with vote := some v }
def memCommitted (m : Mem) (c : Option LogId) : Mem := { m with committed := c }

/-! ### recovery (`recover_from_wal`) -/

def replayStep (m : Mem) : Rec → Mem
  | .entry e => { m with log := m.log.insert e.id.index e }
  | .vote v => { m with vote := some v }
  | .committed c => { m with committed := c }
  | .purged l => { m with log := removeUpTo m.log l.index, purged := some l }
  | .truncated l => { m with log := removeFrom m.log l.index }

def replay (m : Mem) (rs : List Rec) : Mem := rs.foldl replayStep m

/-! ### the write-ahead log wrapper -/

structure Wal (α : Type) where
  recs : List α := []
  /-- how many records consuming reads have handed out so far (the engine's persisted read cursor) -/
  consumed : Nat := 0
  deriving Repr

def Wal.append {α : Type} (w : Wal α) (r : α) : Wal α := { w with recs := w.recs ++ [r] }
/-- `WriteAheadLog::read_all`: everything after the cursor, and the cursor moves to the end -/
def Wal.readAll {α : Type} (w : Wal α) : List α × Wal α :=
  (w.recs.drop w.consumed, { w with consumed := w.recs.length })

/-- `load_peer_addr_records` -/
def peersOf (m : AMap Nat Nat) (rs : List (Nat × Nat)) : AMap Nat Nat := rs.foldl (fun m r => m.insert r.1 r.2) m

/-! ### a node: the in-memory part (present while a process has the store open) and the two logs -/

structure Live where
  mem : Mem := {}
  peers : AMap Nat Nat := AMap.empty
  deriving DecidableEq, Repr

structure Node where
  live : Option Live := none
  wal : Wal Rec := {}
  pwal : Wal (Nat × Nat) := {}
  deriving Repr

inductive Op where
  | open_
  | append (es : List Ent)
  | truncate (l : LogId)
  | purge (l : LogId)
  | vote (v : Vote)
  | committed (c : Option LogId)
  | peer (id port : Nat)
  | state
  | restart
  | kill
  deriving Repr

inductive Out where
  | ok
  | okFlushed
  | errClosed
  | panic
  | state (m : Mem) (peers : AMap Nat Nat)
  deriving Repr

/-- acknowledged: the operation returned success -/
def Out.acked : Out → Bool
  | .ok => true
  | .okFlushed => true
  | _ => false

def appendRecs (w : Wal Rec) (rs : List Rec) : Wal Rec := rs.foldl Wal.append w

/-- `WalLogStore::new` + the peer map load of the node constructor, given how each log is read back -/
def openWith (readLog : Wal Rec → List Rec × Wal Rec) (readPeers : Wal (Nat × Nat) → List (Nat × Nat) × Wal (Nat × Nat))
    (n : Node) : Node :=
  let (rs, w) := readLog n.wal
  let (ps, pw) := readPeers n.pwal
  { live := some { mem := replay {} rs, peers := peersOf AMap.empty ps }, wal := w, pwal := pw }

/-- one operation, given how `open` reads each log back -/
def stepG (rl : Wal Rec → List Rec × Wal Rec) (rp : Wal (Nat × Nat) → List (Nat × Nat) × Wal (Nat × Nat))
    (n : Node) : Op → Node × Out
  | .open_ => (openWith rl rp n, .ok)
  | .restart => ({ n with live := none }, .ok)
  | .kill => ({ n with live := none }, .ok)
  | .append es =>
    match n.live with
    | none => (n, .errClosed)
    | some lv =>
      ({ n with live := some { lv with mem := memAppend lv.mem es }, wal := appendRecs n.wal (es.map Rec.entry) }, .okFlushed)
  | .truncate l =>
    match n.live with
    | none => (n, .errClosed)
    | some lv => ({ n with live := some { lv with mem := memTruncate lv.mem l }, wal := n.wal.append (.truncated l) }, .ok)
  | .purge l =>
    match n.live with
    | none => (n, .errClosed)
    | some lv =>
      match memPurge lv.mem l with
      | some m => ({ n with live := some { lv with mem := m }, wal := n.wal.append (.purged l) }, .ok)
      | none => (n, .panic)
  | .vote v =>
    match n.live with
    | none => (n, .errClosed)
    | some lv => ({ n with live := some { lv with mem := memVote lv.mem v }, wal := n.wal.append (.vote v) }, .ok)
  | .committed c =>
    match n.live with
    | none => (n, .errClosed)
    | some lv =>
      ({ n with live := some { lv with mem := memCommitted lv.mem c }, wal := n.wal.append (.committed c) }, .ok)
  | .peer id port =>
    match n.live with
    | none => (n, .errClosed)
    | some lv =>
      if lv.peers.get? id = some port then (n, .ok)
      else ({ n with live := some { lv with peers := lv.peers.insert id port }, pwal := n.pwal.append (id, port) }, .ok)
  | .state =>
    match n.live with
    | none => (n, .errClosed)
    | some lv => (n, .state lv.mem lv.peers)

/-- the code as it is: `open` reads both logs with the consuming `read_all` -/
def step : Node → Op → Node × Out := stepG Wal.readAll Wal.readAll

/-- a reader that starts from the beginning of the log every time and moves no cursor -/
def Wal.readFromStart {α : Type} (w : Wal α) : List α × Wal α := (w.recs, w)

/-- the same store over a non-consuming reader (what the property needs; not what the code does) -/
def stepNC : Node → Op → Node × Out := stepG Wal.readFromStart Wal.readFromStart

/-! ### the specification: the acknowledged state

What the property promises a reopened store reports: the effect of exactly the operations that returned success,
whatever restarts happened in between. -/

structure Ack where
  mem : Mem := {}
  peers : AMap Nat Nat := AMap.empty
  deriving Repr

def ackStep (a : Ack) (op : Op) (o : Out) : Ack :=
  if o.acked then
    match op with
    | .append es => { a with mem := memAppend a.mem es }
    | .truncate l => { a with mem := memTruncate a.mem l }
    | .purge l => { a with mem := { a.mem with purged := some l, log := removeUpTo a.mem.log l.index } }
    | .vote v => { a with mem := memVote a.mem v }
    | .committed c => { a with mem := memCommitted a.mem c }
    | .peer id port => { a with peers := a.peers.insert id port }
    | _ => a
  else a

/-- run a history: the node and the acknowledged state after it -/
def runG (st : Node → Op → Node × Out) (n : Node) (a : Ack) : List Op → Node × Ack
  | [] => (n, a)
  | op :: r => runG st (st n op).1 (ackStep a op (st n op).2) r

def run : Node → Ack → List Op → Node × Ack := runG step
def runNC : Node → Ack → List Op → Node × Ack := runG stepNC

/-- the outputs of a history -/
def outs (st : Node → Op → Node × Out) (n : Node) : List Op → List Out
  | [] => []
  | op :: r => (st n op).2 :: outs st (st n op).1 r

/-- the trigger region of the open finding `readAllConsumes`: a store is opened although an earlier `read_all`
already consumed part of a log -/
def quirkReadAllConsumes (n : Node) (op : Op) : Bool :=
  match op with
  | .open_ => decide (0 < n.wal.consumed) || decide (0 < n.pwal.consumed)
  | _ => false

/-- no `open` of the history falls in that region -/
def quirkFree (n : Node) : List Op → Bool
  | [] => true
  | op :: r => !quirkReadAllConsumes n op && quirkFree (step n op).1 r

end WalrusVerif.LogStore
