import WalrusVerif.Model.AMap
/-!
Cluster metadata state machine: `distributed-walrus/src/metadata.rs` (`Metadata::apply`,
`snapshot`, `restore`) and the bincode 1.x wire format of `MetadataCmd`.
`u64` arithmetic is modelled exactly where the code adds (`checked_add`, command rejected on
overflow — the behaviour after the `fix:` commit recorded in KNOWN_FINDINGS.txt).
Maps are association lists without duplicate keys (`AMap.insert` replaces).
-/
namespace WalrusVerif.Meta
open WalrusVerif

abbrev Name := List Char

structure TopicState where
  currentSegment : Nat
  leaderNode : Nat
  lastSealedEntryOffset : Nat
  sealedSegments : AMap Nat Nat
  segmentLeaders : AMap Nat Nat

structure ClusterState where
  topics : AMap Name TopicState
  nodes : AMap Nat Name

def ClusterState.init : ClusterState := { topics := AMap.empty, nodes := AMap.empty }

inductive Cmd where
  | createTopic (name : Name) (initialLeader : Nat)
  | rolloverTopic (name : Name) (newLeader : Nat) (sealedCount : Nat)
  | upsertNode (nodeId : Nat) (addr : Name)

inductive Reply where
  | exists_ | created | rolled | node
  | errNotFound | errOverflow | errDecode
  deriving DecidableEq, Repr

def U64 : Nat := 2 ^ 64

/-- `a.checked_add(b)` on `u64`. -/
def checkedAdd (a b : Nat) : Option Nat := if a + b < U64 then some (a + b) else none

def applyCmd (s : ClusterState) : Cmd → ClusterState × Reply
  | .createTopic name leader =>
    if s.topics.contains name then (s, .exists_)
    else
      let t : TopicState :=
        { currentSegment := 1, leaderNode := leader, lastSealedEntryOffset := 0,
          sealedSegments := AMap.empty, segmentLeaders := AMap.insert AMap.empty 1 leader }
      ({ s with topics := s.topics.insert name t }, .created)
  | .rolloverTopic name newLeader cnt =>
    match s.topics.get? name with
    | none => (s, .errNotFound)
    | some t =>
      match checkedAdd t.lastSealedEntryOffset cnt, checkedAdd t.currentSegment 1 with
      | some off, some next =>
        let sealedSeg := t.currentSegment
        let t' : TopicState :=
          { currentSegment := next, leaderNode := newLeader, lastSealedEntryOffset := off,
            sealedSegments := t.sealedSegments.insert sealedSeg cnt,
            segmentLeaders := (t.segmentLeaders.insert sealedSeg t.leaderNode).insert next newLeader }
        ({ s with topics := s.topics.insert name t' }, .rolled)
      | _, _ => (s, .errOverflow)
  | .upsertNode id addr => ({ s with nodes := s.nodes.insert id addr }, .node)

/-! ### bincode 1.x (fixint, little endian) decoding of `MetadataCmd` -/

def leNat : List UInt8 → Nat
  | [] => 0
  | b :: r => b.toNat + 256 * leNat r

def takeN (n : Nat) (bs : List UInt8) : Option (List UInt8 × List UInt8) :=
  if bs.length < n then none else some (bs.take n, bs.drop n)

def getU64 (bs : List UInt8) : Option (Nat × List UInt8) :=
  match takeN 8 bs with
  | some (h, r) => some (leNat h, r)
  | none => none

def getU32 (bs : List UInt8) : Option (Nat × List UInt8) :=
  match takeN 4 bs with
  | some (h, r) => some (leNat h, r)
  | none => none

def getString (bs : List UInt8) : Option (Name × List UInt8) :=
  match getU64 bs with
  | none => none
  | some (len, r) =>
    match takeN len r with
    | none => none
    | some (h, r') =>
      match String.fromUTF8? (ByteArray.mk h.toArray) with
      | some s => some (s.toList, r')
      | none => none

/-- `bincode::deserialize::<MetadataCmd>` (trailing bytes are allowed by bincode 1.x `deserialize`). -/
def decodeCmd (bs : List UInt8) : Option Cmd :=
  match getU32 bs with
  | none => none
  | some (tag, r) =>
    if tag = 0 then
      match getString r with
      | none => none
      | some (name, r1) =>
        match getU64 r1 with
        | none => none
        | some (leader, _) => some (.createTopic name leader)
    else if tag = 1 then
      match getString r with
      | none => none
      | some (name, r1) =>
        match getU64 r1 with
        | none => none
        | some (nl, r2) =>
          match getU64 r2 with
          | none => none
          | some (cnt, _) => some (.rolloverTopic name nl cnt)
    else if tag = 2 then
      match getU64 r with
      | none => none
      | some (id, r1) =>
        match getString r1 with
        | none => none
        | some (addr, _) => some (.upsertNode id addr)
    else none

/-- `Metadata::apply(&[u8])`: undecodable bytes are rejected and leave the state unchanged. -/
def applyBytes (s : ClusterState) (bs : List UInt8) : ClusterState × Reply :=
  match decodeCmd bs with
  | none => (s, .errDecode)
  | some c => applyCmd s c

def run (s : ClusterState) (cs : List Cmd) : ClusterState := cs.foldl (fun st c => (applyCmd st c).1) s

/-- Σ_{k=1}^{n} (sealed count of segment k). -/
def sumSealed (m : AMap Nat Nat) : Nat → Nat
  | 0 => 0
  | n + 1 => sumSealed m n + (m.get? (n + 1)).getD 0

end WalrusVerif.Meta
