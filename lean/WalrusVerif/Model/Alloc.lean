import WalrusVerif.Model.Types
/-!
`allocator.rs`: process-global trackers, `flush_check`, `BlockAllocator`; `paths.rs::create_new_file`
and `config.rs::now_millis_str`.
-/
namespace WalrusVerif.Eng
open WalrusVerif

namespace Trackers

def fileGet (t : Trackers) (f : Nat) : Option FileTrk := t.files.get? f

/-- `flush_check(file)` -/
def flushCheck (t : Trackers) (f : Nat) : Trackers :=
  match t.files.get? f with
  | none => t
  | some st =>
    if st.fully && st.locked == 0 && decide (st.total > 0) && decide (st.ckpt ≥ st.total)
    then { t with pendingDelete := t.pendingDelete ++ [f] }
    else t

/-- `BlockStateTracker::register_block` (`or_insert`: an id already present keeps its old file). -/
def registerBlock (t : Trackers) (id f : Nat) : Trackers :=
  { t with blocks := t.blocks.insertIfAbsent id (f, false) }

def registerFileIfAbsent (t : Trackers) (f : Nat) : Trackers :=
  { t with files := t.files.insertIfAbsent f {} }

def updFile (t : Trackers) (f : Nat) (g : FileTrk → FileTrk) : Trackers :=
  match t.files.get? f with
  | none => t
  | some st => { t with files := t.files.insert f (g st) }

def addBlockToFileState (t : Trackers) (f : Nat) : Trackers :=
  (t.registerFileIfAbsent f).updFile f fun st => { st with total := wrap16 (st.total + 1) }

def setFullyAllocated (t : Trackers) (f : Nat) : Trackers :=
  ((t.registerFileIfAbsent f).updFile f fun st => { st with fully := true }).flushCheck f

def setBlockLocked (t : Trackers) (id : Nat) : Trackers :=
  match t.blocks.get? id with
  | none => t
  | some (f, _) => t.updFile f fun st => { st with locked := wrap16 (st.locked + 1) }

def setBlockUnlocked (t : Trackers) (id : Nat) : Trackers :=
  match t.blocks.get? id with
  | none => t
  | some (f, _) => (t.updFile f fun st => { st with locked := dec16 st.locked }).flushCheck f

/-- `BlockStateTracker::set_checkpointed_true` (a block counts once). -/
def setCheckpointed (t : Trackers) (id : Nat) : Trackers :=
  match t.blocks.get? id with
  | none => t
  | some (f, ck) =>
    if ck then t
    else
      let t1 := { t with blocks := t.blocks.insert id (f, true) }
      (t1.updFile f fun st => { st with ckpt := wrap16 (st.ckpt + 1) }).flushCheck f

end Trackers

/-- `now_millis_str` -/
def Proc.nextName (p : Proc) : Nat :=
  if p.sysClock ≤ p.lastMillis then p.lastMillis + 1 else p.sysClock

def Proc.nameTaken (p : Proc) (dir n : Nat) : Bool :=
  p.files.any fun fs => fs.present && fs.dir == dir && fs.name == n

/-- successive `now_millis_str()` candidates `n, n+1, …` until `create_new` succeeds -/
def Proc.freeName (p : Proc) (dir : Nat) : Nat → Nat → Nat
  | 0, n => n
  | fuel + 1, n => if p.nameTaken dir n then Proc.freeName p dir fuel (n + 1) else n

/-- `WalPathManager::create_new_file`: returns the new file's index. An existing file is never
truncated: the name is bumped until it is free. -/
def Proc.createFile (p : Proc) (dir : Nat) : Proc × Nat :=
  let n := p.freeName dir (p.files.length + 1) p.nextName
  ({ p with files := p.files ++ [{ dir := dir, name := n, cells := [], present := true }],
            lastMillis := n }, p.files.length)

/-- `BlockAllocator::get_next_available_block` -/
def getNextAvailableBlock (c : Cfg) (p : Proc) (i : Inst) : Proc × Inst × Blk :=
  let (p, i) :=
    if i.allocOff ≥ c.fileSize then
      let p := { p with trk := p.trk.setFullyAllocated i.allocFile }
      let (p, f) := p.createFile i.dir
      (p, { i with allocFile := f, allocOff := 0 })
    else (p, i)
  let t := p.trk.registerBlock i.allocId i.allocFile
  let t := t.registerFileIfAbsent i.allocFile
  let t := t.addBlockToFileState i.allocFile
  let t := t.setBlockLocked i.allocId
  let b : Blk := { id := i.allocId, file := i.allocFile, off := i.allocOff, limit := c.blockSize, used := 0 }
  ({ p with trk := t }, { i with allocOff := i.allocOff + c.blockSize, allocId := i.allocId + 1 }, b)

/-- `BlockAllocator::alloc_block(want_bytes)`; `none` = `InvalidInput`. -/
def allocBlock (c : Cfg) (p : Proc) (i : Inst) (want : Nat) : Option (Proc × Inst × Blk) :=
  if want = 0 ∨ want > c.maxAlloc then none
  else
    let units := (want + c.blockSize - 1) / c.blockSize
    let size := units * c.blockSize
    let (p, i) :=
      if i.allocOff + size > c.fileSize then
        let prev := i.allocFile
        let (p, f) := p.createFile i.dir
        let p := { p with trk := p.trk.setFullyAllocated prev }
        (p, { i with allocFile := f, allocOff := 0 })
      else (p, i)
    let b : Blk := { id := i.allocId, file := i.allocFile, off := i.allocOff, limit := size, used := 0 }
    let t := p.trk.registerBlock b.id b.file
    let t := t.registerFileIfAbsent b.file
    let t := t.addBlockToFileState b.file
    let t := t.setBlockLocked b.id
    some ({ p with trk := t }, { i with allocOff := i.allocOff + size, allocId := i.allocId + 1 }, b)

/-! ### disk content -/

def Cell.stop (c : Cfg) (x : Cell) : Nat := x.off + c.metaSz + x.pay.len

/-- cells overlapping the byte range `[lo, hi)` are destroyed by a write to that range -/
def clobber (c : Cfg) (cells : List Cell) (lo hi : Nat) : List Cell :=
  cells.filter fun x => !(decide (x.off < hi) && decide (lo < x.stop c))

def cellAt (cells : List Cell) (off : Nat) : Option Cell := cells.find? (·.off == off)

def updFileCells (files : List FileSt) (f : Nat) (g : List Cell → List Cell) : List FileSt :=
  files.mapIdx fun k fs => if k = f then { fs with cells := g fs.cells } else fs

/-- `Block::write`: header + payload at `blk.off + inOff`. -/
def writeCell (c : Cfg) (files : List FileSt) (b : Blk) (inOff : Nat) (t : Topic) (pay : Pay) : List FileSt :=
  let o := b.off + inOff
  updFileCells files b.file fun cs => clobber c cs o (o + c.metaSz + pay.len) ++ [{ off := o, topic := t, pay := pay }]

/-- `Block::zero_range(inOff, metaSz)` -/
def zeroHeader (c : Cfg) (files : List FileSt) (b : Blk) (inOff : Nat) : List FileSt :=
  let o := b.off + inOff
  updFileCells files b.file fun cs => clobber c cs o (o + c.metaSz)

def fileCells (files : List FileSt) (f : Nat) : List Cell :=
  match files[f]? with
  | some fs => fs.cells
  | none => []

/-- `Block::read(inOff)`: the entry whose header starts exactly there, and bytes consumed. -/
def readEntry (c : Cfg) (files : List FileSt) (b : Blk) (inOff : Nat) : Option (Pay × Nat) :=
  match cellAt (fileCells files b.file) (b.off + inOff) with
  | some x => some (x.pay, c.metaSz + x.pay.len)
  | none => none

end WalrusVerif.Eng
