import WalrusVerif.Model.Types
/-!
`AEng`: the engine within one process lifetime, at the level of *entries in blocks*.

It is the same reader/writer logic as `Model/Writer.lean` + `Model/Reader.lean` (`write`,
`batch_write`, `append_block_to_chain`, `read_next`, `batch_read_for_topic` with its planner —
single/double peek, hint, budget in raw bytes — and parser — cap, payload budget, incomplete
entries, stop-at-first-unfinished-range — and commit), with the storage layer abstracted: a block
is the list of entries written into it, an entry is addressed by its byte offset (prefix sum of
`metaSz + len`).  Files, the allocator's placement, trackers, the persisted index and recovery are
*not* in this model (they are in `Eng`); block ids come from a counter.

`AEng` is tied to the implementation by the same correspondence run as `Eng` (the driver executes
both on every program segment without restart and reports any difference), and it is the model the
in-process property theorems (C01, C02, C03-progress, C15) are proved about.
-/
namespace WalrusVerif.AEng
open WalrusVerif WalrusVerif.Eng

def raw (c : Cfg) (e : Pay) : Nat := c.metaSz + e.len

def bytes (c : Cfg) (es : List Pay) : Nat := (es.map (raw c)).sum

structure ABlk where
  id : Nat
  limit : Nat
  es : List Pay
  deriving Repr

def ABlk.used (c : Cfg) (b : ABlk) : Nat := bytes c b.es

/-- the entry whose header starts at byte offset `off` of the laid-out list -/
def entryAt (c : Cfg) : List Pay → Nat → Option Pay
  | [], _ => none
  | e :: r, off => if off = 0 then some e else if off < raw c e then none else entryAt c r (off - raw c e)

structure ATopic where
  chain : List ABlk := []
  writer : Option ABlk := none
  curIdx : Nat := 0
  curOff : Nat := 0
  tailId : Nat := 0
  tailOff : Nat := 0
  count : Nat := 0
  deriving Repr

structure AState where
  nextId : Nat := 1
  topics : AMap Topic ATopic := AMap.empty
  deriving Repr

def AState.topic (s : AState) (t : Topic) : ATopic := (s.topics.get? t).getD {}

def AState.put (s : AState) (t : Topic) (a : ATopic) : AState := { s with topics := s.topics.insert t a }

/-- `append_block_to_chain` -/
def sealInto (c : Cfg) (a : ATopic) (b : ABlk) : ATopic :=
  let chain := a.chain ++ [b]
  if a.tailId = b.id then
    { a with chain := chain, curIdx := chain.length - 1, curOff := min a.tailOff (b.used c) }
  else { a with chain := chain }

def unitsFor (c : Cfg) (want : Nat) : Nat := ((want + c.blockSize - 1) / c.blockSize) * c.blockSize

/-- `get_or_create_writer`: returns the next id and the topic with a writer -/
def ensureWriter (c : Cfg) (nextId : Nat) (a : ATopic) : Nat × ATopic × ABlk :=
  match a.writer with
  | some w => (nextId, a, w)
  | none =>
    let w : ABlk := { id := nextId, limit := c.blockSize, es := [] }
    (nextId + 1, { a with writer := some w }, w)

/-- `Writer::write` below the size check -/
def writeCore (c : Cfg) (nextId : Nat) (a : ATopic) (w : ABlk) (long : Bool) (pay : Pay) :
    Nat × ATopic × Option ErrKind :=
  let need := raw c pay
  if w.used c + need > w.limit then
    -- rotation: seal, then `alloc_block(need)?`
    let a := sealInto c a w
    if need = 0 ∨ need > c.maxAlloc then (nextId, a, some .invalidInput)
    else
      let nb : ABlk := { id := nextId, limit := unitsFor c need, es := [] }
      if long then (nextId + 1, { a with writer := some nb }, some .invalidData)
      else (nextId + 1, { a with writer := some { nb with es := [pay] } }, none)
  else if long then (nextId, a, some .invalidData)
  else (nextId, { a with writer := some { w with es := w.es ++ [pay] } }, none)

/-- `Writer::write`: an entry that no block can hold is rejected before any state changes -/
def write (c : Cfg) (nextId : Nat) (a : ATopic) (w : ABlk) (long : Bool) (pay : Pay) :
    Nat × ATopic × Option ErrKind :=
  if raw c pay > c.maxAlloc then (nextId, a, some .invalidInput) else writeCore c nextId a w long pay

/-- planning + writing of `batch_write` (no faults): the chain gains the sealed blocks, the
writer block gains the planned entries; `none` = an `alloc_block` failed -/
def batchPlan (c : Cfg) : List Pay → Nat → ATopic → ABlk → Nat × ATopic × ABlk × Bool
  | [], nextId, a, w => (nextId, a, w, true)
  | pay :: rest, nextId, a, w =>
    let need := raw c pay
    if w.limit - w.used c ≥ need then batchPlan c rest nextId a { w with es := w.es ++ [pay] }
    else
      let a := sealInto c a w
      let want := max need c.blockSize
      if want = 0 ∨ want > c.maxAlloc then (nextId, a, w, false)
      else batchPlan c rest (nextId + 1) a { id := nextId, limit := unitsFor c want, es := [pay] }

def batchWriteCore (c : Cfg) (nextId : Nat) (a : ATopic) (w : ABlk) (long : Bool) (batch : List Pay) :
    Nat × ATopic × Option ErrKind :=
  if batch.length > c.cap then (nextId, a, some .invalidInput)
  else if (batch.map (raw c)).sum > c.maxBatchBytes then (nextId, a, some .invalidInput)
  else if batch.isEmpty then (nextId, a, none)
  else if long then (nextId, a, some .invalidData)
  else
    match batchPlan c batch nextId a w with
    | (nextId, a, w', true) => (nextId, { a with writer := some w' }, none)
    | (nextId, a, w', false) =>
      -- the seals stay; the writer keeps the block it switched to, *without* the planned entries
      -- of this batch (they were never written); see Eng.writerBatchWrite
      (nextId, { a with writer := some { w' with es := if w'.id = w.id then w.es else [] } }, some .invalidInput)

/-- `Writer::batch_write`: a batch with an entry that no block can hold is rejected before any state changes -/
def batchWrite (c : Cfg) (nextId : Nat) (a : ATopic) (w : ABlk) (long : Bool) (batch : List Pay) :
    Nat × ATopic × Option ErrKind :=
  if decide (batch.length ≤ c.cap) && decide ((batch.map (raw c)).sum ≤ c.maxBatchBytes) &&
      batch.any (fun x => decide (raw c x > c.maxAlloc)) then (nextId, a, some .invalidInput)
  else batchWriteCore c nextId a w long batch

/-! ### reads -/

/-- `read_next` loop -/
def readNextLoop (c : Cfg) (cp : Bool) : Nat → ATopic → ATopic × Option Pay
  | 0, a => (a, none)
  | fuel + 1, a =>
    match a.chain[a.curIdx]? with
    | some b =>
      if a.curOff ≥ b.used c then readNextLoop c cp fuel { a with curIdx := a.curIdx + 1, curOff := 0 }
      else
        match entryAt c b.es a.curOff with
        | some e =>
          if cp then ({ a with curOff := a.curOff + raw c e, count := a.count - 1 }, some e)
          else (a, some e)
        | none => (a, none)
    | none =>
      match a.writer with
      | none => (a, none)
      | some w =>
        let off := if a.tailId = w.id then a.tailOff else 0
        if off < w.used c then
          match entryAt c w.es off with
          | some e =>
            if cp then ({ a with tailId := w.id, tailOff := off + raw c e, count := a.count - 1 }, some e)
            else (a, some e)
          | none => (a, none)
        else (a, none)

def readNext (c : Cfg) (a : ATopic) (cp : Bool) : ATopic × Option Pay :=
  readNextLoop c cp (a.chain.length + 2) a

structure ARange where
  es : List Pay        -- the block's entries
  start : Nat
  stop : Nat
  isTail : Bool
  chainIdx : Nat
  blkId : Nat
  deriving Repr

def peekWant (c : Cfg) (b : ABlk) (curOff want : Nat) : Nat :=
  if curOff + c.metaSz ≤ b.used c then
    match entryAt c b.es curOff with
    | none => want
    | some e1 =>
      let req1 := raw c e1
      let final :=
        if e1.len < c.peekSmall then
          let off2 := curOff + req1
          if off2 + c.metaSz ≤ b.used c then
            match entryAt c b.es off2 with
            | some e2 => req1 + raw c e2
            | none => req1
          else req1
        else req1
      if final > want then final else want
  else want

structure APlanSt where
  curIdx : Nat
  curOff : Nat
  planned : Nat
  hint : Nat
  plan : List ARange

/-- raw bytes the planner wants from block `b` at its current position -/
def planWant (c : Cfg) (b : ABlk) (s : APlanSt) (maxB : Nat) (stateless : Bool) : Nat :=
  let want0 := maxB - s.planned
  if s.planned = 0 then
    if stateless ∧ s.hint > s.curOff then max want0 (s.hint - s.curOff)
    else peekWant c b s.curOff want0
  else want0

def planStop (c : Cfg) (b : ABlk) (s : APlanSt) (maxB : Nat) (stateless : Bool) : Nat :=
  min (b.used c) (s.curOff + planWant c b s maxB stateless)

def planRange (b : ABlk) (s : APlanSt) (stop : Nat) : ARange :=
  { es := b.es, start := s.curOff, stop := stop, isTail := false, chainIdx := s.curIdx, blkId := b.id }

def planAdd (b : ABlk) (s : APlanSt) (stop : Nat) : APlanSt :=
  if stop > s.curOff then
    { s with plan := s.plan ++ [planRange b s stop], planned := s.planned + (stop - s.curOff) }
  else s

def planLoop (c : Cfg) (chain : List ABlk) (maxB : Nat) (stateless : Bool) : Nat → APlanSt → APlanSt
  | 0, s => s
  | fuel + 1, s =>
    match chain[s.curIdx]? with
    | none => s
    | some b =>
      if s.planned < maxB ∨ s.plan.isEmpty then
        if s.curOff ≥ b.used c then
          planLoop c chain maxB stateless fuel { s with curIdx := s.curIdx + 1, curOff := 0, hint := 0 }
        else
          let stop := planStop c b s maxB stateless
          let s1 := planAdd b s stop
          if stop < b.used c then s1
          else planLoop c chain maxB stateless fuel { s1 with curIdx := s.curIdx + 1, curOff := 0 }
      else s

structure APState where
  entries : List (Pay × Nat) := []   -- reversed
  total : Nat := 0
  parsed : Nat := 0
  sawTail : Bool := false
  finalIdx : Nat := 0
  finalOff : Nat := 0
  finalTailId : Nat := 0
  finalTailOff : Nat := 0
  trim : Nat := 0
  stop : Bool := false

def parseRange (c : Cfg) (maxB : Nat) (r : ARange) : Nat → Nat → APState → APState
  | 0, _, s => s
  | fuel + 1, bo, s =>
    let len := r.stop - r.start
    if bo < len then
      if s.entries.length ≥ c.cap then s
      else if bo + c.metaSz > len then { s with stop := true }
      else
        match entryAt c r.es (r.start + bo) with
        | none => s
        | some x =>
          let consumed := raw c x
          if bo + consumed > len then { s with stop := true }
          else
            let nextTotal := s.total + x.len
            if nextTotal > maxB ∧ !s.entries.isEmpty then { s with stop := true }
            else
              let keep := s.trim = 0 ∨ s.trim < x.len
              let entries := if keep then (x, s.trim) :: s.entries else s.entries
              let inBlock := r.start + bo + consumed
              let s := { s with entries := entries, total := nextTotal, parsed := s.parsed + 1, trim := 0 }
              let s :=
                if r.isTail then { s with sawTail := true, finalTailId := r.blkId, finalTailOff := inBlock }
                else { s with finalIdx := r.chainIdx, finalOff := inBlock }
              parseRange c maxB r fuel (bo + consumed) s
    else s

def parsePlan (c : Cfg) (maxB : Nat) : List ARange → APState → APState
  | [], s => s
  | r :: rest, s =>
    if s.stop ∨ s.entries.length ≥ c.cap then s
    else parsePlan c maxB rest (parseRange c maxB r (r.stop - r.start + 1) 0 s)

/-- the plan of a cursor-based batch read -/
def statefulPlan (c : Cfg) (a : ATopic) (maxB : Nat) : List ARange :=
  let s := planLoop c a.chain maxB false (a.chain.length + 1)
    { curIdx := a.curIdx, curOff := a.curOff, planned := 0, hint := 0, plan := [] }
  if s.curIdx ≥ a.chain.length then
    match a.writer with
    | some w =>
      let tailStart := if a.tailId = w.id then a.tailOff else 0
      if tailStart < w.used c then
        s.plan ++ [{ es := w.es, start := tailStart, stop := w.used c, isTail := true, chainIdx := 0, blkId := w.id }]
      else s.plan
    | none => s.plan
  else s.plan

def commit (a : ATopic) (ps : APState) : ATopic :=
  if ps.sawTail then
    { a with curIdx := a.chain.length, curOff := 0, tailId := ps.finalTailId, tailOff := ps.finalTailOff }
  else { a with curIdx := ps.finalIdx, curOff := ps.finalOff }

/-- commit + count update of a cursor-based batch read -/
def finishBatch (a : ATopic) (ps : APState) (cp : Bool) : ATopic :=
  if cp then
    let a1 := if ps.parsed > 0 then commit a ps else a
    { a1 with count := a1.count - ps.parsed }
  else a

/-- cursor-based `batch_read_for_topic` -/
def batchRead (c : Cfg) (a : ATopic) (maxB : Nat) (cp : Bool) : ATopic × List (Pay × Nat) :=
  let plan := statefulPlan c a maxB
  if plan.isEmpty then (a, [])
  else
    let ps := parsePlan c maxB plan {}
    (finishBatch a ps cp, ps.entries.reverse)

/-- stateless scan, see `Eng.scanFor` -/
def scanFor (c : Cfg) (es : List Pay) (limit rem : Nat) : Nat → Nat → Nat × Option (Nat × Nat × Nat)
  | 0, sp => (sp, none)
  | fuel + 1, sp =>
    if sp < limit then
      if sp + c.metaSz > limit then (sp, none)
      else
        match entryAt c es sp with
        | none => (sp, none)
        | some e =>
          let entryEnd := sp + raw c e
          if rem = 0 ∧ e.len < c.skipSmall then scanFor c es limit rem fuel entryEnd
          else if entryEnd > rem then
            let payloadStart := sp + c.metaSz
            (sp, some (sp, entryEnd, if rem > payloadStart then rem - payloadStart else 0))
          else scanFor c es limit rem fuel entryEnd
    else (sp, none)

def locate (c : Cfg) : List ABlk → Nat → Nat → Option Nat × Nat
  | [], _, rem => (none, rem)
  | b :: rest, k, rem => if rem < b.used c then (some k, rem) else locate c rest (k + 1) (rem - b.used c)

/-- offset-addressed `batch_read_for_topic`: never changes the state -/
def batchReadAt (c : Cfg) (a : ATopic) (maxB req : Nat) : List (Pay × Nat) :=
  let (found, rem) := locate c a.chain 0 req
  let (cIdx, cOff, trim, hint) :=
    match found with
    | some k =>
      match a.chain[k]? with
      | some b =>
        let (sp, hit) := scanFor c b.es (b.used c) rem (b.used c / c.metaSz + 1) 0
        match hit with
        | some (st, en, tr) => (k, st, tr, en)
        | none => (k, if sp ≥ b.used c then b.used c else 0, 0, 0)
      | none => (k, 0, 0, 0)
    | none => (a.chain.length, 0, 0, 0)
  let s := planLoop c a.chain maxB true (a.chain.length + 1)
    { curIdx := cIdx, curOff := cOff, planned := 0, hint := hint, plan := [] }
  let (plan, trim) :=
    if s.curIdx ≥ a.chain.length then
      match a.writer with
      | some w =>
        let (_, hit) := scanFor c w.es (w.used c) rem (w.used c / c.metaSz + 1) 0
        let (tailStart, trim) :=
          match hit with
          | some (st, _, tr) => (st, if tr > 0 then tr else trim)
          | none => (0, trim)
        if tailStart < w.used c then
          (s.plan ++ [{ es := w.es, start := tailStart, stop := w.used c, isTail := true, chainIdx := 0, blkId := w.id }], trim)
        else (s.plan, trim)
      | none => (s.plan, trim)
    else (s.plan, trim)
  if plan.isEmpty then []
  else (parsePlan c maxB plan { trim := trim }).entries.reverse

/-! ### operations -/

inductive AOp where
  | append (t : Topic) (p : Pay)
  | batch (t : Topic) (ps : List Pay)
  | next (t : Topic) (cp : Bool)
  | bread (t : Topic) (maxB : Nat) (cp : Bool) (start : Option Nat)
  | count (t : Topic)
  deriving Repr

def step (c : Cfg) (s : AState) : AOp → AState × Out
  | .append t pay =>
    let r1 := ensureWriter c s.nextId (s.topic t)
    let r2 := write c r1.1 r1.2.1 r1.2.2 t.long pay
    match r2.2.2 with
    | some e => ({ nextId := r2.1, topics := s.topics.insert t r2.2.1 }, .err e)
    | none => ({ nextId := r2.1, topics := s.topics.insert t { r2.2.1 with count := r2.2.1.count + 1 } }, .ok)
  | .batch t ps =>
    let r1 := ensureWriter c s.nextId (s.topic t)
    let r2 := batchWrite c r1.1 r1.2.1 r1.2.2 t.long ps
    match r2.2.2 with
    | some e => ({ nextId := r2.1, topics := s.topics.insert t r2.2.1 }, .err e)
    | none => ({ nextId := r2.1, topics := s.topics.insert t { r2.2.1 with count := r2.2.1.count + ps.length } }, .ok)
  | .next t cp =>
    let r := readNext c (s.topic t) cp
    (s.put t r.1, .entry r.2)
  | .bread t m cp none =>
    let r := batchRead c (s.topic t) m cp
    (s.put t r.1, .entries r.2)
  | .bread t m _ (some req) => (s, .entries (batchReadAt c (s.topic t) m req))
  | .count t => (s, .num (s.topic t).count)

def runFrom (c : Cfg) : AState → List AOp → List Out
  | _, [] => []
  | s, op :: rest => let (s', o) := step c s op; o :: runFrom c s' rest

def run (c : Cfg) (ops : List AOp) : List Out := runFrom c {} ops

end WalrusVerif.AEng
