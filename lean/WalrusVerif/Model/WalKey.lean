import WalrusVerif.Gen.Consts
/-!
`wal_key` / `parse_wal_key` (distributed-walrus/src/controller/types.rs).
`format!("t_{}_s_{}", topic, segment)`; parsing is `rsplitn(2, "_s_")` (split at the *last*
occurrence), `strip_prefix("t_")`, `parse::<u64>()`.  Format pieces come from the translator.
-/
namespace WalrusVerif.WalKey
open WalrusVerif

def decDigit (n : Nat) : Char := Char.ofNat (48 + n)

/-- Decimal rendering of `u64::to_string`. -/
def render (n : Nat) : List Char :=
  if h : n < 10 then [decDigit n] else render (n / 10) ++ [decDigit (n % 10)]
decreasing_by omega

def walKey (topic : List Char) (seg : Nat) : List Char :=
  Consts.WAL_KEY_FMT_PREFIX ++ topic ++ Consts.WAL_KEY_FMT_SEP ++ render seg

/-- `s.rsplitn(2, sep)`: split at the right-most occurrence of `sep`; `none` when absent. -/
def rsplitOnce (sep : List Char) : List Char → Option (List Char × List Char)
  | [] => none
  | c :: cs =>
    match rsplitOnce sep cs with
    | some (b, a) => some (c :: b, a)
    | none => if sep.isPrefixOf (c :: cs) then some ([], (c :: cs).drop sep.length) else none

def stripPrefix (p s : List Char) : Option (List Char) :=
  if p.isPrefixOf s then some (s.drop p.length) else none

def digitStep (acc : Option Nat) (c : Char) : Option Nat :=
  match acc with
  | none => none
  | some a => if c.isDigit then some (a * 10 + (c.toNat - 48)) else none

/-- `str::parse::<u64>`: optional leading `+`, at least one digit, digits only, value `< 2^64`. -/
def stripPlus : List Char → List Char
  | '+' :: r => r
  | s => s

def parseU64 (s : List Char) : Option Nat :=
  let ds := stripPlus s
  if ds = [] then none
  else match ds.foldl digitStep (some 0) with
    | some n => if n < 2 ^ 64 then some n else none
    | none => none

def parseWalKey (k : List Char) : Option (List Char × Nat) :=
  match rsplitOnce Consts.WAL_KEY_PARSE_SEP k with
  | none => none
  | some (before, after) =>
    match stripPrefix Consts.WAL_KEY_PARSE_PREFIX before with
    | none => none
    | some topic =>
      match parseU64 after with
      | none => none
      | some n => some (topic, n)

end WalrusVerif.WalKey
