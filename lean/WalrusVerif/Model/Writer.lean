import WalrusVerif.Model.Alloc
/-!
`reader.rs::append_block_to_chain`, `writer.rs::{write, batch_write}`,
`walrus_write.rs::{append_for_topic, batch_append_for_topic}`, `walrus.rs::get_or_create_writer`,
entry counts and the dirty mark.  Sequential, fault-free paths (every I/O succeeds).
-/
namespace WalrusVerif.Eng
open WalrusVerif

def Inst.reader (i : Inst) (t : Topic) : ColInfo := (i.readers.get? t).getD {}

/-- `Reader::append_block_to_chain` -/
def appendBlockToChain (i : Inst) (t : Topic) (b : Blk) : Inst :=
  let info := i.reader t
  let chain := info.chain ++ [b]
  let info := { info with chain := chain }
  let info :=
    if info.tailId = b.id then
      { info with curIdx := chain.length - 1, curOff := min info.tailOff b.used }
    else info
  { i with readers := i.readers.insert t info }

def incCount (i : Inst) (t : Topic) (d : Nat) : Inst :=
  if d = 0 then i else { i with counts := i.counts.insert t (((i.counts.get? t).getD 0) + d) }

def decCount (i : Inst) (t : Topic) (d : Nat) : Inst :=
  if d = 0 then i else { i with counts := i.counts.insert t (((i.counts.get? t).getD 0) - d) }

/-- `TopicCleanTracker::update_state` -/
def markClean (i : Inst) (t : Topic) (desired : Bool) : Inst :=
  let (gen, cl) := (i.cleanStates.get? t).getD (0, true)
  if cl = desired then
    { i with cleanStates := i.cleanStates.insert t (gen, cl) }
  else
    { i with cleanStates := i.cleanStates.insert t (gen + 1, desired),
             cleanPending := if i.cleanPending.contains t then i.cleanPending else i.cleanPending ++ [t] }

/-- `Walrus::get_or_create_writer` -/
def getOrCreateWriter (c : Cfg) (p : Proc) (i : Inst) (t : Topic) : Proc × Inst × Writer :=
  match i.writers.get? t with
  | some w => (p, i, w)
  | none =>
    let (p, i, b) := getNextAvailableBlock c p i
    let w : Writer := { blk := b, off := 0 }
    (p, { i with writers := i.writers.insert t w }, w)

/-- Seal the writer's current block at `used` into the reader chain (`set_block_unlocked`, flush,
`append_block_to_chain`). -/
def sealBlock (p : Proc) (i : Inst) (t : Topic) (b : Blk) (used : Nat) : Proc × Inst :=
  let p := { p with trk := p.trk.setBlockUnlocked b.id }
  (p, appendBlockToChain i t { b with used := used })

/-- `Writer::write` -/
def writerWriteCore (c : Cfg) (p : Proc) (i : Inst) (t : Topic) (w : Writer) (pay : Pay)
    (flt : Option Fault := none) : Proc × Inst × Option ErrKind :=
  if w.batching then (p, i, some .wouldBlock)
  else
    let need := c.metaSz + pay.len
    -- rotation
    let r : Option (Proc × Inst × Writer) :=
      if w.off + need > w.blk.limit then
        let (p, i) := sealBlock p i t w.blk w.off
        match allocBlock c p i need with
        | none => none
        | some (p, i, nb) => some (p, i, { w with blk := nb, off := 0 })
      else some (p, i, w)
    match r with
    | none =>
      -- `alloc_block(need)?` failed *after* the seal: the writer keeps its (sealed) block
      let (p, i) := sealBlock p i t w.blk w.off
      (p, i, some .invalidInput)
    | some (p, i, w) =>
      if flt = some ⟨0, 0⟩ then
        -- injected failure of the entry write: `block.write(..)?` returns before the offset moves;
        -- a rotation above has already happened
        (p, { i with writers := i.writers.insert t w }, some .other)
      else if t.long then
        -- `Block::write`: "metadata too large"; a rotation above has already happened
        (p, { i with writers := i.writers.insert t w }, some .invalidData)
      else
        let p := { p with files := writeCell c p.files w.blk w.off t pay }
        let w := { w with off := w.off + need }
        (p, { i with writers := i.writers.insert t w }, none)

/-- `Writer::write`: an entry that no block can hold is rejected before any state changes (fix 'oversized entries');
the rest is `writerWriteCore` (whose seal-then-`alloc_block`-fails branch is unreachable from here) -/
def writerWrite (c : Cfg) (p : Proc) (i : Inst) (t : Topic) (w : Writer) (pay : Pay)
    (flt : Option Fault := none) : Proc × Inst × Option ErrKind :=
  if !w.batching && decide (c.metaSz + pay.len > c.maxAlloc) then (p, i, some .invalidInput)
  else writerWriteCore c p i t w pay flt

/-- `Walrus::append_for_topic` -/
def appendForTopic (c : Cfg) (p : Proc) (i : Inst) (t : Topic) (pay : Pay) (flt : Option Fault := none) :
    Proc × Inst × Out :=
  let i := markClean i t false
  let (p, i, w) := getOrCreateWriter c p i t
  match writerWrite c p i t w pay flt with
  | (p, i, some e) => (p, i, .err e)
  | (p, i, none) => (p, incCount i t 1, .ok)

/-- Planning phase of `batch_write`: returns the state after planning, the writer's block after
planning (the code updates `*block` in place while planning) and, unless an `alloc_block` failed,
the planning offset and the write plan `(block, in-block offset, payload)`. -/
def planBatch (c : Cfg) (t : Topic) :
    List Pay → Proc → Inst → Blk → Nat → List (Blk × Nat × Pay) →
      Proc × Inst × Blk × Option (Nat × List (Blk × Nat × Pay))
  | [], p, i, b, off, acc => (p, i, b, some (off, acc.reverse))
  | pay :: rest, p, i, b, off, acc =>
    let need := c.metaSz + pay.len
    if b.limit - off ≥ need then
      planBatch c t rest p i b (off + need) ((b, off, pay) :: acc)
    else
      let (p, i) := sealBlock p i t b off
      match allocBlock c p i (max need c.blockSize) with
      | none => (p, i, b, none)
      | some (p, i, nb) =>
        -- the fresh block always fits the entry (limit ≥ need), so it is planned next
        planBatch c t rest p i nb need ((nb, 0, pay) :: acc)

/-- does the injected fault hit a batch whose plan has `planLen` entries? -/
def batchFails (flt : Option Fault) (planLen : Nat) : Bool :=
  match flt with
  | some ⟨0, n⟩ => decide (n < planLen)
  | some ⟨7, 0⟩ => true
  | _ => false

/-- `Writer::batch_write` -/
def writerBatchWriteCore (c : Cfg) (p : Proc) (i : Inst) (t : Topic) (w : Writer) (batch : List Pay)
    (flt : Option Fault := none) : Proc × Inst × Option ErrKind :=
  if batch.length > c.cap then (p, i, some .invalidInput)
  else if (batch.map fun x => c.metaSz + x.len).sum > c.maxBatchBytes then (p, i, some .invalidInput)
  else if batch.isEmpty then (p, i, none)
  else if t.long then (p, i, some .invalidData)
  else if w.batching then (p, i, some .wouldBlock)
  else
    match planBatch c t batch p i w.blk w.off [] with
    | (p, i, nb, none) =>
      -- `alloc_block(..)?` failed after a seal: the seals and the in-place block switches of the
      -- planning so far stay, the writer's offset is the original one
      (p, { i with writers := i.writers.insert t { w with blk := nb } }, some .invalidInput)
    | (p, i, nb, some (off, plan)) =>
      if batchFails flt plan.length then
        -- a write (or the submission) failed: the headers of the planned entries are zeroed, the
        -- offset goes back to the original one, every block allocated while planning is
        -- "unlocked" in the trackers - but the seals of the planning phase stay and the writer
        -- keeps the block it switched to (`*block = new_block` is not undone)
        let files := plan.foldl (fun fs (x : Blk × Nat × Pay) => zeroHeader c fs x.1 x.2.1) p.files
        let newIds := ((plan.map fun (x : Blk × Nat × Pay) => x.1.id).eraseDups).filter (· ≠ w.blk.id)
        let trk := newIds.foldl (fun tk id => tk.setBlockUnlocked id) p.trk
        ({ p with files := files, trk := trk }, { i with writers := i.writers.insert t { w with blk := nb } }, some .other)
      else
        let files := plan.foldl (fun fs (b, o, pay) => writeCell c fs b o t pay) p.files
        let w := { w with blk := nb, off := off }
        ({ p with files := files }, { i with writers := i.writers.insert t w }, none)

/-- `Writer::batch_write`: after the entry-count and total-size checks, a batch with an entry that no block can hold
is rejected before any state changes; the rest is `writerBatchWriteCore` -/
def writerBatchWrite (c : Cfg) (p : Proc) (i : Inst) (t : Topic) (w : Writer) (batch : List Pay)
    (flt : Option Fault := none) : Proc × Inst × Option ErrKind :=
  if decide (batch.length ≤ c.cap) && decide ((batch.map fun x => c.metaSz + x.len).sum ≤ c.maxBatchBytes) &&
      batch.any (fun x => decide (c.metaSz + x.len > c.maxAlloc)) then (p, i, some .invalidInput)
  else writerBatchWriteCore c p i t w batch flt

/-- `Walrus::batch_append_for_topic` -/
def batchAppendForTopic (c : Cfg) (p : Proc) (i : Inst) (t : Topic) (batch : List Pay)
    (flt : Option Fault := none) : Proc × Inst × Out :=
  let i := markClean i t false
  let (p, i, w) := getOrCreateWriter c p i t
  match writerBatchWrite c p i t w batch flt with
  | (p, i, some e) => (p, i, .err e)
  | (p, i, none) => (p, incCount i t batch.length, .ok)

end WalrusVerif.Eng
