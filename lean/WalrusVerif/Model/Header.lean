import WalrusVerif.Gen.Consts
/-!
The 256-byte entry header (`block.rs`): 2 bytes `meta_len` (little endian), then `meta_len` bytes of
an rkyv 0.7 archive of `Metadata { read_size, owned_by: String, next_block_start, checksum }`, then
zero padding.  Layout of the archive (measured on files written by the engine, re-checked on every run
by the correspondence): the *root* is the last 32 bytes — `owned_by` representation (8 bytes) at +0,
`next_block_start` u64 at +8, `checksum` u64 at +16, `read_size` u32 at +24, 4 bytes padding; a topic
name of up to 7 bytes is stored inline in the representation (length in its last byte), a longer one
out of line *before* the root, padded to 8 bytes, and the representation holds its length (u32) and a
relative offset (i32, from the representation to the first byte of the name).

This model is about *which bytes of the buffer a decoder touches*: positions and lengths, not values.
-/
namespace WalrusVerif.Header

def rootSize : Nat := 32
def inlineCap : Nat := 7
def pad8 (n : Nat) : Nat := (n + 7) / 8 * 8

/-- what the string representation at the root says: an inline name, or `(length, relative offset)` -/
inductive StrRepr where
  | inline (len : Nat)
  | outOfLine (len : Nat) (rel : Int)
  deriving Repr, DecidableEq

/-- byte ranges `[lo, hi)` of the buffer (as integers: a wild pointer may be negative) that decoding the
archive dereferences, given the buffer length and the representation found at the root -/
def touched (bufLen : Nat) (r : StrRepr) : List (Int × Int) :=
  let rootPos : Int := (bufLen : Int) - rootSize      -- `archived_root`: position `len - size_of::<Archived<T>>()`
  (rootPos, rootPos + rootSize) ::
    (match r with
     | .inline _ => []
     | .outOfLine len rel => [(rootPos + rel, rootPos + rel + len)])

def inBounds (bufLen : Nat) (rg : Int × Int) : Prop := 0 ≤ rg.1 ∧ rg.2 ≤ (bufLen : Int)

instance (bufLen : Nat) (rg : Int × Int) : Decidable (inBounds bufLen rg) := by unfold inBounds; infer_instance

/-- the guard of `Block::read` and of the recovery scan on `meta_len` -/
def guardOK (metaLen : Nat) : Bool := metaLen != 0 && decide (metaLen ≤ Consts.PREFIX_META_SIZE - 2)

/-- what `rkyv::check_archived_root` verifies before anything is dereferenced (positions only): the root
fits in the buffer, an inline length fits the representation, an out-of-line name lies inside the buffer
and entirely before the root -/
def validated (bufLen : Nat) (r : StrRepr) : Bool :=
  decide (rootSize ≤ bufLen) &&
    (match r with
     | .inline len => decide (len ≤ inlineCap)
     | .outOfLine len rel =>
       let rootPos : Int := (bufLen : Int) - rootSize
       decide (0 ≤ rootPos + rel) && decide (rootPos + rel + len ≤ rootPos))

/-- the layout the encoder (`rkyv::to_bytes`) produces for a topic name of `n` bytes: buffer length and
representation -/
def encoded (n : Nat) : Nat × StrRepr :=
  if n ≤ inlineCap then (rootSize, .inline n) else (pad8 n + rootSize, .outOfLine n (-(pad8 n : Int)))

end WalrusVerif.Header
