import WalrusVerif.Model.WalKey
namespace WalrusVerif.WalKey
open WalrusVerif

def sep : List Char := ['_', 's', '_']

theorem decDigit_props : ∀ n, n < 10 →
    (decDigit n).isDigit = true ∧ (decDigit n).toNat - 48 = n ∧ decDigit n ≠ '_' ∧ decDigit n ≠ '+' := by
  decide

theorem render_digits (n : Nat) : ∀ c ∈ render n, c.isDigit = true ∧ c ≠ '_' ∧ c ≠ '+' := by
  induction n using Nat.strongRecOn with
  | _ n ih =>
    rw [render]
    split
    · intro c hc
      simp at hc; subst hc
      have := decDigit_props n ‹_›
      exact ⟨this.1, this.2.2.1, this.2.2.2⟩
    · intro c hc
      rcases List.mem_append.mp hc with h | h
      · exact ih (n / 10) (by omega) c h
      · simp at h; subst h
        have := decDigit_props (n % 10) (Nat.mod_lt _ (by decide))
        exact ⟨this.1, this.2.2.1, this.2.2.2⟩

theorem render_ne_nil (n : Nat) : render n ≠ [] := by
  rw [render]; split <;> simp

theorem render_parse (n : Nat) : (render n).foldl digitStep (some 0) = some n := by
  induction n using Nat.strongRecOn with
  | _ n ih =>
    rw [render]
    split
    · have := decDigit_props n ‹_›
      simp [digitStep, this.1, this.2.1]
    · have := decDigit_props (n % 10) (Nat.mod_lt _ (by decide))
      rw [List.foldl_append, ih (n / 10) (by omega)]
      simp [digitStep, this.1, this.2.1]
      omega

theorem parseU64_render (n : Nat) (h : n < 2 ^ 64) : parseU64 (render n) = some n := by
  have hplus : stripPlus (render n) = render n := by
    unfold stripPlus
    split
    · rename_i r heq
      have := (render_digits n '+' (by rw [heq]; simp)).2.2
      exact absurd rfl this
    · rfl
  unfold parseU64
  simp only [hplus, render_ne_nil, if_false, render_parse, h, if_true]

theorem rsplitOnce_cons (sp : List Char) (c : Char) (cs : List Char) :
    rsplitOnce sp (c :: cs) =
      match rsplitOnce sp cs with
      | some (b, a) => some (c :: b, a)
      | none => if sp.isPrefixOf (c :: cs) then some ([], (c :: cs).drop sp.length) else none := by
  rfl

theorem rsplit_none (d : List Char) (h : ∀ c ∈ d, c ≠ '_') : rsplitOnce sep d = none := by
  induction d with
  | nil => rfl
  | cons c cs ih =>
    have hc : c ≠ '_' := h c (by simp)
    rw [rsplitOnce_cons, ih (fun x hx => h x (by simp [hx]))]
    simp [sep, List.isPrefixOf]
    intro e; exact absurd e.symm hc

theorem rsplit_none2 (d : List Char) (h : ∀ c ∈ d, c ≠ '_') : rsplitOnce sep ('_' :: d) = none := by
  rw [rsplitOnce_cons, rsplit_none d h]
  match d, h with
  | [], _ => simp [sep, List.isPrefixOf]
  | [x], _ => simp [sep, List.isPrefixOf]
  | x :: y :: r, h =>
    have hy : y ≠ '_' := h y (by simp)
    simp [sep, List.isPrefixOf]
    intro _ e; exact absurd e.symm hy

theorem rsplit_none3 (d : List Char) (h : ∀ c ∈ d, c ≠ '_') :
    rsplitOnce sep ('s' :: '_' :: d) = none := by
  rw [rsplitOnce_cons, rsplit_none2 d h]
  simp [sep, List.isPrefixOf]

theorem rsplit_last (pre d : List Char) (h : ∀ c ∈ d, c ≠ '_') :
    rsplitOnce sep (pre ++ sep ++ d) = some (pre, d) := by
  induction pre with
  | nil =>
    show rsplitOnce sep ('_' :: 's' :: '_' :: d) = some ([], d)
    rw [rsplitOnce_cons, rsplit_none3 d h]
    simp [sep, List.isPrefixOf]
  | cons c p ih =>
    simp only [List.cons_append]
    rw [rsplitOnce_cons]
    simp only [List.append_assoc] at ih ⊢
    rw [ih]

theorem stripPrefix_append (p s : List Char) : stripPrefix p (p ++ s) = some s := by
  simp [stripPrefix]

end WalrusVerif.WalKey
