import WalrusVerif.Lemmas.AEngInv
/-! Appends of the entry-level model extend the log and keep the cursor's meaning. -/
namespace WalrusVerif.AEng
open WalrusVerif WalrusVerif.Eng

theorem getElem?_lt_length' {α : Type} (l : List α) (i : Nat) (x : α) (h : l[i]? = some x) : i < l.length := by
  rcases Nat.lt_or_ge i l.length with h1 | h1
  · exact h1
  · simp [List.getElem?_eq_none h1] at h

/-- creating the topic's writer (first block, empty) -/
theorem tinv_ensureWriter (c : Cfg) (n : Nat) (a : ATopic) (k : Nat) (h : TInv c n a k) :
    let r := ensureWriter c n a
    TInv c r.1 r.2.1 k ∧ n ≤ r.1 ∧ r.2.1.writer = some r.2.2 ∧ log r.2.1 = log a ∧ r.2.1.count = a.count := by
  unfold ensureWriter
  cases hw : a.writer with
  | some w => exact ⟨h, Nat.le_refl _, hw, rfl, rfl⟩
  | none =>
    refine ⟨?_, Nat.le_succ _, rfl, ?_, rfl⟩
    · refine ⟨h.idx_le, h.sealedPos, h.tailOff0, ?_, ?_, Nat.lt_succ_of_lt h.tailIdLt, ?_, ?_, ?_⟩
      · intro hidx
        show if a.tailId = n then _ else k = (chainEs a.chain).length
        have hne : a.tailId ≠ n := Nat.ne_of_lt h.tailIdLt
        have := h.tailPos hidx
        rw [hw] at this
        simp only [hne, if_false]; exact this
      · intro _ w hw'; cases hw'; exact Nat.ne_of_lt h.tailIdLt
      · intro w hw'; cases hw'; exact Nat.lt_succ_self _
      · intro hx; cases hx
      · have := h.k_le
        simpa [log, tailEs, hw] using this
    · simp [log, tailEs, hw]

/-- appending entries to the active block -/
theorem tinv_append_tail (c : Cfg) (n : Nat) (a : ATopic) (k : Nat) (h : TInv c n a k) (w : ABlk)
    (hw : a.writer = some w) (ps : List Pay) :
    TInv c n { a with writer := some { w with es := w.es ++ ps } } k ∧
      log { a with writer := some { w with es := w.es ++ ps } } = log a ++ ps := by
  have hlog : log { a with writer := some { w with es := w.es ++ ps } } = log a ++ ps := by
    simp [log, tailEs, hw]
  refine ⟨?_, hlog⟩
  refine ⟨h.idx_le, h.sealedPos, h.tailOff0, ?_, ?_, h.tailIdLt, ?_, ?_, ?_⟩
  · intro hidx
    have := h.tailPos hidx
    rw [hw] at this
    show if a.tailId = w.id then ∃ j, j ≤ (w.es ++ ps).length ∧ a.tailOff = bytes c ((w.es ++ ps).take j) ∧ _ else _
    by_cases ht : a.tailId = w.id
    · simp only [ht, if_true] at this ⊢
      obtain ⟨j, hj, ho, hk⟩ := this
      refine ⟨j, by simp; omega, ?_, hk⟩
      rw [List.take_append_of_le_length hj]; exact ho
    · simp only [ht, if_false] at this ⊢; exact this
  · intro hlt w' hw'
    cases hw'
    exact h.sealedNotTail hlt w hw
  · intro w' hw'; cases hw'; exact h.writerIdLt w hw
  · intro hx; cases hx
  · rw [hlog]; have := h.k_le; simp; omega

/-- sealing the active block `w` and switching to a fresh block `nb` (id = the next id) -/
theorem tinv_seal_new (c : Cfg) (n : Nat) (a : ATopic) (k : Nat) (h : TInv c n a k) (w : ABlk)
    (hw : a.writer = some w) (nb : ABlk) (hid : nb.id = n) :
    TInv c (n + 1) { sealInto c a w with writer := some nb } k ∧
      log { sealInto c a w with writer := some nb } = log a ++ nb.es := by
  have hwid := h.writerIdLt w hw
  have hlog : ∀ x : ATopic, x.chain = a.chain ++ [w] → x.writer = some nb → log x = log a ++ nb.es := by
    intro x hc hwx
    simp [log, tailEs, hc, hwx, hw, chainEs_append]
  by_cases ht : a.tailId = w.id
  · -- the reader was inside the tail: fold its progress into the sealed chain
    have hidx : a.curIdx = a.chain.length := by
      rcases Nat.lt_or_ge a.curIdx a.chain.length with h1 | h1
      · exact absurd ht (h.sealedNotTail h1 w hw)
      · have := h.idx_le; omega
    have htp := h.tailPos hidx
    rw [hw] at htp
    simp only [ht, if_true] at htp
    obtain ⟨j, hj, ho, hk⟩ := htp
    have hmin : min a.tailOff (w.used c) = a.tailOff := by
      rw [ho]; exact Nat.min_eq_left (bytes_take_le c w.es j)
    have hs : sealInto c a w = { a with chain := a.chain ++ [w], curIdx := a.chain.length, curOff := a.tailOff } := by
      unfold sealInto
      simp [ht, hmin]
    rw [hs]
    refine ⟨?_, hlog _ rfl rfl⟩
    refine ⟨by simp, ?_, ?_, ?_, ?_, Nat.lt_succ_of_lt h.tailIdLt, ?_, ?_, ?_⟩
    · intro b hb
      have hb' : (a.chain ++ [w])[a.chain.length]? = some b := hb
      rw [List.getElem?_append_right (Nat.le_refl _)] at hb'
      simp at hb'; subst hb'
      refine ⟨j, hj, ho, ?_⟩
      show k = before (a.chain ++ [w]) a.chain.length + j
      rw [before_append_le _ _ _ (Nat.le_refl _), before_length]; exact hk
    · intro he
      have : a.chain.length = (a.chain ++ [w]).length := he
      simp at this
    · intro he
      have : a.chain.length = (a.chain ++ [w]).length := he
      simp at this
    · intro _ w' hw'
      cases hw'
      show a.tailId ≠ nb.id
      rw [hid]; exact Nat.ne_of_lt h.tailIdLt
    · intro w' hw'; cases hw'; rw [hid]; exact Nat.lt_succ_self _
    · intro hx; cases hx
    · rw [hlog _ rfl rfl]; have := h.k_le; simp; omega
  · have hs : sealInto c a w = { a with chain := a.chain ++ [w] } := by
      unfold sealInto; simp [ht]
    rw [hs]
    refine ⟨?_, hlog _ rfl rfl⟩
    refine ⟨?_, ?_, ?_, ?_, ?_, Nat.lt_succ_of_lt h.tailIdLt, ?_, ?_, ?_⟩
    · show a.curIdx ≤ (a.chain ++ [w]).length
      have := h.idx_le; simp; omega
    · intro b hb
      have hb' : (a.chain ++ [w])[a.curIdx]? = some b := hb
      rcases Nat.lt_or_ge a.curIdx a.chain.length with h1 | h1
      · rw [List.getElem?_append_left h1] at hb'
        obtain ⟨j, hj, ho, hk⟩ := h.sealedPos b hb'
        refine ⟨j, hj, ho, ?_⟩
        show k = before (a.chain ++ [w]) a.curIdx + j
        rw [before_append_le _ _ _ (Nat.le_of_lt h1)]; exact hk
      · have hidx : a.curIdx = a.chain.length := by have := h.idx_le; omega
        rw [hidx, List.getElem?_append_right (Nat.le_refl _)] at hb'
        simp at hb'; subst hb'
        have h0 := h.tailOff0 hidx
        have htp := h.tailPos hidx
        rw [hw] at htp
        simp only [ht, if_false] at htp
        refine ⟨0, Nat.zero_le _, by simpa using h0, ?_⟩
        show k = before (a.chain ++ [w]) a.curIdx + 0
        rw [hidx, before_append_le _ _ _ (Nat.le_refl _), before_length]; simpa using htp
    · intro he
      have h1 : a.curIdx = (a.chain ++ [w]).length := he
      have := h.idx_le
      simp at h1; omega
    · intro he
      have h1 : a.curIdx = (a.chain ++ [w]).length := he
      have := h.idx_le
      simp at h1; omega
    · intro _ w' hw'
      cases hw'
      show a.tailId ≠ nb.id
      rw [hid]; exact Nat.ne_of_lt h.tailIdLt
    · intro w' hw'; cases hw'; rw [hid]; exact Nat.lt_succ_self _
    · intro hx; cases hx
    · rw [hlog _ rfl rfl]; have := h.k_le; simp; omega

end WalrusVerif.AEng

namespace WalrusVerif.AEng
open WalrusVerif WalrusVerif.Eng

theorem sealInto_count (c : Cfg) (a : ATopic) (w : ABlk) : (sealInto c a w).count = a.count := by
  unfold sealInto; split <;> rfl

/-- `Writer::write` on an entry within the allocation limit -/
theorem writeCore_spec (c : Cfg) (hm : 0 < c.metaSz) (n : Nat) (a : ATopic) (k : Nat) (h : TInv c n a k) (w : ABlk)
    (hw : a.writer = some w) (long : Bool) (pay : Pay) (hlim : raw c pay ≤ c.maxAlloc) :
    let r := writeCore c n a w long pay
    TInv c r.1 r.2.1 k ∧ n ≤ r.1 ∧ r.2.1.count = a.count ∧
      (r.2.2 = none → log r.2.1 = log a ++ [pay]) ∧ (r.2.2 ≠ none → log r.2.1 = log a) := by
  have hpos : ¬ (raw c pay = 0 ∨ raw c pay > c.maxAlloc) := by
    have := raw_pos c hm pay; omega
  unfold writeCore
  simp only
  by_cases hrot : w.used c + raw c pay > w.limit
  · simp only [hrot, if_true, hpos, if_false]
    cases long with
    | true =>
      simp only [if_true]
      have := tinv_seal_new c n a k h w hw { id := n, limit := unitsFor c (raw c pay), es := [] } rfl
      refine ⟨this.1, Nat.le_succ _, sealInto_count c a w, (fun hx => nomatch hx), fun _ => by simpa using this.2⟩
    | false =>
      simp only [Bool.false_eq_true, if_false]
      have := tinv_seal_new c n a k h w hw { id := n, limit := unitsFor c (raw c pay), es := [pay] } rfl
      refine ⟨this.1, Nat.le_succ _, sealInto_count c a w, fun _ => this.2, fun hx => absurd rfl hx⟩
  · simp only [hrot, if_false]
    cases long with
    | true =>
      simp only [if_true]
      exact ⟨h, by simp, by simp, (fun hx => nomatch hx), fun _ => by simp⟩
    | false =>
      simp only [Bool.false_eq_true, if_false]
      have := tinv_append_tail c n a k h w hw [pay]
      exact ⟨this.1, by simp, by simp, fun _ => this.2, fun hx => absurd rfl hx⟩

/-- `Writer::write`, any entry: an entry beyond the allocation limit is rejected and nothing changes -/
theorem write_spec' (c : Cfg) (hm : 0 < c.metaSz) (n : Nat) (a : ATopic) (k : Nat) (h : TInv c n a k) (w : ABlk)
    (hw : a.writer = some w) (long : Bool) (pay : Pay) :
    let r := write c n a w long pay
    TInv c r.1 r.2.1 k ∧ n ≤ r.1 ∧ r.2.1.count = a.count ∧
      (r.2.2 = none → log r.2.1 = log a ++ [pay]) ∧ (r.2.2 ≠ none → log r.2.1 = log a) := by
  unfold write
  split
  · exact ⟨h, Nat.le_refl _, rfl, (fun hx => nomatch hx), fun _ => rfl⟩
  · rename_i hbig
    exact writeCore_spec c hm n a k h w hw long pay (Nat.le_of_not_gt hbig)

theorem write_spec (c : Cfg) (hm : 0 < c.metaSz) (n : Nat) (a : ATopic) (k : Nat) (h : TInv c n a k) (w : ABlk)
    (hw : a.writer = some w) (long : Bool) (pay : Pay) (_hlim : raw c pay ≤ c.maxAlloc) :
    let r := write c n a w long pay
    TInv c r.1 r.2.1 k ∧ n ≤ r.1 ∧ r.2.1.count = a.count ∧
      (r.2.2 = none → log r.2.1 = log a ++ [pay]) ∧ (r.2.2 ≠ none → log r.2.1 = log a) :=
  write_spec' c hm n a k h w hw long pay

/-- the planning loop of `batch_write`, seen on the state "topic with active block `w`" -/
theorem batchPlan_spec (c : Cfg) (hbs : c.blockSize ≤ c.maxAlloc) (hb0 : 0 < c.blockSize) :
    ∀ (batch : List Pay) (n : Nat) (a : ATopic) (w : ABlk) (k : Nat),
      TInv c n { a with writer := some w } k → (∀ p ∈ batch, raw c p ≤ c.maxAlloc) →
      let r := batchPlan c batch n a w
      r.2.2.2 = true ∧ n ≤ r.1 ∧ r.2.1.count = a.count ∧
        TInv c r.1 { r.2.1 with writer := some r.2.2.1 } k ∧
        log { r.2.1 with writer := some r.2.2.1 } = log { a with writer := some w } ++ batch := by
  intro batch
  induction batch with
  | nil => intro n a w k h _; exact ⟨rfl, Nat.le_refl _, rfl, h, by simp [batchPlan]⟩
  | cons p rest ih =>
    intro n a w k h hl
    have hp := hl p (by simp)
    have hrest : ∀ q ∈ rest, raw c q ≤ c.maxAlloc := fun q hq => hl q (by simp [hq])
    unfold batchPlan
    simp only
    by_cases hfit : w.limit - w.used c ≥ raw c p
    · simp only [hfit, if_true]
      have hs := tinv_append_tail c n { a with writer := some w } k h w rfl [p]
      have := ih n a { w with es := w.es ++ [p] } k hs.1 hrest
      refine ⟨this.1, this.2.1, this.2.2.1, this.2.2.2.1, ?_⟩
      rw [this.2.2.2.2, hs.2]; simp
    · simp only [hfit, if_false]
      have hwant : ¬ (max (raw c p) c.blockSize = 0 ∨ max (raw c p) c.blockSize > c.maxAlloc) := by
        have : max (raw c p) c.blockSize ≤ c.maxAlloc := Nat.max_le.mpr ⟨hp, hbs⟩
        have : 0 < max (raw c p) c.blockSize := Nat.lt_of_lt_of_le hb0 (Nat.le_max_right _ _)
        omega
      simp only [hwant, if_false]
      have hs := tinv_seal_new c n { a with writer := some w } k h w rfl
        { id := n, limit := unitsFor c (max (raw c p) c.blockSize), es := [p] } rfl
      have hseal : sealInto c { a with writer := some w } w = { sealInto c a w with writer := some w } := by
        unfold sealInto; split <;> rfl
      rw [hseal] at hs
      have := ih (n + 1) (sealInto c a w) { id := n, limit := unitsFor c (max (raw c p) c.blockSize), es := [p] } k
        (by simpa using hs.1) hrest
      refine ⟨this.1, Nat.le_trans (Nat.le_succ _) this.2.1, ?_, this.2.2.2.1, ?_⟩
      · rw [this.2.2.1, sealInto_count]
      · rw [this.2.2.2.2]
        have h2 := hs.2
        simp only at h2
        rw [show log { sealInto c a w with writer := some { id := n, limit := unitsFor c (max (raw c p) c.blockSize), es := [p] } } =
              log { a with writer := some w } ++ [p] from by simpa using h2]
        simp

/-- `Writer::batch_write` -/
theorem batchWriteCore_spec (c : Cfg) (hbs : c.blockSize ≤ c.maxAlloc) (hb0 : 0 < c.blockSize) (n : Nat) (a : ATopic)
    (k : Nat) (h : TInv c n a k) (w : ABlk) (hw : a.writer = some w) (long : Bool) (batch : List Pay)
    (hl : ∀ p ∈ batch, raw c p ≤ c.maxAlloc) :
    let r := batchWriteCore c n a w long batch
    TInv c r.1 r.2.1 k ∧ n ≤ r.1 ∧ r.2.1.count = a.count ∧
      (r.2.2 = none → log r.2.1 = log a ++ batch) ∧ (r.2.2 ≠ none → log r.2.1 = log a) := by
  have ha : { a with writer := some w } = a := by cases a; simp_all
  unfold batchWriteCore
  simp only
  split
  · exact ⟨h, Nat.le_refl _, rfl, (fun hx => nomatch hx), fun _ => rfl⟩
  · split
    · exact ⟨h, Nat.le_refl _, rfl, (fun hx => nomatch hx), fun _ => rfl⟩
    · split
      · rename_i he
        have : batch = [] := by simpa using he
        exact ⟨h, Nat.le_refl _, rfl, fun _ => by simp [this], fun hx => absurd rfl hx⟩
      · split
        · exact ⟨h, Nat.le_refl _, rfl, (fun hx => nomatch hx), fun _ => rfl⟩
        · have hp := batchPlan_spec c hbs hb0 batch n a w k (by rw [ha]; exact h) hl
          rcases hbp : batchPlan c batch n a w with ⟨n', a', w', ok⟩
          rw [hbp] at hp
          simp only at hp
          obtain ⟨hok, hn, hc, hinv, hlog⟩ := hp
          subst hok
          rw [ha] at hlog
          exact ⟨hinv, hn, hc, fun _ => hlog, fun hx => absurd rfl hx⟩

/-- `Writer::batch_write`, any batch: a batch with an entry beyond the allocation limit is rejected and nothing changes -/
theorem batchWrite_spec' (c : Cfg) (hbs : c.blockSize ≤ c.maxAlloc) (hb0 : 0 < c.blockSize) (n : Nat) (a : ATopic)
    (k : Nat) (h : TInv c n a k) (w : ABlk) (hw : a.writer = some w) (long : Bool) (batch : List Pay) :
    let r := batchWrite c n a w long batch
    TInv c r.1 r.2.1 k ∧ n ≤ r.1 ∧ r.2.1.count = a.count ∧
      (r.2.2 = none → log r.2.1 = log a ++ batch) ∧ (r.2.2 ≠ none → log r.2.1 = log a) := by
  unfold batchWrite
  split
  · exact ⟨h, Nat.le_refl _, rfl, (fun hx => nomatch hx), fun _ => rfl⟩
  · rename_i hbig
    by_cases hall : ∀ p ∈ batch, raw c p ≤ c.maxAlloc
    · exact batchWriteCore_spec c hbs hb0 n a k h w hw long batch hall
    · -- some entry is too big, so one of the two earlier checks must have failed: the core rejects as well
      have hany : batch.any (fun x => decide (raw c x > c.maxAlloc)) = true := by
        rw [List.any_eq_true]
        have hall' := Classical.not_forall.mp hall
        obtain ⟨p, hp⟩ := hall'
        have hp' := Classical.not_imp.mp hp
        exact ⟨p, hp'.1, by simpa using Nat.lt_of_not_le hp'.2⟩
      simp only [hany, Bool.and_true, Bool.and_eq_true, decide_eq_true_eq, not_and, Nat.not_le] at hbig
      unfold batchWriteCore
      by_cases h1 : batch.length > c.cap
      · simp only [h1, if_true]; exact ⟨h, Nat.le_refl _, trivial, (fun hx => nomatch hx), fun _ => trivial⟩
      · have h2 := hbig (Nat.le_of_not_gt h1)
        simp only [h1, if_false, h2, if_true]
        exact ⟨h, Nat.le_refl _, trivial, (fun hx => nomatch hx), fun _ => trivial⟩

theorem batchWrite_spec (c : Cfg) (hbs : c.blockSize ≤ c.maxAlloc) (hb0 : 0 < c.blockSize) (n : Nat) (a : ATopic)
    (k : Nat) (h : TInv c n a k) (w : ABlk) (hw : a.writer = some w) (long : Bool) (batch : List Pay)
    (_hl : ∀ p ∈ batch, raw c p ≤ c.maxAlloc) :
    let r := batchWrite c n a w long batch
    TInv c r.1 r.2.1 k ∧ n ≤ r.1 ∧ r.2.1.count = a.count ∧
      (r.2.2 = none → log r.2.1 = log a ++ batch) ∧ (r.2.2 ≠ none → log r.2.1 = log a) :=
  batchWrite_spec' c hbs hb0 n a k h w hw long batch

end WalrusVerif.AEng
