import WalrusVerif.Model.Frame
namespace WalrusVerif.Frame
open WalrusVerif

def enc32 (n : Nat) : Bytes :=
  [UInt8.ofNat (n % 256), UInt8.ofNat (n / 256 % 256), UInt8.ofNat (n / 65536 % 256), UInt8.ofNat (n / 16777216 % 256)]

theorem le32_enc32 (n : Nat) (h : n < 2 ^ 32) : le32 (enc32 n) = n := by
  have e : ∀ k, k < 256 → (UInt8.ofNat k).toNat = k := by
    intro k hk; simp [UInt8.toNat_ofNat, Nat.mod_eq_of_lt hk]
  simp only [le32, enc32]
  rw [e _ (Nat.mod_lt _ (by decide)), e _ (Nat.mod_lt _ (by decide)), e _ (Nat.mod_lt _ (by decide)),
    e _ (Nat.mod_lt _ (by decide))]
  omega

/-- a frame as the client sends it: announced length and body -/
structure Fr where
  n : Nat
  body : Bytes

def Fr.WF (f : Fr) : Prop := f.body.length = f.n ∧ f.n < 2 ^ 32

def Fr.encode (f : Fr) : Bytes := enc32 f.n ++ f.body

/-- the specification: one response per frame, in order, each computed from that frame alone
(and the backend state left by the previous ones) -/
def respondAll (dec : Bytes → Option Str) : Backend → List Fr → List Str
  | _, [] => []
  | b, f :: r => let (b', x) := respond dec b f.n f.body; x :: respondAll dec b' r

theorem serve_frames (dec : Bytes → Option Str) (frames : List Fr) (tail : Bytes) (b : Backend) (fuel : Nat)
    (hwf : ∀ f ∈ frames, f.WF) (hfuel : frames.length ≤ fuel) :
    serve dec fuel ((frames.flatMap Fr.encode) ++ tail) b =
      respondAll dec b frames ++ serve dec (fuel - frames.length) tail (frames.foldl (fun b f => (respond dec b f.n f.body).1) b) := by
  induction frames generalizing b fuel with
  | nil => simp [respondAll]
  | cons f r ih =>
    obtain ⟨hl, hn⟩ := hwf f (by simp)
    cases fuel with
    | zero => simp at hfuel
    | succ fuel =>
      have hlen : (enc32 f.n).length = 4 := rfl
      simp only [List.flatMap_cons, Fr.encode, List.append_assoc]
      rw [serve]
      have h4 : ¬ (enc32 f.n ++ (f.body ++ (List.flatMap Fr.encode r ++ tail))).length < 4 := by
        simp [hlen]
      simp only [h4, if_false]
      have ht : (enc32 f.n ++ (f.body ++ (List.flatMap Fr.encode r ++ tail))).take 4 = enc32 f.n := by
        rw [List.take_append_of_le_length (by simp [hlen])]; simp [enc32]
      have hd : (enc32 f.n ++ (f.body ++ (List.flatMap Fr.encode r ++ tail))).drop 4 =
          f.body ++ (List.flatMap Fr.encode r ++ tail) := by
        rw [List.drop_append_of_le_length (by simp [hlen])]; simp [enc32]
      rw [ht, hd, le32_enc32 _ hn]
      have hlt : ¬ (f.body ++ (List.flatMap Fr.encode r ++ tail)).length < f.n := by
        simp [hl]
      simp only [hlt, if_false]
      have htk : (f.body ++ (List.flatMap Fr.encode r ++ tail)).take f.n = f.body := by
        rw [← hl]; simp
      have hdr : (f.body ++ (List.flatMap Fr.encode r ++ tail)).drop f.n = List.flatMap Fr.encode r ++ tail := by
        rw [← hl]; simp
      rw [htk, hdr]
      simp only [respondAll, List.foldl_cons, List.length_cons]
      rw [ih _ fuel (fun g hg => hwf g (by simp [hg])) (by simpa using hfuel)]
      simp

theorem splitSpace_nospace (a : Str) (h : ∀ c ∈ a, c ≠ ' ') : splitSpace a = (a, none) := by
  induction a with
  | nil => rfl
  | cons c r ih =>
    have hc : c ≠ ' ' := h c (by simp)
    simp [splitSpace, hc, ih (fun d hd => h d (by simp [hd]))]

theorem splitSpace_at (a r : Str) (h : ∀ c ∈ a, c ≠ ' ') : splitSpace (a ++ ' ' :: r) = (a, some r) := by
  induction a with
  | nil => simp [splitSpace]
  | cons c t ih =>
    have hc : c ≠ ' ' := h c (by simp)
    simp [splitSpace, hc, ih (fun d hd => h d (by simp [hd]))]

theorem trimEnd_id (s : Str) (h : ∀ c, s.getLast? = some c → isWs c = false) : trimEnd s = s := by
  unfold trimEnd
  cases hs : s.reverse with
  | nil => simp [List.reverse_eq_nil_iff.mp hs]
  | cons c r =>
    have : s.getLast? = some c := by
      rw [← List.head?_reverse, hs]; rfl
    have hw := h c this
    rw [List.dropWhile_cons_of_neg (by simp [hw]), ← hs, List.reverse_reverse]

end WalrusVerif.Frame
