import WalrusVerif.Model.AMap
namespace WalrusVerif
namespace AMap
variable {κ ν : Type} [DecidableEq κ]

@[simp] theorem get?_empty (k : κ) : (AMap.empty : AMap κ ν).get? k = none := rfl

theorem get?_erase_self (m : AMap κ ν) (k : κ) : (m.erase k).get? k = none := by
  induction m with
  | nil => rfl
  | cons p r ih =>
    obtain ⟨k', v⟩ := p
    by_cases h : k' = k <;> simp [erase, get?, h, ih]

theorem get?_erase_ne (m : AMap κ ν) (k j : κ) (h : k ≠ j) : (m.erase k).get? j = m.get? j := by
  induction m with
  | nil => rfl
  | cons p r ih =>
    obtain ⟨k', v⟩ := p
    by_cases h1 : k' = k
    · have : k' ≠ j := by rw [h1]; exact h
      simp [erase, get?, h1, ih, h]
    · by_cases h2 : k' = j
      · subst h2; simp [erase, get?, h1]
      · simp [erase, get?, h1, h2, ih]

@[simp] theorem get?_insert_self (m : AMap κ ν) (k : κ) (v : ν) : (m.insert k v).get? k = some v := by
  simp [insert, get?]

theorem get?_insert_ne (m : AMap κ ν) (k j : κ) (v : ν) (h : k ≠ j) :
    (m.insert k v).get? j = m.get? j := by
  simp [insert, get?, h, get?_erase_ne m k j h]

theorem get?_insert (m : AMap κ ν) (k j : κ) (v : ν) :
    (m.insert k v).get? j = if k = j then some v else m.get? j := by
  by_cases h : k = j
  · subst h; simp
  · simp [h, get?_insert_ne m k j v h]

end AMap
end WalrusVerif
