import WalrusVerif.Model.Meta
import WalrusVerif.Lemmas.AMapLemmas

namespace WalrusVerif.Meta
open WalrusVerif

/-- What C18 asks of one topic. -/
structure TopicInv (t : TopicState) : Prop where
  cur_pos : 1 ≤ t.currentSegment
  cur_lt : t.currentSegment < U64
  leaders_keys : ∀ k, (t.segmentLeaders.get? k).isSome ↔ (1 ≤ k ∧ k ≤ t.currentSegment)
  sealed_keys : ∀ k, (t.sealedSegments.get? k).isSome ↔ (1 ≤ k ∧ k < t.currentSegment)
  open_leader : t.segmentLeaders.get? t.currentSegment = some t.leaderNode
  offset_sum : t.lastSealedEntryOffset = sumSealed t.sealedSegments (t.currentSegment - 1)
  offset_lt : t.lastSealedEntryOffset < U64

def Inv (s : ClusterState) : Prop := ∀ name t, s.topics.get? name = some t → TopicInv t

theorem inv_init : Inv ClusterState.init := by
  intro name t h; simp [ClusterState.init] at h

theorem sumSealed_insert_above (m : AMap Nat Nat) (c v n : Nat) (h : n < c) :
    sumSealed (m.insert c v) n = sumSealed m n := by
  induction n with
  | zero => rfl
  | succ n ih =>
    have : c ≠ n + 1 := by omega
    simp [sumSealed, ih (by omega), AMap.get?_insert_ne m c (n + 1) v this]

theorem topicInv_new (leader : Nat) :
    TopicInv { currentSegment := 1, leaderNode := leader, lastSealedEntryOffset := 0,
               sealedSegments := AMap.empty, segmentLeaders := AMap.insert AMap.empty 1 leader } where
  cur_pos := Nat.le_refl 1
  cur_lt := by simp [U64]
  leaders_keys := by
    intro k; simp only [AMap.get?_insert]
    by_cases h : 1 = k
    · subst h; simp
    · simp [h]; omega
  sealed_keys := by intro k; simp; omega
  open_leader := by simp
  offset_sum := by simp [sumSealed]
  offset_lt := by simp [U64]

theorem topicInv_rollover (t : TopicState) (ht : TopicInv t) (newLeader cnt off next : Nat)
    (hoff : checkedAdd t.lastSealedEntryOffset cnt = some off)
    (hnext : checkedAdd t.currentSegment 1 = some next) :
    TopicInv { currentSegment := next, leaderNode := newLeader, lastSealedEntryOffset := off,
               sealedSegments := t.sealedSegments.insert t.currentSegment cnt,
               segmentLeaders := (t.segmentLeaders.insert t.currentSegment t.leaderNode).insert next newLeader } := by
  unfold checkedAdd at hoff hnext
  split at hoff <;> simp at hoff
  split at hnext <;> simp at hnext
  subst hoff hnext
  have hpos := ht.cur_pos
  constructor
  · show 1 ≤ t.currentSegment + 1
    omega
  · simpa using ‹t.currentSegment + 1 < U64›
  · intro k
    simp only [AMap.get?_insert]
    by_cases h1 : t.currentSegment + 1 = k
    · simp [h1]; omega
    · by_cases h2 : t.currentSegment = k
      · simp [h1, h2]; omega
      · simp only [h1, h2, if_false]
        rw [ht.leaders_keys k]; omega
  · intro k
    simp only [AMap.get?_insert]
    by_cases h2 : t.currentSegment = k
    · simp [h2]; omega
    · simp only [h2, if_false]
      rw [ht.sealed_keys k]; omega
  · simp
  · show t.lastSealedEntryOffset + cnt = sumSealed _ (t.currentSegment + 1 - 1)
    have e : t.currentSegment + 1 - 1 = (t.currentSegment - 1) + 1 := by omega
    rw [e, sumSealed, sumSealed_insert_above _ _ _ _ (by omega)]
    have e2 : t.currentSegment - 1 + 1 = t.currentSegment := by omega
    rw [e2, AMap.get?_insert_self, ← ht.offset_sum]; rfl
  · simpa using ‹t.lastSealedEntryOffset + cnt < U64›

theorem inv_step (s : ClusterState) (c : Cmd) (h : Inv s) : Inv (applyCmd s c).1 := by
  cases c with
  | createTopic name leader =>
    simp only [applyCmd]
    split
    · exact h
    · intro n t hn
      simp only [AMap.get?_insert] at hn
      split at hn
      · cases hn; exact topicInv_new leader
      · exact h n t hn
  | rolloverTopic name nl cnt =>
    simp only [applyCmd]
    split
    · exact h
    · rename_i t hget
      split
      · rename_i off next hoff hnext
        intro n t' hn
        simp only [AMap.get?_insert] at hn
        split at hn
        · cases hn; exact topicInv_rollover t (h name t hget) nl cnt off next hoff hnext
        · exact h n t' hn
      · exact h
  | upsertNode id addr =>
    intro n t hn; exact h n t hn

theorem inv_run (s : ClusterState) (cs : List Cmd) (h : Inv s) : Inv (run s cs) := by
  induction cs generalizing s with
  | nil => exact h
  | cons c cs ih => exact ih _ (inv_step s c h)

/-- One command never changes the record of an already sealed segment, and never lowers `current`. -/
theorem sealed_stable_step (s : ClusterState) (c : Cmd) (name : Name) (t : TopicState)
    (hg : s.topics.get? name = some t) :
    ∃ t', (applyCmd s c).1.topics.get? name = some t' ∧ t.currentSegment ≤ t'.currentSegment ∧
      ∀ k, k < t.currentSegment →
        t'.sealedSegments.get? k = t.sealedSegments.get? k ∧
        t'.segmentLeaders.get? k = t.segmentLeaders.get? k := by
  cases c with
  | createTopic n leader =>
    simp only [applyCmd]
    split
    · exact ⟨t, hg, Nat.le_refl _, fun _ _ => ⟨rfl, rfl⟩⟩
    · rename_i hc
      have : n ≠ name := by
        intro e; subst e; simp [AMap.contains, hg] at hc
      refine ⟨t, ?_, Nat.le_refl _, fun _ _ => ⟨rfl, rfl⟩⟩
      simp [AMap.get?_insert_ne _ _ _ _ this, hg]
  | rolloverTopic n nl cnt =>
    simp only [applyCmd]
    split
    · exact ⟨t, hg, Nat.le_refl _, fun _ _ => ⟨rfl, rfl⟩⟩
    · rename_i t0 hget
      split
      · rename_i off next hoff hnext
        by_cases e : n = name
        · subst e
          rw [hg] at hget; cases hget
          unfold checkedAdd at hnext
          split at hnext <;> simp at hnext
          subst hnext
          refine ⟨_, AMap.get?_insert_self _ _ _, Nat.le_succ _, ?_⟩
          intro k hk
          have h1 : t.currentSegment ≠ k := by omega
          have h2 : t.currentSegment + 1 ≠ k := by omega
          simp [AMap.get?_insert_ne _ _ _ _ h1, AMap.get?_insert_ne _ _ _ _ h2]
        · refine ⟨t, ?_, Nat.le_refl _, fun _ _ => ⟨rfl, rfl⟩⟩
          simp [AMap.get?_insert_ne _ _ _ _ e, hg]
      · exact ⟨t, hg, Nat.le_refl _, fun _ _ => ⟨rfl, rfl⟩⟩
  | upsertNode id addr =>
    exact ⟨t, hg, Nat.le_refl _, fun _ _ => ⟨rfl, rfl⟩⟩

theorem sealed_stable_run (cs : List Cmd) (s : ClusterState) (name : Name) (t : TopicState)
    (hg : s.topics.get? name = some t) :
    ∃ t', (run s cs).topics.get? name = some t' ∧ t.currentSegment ≤ t'.currentSegment ∧
      ∀ k, k < t.currentSegment →
        t'.sealedSegments.get? k = t.sealedSegments.get? k ∧
        t'.segmentLeaders.get? k = t.segmentLeaders.get? k := by
  induction cs generalizing s t with
  | nil => exact ⟨t, hg, Nat.le_refl _, fun _ _ => ⟨rfl, rfl⟩⟩
  | cons c cs ih =>
    obtain ⟨t1, h1, hle1, hk1⟩ := sealed_stable_step s c name t hg
    obtain ⟨t2, h2, hle2, hk2⟩ := ih (applyCmd s c).1 t1 h1
    refine ⟨t2, h2, Nat.le_trans hle1 hle2, ?_⟩
    intro k hk
    have a := hk1 k hk
    have b := hk2 k (by omega)
    exact ⟨b.1.trans a.1, b.2.trans a.2⟩

end WalrusVerif.Meta
