import WalrusVerif.Model.Plane
import WalrusVerif.Lemmas.AMapLemmas
/-! Lemmas about the data-plane model (C22, C23). -/
namespace WalrusVerif.Plane
open WalrusVerif

theorem node_setNode (w : World) (e : Nat) (s : NodeSt) (n : Nat) :
    (w.setNode e s).node n = if e = n then s else w.node n := by
  unfold World.setNode World.node
  simp only [AMap.get?_insert]
  by_cases h : e = n <;> simp [h]

/-- the part of a node's state the lease discipline is about -/
def core (s : NodeSt) : Meta.ClusterState × Nat × List Key × Nat := (s.md, s.applied, s.leases, s.leaseApplied)

/-- how one step may change a node's `core`: not at all, or by a lease refresh -/
def CoreStep (s s' : NodeSt) (n : Nat) : Prop := core s' = core s ∨ core s' = core (updateLeases s n)

theorem coreStep_refl (s : NodeSt) (n : Nat) : CoreStep s s n := Or.inl rfl

theorem finish_node (w : World) (tid : Nat) (r : Res) (n : Nat) : (finish w tid r).1.node n = w.node n := rfl

theorem monLoop_node (w : World) (tid n : Nat) (l : List (Name × Nat)) (m : Nat) :
    (monLoop w tid n l).1.node m = w.node m := by
  induction l generalizing w with
  | nil => rfl
  | cons p r ih =>
    obtain ⟨topic, seg⟩ := p
    unfold monLoop
    simp only
    split
    · exact ih w
    · rfl

theorem getLoop_core (w : World) (tid n : Nat) (topic : Name) (seg del : Nat) (m : Nat) :
    core ((getLoop w tid n topic seg del).1.node m) = core (w.node m) := by
  unfold getLoop
  simp only
  split
  · show core (({ (w.setNode n _) with tasks := _ } : World).node m) = _
    show core ((w.setNode n _).node m) = _
    rw [node_setNode]; by_cases h : n = m <;> simp [h, core]
  · split
    · show core ((w.setNode n _).node m) = _
      rw [node_setNode]; by_cases h : n = m <;> simp [h, core]
    · rfl

/-- setting a node to a state with the same `core` does not change anybody's `core` -/
theorem core_setNode_same (w : World) (e : Nat) (s : NodeSt) (m : Nat) (h : core s = core (w.node e)) :
    core ((w.setNode e s).node m) = core (w.node m) := by
  rw [node_setNode]; by_cases he : e = m
  · subst he; simp [h]
  · simp [he]

theorem core_setNode_refresh (w : World) (e : Nat) (m : Nat) :
    CoreStep (w.node m) ((w.setNode e (updateLeases (w.node e) e)).node m) m := by
  rw [node_setNode]; by_cases he : e = m
  · subst he; simp only [if_true]; exact Or.inr rfl
  · simp only [he, if_false]; exact Or.inl rfl

theorem stepTask_core (w : World) (tid m : Nat) : CoreStep (w.node m) ((stepTask w tid).1.node m) m := by
  unfold stepTask
  split
  · exact coreStep_refl _ _
  · exact coreStep_refl _ _
  · -- putStart
    rename_i n topic x _
    split
    · exact coreStep_refl _ _
    · rename_i ts _
      simp only
      split
      · exact coreStep_refl _ _
      · exact core_setNode_refresh w ts.leaderNode m
  · -- putRefreshed
    rename_i c _
    simp only
    split
    · exact coreStep_refl _ _
    · split
      · exact core_setNode_refresh w c.e m
      · exact core_setNode_refresh w c.e m
  · -- putChecked
    rename_i c _
    simp only
    split
    · exact coreStep_refl _ _
    · exact Or.inl (core_setNode_same w c.e _ m rfl)
  · -- putLocked
    rename_i c _
    exact Or.inl (core_setNode_same w c.e _ m rfl)
  · -- putWritten
    rename_i c _
    exact Or.inl (core_setNode_same w c.e _ m rfl)
  · exact coreStep_refl _ _
  · -- putCounted
    rename_i c cnt _
    split
    · exact coreStep_refl _ _
    · exact coreStep_refl _ _
  · -- putAwait
    split
    · exact coreStep_refl _ _
    · exact coreStep_refl _ _
  · -- getStart
    rename_i n topic _
    simp only
    split
    · exact coreStep_refl _ _
    · refine Or.inl ?_
      rw [getLoop_core]
      exact core_setNode_same w n _ m rfl
  · -- getPlanned
    rename_i n topic seg del cur leader _
    simp only
    split
    · exact Or.inl (core_setNode_same w n _ m rfl)
    · split
      · refine Or.inl ?_
        show core (((w.setNode leader _).setNode n _).node m) = _
        rw [node_setNode]
        by_cases h1 : n = m
        · subst h1
          simp only [if_true, core]
          rw [node_setNode]
          by_cases h2 : leader = n <;> simp [h2]
        · simp only [h1, if_false]
          rw [node_setNode]
          by_cases h2 : leader = m <;> simp [h2, core]
      · split
        · exact Or.inl (getLoop_core w tid n topic (seg + 1) 0 m)
        · exact Or.inl (core_setNode_same w n _ m rfl)
  · exact coreStep_refl _ _
  · -- monTick
    rename_i n _
    exact Or.inl (by rw [monLoop_node])
  · -- monAwait
    rename_i n idx rest _
    split
    · exact Or.inl (by rw [monLoop_node])
    · exact coreStep_refl _ _

/-! ### association-map facts used for the metadata -/

theorem erase_cons_eq {κ ν : Type} [DecidableEq κ] (k' : κ) (v' : ν) (r : AMap κ ν) (k : κ) (hk : k' = k) :
    AMap.erase ((k', v') :: r) k = AMap.erase r k := by
  show (if k' = k then AMap.erase r k else (k', v') :: AMap.erase r k) = _
  rw [if_pos hk]

theorem erase_cons_ne {κ ν : Type} [DecidableEq κ] (k' : κ) (v' : ν) (r : AMap κ ν) (k : κ) (hk : ¬ k' = k) :
    AMap.erase ((k', v') :: r) k = (k', v') :: AMap.erase r k := by
  show (if k' = k then AMap.erase r k else (k', v') :: AMap.erase r k) = _
  rw [if_neg hk]

theorem keys_cons {κ ν : Type} (k' : κ) (v' : ν) (r : AMap κ ν) : AMap.keys ((k', v') :: r) = k' :: AMap.keys r := rfl

theorem keys_erase_subset {κ ν : Type} [DecidableEq κ] (m : AMap κ ν) (k j : κ) (h : j ∈ (m.erase k).keys) : j ∈ m.keys ∧ j ≠ k := by
  induction m with
  | nil => simp [AMap.erase, AMap.keys] at h
  | cons p r ih =>
    obtain ⟨k', v'⟩ := p
    by_cases hk : k' = k
    · rw [erase_cons_eq k' v' r k hk] at h
      have := ih h
      rw [keys_cons]
      exact ⟨List.mem_cons_of_mem _ this.1, this.2⟩
    · rw [erase_cons_ne k' v' r k hk, keys_cons, List.mem_cons] at h
      rw [keys_cons]
      rcases h with h | h
      · subst h; exact ⟨List.mem_cons_self, hk⟩
      · have := ih h
        exact ⟨List.mem_cons_of_mem _ this.1, this.2⟩

theorem nodup_keys_erase {κ ν : Type} [DecidableEq κ] (m : AMap κ ν) (k : κ) (h : m.keys.Nodup) : (m.erase k).keys.Nodup := by
  induction m with
  | nil => simp [AMap.erase, AMap.keys]
  | cons p r ih =>
    obtain ⟨k', v'⟩ := p
    rw [keys_cons, List.nodup_cons] at h
    by_cases hk : k' = k
    · rw [erase_cons_eq k' v' r k hk]; exact ih h.2
    · rw [erase_cons_ne k' v' r k hk, keys_cons, List.nodup_cons]
      refine ⟨?_, ih h.2⟩
      intro hm
      exact h.1 (keys_erase_subset r k k' hm).1

theorem nodup_keys_insert {κ ν : Type} [DecidableEq κ] (m : AMap κ ν) (k : κ) (v : ν) (h : m.keys.Nodup) :
    (m.insert k v).keys.Nodup := by
  have h1 : (m.insert k v).keys = k :: (m.erase k).keys := rfl
  rw [h1, List.nodup_cons]
  exact ⟨fun hm => (keys_erase_subset m k k hm).2 rfl, nodup_keys_erase m k h⟩

theorem get?_of_mem_nodup {κ ν : Type} [DecidableEq κ] (m : List (κ × ν)) (k : κ) (v : ν) (hm : (k, v) ∈ m)
    (h : (AMap.keys (m : AMap κ ν)).Nodup) : AMap.get? (m : AMap κ ν) k = some v := by
  induction m with
  | nil => simp at hm
  | cons p r ih =>
    obtain ⟨k', v'⟩ := p
    simp only [AMap.keys, List.map_cons, List.nodup_cons] at h
    simp only [List.mem_cons, Prod.mk.injEq] at hm
    rcases hm with ⟨h1, h2⟩ | hm
    · subst h1; subst h2; simp [AMap.get?]
    · by_cases hk : k' = k
      · exfalso; subst hk
        exact h.1 (List.mem_map.mpr ⟨(k', v), hm, rfl⟩)
      · simp only [AMap.get?, hk, if_false]; exact ih hm h.2

def NodupKeys (m : Meta.ClusterState) : Prop := (AMap.keys m.topics).Nodup

theorem nodupKeys_applyCmd (m : Meta.ClusterState) (c : Meta.Cmd) (h : NodupKeys m) : NodupKeys (Meta.applyCmd m c).1 := by
  unfold NodupKeys at *
  cases c with
  | createTopic name leader =>
    simp only [Meta.applyCmd]
    split
    · exact h
    · exact nodup_keys_insert _ _ _ h
  | rolloverTopic name nl cnt =>
    simp only [Meta.applyCmd]
    split
    · exact h
    · split
      · exact nodup_keys_insert _ _ _ h
      · exact h
  | upsertNode id addr => exact h

/-- a leased key that comes from the metadata is a segment the metadata has open and assigns to the node -/
theorem ownsOpen_of_mem_ownedKeys (m : Meta.ClusterState) (n : Nat) (k : Key) (hn : NodupKeys m) (h : k ∈ ownedKeys m n) :
    ownsOpen m n k = true := by
  unfold ownedKeys at h
  rw [List.mem_map] at h
  obtain ⟨⟨name, ts⟩, hf, hk⟩ := h
  obtain ⟨hmem, hl⟩ := List.mem_filter.mp hf
  subst hk
  unfold ownsOpen
  simp only
  rw [get?_of_mem_nodup m.topics name ts hmem hn]
  simpa using hl

/-! ### the lease invariant -/

/-- per node: the metadata has one entry per topic; and a lease set that was refreshed at the current applied index is
exactly what that metadata prescribes -/
def NodeOk (s : NodeSt) (n : Nat) : Prop :=
  NodupKeys s.md ∧ s.leaseApplied ≤ s.applied ∧ (s.leaseApplied = s.applied → s.leases = ownedKeys s.md n)

theorem nodeOk_coreStep (s s' : NodeSt) (n : Nat) (hs : NodeOk s n) (h : CoreStep s s' n) : NodeOk s' n := by
  rcases h with h | h
  · simp only [core, Prod.mk.injEq] at h
    obtain ⟨h1, h2, h3, h4⟩ := h
    unfold NodeOk at *
    rw [h1, h2, h3, h4]; exact hs
  · simp only [core, updateLeases, Prod.mk.injEq] at h
    obtain ⟨h1, h2, h3, h4⟩ := h
    unfold NodeOk at *
    rw [h1, h2, h3, h4]
    exact ⟨hs.1, Nat.le_refl _, fun _ => rfl⟩

def LeaseInv (w : World) : Prop := ∀ n, NodeOk (w.node n) n

theorem leaseInv_step (w : World) (tid : Nat) (h : LeaseInv w) : LeaseInv (stepTask w tid).1 :=
  fun n => nodeOk_coreStep _ _ n (h n) (stepTask_core w tid n)

theorem leaseInv_applyNext (w : World) (n : Nat) (h : LeaseInv w) : LeaseInv (applyNext w n).1 := by
  unfold applyNext
  simp only
  split
  · exact h
  · rename_i c _
    intro m
    rw [node_setNode]
    by_cases hm : n = m
    · subst hm
      simp only [if_true]
      obtain ⟨h1, h2, _⟩ := h n
      exact ⟨nodupKeys_applyCmd _ _ h1, Nat.le_succ_of_le h2, fun he => by simp only at he; omega⟩
    · simp only [hm, if_false]; exact h m

theorem leaseInv_act (w : World) (a : Act) (h : LeaseInv w) : LeaseInv (act w a) := by
  cases a with
  | step tid => exact leaseInv_step w tid h
  | apply n => exact leaseInv_applyNext w n h
  | sync n =>
    intro m
    show NodeOk ((w.setNode n (updateLeases (w.node n) n)).node m) m
    exact nodeOk_coreStep _ _ m (h m) (core_setNode_refresh w n m)
  | spawn tid t => exact h

theorem leaseInv_runActs (w : World) (as : List Act) (h : LeaseInv w) : LeaseInv (runActs w as) := by
  induction as generalizing w with
  | nil => exact h
  | cons a r ih => exact ih _ (leaseInv_act w a h)

theorem leaseInv_applyAllOn (w : World) (n fuel : Nat) (h : LeaseInv w) : LeaseInv (applyAllOn w n fuel) := by
  induction fuel generalizing w with
  | zero => exact h
  | succ k ih =>
    unfold applyAllOn
    have := leaseInv_applyNext w n h
    split
    · rename_i w' _ heq
      rw [heq] at this
      exact ih _ this
    · rename_i w' heq
      rw [heq] at this
      exact this

theorem leaseInv_applyAll (w : World) (h : LeaseInv w) : LeaseInv (applyAll w) := by
  unfold applyAll
  have : ∀ (l : List Nat) (w : World), LeaseInv w →
      LeaseInv (l.foldl (fun w n => applyAllOn w n (w.log.length + 1)) w) := by
    intro l
    induction l with
    | nil => intro w h; exact h
    | cons a r ih => intro w h; exact ih _ (leaseInv_applyAllOn w a _ h)
  exact this _ w h

theorem nodeOk_default (n : Nat) : NodeOk {} n := by
  refine ⟨?_, Nat.le_refl _, fun _ => rfl⟩
  simp [NodupKeys, Meta.ClusterState.init, AMap.empty, AMap.keys]

theorem node_of_blank (ids : List Nat) (m : Nat) :
    ((ids.foldl (fun (mp : AMap Nat NodeSt) i => mp.insert i {}) AMap.empty).get? m).getD {} = ({} : NodeSt) := by
  have : ∀ (mp : AMap Nat NodeSt), (mp.get? m).getD {} = ({} : NodeSt) →
      ((ids.foldl (fun (mp : AMap Nat NodeSt) i => mp.insert i {}) mp).get? m).getD {} = ({} : NodeSt) := by
    induction ids with
    | nil => intro mp h; exact h
    | cons a r ih =>
      intro mp h
      apply ih
      rw [AMap.get?_insert]
      by_cases ha : a = m <;> simp [ha, h]
  exact this _ rfl

theorem leaseInv_initWorld (n thresh : Nat) : LeaseInv (initWorld n thresh) := by
  unfold initWorld
  apply leaseInv_applyAll
  intro m
  unfold World.node
  simp only
  rw [node_of_blank]
  exact nodeOk_default m

theorem leaseInv_createTopic (w : World) (name : Name) (l : Nat) (h : LeaseInv w) : LeaseInv (createTopic w name l) := by
  unfold createTopic
  apply leaseInv_applyAll
  exact h

/-! ### writes -/

theorem finish_writes (w : World) (tid : Nat) (r : Res) : (finish w tid r).1.writes = w.writes := rfl

theorem monLoop_writes (w : World) (tid n : Nat) (l : List (Name × Nat)) : (monLoop w tid n l).1.writes = w.writes := by
  induction l generalizing w with
  | nil => rfl
  | cons p r ih =>
    obtain ⟨topic, seg⟩ := p
    unfold monLoop
    simp only
    split
    · exact ih w
    · rfl

theorem getLoop_writes (w : World) (tid n : Nat) (topic : Name) (seg del : Nat) :
    (getLoop w tid n topic seg del).1.writes = w.writes := by
  unfold getLoop
  simp only
  split
  · rfl
  · split <;> rfl

/-- the write event a task at `locked` produces -/
def writeEvOf (w : World) (c : PutCtx) : WriteEv :=
  let s := w.node c.e
  ⟨c.e, c.key, c.payload, ownsOpen s.md c.e c.key, decide (s.leaseApplied = s.applied) && s.leases.contains c.key⟩

theorem stepTask_writes (w : World) (tid : Nat) :
    (stepTask w tid).1.writes = w.writes ∨
    ∃ c, w.tasks.get? tid = some (.putLocked c) ∧ (stepTask w tid).1.writes = w.writes ++ [writeEvOf w c] := by
  unfold stepTask
  split
  · exact Or.inl rfl
  · exact Or.inl rfl
  · split
    · exact Or.inl rfl
    · simp only; split <;> exact Or.inl rfl
  · simp only; split
    · exact Or.inl rfl
    · split <;> exact Or.inl rfl
  · simp only; split <;> exact Or.inl rfl
  · rename_i c hc
    exact Or.inr ⟨c, hc, rfl⟩
  · exact Or.inl rfl
  · exact Or.inl rfl
  · split <;> exact Or.inl rfl
  · split <;> exact Or.inl rfl
  · simp only; split
    · exact Or.inl rfl
    · exact Or.inl (by rw [getLoop_writes]; rfl)
  · simp only; split
    · exact Or.inl rfl
    · split
      · exact Or.inl rfl
      · split
        · exact Or.inl (getLoop_writes _ _ _ _ _ _)
        · exact Or.inl rfl
  · exact Or.inl rfl
  · exact Or.inl (monLoop_writes _ _ _ _)
  · split
    · exact Or.inl (monLoop_writes _ _ _ _)
    · exact Or.inl rfl

/-- every write made under a current lease set is a write into a segment the node's applied metadata has open and
assigns to it -/
def WritesOk (w : World) : Prop := ∀ ev ∈ w.writes, ev.leasesCurrent = true → ev.ownedAtWrite = true

theorem writeEvOf_ok (w : World) (c : PutCtx) (h : LeaseInv w) :
    (writeEvOf w c).leasesCurrent = true → (writeEvOf w c).ownedAtWrite = true := by
  intro hc
  simp only [writeEvOf, Bool.and_eq_true, decide_eq_true_eq] at hc
  obtain ⟨hf, hm⟩ := hc
  obtain ⟨h1, _, h3⟩ := h c.e
  have hmem : c.key ∈ (w.node c.e).leases := by simpa using hm
  rw [h3 hf] at hmem
  exact ownsOpen_of_mem_ownedKeys _ _ _ h1 hmem

theorem writesOk_step (w : World) (tid : Nat) (hi : LeaseInv w) (h : WritesOk w) : WritesOk (stepTask w tid).1 := by
  rcases stepTask_writes w tid with hw | ⟨c, _, hw⟩
  · unfold WritesOk; rw [hw]; exact h
  · unfold WritesOk; rw [hw]
    intro ev hev
    rw [List.mem_append] at hev
    rcases hev with hev | hev
    · exact h ev hev
    · simp only [List.mem_singleton] at hev
      subst hev
      exact writeEvOf_ok w c hi

theorem applyNext_writes (w : World) (n : Nat) : (applyNext w n).1.writes = w.writes := by
  unfold applyNext; simp only; split <;> rfl

theorem writesOk_act (w : World) (a : Act) (hi : LeaseInv w) (h : WritesOk w) : WritesOk (act w a) := by
  cases a with
  | step tid => exact writesOk_step w tid hi h
  | apply n => unfold WritesOk; show ∀ ev ∈ (applyNext w n).1.writes, _; rw [applyNext_writes]; exact h
  | sync n => exact h
  | spawn tid t => exact h

theorem writesOk_runActs (w : World) (as : List Act) (hi : LeaseInv w) (h : WritesOk w) : WritesOk (runActs w as) := by
  induction as generalizing w with
  | nil => exact h
  | cons a r ih => exact ih _ (leaseInv_act w a hi) (writesOk_act w a hi h)

/-! ### queues, writes and deliveries (C22) -/

def qOf (w : World) (e : Nat) (k : Key) : Queue := ((w.node e).queues.get? k).getD {}

/-- how one step may change queues, `writes` and `delivered` -/
inductive QStep (w w' : World) : Prop where
  | same (hq : ∀ e, (w'.node e).queues = (w.node e).queues) (hw : w'.writes = w.writes) (hd : w'.delivered = w.delivered)
  | write (c : PutCtx) (hw : w'.writes = w.writes ++ [writeEvOf w c]) (hd : w'.delivered = w.delivered)
      (hq : ∀ e, (w'.node e).queues =
        if c.e = e then (w.node e).queues.insert c.key { (qOf w c.e c.key) with entries := (qOf w c.e c.key).entries ++ [c.payload] }
        else (w.node e).queues)
  | deliver (l : Nat) (k : Key) (x : Payload) (hx : (qOf w l k).entries[(qOf w l k).consumed]? = some x)
      (hw : w'.writes = w.writes) (hd : w'.delivered = w.delivered ++ [(l, k, x)])
      (hq : ∀ e, (w'.node e).queues =
        if l = e then (w.node e).queues.insert k { (qOf w l k) with consumed := (qOf w l k).consumed + 1 }
        else (w.node e).queues)

theorem queues_setNode_same (w : World) (e : Nat) (s : NodeSt) (m : Nat) (h : s.queues = (w.node e).queues) :
    ((w.setNode e s).node m).queues = (w.node m).queues := by
  rw [node_setNode]; by_cases he : e = m
  · subst he; simp [h]
  · simp [he]

theorem getLoop_q (w : World) (tid n : Nat) (topic : Name) (seg del : Nat) :
    (∀ e, ((getLoop w tid n topic seg del).1.node e).queues = (w.node e).queues) ∧
    (getLoop w tid n topic seg del).1.writes = w.writes ∧ (getLoop w tid n topic seg del).1.delivered = w.delivered := by
  unfold getLoop
  simp only
  split
  · exact ⟨fun e => queues_setNode_same w n _ e rfl, rfl, rfl⟩
  · split
    · exact ⟨fun e => queues_setNode_same w n _ e rfl, rfl, rfl⟩
    · exact ⟨fun e => rfl, rfl, rfl⟩

theorem monLoop_q (w : World) (tid n : Nat) (l : List (Name × Nat)) :
    (∀ e, ((monLoop w tid n l).1.node e).queues = (w.node e).queues) ∧
    (monLoop w tid n l).1.writes = w.writes ∧ (monLoop w tid n l).1.delivered = w.delivered := by
  induction l generalizing w with
  | nil => exact ⟨fun e => rfl, rfl, rfl⟩
  | cons p r ih =>
    obtain ⟨topic, seg⟩ := p
    unfold monLoop
    simp only
    split
    · exact ih w
    · exact ⟨fun e => rfl, rfl, rfl⟩

theorem qstep_same_of (w w' : World) (h : (∀ e, (w'.node e).queues = (w.node e).queues) ∧ w'.writes = w.writes ∧ w'.delivered = w.delivered) :
    QStep w w' := QStep.same h.1 h.2.1 h.2.2

theorem stepTask_qstep (w : World) (tid : Nat) : QStep w (stepTask w tid).1 := by
  unfold stepTask
  split
  · exact .same (fun _ => rfl) rfl rfl
  · exact .same (fun _ => rfl) rfl rfl
  · -- putStart
    split
    · exact .same (fun _ => rfl) rfl rfl
    · simp only
      split
      · exact .same (fun _ => rfl) rfl rfl
      · rename_i ts _ _
        exact .same (fun e => queues_setNode_same w ts.leaderNode _ e rfl) rfl rfl
  · -- putRefreshed
    rename_i c _
    simp only
    split
    · exact .same (fun _ => rfl) rfl rfl
    · split
      · exact .same (fun e => queues_setNode_same w c.e _ e rfl) rfl rfl
      · exact .same (fun e => queues_setNode_same w c.e _ e rfl) rfl rfl
  · -- putChecked
    rename_i c _
    simp only
    split
    · exact .same (fun _ => rfl) rfl rfl
    · exact .same (fun e => queues_setNode_same w c.e _ e rfl) rfl rfl
  · -- putLocked
    rename_i c _
    refine .write c rfl rfl ?_
    intro e
    show ((w.setNode c.e _).node e).queues = _
    rw [node_setNode]
    by_cases he : c.e = e
    · subst he; simp [qOf]
    · simp [he]
  · -- putWritten
    rename_i c _
    exact .same (fun e => queues_setNode_same w c.e _ e rfl) rfl rfl
  · exact .same (fun _ => rfl) rfl rfl
  · split <;> exact .same (fun _ => rfl) rfl rfl
  · split <;> exact .same (fun _ => rfl) rfl rfl
  · -- getStart
    rename_i n topic _
    simp only
    split
    · exact .same (fun _ => rfl) rfl rfl
    · have h := getLoop_q (w.setNode n { (w.node n) with cursorLocked := true }) tid n topic
        (((w.node n).cursors.get? topic).getD (0, 0)).1 (((w.node n).cursors.get? topic).getD (0, 0)).2
      exact .same (fun e => (h.1 e).trans (queues_setNode_same w n _ e rfl)) h.2.1 h.2.2
  · -- getPlanned
    rename_i n topic seg del cur leader _
    simp only
    split
    · exact .same (fun e => queues_setNode_same w n _ e rfl) rfl rfl
    · split
      · rename_i x hpop
        -- a delivery
        have hx : (qOf w leader (topic, seg)).entries[(qOf w leader (topic, seg)).consumed]? = some x := by
          unfold Queue.pop at hpop
          split at hpop
          · rename_i y hy
            simp only [Option.some.injEq] at hpop
            rw [← hpop]; exact hy
          · simp at hpop
        have hq' : (((w.node leader).queues.get? (topic, seg)).getD {}).pop.2 =
            { (qOf w leader (topic, seg)) with consumed := (qOf w leader (topic, seg)).consumed + 1 } := by
          unfold Queue.pop
          unfold qOf at hx
          rw [hx]
          rfl
        refine .deliver leader (topic, seg) x hx rfl rfl ?_
        intro e
        show (((w.setNode leader _).setNode n _).node e).queues = _
        rw [node_setNode]
        by_cases h1 : n = e
        · subst h1
          simp only [if_true]
          rw [node_setNode]
          by_cases h2 : leader = n
          · subst h2; simp only [if_true]; rw [hq']
          · simp only [h2, if_false]
        · simp only [h1, if_false]
          rw [node_setNode]
          by_cases h2 : leader = e
          · subst h2; simp only [if_true]; rw [hq']
          · simp only [h2, if_false]
      · split
        · exact qstep_same_of _ _ (getLoop_q w tid n topic (seg + 1) 0)
        · exact .same (fun e => queues_setNode_same w n _ e rfl) rfl rfl
  · exact .same (fun _ => rfl) rfl rfl
  · exact qstep_same_of _ _ (monLoop_q _ _ _ _)
  · split
    · exact qstep_same_of _ _ (monLoop_q _ _ _ _)
    · exact .same (fun _ => rfl) rfl rfl

/-- payloads delivered from the queue of (node `e`, wal key `k`), in delivery order -/
def dFrom (w : World) (e : Nat) (k : Key) : List Payload :=
  (w.delivered.filter (fun d => d.1 == e && d.2.1 == k)).map (·.2.2)
/-- payloads written to that queue, in write order -/
def wTo (w : World) (e : Nat) (k : Key) : List Payload :=
  (w.writes.filter (fun ev => ev.node == e && ev.key == k)).map (·.payload)

/-- per queue: it holds exactly what was written to it, in order; what was delivered from it is exactly its consumed
prefix, in order -/
def QInv (w : World) : Prop :=
  ∀ e k, (qOf w e k).entries = wTo w e k ∧ dFrom w e k = (qOf w e k).entries.take (qOf w e k).consumed ∧
    (qOf w e k).consumed ≤ (qOf w e k).entries.length

theorem take_succ_of_getElem? {α : Type} (l : List α) (n : Nat) (x : α) (h : l[n]? = some x) :
    l.take (n + 1) = l.take n ++ [x] := by
  induction l generalizing n with
  | nil => simp at h
  | cons a r ih =>
    cases n with
    | zero => simp at h; subst h; simp
    | succ m => simp at h; simp [ih m h]

theorem qinv_qstep (w w' : World) (h : QInv w) (hs : QStep w w') : QInv w' := by
  cases hs with
  | same hq hw hd =>
    intro e k
    have : qOf w' e k = qOf w e k := by unfold qOf; rw [hq e]
    unfold dFrom wTo
    rw [this, hw, hd]
    exact h e k
  | write c hw hd hq =>
    intro e k
    obtain ⟨h1, h2, h3⟩ := h e k
    have hd' : dFrom w' e k = dFrom w e k := by unfold dFrom; rw [hd]
    have hw' : wTo w' e k = wTo w e k ++ (if c.e = e ∧ c.key = k then [c.payload] else []) := by
      unfold wTo
      rw [hw, List.filter_append, List.map_append]
      congr 1
      simp only [writeEvOf, List.filter_cons, List.filter_nil]
      by_cases h4 : c.e = e ∧ c.key = k
      · obtain ⟨h5, h6⟩ := h4; subst h5; subst h6; simp
      · simp only [h4, if_false]
        have : (c.e == e && c.key == k) = false := by
          rw [Bool.and_eq_false_iff]
          by_cases h5 : c.e = e
          · right; simpa using fun h6 => h4 ⟨h5, h6⟩
          · left; simpa using h5
        simp [this]
    by_cases h4 : c.e = e ∧ c.key = k
    · obtain ⟨h5, h6⟩ := h4
      subst h5; subst h6
      have hq' : qOf w' c.e c.key = { (qOf w c.e c.key) with entries := (qOf w c.e c.key).entries ++ [c.payload] } := by
        unfold qOf; rw [hq c.e]; simp [qOf]
      rw [hd', hw', hq']
      simp only [and_self, if_true]
      refine ⟨by rw [h1], ?_, by simp only [List.length_append, List.length_singleton]; omega⟩
      rw [List.take_append_of_le_length h3]; exact h2
    · have hq' : qOf w' e k = qOf w e k := by
        unfold qOf; rw [hq e]
        by_cases h5 : c.e = e
        · subst h5
          simp only [if_true]
          rw [AMap.get?_insert_ne _ _ _ _ (fun h6 => h4 ⟨rfl, h6⟩)]
        · simp only [h5, if_false]
      rw [hd', hw', hq']
      simp only [h4, if_false, List.append_nil]
      exact ⟨h1, h2, h3⟩
  | deliver l k0 x hx hw hd hq =>
    intro e k
    obtain ⟨h1, h2, h3⟩ := h e k
    have hw' : wTo w' e k = wTo w e k := by unfold wTo; rw [hw]
    have hd' : dFrom w' e k = dFrom w e k ++ (if l = e ∧ k0 = k then [x] else []) := by
      unfold dFrom
      rw [hd, List.filter_append, List.map_append]
      congr 1
      simp only [List.filter_cons, List.filter_nil]
      by_cases h4 : l = e ∧ k0 = k
      · obtain ⟨h5, h6⟩ := h4; subst h5; subst h6; simp
      · simp only [h4, if_false]
        have : (l == e && k0 == k) = false := by
          rw [Bool.and_eq_false_iff]
          by_cases h5 : l = e
          · right; simpa using fun h6 => h4 ⟨h5, h6⟩
          · left; simpa using h5
        simp [this]
    by_cases h4 : l = e ∧ k0 = k
    · obtain ⟨h5, h6⟩ := h4
      subst h5; subst h6
      have hq' : qOf w' l k0 = { (qOf w l k0) with consumed := (qOf w l k0).consumed + 1 } := by
        unfold qOf; rw [hq l]; simp [qOf]
      rw [hd', hw', hq']
      simp only [and_self, if_true]
      refine ⟨h1, ?_, ?_⟩
      · rw [take_succ_of_getElem? _ _ _ hx, h2]
      · have := List.getElem?_eq_some_iff.mp hx
        obtain ⟨hlt, _⟩ := this
        exact hlt
    · have hq' : qOf w' e k = qOf w e k := by
        unfold qOf; rw [hq e]
        by_cases h5 : l = e
        · subst h5
          simp only [if_true]
          rw [AMap.get?_insert_ne _ _ _ _ (fun h6 => h4 ⟨rfl, h6⟩)]
        · simp only [h5, if_false]
      rw [hd', hw', hq']
      simp only [h4, if_false, List.append_nil]
      exact ⟨h1, h2, h3⟩

theorem applyNext_q (w : World) (n : Nat) : QStep w (applyNext w n).1 := by
  unfold applyNext
  simp only
  split
  · exact .same (fun _ => rfl) rfl rfl
  · exact .same (fun e => queues_setNode_same w n _ e rfl) rfl rfl

theorem qinv_act (w : World) (a : Act) (h : QInv w) : QInv (act w a) := by
  cases a with
  | step tid => exact qinv_qstep _ _ h (stepTask_qstep w tid)
  | apply n => exact qinv_qstep _ _ h (applyNext_q w n)
  | sync n => exact qinv_qstep _ _ h (.same (fun e => queues_setNode_same w n _ e rfl) rfl rfl)
  | spawn tid t => exact qinv_qstep _ _ h (.same (fun _ => rfl) rfl rfl)

theorem qinv_runActs (w : World) (as : List Act) (h : QInv w) : QInv (runActs w as) := by
  induction as generalizing w with
  | nil => exact h
  | cons a r ih => exact ih _ (qinv_act w a h)

theorem qinv_applyAllOn (w : World) (n fuel : Nat) (h : QInv w) : QInv (applyAllOn w n fuel) := by
  induction fuel generalizing w with
  | zero => exact h
  | succ k ih =>
    unfold applyAllOn
    have := qinv_qstep _ _ h (applyNext_q w n)
    split
    · rename_i w' _ heq; rw [heq] at this; exact ih _ this
    · rename_i w' heq; rw [heq] at this; exact this

theorem qinv_applyAll (w : World) (h : QInv w) : QInv (applyAll w) := by
  unfold applyAll
  have : ∀ (l : List Nat) (w : World), QInv w → QInv (l.foldl (fun w n => applyAllOn w n (w.log.length + 1)) w) := by
    intro l
    induction l with
    | nil => intro w h; exact h
    | cons a r ih => intro w h; exact ih _ (qinv_applyAllOn w a _ h)
  exact this _ w h

theorem qinv_initWorld (n thresh : Nat) : QInv (initWorld n thresh) := by
  unfold initWorld
  apply qinv_applyAll
  intro e k
  have : qOf { nodeIds := (List.range n).map (· + 1), thresh := thresh,
               nodes := ((List.range n).map (· + 1)).foldl (fun m i => m.insert i {}) AMap.empty,
               log := ((List.range n).map (· + 1)).map fun i => Meta.Cmd.upsertNode i (addrOf i) } e k = {} := by
    unfold qOf World.node
    simp only
    rw [node_of_blank]
    rfl
  rw [this]
  exact ⟨rfl, rfl, Nat.le_refl _⟩

theorem qinv_createTopic (w : World) (name : Name) (l : Nat) (h : QInv w) : QInv (createTopic w name l) := by
  unfold createTopic
  apply qinv_applyAll
  intro e k
  exact h e k

/-! ### acknowledged PUTs are stored (C22) -/

/-- the payload a PUT task has already written -/
def holds : Task → Option Payload
  | .putWritten c => some c.payload
  | .putRecorded c => some c.payload
  | .putCounted c _ => some c.payload
  | .putAwait _ x => some x
  | _ => none

def Stored (w : World) (x : Payload) : Prop := ∃ ev ∈ w.writes, ev.payload = x

/-- what one step does to the task table, the acknowledgement list and `writes` -/
structure TStep (w w' : World) (tid : Nat) : Prop where
  mono : ∀ x, Stored w x → Stored w' x
  tasks : w'.tasks = w.tasks ∨ ∃ t', w'.tasks = w.tasks.insert tid t' ∧
    (∀ x, holds t' = some x → Stored w' x)
  acked : w'.acked = w.acked ∨ ∃ x, w'.acked = w.acked ++ [x] ∧ ∃ t, w.tasks.get? tid = some t ∧ holds t = some x

theorem getLoop_t (w : World) (tid n : Nat) (topic : Name) (seg del : Nat) :
    (getLoop w tid n topic seg del).1.writes = w.writes ∧ (getLoop w tid n topic seg del).1.acked = w.acked ∧
    ∃ t', (getLoop w tid n topic seg del).1.tasks = w.tasks.insert tid t' ∧ holds t' = none := by
  unfold getLoop
  simp only
  split
  · exact ⟨rfl, rfl, _, rfl, rfl⟩
  · split
    · exact ⟨rfl, rfl, _, rfl, rfl⟩
    · exact ⟨rfl, rfl, _, rfl, rfl⟩

theorem monLoop_t (w : World) (tid n : Nat) (l : List (Name × Nat)) :
    (monLoop w tid n l).1.writes = w.writes ∧ (monLoop w tid n l).1.acked = w.acked ∧
    ∃ t', (monLoop w tid n l).1.tasks = w.tasks.insert tid t' ∧ holds t' = none := by
  induction l generalizing w with
  | nil => exact ⟨rfl, rfl, _, rfl, rfl⟩
  | cons p r ih =>
    obtain ⟨topic, seg⟩ := p
    unfold monLoop
    simp only
    split
    · exact ih w
    · exact ⟨rfl, rfl, _, rfl, rfl⟩

theorem tstep_of_none (w w' : World) (tid : Nat) (hw : w'.writes = w.writes) (ha : w'.acked = w.acked)
    (ht : w'.tasks = w.tasks ∨ ∃ t', w'.tasks = w.tasks.insert tid t' ∧ holds t' = none) : TStep w w' tid := by
  refine ⟨fun x h => by unfold Stored at *; rw [hw]; exact h, ?_, Or.inl ha⟩
  rcases ht with ht | ⟨t', ht, hn⟩
  · exact Or.inl ht
  · exact Or.inr ⟨t', ht, fun x hx => by rw [hn] at hx; cases hx⟩

/-- a task that keeps holding the payload it already held -/
theorem tstep_keep (w w' : World) (tid : Nat) (t t' : Task) (hw : w'.writes = w.writes) (ha : w'.acked = w.acked)
    (hcur : w.tasks.get? tid = some t) (ht : w'.tasks = w.tasks.insert tid t') (hh : ∀ x, holds t' = some x → holds t = some x)
    (hinv : ∀ x, holds t = some x → Stored w x) : TStep w w' tid := by
  refine ⟨fun x h => by unfold Stored at *; rw [hw]; exact h, Or.inr ⟨t', ht, ?_⟩, Or.inl ha⟩
  intro x hx
  have := hinv x (hh x hx)
  unfold Stored at *; rw [hw]; exact this

theorem stepTask_tstep (w : World) (tid : Nat)
    (hinv : ∀ t, w.tasks.get? tid = some t → ∀ x, holds t = some x → Stored w x) : TStep w (stepTask w tid).1 tid := by
  unfold stepTask
  split
  · exact tstep_of_none _ _ _ rfl rfl (Or.inl rfl)
  · exact tstep_of_none _ _ _ rfl rfl (Or.inl rfl)
  · -- putStart
    split
    · exact tstep_of_none _ _ _ rfl rfl (Or.inr ⟨_, rfl, rfl⟩)
    · simp only
      split
      · exact tstep_of_none _ _ _ rfl rfl (Or.inr ⟨_, rfl, rfl⟩)
      · exact tstep_of_none _ _ _ rfl rfl (Or.inr ⟨_, rfl, rfl⟩)
  · -- putRefreshed
    simp only
    split
    · exact tstep_of_none _ _ _ rfl rfl (Or.inr ⟨_, rfl, rfl⟩)
    · split
      · exact tstep_of_none _ _ _ rfl rfl (Or.inr ⟨_, rfl, rfl⟩)
      · exact tstep_of_none _ _ _ rfl rfl (Or.inr ⟨_, rfl, rfl⟩)
  · -- putChecked
    simp only
    split
    · exact tstep_of_none _ _ _ rfl rfl (Or.inl rfl)
    · exact tstep_of_none _ _ _ rfl rfl (Or.inr ⟨_, rfl, rfl⟩)
  · -- putLocked: the write
    rename_i c hc
    refine ⟨?_, Or.inr ⟨.putWritten c, rfl, ?_⟩, Or.inl rfl⟩
    · intro x ⟨ev, hev, hx⟩
      exact ⟨ev, List.mem_append_left _ hev, hx⟩
    · intro x hx
      simp only [holds, Option.some.injEq] at hx
      exact ⟨_, List.mem_append_right _ (List.mem_singleton.mpr rfl), hx⟩
  · -- putWritten
    rename_i c hc
    exact tstep_keep _ _ _ _ (.putRecorded c) rfl rfl hc rfl (fun x h => h) (hinv _ hc)
  · -- putRecorded
    rename_i c hc
    exact tstep_keep _ _ _ _ (.putCounted c _) rfl rfl hc rfl (fun x h => h) (hinv _ hc)
  · -- putCounted
    rename_i c cnt hc
    split
    · refine ⟨fun x h => h, Or.inr ⟨.finished, rfl, fun x hx => by cases hx⟩, Or.inr ⟨c.payload, rfl, _, hc, rfl⟩⟩
    · exact tstep_keep _ _ _ _ (.putAwait _ c.payload) rfl rfl hc rfl (fun x h => h) (hinv _ hc)
  · -- putAwait
    rename_i idx x hc
    split
    · refine ⟨fun y h => h, Or.inr ⟨.finished, rfl, fun y hy => by cases hy⟩, Or.inr ⟨x, rfl, _, hc, rfl⟩⟩
    · exact tstep_of_none _ _ _ rfl rfl (Or.inl rfl)
  · -- getStart
    rename_i n topic _
    simp only
    split
    · exact tstep_of_none _ _ _ rfl rfl (Or.inl rfl)
    · have h := getLoop_t (w.setNode n { (w.node n) with cursorLocked := true }) tid n topic
        (((w.node n).cursors.get? topic).getD (0, 0)).1 (((w.node n).cursors.get? topic).getD (0, 0)).2
      exact tstep_of_none _ _ _ h.1 h.2.1 (Or.inr h.2.2)
  · -- getPlanned
    rename_i n topic seg del cur leader _
    simp only
    split
    · exact tstep_of_none _ _ _ rfl rfl (Or.inr ⟨_, rfl, rfl⟩)
    · split
      · exact tstep_of_none _ _ _ rfl rfl (Or.inr ⟨_, rfl, rfl⟩)
      · split
        · have h := getLoop_t w tid n topic (seg + 1) 0
          exact tstep_of_none _ _ _ h.1 h.2.1 (Or.inr h.2.2)
        · exact tstep_of_none _ _ _ rfl rfl (Or.inr ⟨_, rfl, rfl⟩)
  · exact tstep_of_none _ _ _ rfl rfl (Or.inr ⟨_, rfl, rfl⟩)
  · exact tstep_of_none _ _ _ (monLoop_t w tid _ _).1 (monLoop_t w tid _ _).2.1 (Or.inr (monLoop_t w tid _ _).2.2)
  · split
    · exact tstep_of_none _ _ _ (monLoop_t w tid _ _).1 (monLoop_t w tid _ _).2.1 (Or.inr (monLoop_t w tid _ _).2.2)
    · exact tstep_of_none _ _ _ rfl rfl (Or.inl rfl)

/-- every payload a task has written, and every acknowledged payload, is in `writes` -/
def AckInv (w : World) : Prop :=
  (∀ tid t, w.tasks.get? tid = some t → ∀ x, holds t = some x → Stored w x) ∧ (∀ x ∈ w.acked, Stored w x)

theorem ackInv_step (w : World) (tid : Nat) (h : AckInv w) : AckInv (stepTask w tid).1 := by
  obtain ⟨mono, ht, ha⟩ := stepTask_tstep w tid (fun t ht => h.1 tid t ht)
  constructor
  · intro tid' t hget x hx
    rcases ht with ht | ⟨t', ht, hs⟩
    · rw [ht] at hget; exact mono x (h.1 tid' t hget x hx)
    · rw [ht, AMap.get?_insert] at hget
      by_cases he : tid = tid'
      · simp only [he, if_true, Option.some.injEq] at hget
        subst hget; exact hs x hx
      · simp only [he, if_false] at hget
        exact mono x (h.1 tid' t hget x hx)
  · intro x hx
    rcases ha with ha | ⟨y, ha, t, hget, hy⟩
    · rw [ha] at hx; exact mono x (h.2 x hx)
    · rw [ha, List.mem_append] at hx
      rcases hx with hx | hx
      · exact mono x (h.2 x hx)
      · simp only [List.mem_singleton] at hx
        subst hx
        exact mono x (h.1 tid t hget x hy)

theorem ackInv_act (w : World) (a : Act) (hs : ∀ tid t, a = .spawn tid t → holds t = none) (h : AckInv w) : AckInv (act w a) := by
  cases a with
  | step tid => exact ackInv_step w tid h
  | apply n =>
    show AckInv (applyNext w n).1
    have hw := applyNext_writes w n
    have ht : (applyNext w n).1.tasks = w.tasks := by unfold applyNext; simp only; split <;> rfl
    have ha : (applyNext w n).1.acked = w.acked := by unfold applyNext; simp only; split <;> rfl
    unfold AckInv Stored at *
    rw [hw, ht, ha]; exact h
  | sync n => exact h
  | spawn tid t =>
    have hn := hs tid t rfl
    constructor
    · intro tid' t' hget x hx
      show Stored w x
      simp only [act] at hget
      rw [AMap.get?_insert] at hget
      by_cases he : tid = tid'
      · simp only [he, if_true, Option.some.injEq] at hget
        subst hget; rw [hn] at hx; cases hx
      · simp only [he, if_false] at hget
        exact h.1 tid' t' hget x hx
    · exact h.2

/-! ### appends in flight (C23: schedules whose applies are quiet) -/

/-- the node and key of a PUT task that is between its lease refresh and its write, and whether it has passed the check -/
def flightOn : Task → Option (Nat × Key × Bool)
  | .putRefreshed c => some (c.e, c.key, false)
  | .putChecked c => some (c.e, c.key, true)
  | .putLocked c => some (c.e, c.key, true)
  | _ => none

def freshNode (s : NodeSt) : Prop := s.leaseApplied = s.applied

/-- every append in flight runs on a node whose lease set is current, and once checked its key is in that set -/
def FlightInv (w : World) : Prop :=
  ∀ tid t, w.tasks.get? tid = some t → ∀ e k chk, flightOn t = some (e, k, chk) →
    freshNode (w.node e) ∧ (chk = true → k ∈ (w.node e).leases)

theorem fresh_coreStep (s s' : NodeSt) (n : Nat) (hs : NodeOk s n) (hf : freshNode s) (h : CoreStep s s' n) :
    freshNode s' ∧ s'.leases = s.leases := by
  rcases h with h | h
  · simp only [core, Prod.mk.injEq] at h
    obtain ⟨_, h2, h3, h4⟩ := h
    exact ⟨by unfold freshNode at *; rw [h4, h2]; exact hf, h3⟩
  · simp only [core, updateLeases, Prod.mk.injEq] at h
    obtain ⟨h1, h2, h3, h4⟩ := h
    refine ⟨by unfold freshNode; rw [h4, h2], ?_⟩
    rw [h3, hs.2.2 hf]

theorem getLoop_fl (w : World) (tid n : Nat) (topic : Name) (seg del : Nat) :
    ∃ t', (getLoop w tid n topic seg del).1.tasks = w.tasks.insert tid t' ∧ flightOn t' = none := by
  unfold getLoop
  simp only
  split
  · exact ⟨_, rfl, rfl⟩
  · split
    · exact ⟨_, rfl, rfl⟩
    · exact ⟨_, rfl, rfl⟩

theorem monLoop_fl (w : World) (tid n : Nat) (l : List (Name × Nat)) :
    ∃ t', (monLoop w tid n l).1.tasks = w.tasks.insert tid t' ∧ flightOn t' = none := by
  induction l generalizing w with
  | nil => exact ⟨_, rfl, rfl⟩
  | cons p r ih =>
    obtain ⟨topic, seg⟩ := p
    unfold monLoop
    simp only
    split
    · exact ih w
    · exact ⟨_, rfl, rfl⟩

/-- what a step does to the stepping task, as far as flights are concerned -/
inductive FStep (w w' : World) (tid : Nat) : Prop where
  | unchanged (h : w'.tasks = w.tasks)
  | landed (t' : Task) (h : w'.tasks = w.tasks.insert tid t') (hn : flightOn t' = none)
  | flying (t' : Task) (h : w'.tasks = w.tasks.insert tid t') (e : Nat) (k : Key) (chk : Bool)
      (hf : flightOn t' = some (e, k, chk)) (hfresh : freshNode (w'.node e)) (hmem : chk = true → k ∈ (w'.node e).leases)

theorem stepTask_fstep (w : World) (tid : Nat) (hF : FlightInv w) : FStep w (stepTask w tid).1 tid := by
  unfold stepTask
  split
  · exact .unchanged rfl
  · exact .unchanged rfl
  · -- putStart
    split
    · exact .landed _ rfl rfl
    · simp only
      split
      · exact .landed _ rfl rfl
      · rename_i ts _ _
        refine .flying _ rfl ts.leaderNode _ false rfl ?_ (fun h => by cases h)
        show freshNode ((w.setNode ts.leaderNode (updateLeases (w.node ts.leaderNode) ts.leaderNode)).node ts.leaderNode)
        rw [node_setNode]; simp [freshNode, updateLeases]
  · -- putRefreshed
    rename_i c hc
    have hold := hF tid _ hc c.e c.key false rfl
    simp only
    split
    · rename_i hmem
      refine .flying _ rfl c.e c.key true rfl hold.1 (fun _ => ?_)
      show c.key ∈ (w.node c.e).leases
      simpa using hmem
    · split
      · rename_i hmem
        refine .flying _ rfl c.e c.key true rfl ?_ ?_
        · show freshNode ((w.setNode c.e (updateLeases (w.node c.e) c.e)).node c.e)
          rw [node_setNode]; simp [freshNode, updateLeases]
        · intro _
          show c.key ∈ ((w.setNode c.e (updateLeases (w.node c.e) c.e)).node c.e).leases
          rw [node_setNode]; simp only [if_true]; simpa using hmem
      · exact .landed _ rfl rfl
  · -- putChecked
    rename_i c hc
    have hold := hF tid _ hc c.e c.key true rfl
    simp only
    split
    · exact .unchanged rfl
    · refine .flying _ rfl c.e c.key true rfl ?_ ?_
      · show freshNode ((w.setNode c.e _).node c.e)
        rw [node_setNode]; simp only [if_true]; exact hold.1
      · intro h
        show c.key ∈ ((w.setNode c.e _).node c.e).leases
        rw [node_setNode]; simp only [if_true]; exact hold.2 h
  · exact .landed _ rfl rfl
  · exact .landed _ rfl rfl
  · exact .landed _ rfl rfl
  · split
    · exact .landed _ rfl rfl
    · exact .landed _ rfl rfl
  · split
    · exact .landed _ rfl rfl
    · exact .unchanged rfl
  · -- getStart
    rename_i n topic _
    simp only
    split
    · exact .unchanged rfl
    · obtain ⟨t', h1, h2⟩ := getLoop_fl (w.setNode n { (w.node n) with cursorLocked := true }) tid n topic
        (((w.node n).cursors.get? topic).getD (0, 0)).1 (((w.node n).cursors.get? topic).getD (0, 0)).2
      exact .landed t' h1 h2
  · -- getPlanned
    rename_i n topic seg del cur leader _
    simp only
    split
    · exact .landed _ rfl rfl
    · split
      · exact .landed _ rfl rfl
      · split
        · obtain ⟨t', h1, h2⟩ := getLoop_fl w tid n topic (seg + 1) 0
          exact .landed t' h1 h2
        · exact .landed _ rfl rfl
  · exact .landed _ rfl rfl
  · obtain ⟨t', h1, h2⟩ := monLoop_fl w tid _ _
    exact .landed t' h1 h2
  · split
    · obtain ⟨t', h1, h2⟩ := monLoop_fl w tid _ _
      exact .landed t' h1 h2
    · exact .unchanged rfl

theorem flightInv_step (w : World) (tid : Nat) (hL : LeaseInv w) (hF : FlightInv w) : FlightInv (stepTask w tid).1 := by
  -- other tasks: their node's core is unchanged or refreshed, which keeps a current lease set as it is
  have others : ∀ tid' t, w.tasks.get? tid' = some t → ∀ e k chk, flightOn t = some (e, k, chk) →
      freshNode ((stepTask w tid).1.node e) ∧ (chk = true → k ∈ ((stepTask w tid).1.node e).leases) := by
    intro tid' t hget e k chk hfl
    obtain ⟨h1, h2⟩ := hF tid' t hget e k chk hfl
    obtain ⟨h3, h4⟩ := fresh_coreStep _ _ e (hL e) h1 (stepTask_core w tid e)
    exact ⟨h3, fun hc => by rw [h4]; exact h2 hc⟩
  intro tid' t hget e k chk hfl
  cases stepTask_fstep w tid hF with
  | unchanged h => rw [h] at hget; exact others tid' t hget e k chk hfl
  | landed t' h hn =>
    rw [h, AMap.get?_insert] at hget
    by_cases he : tid = tid'
    · simp only [he, if_true, Option.some.injEq] at hget
      subst hget; rw [hn] at hfl; cases hfl
    · simp only [he, if_false] at hget
      exact others tid' t hget e k chk hfl
  | flying t' h e' k' chk' hf hfresh hmem =>
    rw [h, AMap.get?_insert] at hget
    by_cases he : tid = tid'
    · simp only [he, if_true, Option.some.injEq] at hget
      subst hget
      rw [hf] at hfl
      simp only [Option.some.injEq, Prod.mk.injEq] at hfl
      obtain ⟨rfl, rfl, rfl⟩ := hfl
      exact ⟨hfresh, hmem⟩
    · simp only [he, if_false] at hget
      exact others tid' t hget e k chk hfl

/-- no append is in flight on node `n` -/
def quietOn (w : World) (n : Nat) : Prop :=
  ∀ tid t, w.tasks.get? tid = some t → ∀ e k chk, flightOn t = some (e, k, chk) → e ≠ n

/-- the schedule applies a log entry on a node only while no append is in flight there, and spawns tasks in their
initial states -/
def QuietSchedule : World → List Act → Prop
  | _, [] => True
  | w, a :: r =>
    (match a with
     | .apply n => quietOn w n
     | .spawn _ t => flightOn t = none ∧ holds t = none
     | _ => True) ∧ QuietSchedule (act w a) r

theorem flightInv_act (w : World) (a : Act) (hq : match a with
     | .apply n => quietOn w n
     | .spawn _ t => flightOn t = none ∧ holds t = none
     | _ => True) (hL : LeaseInv w) (hF : FlightInv w) : FlightInv (act w a) := by
  cases a with
  | step tid => exact flightInv_step w tid hL hF
  | apply n =>
    intro tid t hget e k chk hfl
    have ht : (applyNext w n).1.tasks = w.tasks := by unfold applyNext; simp only; split <;> rfl
    have hget' : w.tasks.get? tid = some t := by
      have : (act w (.apply n)).tasks = w.tasks := ht
      rw [this] at hget; exact hget
    have hne : e ≠ n := hq tid t hget' e k chk hfl
    have hnode : (act w (.apply n)).node e = w.node e := by
      show (applyNext w n).1.node e = w.node e
      unfold applyNext; simp only
      split
      · rfl
      · rw [node_setNode]; simp [Ne.symm hne]
    rw [hnode]; exact hF tid t hget' e k chk hfl
  | sync n =>
    intro tid t hget e k chk hfl
    have hget' : w.tasks.get? tid = some t := hget
    obtain ⟨h1, h2⟩ := hF tid t hget' e k chk hfl
    obtain ⟨h3, h4⟩ := fresh_coreStep _ _ e (hL e) h1 (core_setNode_refresh w n e)
    show freshNode ((w.setNode n (updateLeases (w.node n) n)).node e) ∧
      (chk = true → k ∈ ((w.setNode n (updateLeases (w.node n) n)).node e).leases)
    exact ⟨h3, fun hc => by rw [h4]; exact h2 hc⟩
  | spawn tid' t' =>
    intro tid t hget e k chk hfl
    simp only [act] at hget
    rw [AMap.get?_insert] at hget
    by_cases he : tid' = tid
    · simp only [he, if_true, Option.some.injEq] at hget
      subst hget; rw [hq.1] at hfl; cases hfl
    · simp only [he, if_false] at hget
      exact hF tid t hget e k chk hfl

/-- every write so far went into a segment the writing node's applied metadata had open and assigned to it -/
def AllOwned (w : World) : Prop := ∀ ev ∈ w.writes, ev.ownedAtWrite = true

theorem allOwned_step (w : World) (tid : Nat) (hL : LeaseInv w) (hF : FlightInv w) (h : AllOwned w) :
    AllOwned (stepTask w tid).1 := by
  rcases stepTask_writes w tid with hw | ⟨c, hc, hw⟩
  · unfold AllOwned; rw [hw]; exact h
  · unfold AllOwned; rw [hw]
    intro ev hev
    rw [List.mem_append] at hev
    rcases hev with hev | hev
    · exact h ev hev
    · simp only [List.mem_singleton] at hev
      subst hev
      obtain ⟨hf, hm⟩ := hF tid _ hc c.e c.key true rfl
      apply writeEvOf_ok w c hL
      simp only [writeEvOf, Bool.and_eq_true, decide_eq_true_eq]
      exact ⟨hf, by simpa using hm rfl⟩

theorem allOwned_quiet (w : World) (as : List Act) (hq : QuietSchedule w as) (hL : LeaseInv w) (hF : FlightInv w)
    (h : AllOwned w) : AllOwned (runActs w as) := by
  induction as generalizing w with
  | nil => exact h
  | cons a r ih =>
    obtain ⟨hqa, hqr⟩ := hq
    refine ih _ hqr (leaseInv_act w a hL) (flightInv_act w a hqa hL hF) ?_
    cases a with
    | step tid => exact allOwned_step w tid hL hF h
    | apply n => unfold AllOwned; show ∀ ev ∈ (applyNext w n).1.writes, _; rw [applyNext_writes]; exact h
    | sync n => exact h
    | spawn tid t => exact h


/-- executable form of `quietOn` / `QuietSchedule` (sound: used for concrete schedules) -/
def quietOnB (w : World) (n : Nat) : Bool :=
  List.all w.tasks fun p => match flightOn p.2 with | some (e, _, _) => e != n | none => true

theorem mem_of_get? {κ ν : Type} [DecidableEq κ] (m : AMap κ ν) (k : κ) (v : ν) (h : m.get? k = some v) : (k, v) ∈ m := by
  induction m with
  | nil => simp [AMap.get?] at h
  | cons p r ih =>
    obtain ⟨k', v'⟩ := p
    by_cases hk : k' = k
    · simp only [AMap.get?, hk, if_true, Option.some.injEq] at h
      subst hk; subst h; exact List.mem_cons_self
    · simp only [AMap.get?, hk, if_false] at h
      exact List.mem_cons_of_mem _ (ih h)

theorem quietOnB_sound (w : World) (n : Nat) (h : quietOnB w n = true) : quietOn w n := by
  intro tid t hget e k chk hfl
  unfold quietOnB at h
  rw [List.all_eq_true] at h
  have := h (tid, t) (mem_of_get? _ _ _ hget)
  simp only [hfl] at this
  simpa using this

def quietScheduleB : World → List Act → Bool
  | _, [] => true
  | w, a :: r =>
    (match a with
     | .apply n => quietOnB w n
     | .spawn _ t => (flightOn t).isNone && (holds t).isNone
     | _ => true) && quietScheduleB (act w a) r

theorem quietScheduleB_sound (w : World) (as : List Act) (h : quietScheduleB w as = true) : QuietSchedule w as := by
  induction as generalizing w with
  | nil => trivial
  | cons a r ih =>
    unfold quietScheduleB at h
    rw [Bool.and_eq_true] at h
    refine ⟨?_, ih _ h.2⟩
    cases a with
    | step tid => trivial
    | apply n => exact quietOnB_sound w n h.1
    | sync n => trivial
    | spawn tid t =>
      have := h.1
      simp only [Bool.and_eq_true, Option.isNone_iff_eq_none] at this
      exact this
